(* Executable model of the memory storage backend's tuple writer and changelog reader
   (pkg/storage/memory/memory.go: match, find, sanitizeTuplesWriteDelete, Write, ReadChanges),
   of the request validation of the Write command (pkg/server/commands/write.go), and the
   specification both backends are measured against (C12, C15).  Definitions only; proofs are
   in MemoryProofs.v / Changelog.v.

   Strings are byte lists.  The string functions of pkg/tuple come from Codec/TupleStr.v. *)
From OFGA Require Export Codec.TupleStr.
Open Scope N_scope.

(* ---------------------------------------------------------------------------------------- *)
(* Keys, conditions, requests                                                               *)

Record key := mkKey { k_obj : bytes; k_rel : bytes; k_user : bytes }.

Definition key_eqb (a b : key) : bool :=
  beqb (k_obj a) (k_obj b) && beqb (k_rel a) (k_rel b) && beqb (k_user a) (k_user b).

(* A condition context as a request carries it: a nil structpb.Struct pointer, or a struct whose
   canonical rendering is [text] ([] for the empty struct). *)
Inductive ctx := CNil | CStruct (text : bytes).

Definition ctx_text (c : ctx) : bytes := match c with CNil => [] | CStruct t => t end.

(* A RelationshipCondition pointer: None = nil. *)
Definition cond := option (bytes * ctx).

Definition cond_name (c : cond) : bytes := match c with None => [] | Some (n, _) => n end.
Definition cond_ctx (c : cond) : ctx := match c with None => CNil | Some (_, x) => x end.

(* What every reader returns for a condition (tuple.NewRelationshipCondition): no condition
   when the name is empty, otherwise the name and the context with nil normalised to empty. *)
Definition ocond := (bytes * bytes)%type.
Definition norm_cond (name : bytes) (c : ctx) : ocond :=
  match name with [] => ([], []) | _ => (name, ctx_text c) end.
Definition obs_cond (c : cond) : ocond := norm_cond (cond_name c) (cond_ctx c).
Definition ocond_eqb (a b : ocond) : bool := beqb (fst a) (fst b) && beqb (snd a) (snd b).

Record witem := mkW { w_key : key; w_cond : cond; w_valid : bool }.

Inductive opt := OAbsent | OError | OIgnore | OBogus.
Definition opt_ignore (o : opt) : bool := match o with OIgnore => true | _ => false end.

(* ---------------------------------------------------------------------------------------- *)
(* Memory backend state                                                                     *)

Record mrec := mkRec {
  m_otype : bytes; m_oid : bytes; m_rel : bytes; m_user : bytes;
  m_cname : bytes; m_cctx : ctx }.

Inductive cop := OpWrite | OpDelete.
Definition cop_eqb (a b : cop) : bool :=
  match a, b with OpWrite, OpWrite => true | OpDelete, OpDelete => true | _, _ => false end.

Record change := mkChange { c_op : cop; c_key : key; c_cond : ocond; c_ts : N }.

Record mstate := mkSt { tuples : list mrec; changes : list change }.
Definition empty_state : mstate := mkSt [] [].

(* TupleRecord.AsTuple: what Read returns for a record *)
Definition rec_key (r : mrec) : key := mkKey (build_object (m_otype r) (m_oid r)) (m_rel r) (m_user r).
Definition rec_obs (r : mrec) : key * ocond := (rec_key r, norm_cond (m_cname r) (m_cctx r)).

(* strings.HasPrefix *)
Fixpoint has_prefix (p s : bytes) : bool :=
  match p, s with
  | [], _ => true
  | x :: p', y :: s' => N.eqb x y && has_prefix p' s'
  | _ :: _, [] => false
  end.

Definition is_nil (b : bytes) : bool := match b with [] => true | _ => false end.
Definition is_empty {A : Type} (l : list A) : bool := match l with [] => true | _ => false end.

(* memory.match: empty target fields are ignored; an object without id compares types only;
   a user without id compares the "type:" prefix only *)
Definition tk_match (r : mrec) (k : key) : bool :=
  (if is_nil (k_obj k) then true
   else let '(td, oid) := split_object (k_obj k) in
        if is_nil oid then beqb td (m_otype r)
        else beqb td (m_otype r) && beqb oid (m_oid r))
  && (if is_nil (k_rel k) then true else beqb (m_rel r) (k_rel k))
  && (if is_nil (k_user k) then true
      else let '(ut, uid, _) := to_user_parts (k_user k) in
           if is_nil uid then has_prefix (ut ++ [c_colon]) (m_user r)
           else beqb (m_user r) (k_user k)).

Fixpoint mfind (rs : list mrec) (k : key) : option mrec :=
  match rs with
  | [] => None
  | r :: rs' => if tk_match r k then Some r else mfind rs' k
  end.

(* structpb.Struct's String method: a nil message prints "<nil>", the empty struct "" *)
Definition nil_text : bytes := [60; 110; 105; 108; 62].
Definition go_text (c : ctx) : bytes := match c with CNil => nil_text | CStruct t => t end.

Inductive werr :=
| EInvalidInput      (* storage.ErrInvalidWriteInput: duplicate write / missing delete *)
| ECondConflict      (* TupleConditionConflictError (ErrTransactionalWriteFailed) *)
| EConflictInsert    (* ErrWriteConflictOnInsert (sqlite only) *)
| EConflictDelete    (* ErrWriteConflictOnDelete (sqlite only) *)
| EEmpty | EValidation | EDuplicate | EExceeded   (* command layer *)
| EOther | EInjected.

Inductive wres := WOk | WErr (e : werr).

(* sanitizeTuplesWriteDelete, deletes: per delete the "duplicate (missing) delete" flag *)
Fixpoint sanitize_deletes (rs : list mrec) (ignore : bool) (dels : list key) : werr + list bool :=
  match dels with
  | [] => inr []
  | d :: ds =>
      match mfind rs d with
      | None => if ignore then
                  match sanitize_deletes rs ignore ds with inl e => inl e | inr fl => inr (true :: fl) end
                else inl EInvalidInput
      | Some _ =>
          match sanitize_deletes rs ignore ds with inl e => inl e | inr fl => inr (false :: fl) end
      end
  end.

Definition mem_same_cond (r : mrec) (c : cond) : bool :=
  beqb (m_cname r) (cond_name c) && beqb (go_text (m_cctx r)) (go_text (cond_ctx c)).

Fixpoint sanitize_writes (rs : list mrec) (ignore : bool) (wrs : list witem) : option werr :=
  match wrs with
  | [] => None
  | w :: ws =>
      match mfind rs (w_key w) with
      | None => sanitize_writes rs ignore ws
      | Some r =>
          if ignore then
            if mem_same_cond r (w_cond w) then sanitize_writes rs ignore ws else Some ECondConflict
          else Some EInvalidInput
      end
  end.

(* the Delete loop: a stored record is dropped when some non-flagged delete matches it *)
Definition deleted_by (dels : list (key * bool)) (r : mrec) : bool :=
  existsb (fun df => tk_match r (fst df) && negb (snd df)) dels.

Definition del_change (now : N) (r : mrec) : change := mkChange OpDelete (rec_key r) ([], []) now.

(* the Write loop *)
Definition new_rec (w : witem) : mrec :=
  let '(ot, oid) := split_object (k_obj (w_key w)) in
  mkRec ot oid (k_rel (w_key w)) (k_user (w_key w)) (cond_name (w_cond w)) (cond_ctx (w_cond w)).

Definition wr_change (now : N) (w : witem) : change :=
  let r := new_rec w in
  mkChange OpWrite (rec_key r) (norm_cond (m_cname r) (m_cctx r)) now.

Fixpoint write_loop (now : N) (wrs : list witem) (recs : list mrec) (log : list change)
  : list mrec * list change :=
  match wrs with
  | [] => (recs, log)
  | w :: ws =>
      if existsb (fun et => tk_match et (w_key w)) recs then write_loop now ws recs log
      else write_loop now ws (recs ++ [new_rec w]) (log ++ [wr_change now w])
  end.

(* MemoryBackend.Write *)
Definition mem_write (ondup onmiss : opt) (dels : list key) (wrs : list witem) (now : N) (st : mstate)
  : wres * mstate :=
  match sanitize_deletes (tuples st) (opt_ignore onmiss) dels with
  | inl e => (WErr e, st)
  | inr flags =>
      match sanitize_writes (tuples st) (opt_ignore ondup) wrs with
      | Some e => (WErr e, st)
      | None =>
          let df := combine dels flags in
          let gone := filter (deleted_by df) (tuples st) in
          let kept := filter (fun r => negb (deleted_by df r)) (tuples st) in
          let log1 := changes st ++ map (del_change now) gone in
          let '(recs, log2) := write_loop now wrs kept log1 in
          (WOk, mkSt recs log2)
      end
  end.

(* ---------------------------------------------------------------------------------------- *)
(* Write command: request validation, option parsing, error mapping                         *)

Definition key_string (k : key) : bytes := tuple_key_to_string (k_obj k) (k_rel k) (k_user k).

Fixpoint first_dup (seen : list bytes) (ks : list bytes) : bool :=
  match ks with
  | [] => false
  | s :: ks' => if existsb (beqb s) seen then true else first_dup (s :: seen) ks'
  end.

Definition max_tuples_per_write : nat := 100.

Definition cmd_validate (ondup onmiss : opt) (dels : list key) (wrs : list witem) : option werr :=
  if is_empty dels && is_empty wrs then Some EEmpty
  else if negb (forallb w_valid wrs) then Some EValidation
  else if negb (forallb (fun d => is_valid_user (k_user d)) dels) then Some EValidation
  else if first_dup [] (map key_string dels ++ map (fun w => key_string (w_key w)) wrs) then Some EDuplicate
  else if (max_tuples_per_write <? length dels + length wrs)%nat then Some EExceeded
  else match ondup with OBogus => Some EValidation | _ =>
       match onmiss with OBogus => Some EValidation | _ => None end end.

(* Execute: storage errors become API error classes *)
Definition cmd_map_err (e : werr) : werr :=
  match e with
  | EConflictInsert | EConflictDelete => ECondConflict    (* ErrTransactionalWriteFailed -> Aborted *)
  | EInjected => EOther
  | _ => e
  end.

Definition cmd_wrap {S : Type} (dswrite : opt -> opt -> list key -> list witem -> S -> wres * S)
  (ondup onmiss : opt) (dels : list key) (wrs : list witem) (st : S) : wres * S :=
  match cmd_validate ondup onmiss dels wrs with
  | Some e => (WErr e, st)
  | None =>
      match dswrite ondup onmiss dels wrs st with
      | (WOk, st') => (WOk, st')
      | (WErr e, st') => (WErr (cmd_map_err e), st')
      end
  end.

Definition mem_cmd_write (ondup onmiss : opt) (dels : list key) (wrs : list witem) (now : N) (st : mstate) :=
  cmd_wrap (fun od om d w s => mem_write od om d w now s) ondup onmiss dels wrs st.

(* ---------------------------------------------------------------------------------------- *)
(* Observables                                                                              *)

Definition obs_tuples (st : mstate) : list (key * ocond) := map rec_obs (tuples st).

(* ReadChanges: entries of the requested object type, oldest first, stopping at the first one
   newer than now - horizon; descending = reversed *)
Definition type_ok (typ : bytes) (k : key) : bool :=
  is_nil typ || has_prefix (typ ++ [c_colon]) (k_obj k).

Fixpoint rc_scan (typ : bytes) (now h : N) (l : list change) : list change :=
  match l with
  | [] => []
  | c :: l' =>
      if type_ok typ (c_key c) then
        if now <? c_ts c + h then [] else c :: rc_scan typ now h l'
      else rc_scan typ now h l'
  end.

Definition read_changes (typ : bytes) (now h : N) (desc : bool) (st : mstate) : list change :=
  let l := rc_scan typ now h (changes st) in if desc then rev l else l.

(* ReadChanges with a continuation token and a page size.  Positions in the log (1, 2, ...) play
   the role of the ULIDs: token 0 = no token; entries at positions <= token are skipped; the
   horizon test (and its break) comes first, as coded; the page is the first [ps] survivors and
   the new token the position of the last one returned (the request's token when nothing is
   returned: ErrNotFound, the command answers with the token it was given). *)
Fixpoint rc_scan_from (typ : bytes) (now h : N) (from i : nat) (l : list change) : list (nat * change) :=
  match l with
  | [] => []
  | c :: l' =>
      if type_ok typ (c_key c) then
        if now <? c_ts c + h then []
        else if (i <=? from)%nat then rc_scan_from typ now h from (S i) l'
        else (i, c) :: rc_scan_from typ now h from (S i) l'
      else rc_scan_from typ now h from (S i) l'
  end.

Definition read_page (typ : bytes) (now h : N) (from ps : nat) (st : mstate) : list change * nat :=
  let pg := firstn ps (rc_scan_from typ now h from 1 (changes st)) in
  (map snd pg, last (map fst pg) from).

(* ReadChangesQuery.Execute: the configured horizon is passed to the backend for EVERY request,
   with or without a continuation token *)
Definition read_changes_cmd (typ : bytes) (horizon now : N) (tok ps : nat) (st : mstate) : list change * nat :=
  read_page typ now horizon tok ps st.

(* a client following the continuation token: one request per element of [nows] (the time of
   that request), until a page comes back empty *)
Fixpoint follow_tokens (typ : bytes) (horizon : N) (ps : nat) (nows : list N) (tok : nat) (st : mstate)
  : list (list change) * nat :=
  match nows with
  | [] => ([], tok)
  | now :: ns =>
      let '(pg, tok') := read_changes_cmd typ horizon now tok ps st in
      match pg with
      | [] => ([], tok')
      | _ => let '(pgs, t) := follow_tokens typ horizon ps ns tok' st in (pg :: pgs, t)
      end
  end.

(* ---------------------------------------------------------------------------------------- *)
(* Specification of one write on observables (the property's truth table)                   *)

Definition otuple := (key * ocond)%type.

Fixpoint lookup (k : key) (ts : list otuple) : option ocond :=
  match ts with
  | [] => None
  | (k', c) :: ts' => if key_eqb k' k then Some c else lookup k ts'
  end.

Definition in_keys (k : key) (ks : list key) : bool := existsb (key_eqb k) ks.

(* the request is acceptable: every delete exists or on_missing = ignore; every write is new, or
   on_duplicate = ignore and the stored tuple has the same condition *)
Definition spec_ok (ondup onmiss : opt) (dels : list key) (wrs : list witem) (ts : list otuple) : bool :=
  forallb (fun d => match lookup d ts with Some _ => true | None => opt_ignore onmiss end) dels
  && forallb (fun w => match lookup (w_key w) ts with
                       | None => true
                       | Some c => opt_ignore ondup && ocond_eqb c (obs_cond (w_cond w))
                       end) wrs.

(* the same decision with the error class, in the order both backends examine the items *)
Fixpoint spec_del_err (ignore : bool) (dels : list key) (ts : list otuple) : option werr :=
  match dels with
  | [] => None
  | d :: ds => match lookup d ts with
               | None => if ignore then spec_del_err ignore ds ts else Some EInvalidInput
               | Some _ => spec_del_err ignore ds ts
               end
  end.
Fixpoint spec_wr_err (ignore : bool) (wrs : list witem) (ts : list otuple) : option werr :=
  match wrs with
  | [] => None
  | w :: ws => match lookup (w_key w) ts with
               | None => spec_wr_err ignore ws ts
               | Some c => if ignore then
                             if ocond_eqb c (obs_cond (w_cond w)) then spec_wr_err ignore ws ts
                             else Some ECondConflict
                           else Some EInvalidInput
               end
  end.
Definition spec_err (ondup onmiss : opt) (dels : list key) (wrs : list witem) (ts : list otuple) : option werr :=
  match spec_del_err (opt_ignore onmiss) dels ts with
  | Some e => Some e
  | None => spec_wr_err (opt_ignore ondup) wrs ts
  end.

Definition spec_deleted (dels : list key) (ts : list otuple) : list otuple :=
  filter (fun t => in_keys (fst t) dels) ts.
Definition spec_kept (dels : list key) (ts : list otuple) : list otuple :=
  filter (fun t => negb (in_keys (fst t) dels)) ts.
Definition spec_new (wrs : list witem) (ts : list otuple) : list otuple :=
  map (fun w => (w_key w, obs_cond (w_cond w)))
      (filter (fun w => match lookup (w_key w) ts with None => true | Some _ => false end) wrs).

Definition olog := list (cop * key * ocond).

Definition spec_dlog (dels : list key) (ts : list otuple) : olog :=
  map (fun t => (OpDelete, fst t, ([], []))) (spec_deleted dels ts).
Definition spec_wlog (wrs : list witem) (ts : list otuple) : olog :=
  map (fun t => (OpWrite, fst t, snd t)) (spec_new wrs ts).

(* Some (tuples', deletes logged, writes logged) on success, None when the request must fail *)
Definition spec_write (ondup onmiss : opt) (dels : list key) (wrs : list witem) (ts : list otuple)
  : option (list otuple * olog * olog) :=
  if spec_ok ondup onmiss dels wrs ts
  then Some (spec_kept dels ts ++ spec_new wrs ts, spec_dlog dels ts, spec_wlog wrs ts)
  else None.

Definition obs_change (c : change) : cop * key * ocond := (c_op c, c_key c, c_cond c).
Definition obs_log (st : mstate) : olog := map obs_change (changes st).

(* ---------------------------------------------------------------------------------------- *)
(* Well-formedness (what the command layer's validation guarantees for written tuples)      *)

Definition wf_obj (o : bytes) : bool :=
  let '(t, id) := split_object o in
  beqb (build_object t id) o && negb (is_nil id) && negb (mem c_hash o).

Definition wf_rel (r : bytes) : bool := negb (is_nil r) && negb (mem c_at r) && negb (mem c_hash r).

Definition wf_user (u : bytes) : bool :=
  let '(t, id, r) := to_user_parts u in
  beqb (from_user_parts t id r) u && negb (is_nil id).

Definition wf_key (k : key) : bool := wf_obj (k_obj k) && wf_rel (k_rel k) && wf_user (k_user k).

(* the rendering of a real context never is the five characters "<nil>" *)
Definition wf_ctx (c : ctx) : bool := match c with CNil => true | CStruct t => negb (beqb t nil_text) end.

Fixpoint nodup_keys (ks : list key) : bool :=
  match ks with
  | [] => true
  | k :: ks' => negb (in_keys k ks') && nodup_keys ks'
  end.

Definition req_keys (dels : list key) (wrs : list witem) : list key := dels ++ map w_key wrs.

(* the contract of storage Write as the command layer uses it *)
Definition wf_request (dels : list key) (wrs : list witem) : bool :=
  forallb wf_key (req_keys dels wrs) && nodup_keys (req_keys dels wrs)
  && forallb (fun w => wf_ctx (cond_ctx (w_cond w))) wrs.

Definition wf_rec (r : mrec) : bool :=
  wf_key (rec_key r) && negb (mem c_colon (m_otype r)) && wf_ctx (m_cctx r).

Definition wf_store (st : mstate) : bool :=
  forallb wf_rec (tuples st) && nodup_keys (map rec_key (tuples st)).

(* ---------------------------------------------------------------------------------------- *)
(* Triggers of the known deviations (evaluated by the oracle on the model state)            *)

(* on_duplicate=ignore, same observable condition, but the memory backend's textual comparison
   says "different" (nil context prints "<nil>", the empty struct prints "") *)
Definition trig_mem_ctx (ondup : opt) (wrs : list witem) (st : mstate) : bool :=
  opt_ignore ondup &&
  existsb (fun w => match mfind (tuples st) (w_key w) with
                    | Some r => ocond_eqb (snd (rec_obs r)) (obs_cond (w_cond w))
                                && negb (mem_same_cond r (w_cond w))
                    | None => false
                    end) wrs.

(* a delete (or write) key that the memory backend's match treats as a pattern: it matches a
   stored record whose key is a different string *)
Definition trig_partial_match (ks : list key) (st : mstate) : bool :=
  existsb (fun k => existsb (fun r => tk_match r k && negb (key_eqb (rec_key r) k)) (tuples st)) ks.

(* ---------------------------------------------------------------------------------------- *)
(* Histories and replay of the changelog (C15)                                              *)

Record req := mkReq {
  q_cmd : bool;                 (* through the Write command, or directly on the datastore *)
  q_ondup : opt; q_onmiss : opt;
  q_dels : list key; q_wrs : list witem;
  q_now : N }.

Definition step (st : mstate) (q : req) : mstate :=
  snd (if q_cmd q then mem_cmd_write (q_ondup q) (q_onmiss q) (q_dels q) (q_wrs q) (q_now q) st
       else mem_write (q_ondup q) (q_onmiss q) (q_dels q) (q_wrs q) (q_now q) st).

Definition run_history (h : list req) : mstate := fold_left step h empty_state.

(* a consumer of ReadChanges: a write puts the tuple (replacing one with the same key), a
   delete removes it *)
Definition drop_key (k : key) (ts : list otuple) : list otuple :=
  filter (fun t => negb (key_eqb (fst t) k)) ts.
Definition apply_change (ts : list otuple) (c : cop * key * ocond) : list otuple :=
  match c with
  | (OpWrite, k, cd) => drop_key k ts ++ [(k, cd)]
  | (OpDelete, k, _) => drop_key k ts
  end.
Definition replay (l : olog) : list otuple := fold_left apply_change l [].

(* a written key that the backend's own match recognises again (every well-formed key does) *)
Definition self_match (w : witem) : bool := tk_match (new_rec w) (w_key w).
Definition req_self_match (q : req) : bool := forallb self_match (q_wrs q).

Fixpoint ts_sorted (last : N) (l : list change) : bool :=
  match l with
  | [] => true
  | c :: l' => (last <=? c_ts c) && ts_sorted (c_ts c) l'
  end.
