(* Proofs for Store/Assertions.v (C31). *)
From OFGA Require Import Base.Bytes Store.Assertions.

(* ---------------------------------------------------------------------------------------- *)
(* equalities                                                                                *)

Lemma key_eqb_eq (k k' : key) : key_eqb k k' = true <-> k = k'.
Proof.
  destruct k as [s m], k' as [s' m']. unfold key_eqb. simpl.
  rewrite andb_true_iff, !beqb_eq. split.
  - intros [-> ->]. reflexivity.
  - intro H. inversion H. auto.
Qed.

Lemma key_eqb_refl k : key_eqb k k = true.
Proof. apply key_eqb_eq. reflexivity. Qed.

Lemma key_eqb_neq (k k' : key) : key_eqb k k' = false <-> k <> k'.
Proof.
  split.
  - intros H E. apply key_eqb_eq in E. congruence.
  - intro H. destruct (key_eqb k k') eqn:E; [|reflexivity]. apply key_eqb_eq in E. contradiction.
Qed.

Lemma asrt_eqb_refl a : asrt_eqb a a = true.
Proof.
  unfold asrt_eqb. rewrite beqb_refl, N.eqb_refl, !Bool.eqb_reflx. reflexivity.
Qed.

Lemma asrts_eqb_refl l : asrts_eqb l l = true.
Proof. induction l as [|a l IH]; simpl; [reflexivity|]. rewrite asrt_eqb_refl, IH. reflexivity. Qed.

Lemma asrt_eqb_eq a b : asrt_eqb a b = true -> a = b.
Proof.
  destruct a as [e z w v], b as [e' z' w' v']. unfold asrt_eqb. simpl.
  rewrite !andb_true_iff. intros [[[He Hz] Hw] Hv].
  apply beqb_eq in He. apply N.eqb_eq in Hz. apply Bool.eqb_prop in Hw. apply Bool.eqb_prop in Hv.
  subst. reflexivity.
Qed.

Lemma asrts_eqb_eq l l' : asrts_eqb l l' = true <-> l = l'.
Proof.
  split.
  - revert l'. induction l as [|a l IH]; intros [|b l'] H; simpl in H; try discriminate; [reflexivity|].
    apply andb_true_iff in H as [H1 H2]. apply asrt_eqb_eq in H1. apply IH in H2. subst. reflexivity.
  - intros ->. apply asrts_eqb_refl.
Qed.

(* ---------------------------------------------------------------------------------------- *)
(* association lists                                                                         *)

Section AssocFacts.
  Variables K V : Type.
  Variable keqb : K -> K -> bool.
  Hypothesis keqb_spec : forall a b, keqb a b = true <-> a = b.

  Lemma alookup_upsert_same k v (l : list (K * V)) : alookup keqb k (aupsert keqb k v l) = Some v.
  Proof.
    induction l as [|[k' v'] l IH]; simpl.
    - rewrite (proj2 (keqb_spec k k) eq_refl). reflexivity.
    - destruct (keqb k' k) eqn:E; simpl.
      + rewrite (proj2 (keqb_spec k k) eq_refl). reflexivity.
      + rewrite E. exact IH.
  Qed.

  Lemma alookup_upsert_other k k' v (l : list (K * V)) :
    k <> k' -> alookup keqb k' (aupsert keqb k v l) = alookup keqb k' l.
  Proof.
    intro Hne. induction l as [|[k0 v0] l IH]; simpl.
    - destruct (keqb k k') eqn:E; [|reflexivity]. apply keqb_spec in E. contradiction.
    - destruct (keqb k0 k) eqn:E; simpl.
      + apply keqb_spec in E. subst k0.
        destruct (keqb k k') eqn:E'; [|reflexivity]. apply keqb_spec in E'. contradiction.
      + destruct (keqb k0 k'); [reflexivity|]. exact IH.
  Qed.
End AssocFacts.

(* ---------------------------------------------------------------------------------------- *)
(* memory's concatenated key                                                                 *)

Lemma store_ok_mem s : store_ok s = true <-> mem c_pipe s = false.
Proof. unfold store_ok. destruct (mem c_pipe s); simpl; split; congruence. Qed.

Lemma assertions_key_inj s m s' m' :
  store_ok s = true -> store_ok s' = true -> mem_key s m = mem_key s' m' -> s = s' /\ m = m'.
Proof.
  intros Hs Hs' E. apply store_ok_mem in Hs. apply store_ok_mem in Hs'.
  assert (C : cut c_pipe (mem_key s m) = cut c_pipe (mem_key s' m')) by (rewrite E; reflexivity).
  unfold mem_key in C. rewrite (cut_app _ _ _ Hs), (cut_app _ _ _ Hs') in C.
  inversion C. auto.
Qed.

(* without the hypothesis the key is not injective *)
Lemma assertions_key_inj_refuted :
  exists s m s' m', (s, m) <> (s', m') /\ mem_key s m = mem_key s' m'.
Proof.
  exists [97; 124; 98], [99], [97], [98; 124; 99]. split; [discriminate | reflexivity].
Qed.

(* every id the server accepts satisfies the hypothesis *)
Lemma is_ulid_char_not_pipe c : is_ulid_char c = true -> c <> c_pipe.
Proof.
  unfold is_ulid_char, c_pipe. intros H ->. vm_compute in H. discriminate.
Qed.

Lemma is_ulid_store_ok s : is_ulid s = true -> store_ok s = true.
Proof.
  unfold is_ulid. intro H. apply andb_true_iff in H as [_ H].
  apply store_ok_mem. destruct (mem c_pipe s) eqn:E; [|reflexivity].
  apply mem_In in E. rewrite forallb_forall in H. apply H in E. vm_compute in E. discriminate.
Qed.

(* ---------------------------------------------------------------------------------------- *)
(* backend laws                                                                              *)

Record backend_ok (B : backend) (idok : bytes -> bool) : Prop := mkBackendOk {
  law_init : forall s m, b_read B (b_init B) s m = Some [];
  law_same : forall st s m l, idok s = true -> b_read B (b_write B st s m l) s m = Some l;
  law_other : forall st s m l s' m', idok s = true -> idok s' = true -> (s, m) <> (s', m') ->
      b_read B (b_write B st s m l) s' m' = b_read B st s' m'
}.

Lemma mem_backend_ok : backend_ok mem_backend store_ok.
Proof.
  constructor; simpl.
  - reflexivity.
  - intros st s m l _. unfold mem_read, mem_write.
    rewrite (alookup_upsert_same _ _ beqb beqb_eq). reflexivity.
  - intros st s m l s' m' Hs Hs' Hne. unfold mem_read, mem_write.
    rewrite (alookup_upsert_other _ _ beqb beqb_eq); [reflexivity|].
    intro E. apply (assertions_key_inj _ _ _ _ Hs Hs') in E. destruct E; subst. contradiction.
Qed.

Section SqlOk.
  Variable blob : Type.
  Variable marshal : list asrt -> blob.
  Variable unmarshal : blob -> option (list asrt).
  (* proto.Unmarshal(proto.Marshal(x)) = x: external behaviour of the protobuf library *)
  Hypothesis roundtrip : forall l, unmarshal (marshal l) = Some l.

  Lemma sql_backend_ok : backend_ok (sql_backend blob marshal unmarshal) (fun _ => true).
  Proof.
    constructor; simpl.
    - reflexivity.
    - intros st s m l _. unfold sql_read, sql_write.
      rewrite (alookup_upsert_same _ _ key_eqb key_eqb_eq). apply roundtrip.
    - intros st s m l s' m' _ _ Hne. unfold sql_read, sql_write.
      rewrite (alookup_upsert_other _ _ key_eqb key_eqb_eq); [reflexivity | exact Hne].
  Qed.
End SqlOk.

Lemma sql_backend_id_ok : backend_ok sql_backend_id (fun _ => true).
Proof. apply sql_backend_ok. reflexivity. Qed.

Lemma abs_backend_ok : backend_ok abs_backend (fun _ => true).
Proof.
  constructor; simpl.
  - reflexivity.
  - intros st s m l _. unfold aupd. rewrite key_eqb_refl. reflexivity.
  - intros st s m l s' m' _ _ Hne. unfold aupd.
    apply key_eqb_neq in Hne. rewrite Hne. reflexivity.
Qed.

(* ---------------------------------------------------------------------------------------- *)
(* Refinement at the datastore interface: a law-abiding backend and the specification         *)
(* produce the same trace on every history whose store ids satisfy idok.                      *)

Section Refine.
  Variable B : backend.
  Variable idok : bytes -> bool.
  Hypothesis BOK : backend_ok B idok.

  Definition dops_ok (h : list dop) : bool := forallb (fun o => idok (fst (dop_key o))) h.

  (* simulation relation *)
  Definition sim (st : b_state B) (f : amap) : Prop :=
    forall s m, idok s = true -> b_read B st s m = Some (f (s, m)).

  Lemma sim_init : sim (b_init B) aempty.
  Proof. intros s m _. apply (law_init _ _ BOK). Qed.

  Lemma sim_write st f s m l : idok s = true -> sim st f -> sim (b_write B st s m l) (aupd f (s, m) l).
  Proof.
    intros Hs R s' m' Hs'. unfold aupd.
    destruct (key_eqb (s, m) (s', m')) eqn:E.
    - apply key_eqb_eq in E. inversion E; subst. apply (law_same _ _ BOK). exact Hs.
    - apply key_eqb_neq in E. rewrite (law_other _ _ BOK) by assumption. apply R. exact Hs'.
  Qed.

  Lemma d_step_sim st f o :
    idok (fst (dop_key o)) = true -> sim st f ->
    snd (d_step B st o) = snd (d_step abs_backend f o) /\
    sim (fst (d_step B st o)) (fst (d_step abs_backend f o)).
  Proof.
    intros Hk R. destruct o as [s m l | s m]; simpl in *.
    - split; [reflexivity|]. apply sim_write; assumption.
    - rewrite (R s m Hk). split; [reflexivity | exact R].
  Qed.

  Lemma d_trace_sim h : forall st f,
    dops_ok h = true -> sim st f -> d_trace B st h = d_trace abs_backend f h.
  Proof.
    induction h as [|o h IH]; intros st f Hok R; simpl; [reflexivity|].
    simpl in Hok. apply andb_true_iff in Hok as [Ho Hh].
    destruct (d_step_sim st f o Ho R) as [Hout Hsim].
    destruct (d_step B st o) as [st' out] eqn:E1.
    destruct (d_step abs_backend f o) as [f' out'] eqn:E2.
    simpl in Hout, Hsim. subst out'. f_equal. apply IH; assumption.
  Qed.

  Lemma d_run_sim h : forall st f,
    dops_ok h = true -> sim st f -> sim (d_run B st h) (d_run abs_backend f h).
  Proof.
    induction h as [|o h IH]; intros st f Hok R; simpl; [exact R|].
    simpl in Hok. apply andb_true_iff in Hok as [Ho Hh].
    apply IH; [exact Hh|]. apply d_step_sim; assumption.
  Qed.

  Theorem d_refines h :
    dops_ok h = true -> d_trace B (b_init B) h = d_trace abs_backend aempty h.
  Proof. intro Hok. apply d_trace_sim; [exact Hok | apply sim_init]. Qed.
End Refine.

(* ---------------------------------------------------------------------------------------- *)
(* The specification machine satisfies the property                                           *)

Definition writes_to (k : key) (o : dop) : bool :=
  match o with DWrite s m _ => key_eqb (s, m) k | DRead _ _ => false end.

Definition touches (k : key) (o : dop) : bool := key_eqb (dop_key o) k.

Lemma abs_run_no_write h : forall f k,
  forallb (fun o => negb (writes_to k o)) h = true -> d_run abs_backend f h k = f k.
Proof.
  induction h as [|o h IH]; intros f k Hn; simpl; [reflexivity|].
  simpl in Hn. apply andb_true_iff in Hn as [Ho Hh]. rewrite (IH _ _ Hh).
  destruct o as [s m l | s m]; simpl; [|reflexivity].
  simpl in Ho. unfold aupd. destruct (key_eqb (s, m) k); [discriminate | reflexivity].
Qed.

Lemma abs_run_app h1 h2 f : d_run abs_backend f (h1 ++ h2) = d_run abs_backend (d_run abs_backend f h1) h2.
Proof. revert f. induction h1 as [|o h1 IH]; intro f; simpl; [reflexivity | apply IH]. Qed.

Lemma abs_read_last_write h1 h2 s m l f :
  forallb (fun o => negb (writes_to (s, m) o)) h2 = true ->
  d_run abs_backend f (h1 ++ DWrite s m l :: h2) (s, m) = l.
Proof.
  intro Hn. rewrite abs_run_app. simpl. rewrite (abs_run_no_write _ _ _ Hn).
  unfold aupd. rewrite key_eqb_refl. reflexivity.
Qed.

(* operations on other keys can be erased without changing what a read of k returns *)
Lemma abs_frame h : forall f g k,
  f k = g k -> d_run abs_backend f h k = d_run abs_backend g (filter (touches k) h) k.
Proof.
  induction h as [|o h IH]; intros f g k E; simpl; [exact E|].
  destruct (touches k o) eqn:T; simpl.
  - apply IH. destruct o as [s m l | s m]; simpl; [|exact E].
    unfold aupd. destruct (key_eqb (s, m) k); [reflexivity | exact E].
  - apply IH. destruct o as [s m l | s m]; simpl; [|exact E].
    unfold touches in T. simpl in T. unfold aupd. rewrite T. exact E.
Qed.

(* the specification's own trace satisfies the trace predicate *)
Lemma abs_trace_ok_from h : forall f rp,
  (forall k, f k = d_expected rp k) -> d_trace_ok_from rp (d_trace abs_backend f h) = true.
Proof.
  induction h as [|o h IH]; intros f rp E; simpl; [reflexivity|].
  destruct o as [s m l | s m]; simpl.
  - apply IH. intro k. simpl. unfold aupd. destruct (key_eqb (s, m) k); [reflexivity | apply E].
  - rewrite E, asrts_eqb_refl. simpl. apply IH. intro k. simpl. apply E.
Qed.

Lemma abs_trace_ok h : d_trace_ok (d_trace abs_backend aempty h) = true.
Proof. apply abs_trace_ok_from. reflexivity. Qed.

(* ---------------------------------------------------------------------------------------- *)
(* ... hence so does every law-abiding backend: the three statements of C31 at the datastore  *)
(* interface                                                                                  *)

Section DTheorems.
  Variable B : backend.
  Variable idok : bytes -> bool.
  Hypothesis BOK : backend_ok B idok.

  Lemma dops_ok_app h1 h2 : dops_ok idok (h1 ++ h2) = dops_ok idok h1 && dops_ok idok h2.
  Proof. unfold dops_ok. apply forallb_app. Qed.

  Lemma d_read_is_spec h s m :
    dops_ok idok h = true -> idok s = true ->
    b_read B (d_run B (b_init B) h) s m = Some (d_run abs_backend aempty h (s, m)).
  Proof.
    intros Hok Hs.
    exact (d_run_sim B idok BOK h _ _ Hok (sim_init B idok BOK) s m Hs).
  Qed.

  Theorem d_trace_satisfies_property h :
    dops_ok idok h = true -> d_trace_ok (d_trace B (b_init B) h) = true.
  Proof. intro Hok. rewrite (d_refines B idok BOK h Hok). apply abs_trace_ok. Qed.

  Theorem d_read_last_write h1 h2 s m l :
    dops_ok idok (h1 ++ DWrite s m l :: h2) = true ->
    forallb (fun o => negb (writes_to (s, m) o)) h2 = true ->
    b_read B (d_run B (b_init B) (h1 ++ DWrite s m l :: h2)) s m = Some l.
  Proof.
    intros Hok Hn.
    assert (Hs : idok s = true).
    { rewrite dops_ok_app in Hok. apply andb_true_iff in Hok as [_ Hok]. simpl in Hok.
      apply andb_true_iff in Hok as [Hs _]. exact Hs. }
    rewrite (d_read_is_spec _ _ _ Hok Hs). f_equal. apply abs_read_last_write. exact Hn.
  Qed.

  Lemma dops_ok_filter p h : dops_ok idok h = true -> dops_ok idok (filter p h) = true.
  Proof.
    unfold dops_ok. rewrite !forallb_forall. intros H o Hin. apply filter_In in Hin as [Hin _].
    apply H. exact Hin.
  Qed.

  Theorem d_other_keys_unaffected h s m :
    dops_ok idok h = true -> idok s = true ->
    b_read B (d_run B (b_init B) h) s m =
    b_read B (d_run B (b_init B) (filter (touches (s, m)) h)) s m.
  Proof.
    intros Hok Hs.
    rewrite (d_read_is_spec _ _ _ Hok Hs).
    rewrite (d_read_is_spec _ _ _ (dops_ok_filter _ _ Hok) Hs).
    f_equal. apply abs_frame. reflexivity.
  Qed.

  Theorem d_never_written_empty h s m :
    dops_ok idok h = true -> idok s = true ->
    forallb (fun o => negb (writes_to (s, m) o)) h = true ->
    b_read B (d_run B (b_init B) h) s m = Some [].
  Proof.
    intros Hok Hs Hn. rewrite (d_read_is_spec _ _ _ Hok Hs).
    rewrite (abs_run_no_write _ _ _ Hn). reflexivity.
  Qed.
End DTheorems.

(* Memory with arbitrary ids: the faithful model refutes the unconditional statements. *)
Lemma mem_other_keys_unaffected_refuted :
  exists h s m,
    forallb (fun o => negb (writes_to (s, m) o)) h = true /\
    b_read mem_backend (d_run mem_backend mem_init h) s m <> Some [].
Proof.
  exists [DWrite [97; 124; 98] [99] [mkAsrt [1] 1 true true]], [97], [98; 124; 99].
  split; [reflexivity|]. vm_compute. discriminate.
Qed.

Lemma pipe_collision_false_of_ok h : dops_store_ok h = true -> pipe_collision h = false.
Proof.
  intro Hok. unfold pipe_collision.
  destruct (existsb _ h) eqn:E; [|reflexivity].
  apply existsb_exists in E as [o [Ho E]]. apply existsb_exists in E as [o' [Ho' E]].
  unfold dops_store_ok in Hok. rewrite forallb_forall in Hok.
  unfold keys_collide in E. apply andb_true_iff in E as [Hne Heq].
  apply beqb_eq in Heq.
  destruct (dop_key o) as [s m] eqn:K, (dop_key o') as [s' m'] eqn:K'. simpl in *.
  assert (Hs : store_ok s = true) by (specialize (Hok o Ho); rewrite K in Hok; exact Hok).
  assert (Hs' : store_ok s' = true) by (specialize (Hok o' Ho'); rewrite K' in Hok; exact Hok).
  destruct (assertions_key_inj _ _ _ _ Hs Hs' Heq) as [-> ->].
  rewrite key_eqb_refl in Hne. discriminate.
Qed.

(* ---------------------------------------------------------------------------------------- *)
(* Server level: no hypothesis on ids is left, because req.Validate() only lets ULIDs through *)

Section Server.
  Variable B : backend.
  Variable idok : bytes -> bool.
  Hypothesis BOK : backend_ok B idok.
  Hypothesis ulid_idok : forall s, is_ulid s = true -> idok s = true.

  Definition ssim (st : srv_state B) (a : srv_state abs_backend) : Prop :=
    sv_models st = sv_models a /\ sim B idok (sv_back st) (sv_back a).

  Lemma srv_step_sim st a o :
    ssim st a ->
    snd (srv_step B st o) = snd (srv_step abs_backend a o) /\
    ssim (fst (srv_step B st o)) (fst (srv_step abs_backend a o)).
  Proof.
    intros [Hm R]. destruct o as [s m | s m l | s m]; simpl.
    - split; [reflexivity|]. split; simpl; [rewrite Hm; reflexivity | exact R].
    - rewrite <- Hm.
      destruct (is_ulid s) eqn:Us; simpl; [|split; [reflexivity | split; assumption]].
      destruct (is_ulid m && (length l <=? max_assertions)%nat && forallb a_wf l); simpl;
        [|split; [reflexivity | split; assumption]].
      destruct (model_exists (sv_models st) s m); simpl; [|split; [reflexivity | split; assumption]].
      destruct (max_assertion_bytes <? total_size l); simpl; [split; [reflexivity | split; assumption]|].
      destruct (forallb a_valid l); simpl; [|split; [reflexivity | split; assumption]].
      split; [reflexivity|]. split; simpl; [reflexivity|].
      apply (sim_write B idok BOK); [apply ulid_idok; exact Us | exact R].
    - rewrite <- Hm.
      destruct (is_ulid s) eqn:Us; simpl; [|split; [reflexivity | split; assumption]].
      destruct (is_ulid m); simpl; [|split; [reflexivity | split; assumption]].
      destruct (model_exists (sv_models st) s m); simpl; [|split; [reflexivity | split; assumption]].
      rewrite (R s m (ulid_idok _ Us)). simpl. split; [reflexivity | split; assumption].
  Qed.

  Lemma srv_trace_sim h : forall st a,
    ssim st a -> srv_trace B st h = srv_trace abs_backend a h.
  Proof.
    induction h as [|o h IH]; intros st a R; simpl; [reflexivity|].
    destruct (srv_step_sim st a o R) as [Hout Hsim].
    destruct (srv_step B st o) as [st' out] eqn:E1.
    destruct (srv_step abs_backend a o) as [a' out'] eqn:E2.
    simpl in Hout, Hsim. subst out'. f_equal. apply IH. exact Hsim.
  Qed.

  Lemma srv_run_sim h : forall st a,
    ssim st a -> ssim (srv_run B st h) (srv_run abs_backend a h).
  Proof.
    induction h as [|o h IH]; intros st a R; simpl; [exact R|].
    apply IH. apply srv_step_sim. exact R.
  Qed.

  Lemma ssim_init : ssim (srv_init B) (srv_init abs_backend).
  Proof. split; [reflexivity | apply (sim_init B idok BOK)]. Qed.

  (* the server over B behaves, on EVERY history, like the server over the specification map *)
  Theorem srv_refines h :
    srv_trace B (srv_init B) h = srv_trace abs_backend (srv_init abs_backend) h.
  Proof. apply srv_trace_sim. apply ssim_init. Qed.

  Lemma srv_out_sim h o :
    snd (srv_step B (srv_run B (srv_init B) h) o) =
    snd (srv_step abs_backend (srv_run abs_backend (srv_init abs_backend) h) o).
  Proof. apply srv_step_sim. apply srv_run_sim. apply ssim_init. Qed.
End Server.

(* --- the property on the specification server ------------------------------------------- *)

Definition sop_writes_to (k : key) (o : sop) : bool :=
  match o with SWrite s m _ => key_eqb (s, m) k | _ => false end.

(* SAddModel is kept (it decides whether requests are answered at all); requests for other
   (store, model) pairs are erased *)
Definition sop_relevant (k : key) (o : sop) : bool :=
  match o with
  | SAddModel _ _ => true
  | SWrite s m _ => key_eqb (s, m) k
  | SRead s m => key_eqb (s, m) k
  end.

Local Notation A := abs_backend.

Lemma abs_srv_run_app h1 h2 st : srv_run A st (h1 ++ h2) = srv_run A (srv_run A st h1) h2.
Proof. revert st. induction h1 as [|o h1 IH]; intro st; simpl; [reflexivity | apply IH]. Qed.

Lemma srv_step_models_mono (st : srv_state A) o s m :
  model_exists (sv_models st) s m = true -> model_exists (sv_models (fst (srv_step A st o))) s m = true.
Proof.
  intro H. destruct o as [s0 m0 | s0 m0 l | s0 m0]; simpl.
  - rewrite H. apply orb_true_r.
  - repeat (match goal with |- context [if ?c then _ else _] => destruct c end; simpl; try exact H).
  - repeat (match goal with |- context [if ?c then _ else _] => destruct c end; simpl; try exact H).
Qed.

Lemma srv_step_back_other (st : srv_state A) o k :
  sop_writes_to k o = false -> sv_back (fst (srv_step A st o)) k = sv_back st k.
Proof.
  intro H. destruct o as [s0 m0 | s0 m0 l | s0 m0]; simpl; [reflexivity| |].
  - repeat (match goal with |- context [if ?c then _ else _] => destruct c end; simpl; try reflexivity).
    simpl in H. unfold aupd. rewrite H. reflexivity.
  - repeat (match goal with |- context [if ?c then _ else _] => destruct c end; simpl; try reflexivity).
Qed.

Lemma abs_srv_run_keeps h : forall (st : srv_state A) s m,
  forallb (fun o => negb (sop_writes_to (s, m) o)) h = true ->
  model_exists (sv_models st) s m = true ->
  model_exists (sv_models (srv_run A st h)) s m = true /\
  sv_back (srv_run A st h) (s, m) = sv_back st (s, m).
Proof.
  induction h as [|o h IH]; intros st s m Hn Hm; simpl; [auto|].
  simpl in Hn. apply andb_true_iff in Hn as [Ho Hh]. apply negb_true_iff in Ho.
  destruct (IH (fst (srv_step A st o)) s m Hh (srv_step_models_mono st o s m Hm)) as [H1 H2].
  split; [exact H1|]. rewrite H2. apply srv_step_back_other. exact Ho.
Qed.

Lemma abs_srv_write_ok (st : srv_state A) s m l :
  snd (srv_step A st (SWrite s m l)) = SOk ->
  is_ulid s = true /\ is_ulid m = true /\ model_exists (sv_models st) s m = true /\
  fst (srv_step A st (SWrite s m l)) = @mkSrv A (sv_models st) (aupd (sv_back st) (s, m) l).
Proof.
  simpl.
  destruct (is_ulid s); simpl; [|discriminate].
  destruct (is_ulid m); simpl; [|discriminate].
  destruct ((length l <=? max_assertions)%nat && forallb a_wf l); simpl; [|discriminate].
  destruct (model_exists (sv_models st) s m); simpl; [|discriminate].
  destruct (max_assertion_bytes <? total_size l); simpl; [discriminate|].
  destruct (forallb a_valid l); simpl; [|discriminate].
  auto.
Qed.

Lemma abs_srv_read (st : srv_state A) s m :
  is_ulid s = true -> is_ulid m = true -> model_exists (sv_models st) s m = true ->
  snd (srv_step A st (SRead s m)) = SList (sv_back st (s, m)).
Proof. intros Hs Hm He. simpl. rewrite Hs, Hm, He. reflexivity. Qed.

Lemma abs_srv_read_last_write h1 h2 s m l :
  snd (srv_step A (srv_run A (srv_init A) h1) (SWrite s m l)) = SOk ->
  forallb (fun o => negb (sop_writes_to (s, m) o)) h2 = true ->
  snd (srv_step A (srv_run A (srv_init A) (h1 ++ SWrite s m l :: h2)) (SRead s m)) = SList l.
Proof.
  intros Hw Hn. apply abs_srv_write_ok in Hw as (Hs & Hm & He & Hst).
  rewrite abs_srv_run_app. cbn [srv_run]. rewrite Hst.
  destruct (abs_srv_run_keeps h2 (@mkSrv A (sv_models (srv_run A (srv_init A) h1))
              (aupd (sv_back (srv_run A (srv_init A) h1)) (s, m) l)) s m Hn He) as [H1 H2].
  rewrite (abs_srv_read _ _ _ Hs Hm H1). rewrite H2. simpl. unfold aupd. rewrite key_eqb_refl. reflexivity.
Qed.

Lemma abs_srv_rejected_write_changes_nothing (st : srv_state A) s m l e :
  snd (srv_step A st (SWrite s m l)) = SErr e -> fst (srv_step A st (SWrite s m l)) = st.
Proof.
  simpl. repeat (match goal with |- context [if ?c then _ else _] => destruct c end; simpl; try reflexivity).
  discriminate.
Qed.

Lemma abs_srv_never_written_empty h s m :
  forallb (fun o => negb (sop_writes_to (s, m) o)) h = true ->
  forall o, snd (srv_step A (srv_run A (srv_init A) h) (SRead s m)) = o ->
  match o with SList l => l = [] | _ => True end.
Proof.
  intros Hn o <-. simpl.
  repeat (match goal with |- context [if ?c then _ else _] => destruct c end; simpl; try exact I).
  assert (G : forall h (st : srv_state A), forallb (fun o => negb (sop_writes_to (s, m) o)) h = true ->
              sv_back (srv_run A st h) (s, m) = sv_back st (s, m)).
  { clear. induction h as [|o h IH]; intros st Hn; simpl; [reflexivity|].
    simpl in Hn. apply andb_true_iff in Hn as [Ho Hh]. apply negb_true_iff in Ho.
    rewrite (IH _ Hh). apply srv_step_back_other. exact Ho. }
  rewrite (G h _ Hn). reflexivity.
Qed.

(* frame: requests for other pairs can be erased from the history *)
Ltac all_ifs := repeat (match goal with |- context [if ?c then _ else _] => destruct c end; simpl).

Lemma srv_step_irrelevant (st : srv_state A) o k :
  sop_relevant k o = false ->
  sv_models (fst (srv_step A st o)) = sv_models st /\ sv_back (fst (srv_step A st o)) k = sv_back st k.
Proof.
  intro H. destruct o as [s m | s m l | s m]; simpl in *; [discriminate| |].
  - all_ifs; split; try reflexivity. unfold aupd. rewrite H. reflexivity.
  - all_ifs; split; reflexivity.
Qed.

Lemma srv_step_relevant (st st' : srv_state A) o k :
  sv_models st = sv_models st' -> sv_back st k = sv_back st' k -> sop_relevant k o = true ->
  sv_models (fst (srv_step A st o)) = sv_models (fst (srv_step A st' o)) /\
  sv_back (fst (srv_step A st o)) k = sv_back (fst (srv_step A st' o)) k.
Proof.
  intros Hm Hb H. destruct o as [s m | s m l | s m]; simpl in *.
  - rewrite Hm. auto.
  - rewrite <- Hm. all_ifs; split; try assumption; try reflexivity. unfold aupd. rewrite H. reflexivity.
  - rewrite <- Hm. all_ifs; split; assumption.
Qed.

Lemma abs_srv_frame h k : forall (st st' : srv_state A),
  sv_models st = sv_models st' -> sv_back st k = sv_back st' k ->
  sv_models (srv_run A st h) = sv_models (srv_run A st' (filter (sop_relevant k) h)) /\
  sv_back (srv_run A st h) k = sv_back (srv_run A st' (filter (sop_relevant k) h)) k.
Proof.
  induction h as [|o h IH]; intros st st' Hm Hb; [simpl; auto|].
  cbn [filter srv_run]. destruct (sop_relevant k o) eqn:E.
  - cbn [srv_run]. destruct (srv_step_relevant st st' o k Hm Hb E) as [H1 H2]. apply IH; assumption.
  - destruct (srv_step_irrelevant st o k E) as [H1 H2]. apply IH; congruence.
Qed.

Lemma abs_srv_other_keys_unaffected h s m :
  snd (srv_step A (srv_run A (srv_init A) h) (SRead s m)) =
  snd (srv_step A (srv_run A (srv_init A) (filter (sop_relevant (s, m)) h)) (SRead s m)).
Proof.
  destruct (abs_srv_frame h (s, m) (srv_init A) (srv_init A) eq_refl eq_refl) as [Hm Hb].
  simpl. rewrite <- Hm, Hb. all_ifs; reflexivity.
Qed.

Lemma abs_step_expected (st : srv_state A) o rp :
  (forall k, sv_back st k = s_expected rp k) ->
  forall k, sv_back (fst (srv_step A st o)) k = s_expected ((o, snd (srv_step A st o)) :: rp) k.
Proof.
  intros E k. destruct o as [s m | s m l | s m]; cbn [srv_step].
  - cbn [fst snd s_expected sv_back]. apply E.
  - repeat (match goal with |- context [if ?c then _ else _] => destruct c eqn:? end;
            cbn [fst snd s_expected sv_back]); try apply E;
      cbn [b_write abs_backend]; unfold aupd;
      match goal with H : key_eqb _ _ = _ |- _ => rewrite H end; [reflexivity | apply E].
  - repeat (match goal with |- context [if ?c then _ else _] => destruct c end;
            cbn [fst snd s_expected sv_back]); try apply E.
Qed.

Lemma abs_read_out (st : srv_state A) s m l :
  snd (srv_step A st (SRead s m)) = SList l -> l = sv_back st (s, m).
Proof.
  cbn [srv_step].
  repeat (match goal with |- context [if ?c then _ else _] => destruct c end; cbn [fst snd]);
    try discriminate.
  cbn [b_read abs_backend]. cbn [snd]. intro H. inversion H. reflexivity.
Qed.

Lemma abs_s_trace_ok_from h : forall (st : srv_state A) rp,
  (forall k, sv_back st k = s_expected rp k) -> s_trace_ok_from rp (srv_trace A st h) = true.
Proof.
  induction h as [|o h IH]; intros st rp E; [reflexivity|].
  cbn [srv_trace].
  pose proof (abs_step_expected st o rp E) as Hnext.
  destruct (srv_step A st o) as [st' out] eqn:S. cbn [fst snd] in Hnext.
  cbn [s_trace_ok_from]. rewrite (IH st' _ Hnext), andb_true_r.
  destruct o as [s m | s m l | s m]; try reflexivity.
  destruct out as [|l|e]; try reflexivity.
  assert (Hl : l = sv_back st (s, m)).
  { apply abs_read_out. rewrite S. reflexivity. }
  rewrite Hl, E. apply asrts_eqb_refl.
Qed.

Lemma abs_s_trace_ok h : s_trace_ok (srv_trace A (srv_init A) h) = true.
Proof. apply abs_s_trace_ok_from. reflexivity. Qed.

(* --- transported to every law-abiding backend ------------------------------------------- *)

Section ServerTheorems.
  Variable B : backend.
  Variable idok : bytes -> bool.
  Hypothesis BOK : backend_ok B idok.
  Hypothesis ulid_idok : forall s, is_ulid s = true -> idok s = true.

  Theorem srv_trace_satisfies_property h : s_trace_ok (srv_trace B (srv_init B) h) = true.
  Proof. rewrite (srv_refines B idok BOK ulid_idok). apply abs_s_trace_ok. Qed.

  Theorem srv_read_last_write h1 h2 s m l :
    snd (srv_step B (srv_run B (srv_init B) h1) (SWrite s m l)) = SOk ->
    forallb (fun o => negb (sop_writes_to (s, m) o)) h2 = true ->
    snd (srv_step B (srv_run B (srv_init B) (h1 ++ SWrite s m l :: h2)) (SRead s m)) = SList l.
  Proof.
    rewrite !(srv_out_sim B idok BOK ulid_idok). apply abs_srv_read_last_write.
  Qed.

  Theorem srv_other_keys_unaffected h s m :
    snd (srv_step B (srv_run B (srv_init B) h) (SRead s m)) =
    snd (srv_step B (srv_run B (srv_init B) (filter (sop_relevant (s, m)) h)) (SRead s m)).
  Proof.
    rewrite !(srv_out_sim B idok BOK ulid_idok). apply abs_srv_other_keys_unaffected.
  Qed.

  Theorem srv_never_written_empty h s m l :
    forallb (fun o => negb (sop_writes_to (s, m) o)) h = true ->
    snd (srv_step B (srv_run B (srv_init B) h) (SRead s m)) = SList l -> l = [].
  Proof.
    rewrite (srv_out_sim B idok BOK ulid_idok). intros Hn H.
    exact (abs_srv_never_written_empty h s m Hn _ H).
  Qed.
End ServerTheorems.

(* ---------------------------------------------------------------------------------------- *)
(* Instances for the two backends of /repo (used by Props/C31.v)                              *)

Definition is_roundtrip {blob : Type} (marshal : list asrt -> blob) (unmarshal : blob -> option (list asrt)) : Prop :=
  forall l, unmarshal (marshal l) = Some l.

Lemma c31_read_last_write :
  (forall h1 h2 s m l,
     snd (srv_step mem_backend (srv_run mem_backend (srv_init mem_backend) h1) (SWrite s m l)) = SOk ->
     forallb (fun o => negb (sop_writes_to (s, m) o)) h2 = true ->
     snd (srv_step mem_backend (srv_run mem_backend (srv_init mem_backend) (h1 ++ SWrite s m l :: h2)) (SRead s m))
     = SList l) /\
  (forall blob marshal unmarshal, @is_roundtrip blob marshal unmarshal ->
   let B := sql_backend blob marshal unmarshal in
   forall h1 h2 s m l,
     snd (srv_step B (srv_run B (srv_init B) h1) (SWrite s m l)) = SOk ->
     forallb (fun o => negb (sop_writes_to (s, m) o)) h2 = true ->
     snd (srv_step B (srv_run B (srv_init B) (h1 ++ SWrite s m l :: h2)) (SRead s m)) = SList l).
Proof.
  split.
  - apply (srv_read_last_write mem_backend store_ok mem_backend_ok is_ulid_store_ok).
  - intros blob marshal unmarshal RT B.
    apply (srv_read_last_write B (fun _ => true) (sql_backend_ok blob marshal unmarshal RT)). reflexivity.
Qed.

Lemma c31_other_keys_unaffected :
  (forall h s m,
     snd (srv_step mem_backend (srv_run mem_backend (srv_init mem_backend) h) (SRead s m)) =
     snd (srv_step mem_backend (srv_run mem_backend (srv_init mem_backend) (filter (sop_relevant (s, m)) h)) (SRead s m))) /\
  (forall blob marshal unmarshal, @is_roundtrip blob marshal unmarshal ->
   let B := sql_backend blob marshal unmarshal in
   forall h s m,
     snd (srv_step B (srv_run B (srv_init B) h) (SRead s m)) =
     snd (srv_step B (srv_run B (srv_init B) (filter (sop_relevant (s, m)) h)) (SRead s m))).
Proof.
  split.
  - apply (srv_other_keys_unaffected mem_backend store_ok mem_backend_ok is_ulid_store_ok).
  - intros blob marshal unmarshal RT B.
    apply (srv_other_keys_unaffected B (fun _ => true) (sql_backend_ok blob marshal unmarshal RT)). reflexivity.
Qed.

Lemma c31_never_written_empty :
  (forall h s m l,
     forallb (fun o => negb (sop_writes_to (s, m) o)) h = true ->
     snd (srv_step mem_backend (srv_run mem_backend (srv_init mem_backend) h) (SRead s m)) = SList l -> l = []) /\
  (forall blob marshal unmarshal, @is_roundtrip blob marshal unmarshal ->
   let B := sql_backend blob marshal unmarshal in
   forall h s m l,
     forallb (fun o => negb (sop_writes_to (s, m) o)) h = true ->
     snd (srv_step B (srv_run B (srv_init B) h) (SRead s m)) = SList l -> l = []).
Proof.
  split.
  - apply (srv_never_written_empty mem_backend store_ok mem_backend_ok is_ulid_store_ok).
  - intros blob marshal unmarshal RT B.
    apply (srv_never_written_empty B (fun _ => true) (sql_backend_ok blob marshal unmarshal RT)). reflexivity.
Qed.

Lemma c31_server_refines_spec :
  (forall h, srv_trace mem_backend (srv_init mem_backend) h = srv_trace abs_backend (srv_init abs_backend) h) /\
  (forall blob marshal unmarshal, @is_roundtrip blob marshal unmarshal ->
   let B := sql_backend blob marshal unmarshal in
   forall h, srv_trace B (srv_init B) h = srv_trace abs_backend (srv_init abs_backend) h).
Proof.
  split.
  - apply (srv_refines mem_backend store_ok mem_backend_ok is_ulid_store_ok).
  - intros blob marshal unmarshal RT B.
    apply (srv_refines B (fun _ => true) (sql_backend_ok blob marshal unmarshal RT)). reflexivity.
Qed.

Lemma c31_trace_property :
  (forall h, s_trace_ok (mem_s_trace h) = true) /\ (forall h, s_trace_ok (sql_s_trace h) = true).
Proof.
  split.
  - apply (srv_trace_satisfies_property mem_backend store_ok mem_backend_ok is_ulid_store_ok).
  - apply (srv_trace_satisfies_property sql_backend_id (fun _ => true) sql_backend_id_ok). reflexivity.
Qed.

(* datastore interface (storage.AssertionsBackend), ids not validated *)
Lemma dops_ok_store_ok h : dops_ok store_ok h = dops_store_ok h.
Proof. reflexivity. Qed.

Lemma dops_ok_true h : dops_ok (fun _ => true) h = true.
Proof. unfold dops_ok. apply forallb_forall. reflexivity. Qed.

Lemma c31_datastore_partial :
  (* memory, under "no '|' in store ids" *)
  (forall h, dops_store_ok h = true ->
     d_trace mem_backend mem_init h = d_trace abs_backend aempty h /\ d_trace_ok (mem_d_trace h) = true) /\
  (forall h1 h2 s m l, dops_store_ok (h1 ++ DWrite s m l :: h2) = true ->
     forallb (fun o => negb (writes_to (s, m) o)) h2 = true ->
     mem_read (d_run mem_backend mem_init (h1 ++ DWrite s m l :: h2)) s m = Some l) /\
  (forall h s m, dops_store_ok h = true -> store_ok s = true ->
     mem_read (d_run mem_backend mem_init h) s m =
     mem_read (d_run mem_backend mem_init (filter (touches (s, m)) h)) s m) /\
  (forall h s m, dops_store_ok h = true -> store_ok s = true ->
     forallb (fun o => negb (writes_to (s, m) o)) h = true ->
     mem_read (d_run mem_backend mem_init h) s m = Some []).
Proof.
  split; [|split; [|split]].
  - intros h Hok. split.
    + apply (d_refines mem_backend store_ok mem_backend_ok). exact Hok.
    + apply (d_trace_satisfies_property mem_backend store_ok mem_backend_ok). exact Hok.
  - apply (d_read_last_write mem_backend store_ok mem_backend_ok).
  - apply (d_other_keys_unaffected mem_backend store_ok mem_backend_ok).
  - apply (d_never_written_empty mem_backend store_ok mem_backend_ok).
Qed.

Lemma c31_datastore_sql :
  forall blob marshal unmarshal, @is_roundtrip blob marshal unmarshal ->
  let B := sql_backend blob marshal unmarshal in
  (forall h, d_trace B (b_init B) h = d_trace abs_backend aempty h /\ d_trace_ok (d_trace B (b_init B) h) = true) /\
  (forall h1 h2 s m l,
     forallb (fun o => negb (writes_to (s, m) o)) h2 = true ->
     b_read B (d_run B (b_init B) (h1 ++ DWrite s m l :: h2)) s m = Some l) /\
  (forall h s m,
     b_read B (d_run B (b_init B) h) s m = b_read B (d_run B (b_init B) (filter (touches (s, m)) h)) s m) /\
  (forall h s m,
     forallb (fun o => negb (writes_to (s, m) o)) h = true ->
     b_read B (d_run B (b_init B) h) s m = Some []).
Proof.
  intros blob marshal unmarshal RT B.
  pose proof (sql_backend_ok blob marshal unmarshal RT) as OK. fold B in OK.
  split; [|split; [|split]].
  - intro h. split.
    + apply (d_refines B _ OK). apply dops_ok_true.
    + apply (d_trace_satisfies_property B _ OK). apply dops_ok_true.
  - intros. apply (d_read_last_write B _ OK); [apply dops_ok_true | assumption].
  - intros. apply (d_other_keys_unaffected B _ OK); [apply dops_ok_true | reflexivity].
  - intros. apply (d_never_written_empty B _ OK); [apply dops_ok_true | reflexivity | assumption].
Qed.
