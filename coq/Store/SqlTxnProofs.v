(* Proofs about Store/SqlTxn.v.
   Part A: against ANY engine whose transactions are atomic (Section hypotheses), the state
           observable after sqlite's write - whichever statement fails, and also after a crash
           at any statement boundary - is the state before or the state after; the state after
           is a pure function of the state before (sql_pure).
   Part B: on well-formed stores and requests sql_pure computes the specification, hence the
           same result as the memory backend (refinement). *)
From OFGA Require Import Store.Memory Store.MemoryProofs Store.SqlTxn.
From Coq Require Import Permutation.
Open Scope N_scope.

Arguments dml_delete : simpl never.
Arguments dml_insert : simpl never.
Arguments dml_log : simpl never.
Arguments apply_stmt : simpl never.
Arguments rec_obs : simpl never.
Arguments obs_cond : simpl never.

(* ---------------------------------------------------------------------------------------- *)
(* The engine-free meaning of the statement list                                             *)

Fixpoint pure_dml (ss : list stmt) (v : tables) : wres * tables :=
  match ss with
  | [] => (WOk, v)
  | s :: ss' =>
      match s with
      | SDelete conds =>
          if Nat.eqb (snd (dml_delete conds v)) (length conds) then pure_dml ss' (apply_stmt s v)
          else (WErr EConflictDelete, v)
      | SInsert rows =>
          match dml_insert rows v with
          | None => (WErr EConflictInsert, v)
          | Some _ => pure_dml ss' (apply_stmt s v)
          end
      | SLog _ => pure_dml ss' (apply_stmt s v)
      | SCommit => pure_dml ss' v
      end
  end.

Definition existing_of (v : tables) (lk : list colkey) : list (bytes * cond) :=
  flat_map (select_rows v) (batches lk).

(* result and committed state of a write that no failure interrupts *)
Definition sql_pure (ondup onmiss : opt) (dels : list key) (wrs : list witem) (now : N) (v : tables)
  : wres * tables :=
  let lk := make_lock_keys dels wrs in
  if is_empty lk then (WOk, v)
  else match plan ondup onmiss dels wrs (existing_of v lk) now with
       | inl err => (WErr err, v)
       | inr ss => match pure_dml ss v with
                   | (WOk, v') => (WOk, v')
                   | (WErr e, _) => (WErr e, v)
                   end
       end.

Definition no_commit (s : stmt) : Prop := s <> SCommit.

Lemma plan_shape ondup onmiss dels wrs ex now ss :
  plan ondup onmiss dels wrs ex now = inr ss ->
  exists pre, ss = pre ++ [SCommit] /\ Forall no_commit pre.
Proof.
  unfold plan. destruct (plan_deletes _ ex now dels) as [e|[conds dlog]]; [discriminate|].
  destruct (plan_writes _ ex now wrs) as [e|[rows wlog]]; [discriminate|].
  intro H. inversion H; subst. clear H.
  exists (map SDelete (batches conds) ++ map SInsert (batches rows) ++ map SLog (batches (dlog ++ wlog))).
  split; [rewrite <- !app_assoc; reflexivity|].
  rewrite !Forall_app. repeat split; apply Forall_forall; intros s Hs;
    apply in_map_iff in Hs as (x & <- & _); discriminate.
Qed.

Lemma pure_dml_commit pre v :
  pure_dml (pre ++ [SCommit]) v = pure_dml pre v.
Proof.
  revert v. induction pre as [|s pre IH]; simpl; intro v; [reflexivity|].
  destruct s; simpl.
  - destruct (Nat.eqb _ _); [apply IH | reflexivity].
  - destruct (dml_insert rows v); [apply IH | reflexivity].
  - apply IH.
  - apply IH.
Qed.

Section EngineProofs.
  Variable E : Type.
  Variable committed : E -> tables.
  Variable pending : E -> tables.
  Variable e_begin : E -> E.
  Variable e_apply : (tables -> tables) -> E -> E.
  Variable e_commit : E -> E.
  Variable e_abort : E -> E.

  (* TRUSTED (SQLite): a transaction is atomic and isolated - nothing it does is visible to any
     other connection, nor survives a rollback / lost connection / crash, unless COMMIT returned *)
  Hypothesis begin_ok : forall e, committed (e_begin e) = committed e /\ pending (e_begin e) = committed e.
  Hypothesis apply_ok : forall f e, committed (e_apply f e) = committed e /\ pending (e_apply f e) = f (pending e).
  Hypothesis commit_ok : forall e, committed (e_commit e) = pending e.
  Hypothesis abort_ok : forall e, committed (e_abort e) = committed e.

  Let run_dml' := run_dml E pending e_apply e_commit e_abort.
  Let run_selects' := run_selects E pending e_abort.
  Let sql_write' := sql_write E pending e_begin e_apply e_commit e_abort.

  Lemma run_dml_atomic pre : forall fail k e tr r e' tr',
    Forall no_commit pre ->
    run_dml' fail k (pre ++ [SCommit]) e tr = (r, e', tr') ->
    (r = WOk -> pure_dml pre (pending e) = (WOk, committed e'))
    /\ (r <> WOk -> committed e' = committed e)
    /\ ((fail < k)%nat -> r = fst (pure_dml pre (pending e))).
  Proof.
    unfold run_dml'. induction pre as [|s pre IH]; intros fail k e tr r e' tr' Hnc H.
    - simpl in H. destruct (Nat.eqb fail k) eqn:Ek.
      + inversion H; subst. repeat split; try discriminate.
        * intros _. apply abort_ok.
        * intro Hlt. apply Nat.eqb_eq in Ek. lia.
      + inversion H; subst. repeat split.
        * intros _. simpl. rewrite commit_ok. reflexivity.
        * intro Hn. exfalso. apply Hn. reflexivity.
    - inversion Hnc as [|? ? Hs Hnc']; subst.
      change ((s :: pre) ++ [SCommit]) with (s :: (pre ++ [SCommit])) in H. cbn [run_dml] in H.
      destruct (Nat.eqb fail k) eqn:Ek.
      { inversion H; subst. repeat split; try discriminate.
        - intros _. apply abort_ok.
        - intro Hlt. apply Nat.eqb_eq in Ek. lia. }
      assert (Hk : (fail < k)%nat -> (fail < S k)%nat) by lia.
      destruct s as [conds|rows|lrows|]; [| | |exfalso; apply Hs; reflexivity].
      + destruct (apply_ok (apply_stmt (SDelete conds)) e) as [Ac Ap]. cbn [pure_dml].
        destruct (Nat.eqb (snd (dml_delete conds (pending e))) (length conds)) eqn:En.
        * destruct (IH _ _ _ _ _ _ _ Hnc' H) as (I1 & I2 & I3). rewrite Ap in I1, I3. rewrite Ac in I2.
          repeat split; auto.
        * inversion H; subst. repeat split; try discriminate.
          intros _. rewrite abort_ok. exact Ac.
      + destruct (apply_ok (apply_stmt (SInsert rows)) e) as [Ac Ap]. cbn [pure_dml].
        destruct (dml_insert rows (pending e)) as [v'|] eqn:Ei.
        * destruct (IH _ _ _ _ _ _ _ Hnc' H) as (I1 & I2 & I3). rewrite Ap in I1, I3. rewrite Ac in I2.
          repeat split; auto.
        * inversion H; subst. repeat split; try discriminate.
          intros _. apply abort_ok.
      + destruct (apply_ok (apply_stmt (SLog lrows)) e) as [Ac Ap]. cbn [pure_dml].
        destruct (IH _ _ _ _ _ _ _ Hnc' H) as (I1 & I2 & I3). rewrite Ap in I1, I3. rewrite Ac in I2.
        repeat split; auto.
  Qed.

  Lemma run_selects_spec bs : forall fail k e tr acc,
    match run_selects' fail k bs e tr acc with
    | inl (r, e', _) => r = WErr EInjected /\ e' = e_abort e /\ (k <= fail)%nat
    | inr (ex, k', _) => ex = acc ++ flat_map (select_rows (pending e)) bs /\ k' = (k + length bs)%nat
    end.
  Proof.
    unfold run_selects'. induction bs as [|b bs IH]; simpl; intros fail k e tr acc.
    - rewrite app_nil_r. split; [reflexivity | lia].
    - destruct (Nat.eqb fail k) eqn:Ek.
      + apply Nat.eqb_eq in Ek. repeat split; auto. lia.
      + specialize (IH fail (S k) e (tr ++ [KSelect]) (acc ++ select_rows (pending e) b)).
        destruct (run_selects _ _ _ _ _ _ _ _ _) as [[[r e'] t]|[[ex k'] t]].
        * destruct IH as (I1 & I2 & I3). repeat split; auto. lia.
        * destruct IH as (I1 & I2). rewrite <- app_assoc in I1. split; [exact I1 | lia].
  Qed.

  (* C12, sqlite: whichever statement fails (fail = 1 .. n), and whatever the request, what any
     other connection - or a process reopening the database after a crash at that point -
     observes is the state before the write, or (only when the write returned success) the
     state after it; and that state is the pure function sql_pure of the state before *)
  Theorem sql_txn_atomic_lemma ondup onmiss dels wrs now fail e r e' tr :
    sql_write' ondup onmiss dels wrs now fail e = (r, e', tr) ->
    (r <> WOk -> committed e' = committed e)
    /\ (r = WOk -> sql_pure ondup onmiss dels wrs now (committed e) = (WOk, committed e'))
    /\ (fail = 0%nat -> r = fst (sql_pure ondup onmiss dels wrs now (committed e))).
  Proof.
    unfold sql_write', sql_write, sql_pure. intro H.
    destruct (Nat.eqb fail 1) eqn:E1.
    { inversion H; subst. repeat split; try discriminate.
      - intros _. apply abort_ok.
      - intro Hf. subst. discriminate. }
    destruct (begin_ok e) as [Bc Bp].
    destruct (is_empty (make_lock_keys dels wrs)) eqn:El.
    { inversion H; subst. repeat split.
      - intros _. rewrite abort_ok. exact Bc.
      - intros _. rewrite abort_ok, Bc. reflexivity. }
    pose proof (run_selects_spec (batches (make_lock_keys dels wrs)) fail 2 (e_begin e) [KBegin] []) as Hs.
    unfold run_selects' in Hs.
    destruct (run_selects _ _ _ _ _ _ _ _ _) as [[[r1 e1] t1]|[[ex k'] t1]].
    { destruct Hs as (-> & -> & Hk). inversion H; subst. repeat split; try discriminate.
      - intros _. rewrite abort_ok. exact Bc.
      - intro Hf. lia. }
    destruct Hs as [-> ->]. simpl in H. rewrite Bp in H.
    fold (existing_of (committed e) (make_lock_keys dels wrs)) in H.
    destruct (plan ondup onmiss dels wrs (existing_of (committed e) (make_lock_keys dels wrs)) now) as [err|ss] eqn:Ep.
    { inversion H; subst. repeat split; try discriminate.
      intros _. rewrite abort_ok. exact Bc. }
    destruct (plan_shape _ _ _ _ _ _ _ Ep) as (pre & -> & Hnc).
    destruct (run_dml_atomic pre _ _ _ _ _ _ _ Hnc H) as (I1 & I2 & I3).
    rewrite Bp in I1, I3. rewrite Bc in I2. rewrite pure_dml_commit.
    repeat split.
    - exact I2.
    - intro Hr. rewrite (I1 Hr). reflexivity.
    - intro Hf. rewrite I3 by lia. destruct (pure_dml pre (committed e)) as [[|er] v']; reflexivity.
  Qed.

End EngineProofs.

(* the concrete engine satisfies the hypotheses (they are not vacuous) *)
Lemma eng_begin_ok e : en_comm (eng_begin e) = en_comm e /\ en_work (eng_begin e) = en_comm e.
Proof. split; reflexivity. Qed.
Lemma eng_apply_ok f e : en_comm (eng_apply f e) = en_comm e /\ en_work (eng_apply f e) = f (en_work e).
Proof. split; reflexivity. Qed.
Lemma eng_commit_ok e : en_comm (eng_commit e) = en_work e.
Proof. reflexivity. Qed.
Lemma eng_abort_ok e : en_comm (eng_abort e) = en_comm e.
Proof. reflexivity. Qed.

(* ======================================================================================== *)
(* Part B: sql_pure against the specification                                               *)

Definition row_key (r : trow) : key := key_of_ck (t_ck r).
Definition wf_row (r : trow) : bool := wf_key (row_key r) && ck_eqb7 (cols_of_key (row_key r)) (t_ck r).
Definition wf_tables (v : tables) : bool := forallb wf_row (tt v) && nodup_keys (map row_key (tt v)).

Lemma bool_eqb_eq a b : Bool.eqb a b = true <-> a = b.
Proof. destruct a, b; simpl; split; intro H; congruence. Qed.

Lemma ck_eqb6_key a b : ck_eqb6 a b = true -> key_of_ck a = key_of_ck b.
Proof.
  unfold ck_eqb6. rewrite !andb_true_iff, !beqb_eq. intros [[[[[H1 H2] H3] H4] H5] H6].
  unfold key_of_ck. rewrite H1, H2, H3, H4, H5, H6. reflexivity.
Qed.

Lemma ck_eqb7_eq a b : ck_eqb7 a b = true <-> a = b.
Proof.
  unfold ck_eqb7, ck_eqb6. rewrite !andb_true_iff, !beqb_eq, bool_eqb_eq. split.
  - intros [[[[[[H1 H2] H3] H4] H5] H6] H7]. destruct a, b; simpl in *; subst; reflexivity.
  - intros ->. repeat split; reflexivity.
Qed.

Lemma ck_eqb7_refl a : ck_eqb7 a a = true.
Proof. apply ck_eqb7_eq. reflexivity. Qed.

Lemma ck_eqb7_6 a b : ck_eqb7 a b = true -> ck_eqb6 a b = true.
Proof. unfold ck_eqb7. rewrite andb_true_iff. tauto. Qed.

Lemma key_of_cols k : wf_key k = true -> key_of_ck (cols_of_key k) = k.
Proof.
  intro Hk. apply wf_key_inv in Hk as (Ho & _ & Hu).
  apply wf_obj_inv in Ho as (t & id & Es & Eo & _).
  apply wf_user_inv in Hu as (ut & uid & ur & Eu & Ef & _).
  unfold cols_of_key. rewrite Es, Eu. unfold key_of_ck. simpl. rewrite <- Eo, Ef.
  destruct k; reflexivity.
Qed.

Lemma cols_inj6 k1 k2 :
  wf_key k1 = true -> wf_key k2 = true -> ck_eqb6 (cols_of_key k1) (cols_of_key k2) = true -> k1 = k2.
Proof.
  intros H1 H2 H. apply ck_eqb6_key in H. rewrite (key_of_cols k1 H1), (key_of_cols k2 H2) in H. exact H.
Qed.

Lemma key_string_inj a b : wf_key a = true -> wf_key b = true -> key_string a = key_string b -> a = b.
Proof.
  intros Ha Hb H. apply wf_key_inv in Ha as (Hao & Har & _). apply wf_key_inv in Hb as (Hbo & Hbr & _).
  apply wf_obj_inv in Hao as (_ & _ & _ & _ & _ & _ & Hah). apply wf_obj_inv in Hbo as (_ & _ & _ & _ & _ & _ & Hbh).
  apply wf_rel_inv in Har as (_ & Haa & _). apply wf_rel_inv in Hbr as (_ & Hba & _).
  unfold key_string, tuple_key_to_string in H.
  pose proof (cut_app c_hash (k_obj a) (k_rel a ++ c_at :: k_user a) Hah) as C1.
  rewrite H, (cut_app c_hash (k_obj b) (k_rel b ++ c_at :: k_user b) Hbh) in C1.
  inversion C1 as [[E1 E2]].
  pose proof (cut_app c_at (k_rel a) (k_user a) Haa) as C2.
  rewrite <- E2, (cut_app c_at (k_rel b) (k_user b) Hba) in C2. inversion C2 as [[E3 E4]].
  destruct a, b; simpl in *; subst; reflexivity.
Qed.

Lemma wf_row_inv r : wf_row r = true -> wf_key (row_key r) = true /\ cols_of_key (row_key r) = t_ck r.
Proof. unfold wf_row. rewrite andb_true_iff, ck_eqb7_eq. tauto. Qed.

Lemma NoDup_map_eq {A B : Type} (f : A -> B) l a b :
  NoDup (map f l) -> In a l -> In b l -> f a = f b -> a = b.
Proof.
  induction l as [|x l IH]; simpl; intros Hn Ha Hb E; [contradiction|].
  inversion Hn as [|? ? Hx Hn']; subst.
  destruct Ha as [->|Ha], Hb as [->|Hb]; auto.
  - exfalso. apply Hx. rewrite E. apply in_map. exact Hb.
  - exfalso. apply Hx. rewrite <- E. apply in_map. exact Ha.
Qed.

(* ---- chunks ---- *)

Lemma chunks_concat {A : Type} (n : nat) : (0 < n)%nat -> forall fuel (l : list A),
  (length l <= fuel)%nat -> concat (chunks fuel n l) = l.
Proof.
  intros Hn. induction fuel as [|f IH]; intros l Hl.
  - destruct l; [reflexivity | simpl in Hl; lia].
  - destruct l as [|a l]; [reflexivity|]. cbn [chunks concat].
    rewrite IH; [apply firstn_skipn|]. rewrite skipn_length. cbn [length] in *. lia.
Qed.

Lemma chunks_cons {A : Type} f n (a : A) l :
  chunks (S f) n (a :: l) = firstn n (a :: l) :: chunks f n (skipn n (a :: l)).
Proof. reflexivity. Qed.

Lemma batches_concat {A : Type} (l : list A) : concat (batches l) = l.
Proof. apply chunks_concat; [unfold batch; lia | lia]. Qed.

(* ---- selection ---- *)

Definition sql_find (k : key) (rows : list trow) : option trow :=
  find (fun r => key_eqb (row_key r) k) rows.

Lemma lookup_sql k rows :
  lookup k (map row_obs rows) = option_map (fun r => snd (row_obs r)) (sql_find k rows).
Proof.
  induction rows as [|r rows IH]; simpl; [reflexivity|].
  change (key_of_ck (t_ck r)) with (row_key r). destruct (key_eqb (row_key r) k); [reflexivity | exact IH].
Qed.

Lemma dedup_In c : forall l seen, In c l -> In c (dedup_ck seen l) \/ existsb (ck_eqb7 c) seen = true.
Proof.
  induction l as [|x l IH]; simpl; intros seen H; [contradiction|].
  destruct H as [->|H].
  - destruct (existsb (ck_eqb7 c) seen) eqn:E; [right; reflexivity | left; left; reflexivity].
  - destruct (existsb (ck_eqb7 x) seen) eqn:E.
    + apply IH. exact H.
    + destruct (IH (x :: seen) H) as [H1|H1]; [left; right; exact H1|].
      simpl in H1. apply orb_true_iff in H1 as [H1|H1]; [|right; exact H1].
      apply ck_eqb7_eq in H1. subst. left. left. reflexivity.
Qed.

Lemma lock_keys_In k dels wrs :
  In k (req_keys dels wrs) -> In (cols_of_key k) (make_lock_keys dels wrs).
Proof.
  intro H. unfold make_lock_keys.
  destruct (dedup_In (cols_of_key k) (map cols_of_key dels ++ map (fun w => cols_of_key (w_key w)) wrs) []) as [H1|H1];
    [|exact H1|discriminate].
  unfold req_keys in H. apply in_app_iff in H as [H|H]; apply in_app_iff.
  - left. apply in_map. exact H.
  - right. apply in_map_iff in H as (w & <- & Hw). apply in_map_iff. exists w. auto.
Qed.

Definition entry (r : trow) : bytes * cond := (key_string (row_key r), row_cond r).

Lemma existing_In v lk s c :
  In (s, c) (existing_of v lk) <-> exists r, In r (tt v) /\ In (t_ck r) lk /\ entry r = (s, c).
Proof.
  unfold existing_of. rewrite in_flat_map. split.
  - intros (b & Hb & Hin). unfold select_rows in Hin. apply in_map_iff in Hin as (r & E & Hr).
    apply filter_In in Hr as [Hr Hx]. apply existsb_exists in Hx as (x & Hx & Ex).
    apply ck_eqb7_eq in Ex. subst x. exists r. repeat split; auto.
    rewrite <- (batches_concat lk). apply in_concat. exists b. auto.
  - intros (r & Hr & Hk & E). rewrite <- (batches_concat lk) in Hk. apply in_concat in Hk as (b & Hb & Hk).
    exists b. split; [exact Hb|]. unfold select_rows. apply in_map_iff. exists r. split; [exact E|].
    apply filter_In. split; [exact Hr|]. apply existsb_exists. exists (t_ck r). split; [exact Hk | apply ck_eqb7_refl].
Qed.

Lemma assoc_unique s c m :
  In (s, c) m -> (forall c', In (s, c') m -> c' = c) -> assoc s m = Some c.
Proof.
  induction m as [|[s' c'] m IH]; simpl; intros Hin Hu; [contradiction|].
  destruct (beqb s' s) eqn:E.
  - apply beqb_eq in E. subst. f_equal. apply Hu. left. reflexivity.
  - destruct Hin as [Hin|Hin]; [inversion Hin; subst; rewrite beqb_refl in E; discriminate|].
    apply IH; auto.
Qed.

Lemma assoc_none s m : (forall c, ~ In (s, c) m) -> assoc s m = None.
Proof.
  induction m as [|[s' c'] m IH]; simpl; intro H; [reflexivity|].
  destruct (beqb s' s) eqn:E.
  - apply beqb_eq in E. subst. exfalso. apply (H c'). left. reflexivity.
  - apply IH. intros c Hc. apply (H c). right. exact Hc.
Qed.

Lemma sql_find_some k rows r : sql_find k rows = Some r -> In r rows /\ row_key r = k.
Proof.
  unfold sql_find. intro H. apply find_some in H as [H1 H2]. apply key_eqb_eq in H2. auto.
Qed.

Lemma sql_find_none k rows r : sql_find k rows = None -> In r rows -> row_key r <> k.
Proof.
  unfold sql_find. intros H Hr E. apply (find_none _ _ H) in Hr. rewrite E, key_eqb_refl in Hr. discriminate.
Qed.

Lemma existing_lookup v dels wrs k :
  wf_tables v = true -> wf_key k = true -> In k (req_keys dels wrs) ->
  assoc (key_string k) (existing_of v (make_lock_keys dels wrs)) = option_map row_cond (sql_find k (tt v)).
Proof.
  intros Hv Hk Hin. unfold wf_tables in Hv. apply andb_true_iff in Hv as [Hrows Hnd].
  apply nodup_keys_NoDup in Hnd. rewrite forallb_forall in Hrows.
  destruct (sql_find k (tt v)) as [r|] eqn:Ef; simpl.
  - apply sql_find_some in Ef as [Hr Ek].
    destruct (wf_row_inv r (Hrows r Hr)) as [Hwk Hck].
    apply assoc_unique.
    + apply existing_In. exists r. repeat split; auto.
      * rewrite <- Hck, Ek. apply lock_keys_In. exact Hin.
      * unfold entry. rewrite Ek. reflexivity.
    + intros c' Hc'. apply existing_In in Hc' as (r' & Hr' & _ & E). unfold entry in E. inversion E as [[E1 E2]].
      destruct (wf_row_inv r' (Hrows r' Hr')) as [Hwk' _].
      apply key_string_inj in E1; auto.
      assert (r' = r) by (eapply NoDup_map_eq; eauto; congruence). subst. reflexivity.
  - apply assoc_none. intros c Hc. apply existing_In in Hc as (r' & Hr' & _ & E).
    unfold entry in E. inversion E as [[E1 E2]].
    destruct (wf_row_inv r' (Hrows r' Hr')) as [Hwk' _].
    apply key_string_inj in E1; auto. exact (sql_find_none k (tt v) r' Ef Hr' E1).
Qed.

(* ---- planning ---- *)

Definition present_key (ts : list otuple) (k : key) : bool :=
  match lookup k ts with Some _ => true | None => false end.

Definition del_lrow (now : N) (d : key) : lrow := mkLRow (cols_of_key d) [] None OpDelete now.
Definition new_row (w : witem) : trow :=
  let '(n, b) := marshal_cond (w_cond w) in mkTRow (cols_of_key (w_key w)) n b.
Definition new_lrow (now : N) (w : witem) : lrow :=
  let '(n, b) := marshal_cond (w_cond w) in mkLRow (cols_of_key (w_key w)) n b OpWrite now.

Lemma plan_deletes_spec ig ex now dels ts :
  (forall d, In d dels -> (assoc (key_string d) ex = None <-> lookup d ts = None)) ->
  match plan_deletes ig ex now dels with
  | inl e => spec_del_err ig dels ts = Some e
  | inr (cs, ls) => spec_del_err ig dels ts = None
                    /\ cs = map cols_of_key (filter (present_key ts) dels)
                    /\ ls = map (del_lrow now) (filter (present_key ts) dels)
  end.
Proof.
  induction dels as [|d ds IH]; simpl; intro H.
  - repeat split; reflexivity.
  - assert (IH' := IH (fun x Hx => H x (or_intror Hx))). clear IH.
    pose proof (H d (or_introl eq_refl)) as Hd. unfold present_key.
    destruct (assoc (key_string d) ex) as [c|] eqn:Ea.
    + destruct (lookup d ts) as [oc|] eqn:El; [|destruct Hd as [_ Hd]; specialize (Hd eq_refl); discriminate].
      destruct (plan_deletes ig ex now ds) as [e|[cs ls]]; [exact IH'|].
      destruct IH' as (I1 & -> & ->). repeat split; auto.
    + destruct Hd as [Hd _]. rewrite (Hd eq_refl). destruct ig; [|reflexivity].
      destruct (plan_deletes true ex now ds) as [e|[cs ls]]; exact IH'.
Qed.

Lemma plan_writes_spec ig ex now wrs ts :
  (forall w, In w wrs ->
     match assoc (key_string (w_key w)) ex, lookup (w_key w) ts with
     | None, None => True
     | Some c, Some oc => ig = true -> proto_equal c (w_cond w) = ocond_eqb oc (obs_cond (w_cond w))
     | _, _ => False
     end) ->
  match plan_writes ig ex now wrs with
  | inl e => spec_wr_err ig wrs ts = Some e
  | inr (rs, ls) => spec_wr_err ig wrs ts = None
                    /\ rs = map new_row (filter (fun w => negb (present_in ts w)) wrs)
                    /\ ls = map (new_lrow now) (filter (fun w => negb (present_in ts w)) wrs)
  end.
Proof.
  induction wrs as [|w ws IH]; simpl; intro H.
  - repeat split; reflexivity.
  - assert (IH' := IH (fun x Hx => H x (or_intror Hx))). clear IH.
    pose proof (H w (or_introl eq_refl)) as Hw.
    destruct (assoc (key_string (w_key w)) ex) as [c|] eqn:Ea;
      destruct (lookup (w_key w) ts) as [oc|] eqn:El; try contradiction.
    + assert (Ep : present_in ts w = true) by (unfold present_in; rewrite El; reflexivity).
      rewrite Ep. cbn [negb]. destruct ig; [|reflexivity]. rewrite (Hw eq_refl).
      destruct (ocond_eqb oc (obs_cond (w_cond w))); [|reflexivity].
      destruct (plan_writes true ex now ws) as [e|[rs ls]]; exact IH'.
    + assert (Ep : present_in ts w = false) by (unfold present_in; rewrite El; reflexivity).
      rewrite Ep. cbn [negb]. destruct (plan_writes ig ex now ws) as [e|[rs ls]]; [exact IH'|].
      destruct IH' as (I1 & -> & ->). unfold new_row, new_lrow. cbn [map].
      destruct (marshal_cond (w_cond w)) as [n b]. repeat split; auto.
Qed.

Lemma proto_equal_obs r c : proto_equal (row_cond r) c = true -> snd (row_obs r) = obs_cond c.
Proof.
  unfold row_cond, row_obs, obs_cond. cbn [snd]. destruct (t_cname r) as [|x n] eqn:En.
  - destruct c as [[n2 c2]|]; [discriminate|]. reflexivity.
  - destruct c as [[n2 c2]|]; [|discriminate]. cbn [proto_equal cond_name cond_ctx]. intro H.
    apply andb_true_iff in H as [H1 H2]. apply beqb_eq in H1. subst n2.
    unfold blob_ctx in *. destruct c2 as [|t2]; [discriminate|]. cbn [ctx_eqb] in H2.
    apply beqb_eq in H2. cbn [norm_cond ctx_text]. rewrite H2. reflexivity.
Qed.

Lemma trig_sql_ctx_false ondup wrs v :
  trig_sql_ctx ondup wrs v = false -> opt_ignore ondup = true ->
  forall w r, In w wrs -> In r (tt v) -> row_key r = w_key w ->
  proto_equal (row_cond r) (w_cond w) = ocond_eqb (snd (row_obs r)) (obs_cond (w_cond w)).
Proof.
  unfold trig_sql_ctx. intros H Hig w r Hw Hr Ek. rewrite Hig, andb_true_l in H.
  destruct (proto_equal (row_cond r) (w_cond w)) eqn:Ep.
  - symmetry. apply ocond_eqb_eq. apply proto_equal_obs. exact Ep.
  - destruct (ocond_eqb (snd (row_obs r)) (obs_cond (w_cond w))) eqn:Eo; [|reflexivity].
    exfalso. apply not_true_iff_false in H. apply H.
    apply existsb_exists. exists w. split; [exact Hw|]. apply existsb_exists. exists r. split; [exact Hr|].
    change (key_of_ck (t_ck r)) with (row_key r). rewrite Ek, key_eqb_refl, Eo, Ep. reflexivity.
Qed.

(* ---- data-modifying statements, batch by batch ---- *)

Definition hit (conds : list colkey) (r : trow) : bool := existsb (ck_eqb7 (t_ck r)) conds.

Lemma hit_In conds r : hit conds r = true <-> In (t_ck r) conds.
Proof.
  unfold hit. rewrite existsb_exists. split.
  - intros (x & Hx & E). apply ck_eqb7_eq in E. subst. exact Hx.
  - intro H. exists (t_ck r). split; [exact H | apply ck_eqb7_refl].
Qed.

Definition good_conds (conds : list colkey) (rows : list trow) : Prop :=
  NoDup conds /\ (forall c, In c conds -> In c (map t_ck rows)) /\ NoDup (map t_ck rows).

Lemma delete_count conds rows :
  good_conds conds rows -> length (filter (hit conds) rows) = length conds.
Proof.
  intros (Hn & Hin & Hr). rewrite <- (map_length t_ck). apply Permutation_length.
  apply NoDup_Permutation; [apply NoDup_map_filter; exact Hr | exact Hn|].
  intro c. split.
  - intro H. apply in_map_iff in H as (r & <- & Hf). apply filter_In in Hf as [_ Hf]. apply hit_In. exact Hf.
  - intro H. specialize (Hin c H). apply in_map_iff in Hin as (r & <- & Hr'). apply in_map.
    apply filter_In. split; [exact Hr' | apply hit_In; exact H].
Qed.

Lemma filter_filter_and2 {A : Type} (p q : A -> bool) l : filter p (filter q l) = filter (fun x => q x && p x) l.
Proof.
  induction l as [|a l IH]; simpl; [reflexivity|].
  destruct (q a); simpl; [destruct (p a); rewrite IH; reflexivity | exact IH].
Qed.

Lemma filter_true {A : Type} (l : list A) : filter (fun _ => true) l = l.
Proof. induction l as [|a l IH]; simpl; [|rewrite IH]; reflexivity. Qed.

Lemma dml_delete_snd conds rows lg :
  snd (dml_delete conds (mkTab rows lg)) = length (filter (hit conds) rows).
Proof. reflexivity. Qed.
Lemma apply_delete conds rows lg :
  apply_stmt (SDelete conds) (mkTab rows lg) = mkTab (filter (fun r => negb (hit conds r)) rows) lg.
Proof. reflexivity. Qed.
Lemma dml_insert_tab rs rows lg :
  dml_insert rs (mkTab rows lg) = match insert_rows rs rows with Some t' => Some (mkTab t' lg) | None => None end.
Proof. reflexivity. Qed.
Lemma apply_insert rs rows lg :
  apply_stmt (SInsert rs) (mkTab rows lg) = match insert_rows rs rows with Some t' => mkTab t' lg | None => mkTab rows lg end.
Proof. unfold apply_stmt. rewrite dml_insert_tab. destruct (insert_rows rs rows); reflexivity. Qed.
Lemma apply_log ls rows lg : apply_stmt (SLog ls) (mkTab rows lg) = mkTab rows (lg ++ ls).
Proof. reflexivity. Qed.

Lemma pure_delete_chunks n : (0 < n)%nat -> forall fuel conds rows lg rest,
  (length conds <= fuel)%nat -> good_conds conds rows ->
  pure_dml (map SDelete (chunks fuel n conds) ++ rest) (mkTab rows lg)
  = pure_dml rest (mkTab (filter (fun r => negb (hit conds r)) rows) lg).
Proof.
  intro Hn. induction fuel as [|f IH]; intros conds rows lg rest Hl Hg.
  - destruct conds; [|simpl in Hl; lia]. simpl. rewrite filter_true. reflexivity.
  - destruct conds as [|c conds']; [simpl; rewrite filter_true; reflexivity|].
    rewrite chunks_cons. set (conds := c :: conds') in *. cbn [map app pure_dml].
    destruct Hg as (Hnd & Hin & Hr).
    assert (Hsplit : conds = firstn n conds ++ skipn n conds) by (symmetry; apply firstn_skipn).
    assert (Hnd' : NoDup (firstn n conds ++ skipn n conds)) by (rewrite <- Hsplit; exact Hnd).
    apply NoDup_app_inv in Hnd' as (Hn1 & Hn2 & Hdis).
    assert (G1 : good_conds (firstn n conds) rows).
    { repeat split; auto. intros x Hx. apply Hin. rewrite Hsplit. apply in_app_iff. left. exact Hx. }
    rewrite dml_delete_snd, (delete_count _ _ G1), Nat.eqb_refl, apply_delete.
    rewrite IH.
    + f_equal. f_equal. rewrite filter_filter_and2. apply filter_ext_in'. intros r _.
      rewrite Hsplit at 3. unfold hit. rewrite existsb_app, negb_orb. reflexivity.
    + rewrite skipn_length. subst conds. cbn [length] in *. lia.
    + repeat split.
      * exact Hn2.
      * intros x Hx. assert (Hx' : In x conds) by (rewrite Hsplit; apply in_app_iff; right; exact Hx).
        specialize (Hin x Hx'). apply in_map_iff in Hin as (r & <- & Hr'). apply in_map.
        apply filter_In. split; [exact Hr'|]. apply negb_true_iff.
        destruct (hit (firstn n conds) r) eqn:Eh; [|reflexivity].
        apply hit_In in Eh. exfalso. exact (Hdis _ Eh Hx).
      * apply NoDup_map_filter. exact Hr.
Qed.

Lemma insert_rows_app a b cur :
  insert_rows (a ++ b) cur = match insert_rows a cur with Some c => insert_rows b c | None => None end.
Proof.
  revert cur. induction a as [|x a IH]; simpl; intro cur; [reflexivity|].
  destruct (existsb _ cur); [reflexivity | apply IH].
Qed.

Lemma insert_rows_some rs cur x : insert_rows rs cur = Some x -> x = cur ++ rs.
Proof.
  revert cur. induction rs as [|r rs IH]; simpl; intros cur H.
  - inversion H. rewrite app_nil_r. reflexivity.
  - destruct (existsb _ cur); [discriminate|]. rewrite (IH _ H), <- app_assoc. reflexivity.
Qed.

Lemma pure_insert_chunks n : (0 < n)%nat -> forall fuel rs rows lg rest,
  (length rs <= fuel)%nat -> insert_rows rs rows = Some (rows ++ rs) ->
  pure_dml (map SInsert (chunks fuel n rs) ++ rest) (mkTab rows lg)
  = pure_dml rest (mkTab (rows ++ rs) lg).
Proof.
  intro Hn. induction fuel as [|f IH]; intros rs rows lg rest Hl Hi.
  - destruct rs; [|simpl in Hl; lia]. simpl. rewrite app_nil_r. reflexivity.
  - destruct rs as [|r rs']; [simpl; rewrite app_nil_r; reflexivity|].
    rewrite chunks_cons. set (rs := r :: rs') in *. cbn [map app pure_dml].
    assert (Hsplit : rs = firstn n rs ++ skipn n rs) by (symmetry; apply firstn_skipn).
    rewrite Hsplit, insert_rows_app in Hi.
    destruct (insert_rows (firstn n rs) rows) as [y|] eqn:E1; [|discriminate].
    pose proof (insert_rows_some _ _ _ E1) as Ey. subst y.
    rewrite dml_insert_tab, apply_insert, E1.
    rewrite IH.
    + rewrite <- app_assoc, <- Hsplit. reflexivity.
    + rewrite skipn_length. subst rs. cbn [length] in *. lia.
    + rewrite Hi. rewrite <- !app_assoc. reflexivity.
Qed.

Lemma pure_log_chunks n : (0 < n)%nat -> forall fuel ls rows lg rest,
  (length ls <= fuel)%nat ->
  pure_dml (map SLog (chunks fuel n ls) ++ rest) (mkTab rows lg)
  = pure_dml rest (mkTab rows (lg ++ ls)).
Proof.
  intro Hn. induction fuel as [|f IH]; intros ls rows lg rest Hl.
  - destruct ls; [|simpl in Hl; lia]. simpl. rewrite app_nil_r. reflexivity.
  - destruct ls as [|l ls']; [simpl; rewrite app_nil_r; reflexivity|].
    rewrite chunks_cons. set (ls := l :: ls') in *. cbn [map app pure_dml].
    rewrite apply_log, IH.
    + rewrite <- app_assoc, firstn_skipn. reflexivity.
    + rewrite skipn_length. subst ls. cbn [length] in *. lia.
Qed.

(* ---- rows built from well-formed items ---- *)

Lemma marshal_obs c : 
  let '(n, b) := marshal_cond c in norm_cond n (blob_ctx b) = obs_cond c.
Proof.
  unfold obs_cond. destruct c as [[n x]|]; simpl; [|reflexivity].
  destruct n as [|a n]; [reflexivity|]. simpl. destruct x as [|[|b t]]; reflexivity.
Qed.

Lemma new_row_key w : wf_key (w_key w) = true -> row_key (new_row w) = w_key w.
Proof.
  intro H. unfold new_row, row_key. destruct (marshal_cond (w_cond w)) as [n b]. simpl.
  apply key_of_cols. exact H.
Qed.

Lemma new_row_ck w : t_ck (new_row w) = cols_of_key (w_key w).
Proof. unfold new_row. destruct (marshal_cond (w_cond w)). reflexivity. Qed.

Lemma new_row_wf w : wf_key (w_key w) = true -> wf_row (new_row w) = true.
Proof.
  intro H. unfold wf_row. rewrite (new_row_key w H), H, new_row_ck. apply ck_eqb7_refl.
Qed.

Lemma new_row_obs w : wf_key (w_key w) = true -> row_obs (new_row w) = (w_key w, obs_cond (w_cond w)).
Proof.
  intro H. unfold row_obs. change (key_of_ck (t_ck (new_row w))) with (row_key (new_row w)).
  rewrite (new_row_key w H). f_equal. pose proof (marshal_obs (w_cond w)) as M.
  unfold new_row. destruct (marshal_cond (w_cond w)) as [n b]. exact M.
Qed.

Lemma new_lrow_obs now w :
  wf_key (w_key w) = true -> lrow_obs (new_lrow now w) = (OpWrite, w_key w, obs_cond (w_cond w)).
Proof.
  intro H. pose proof (marshal_obs (w_cond w)) as M. unfold lrow_obs, new_lrow.
  destruct (marshal_cond (w_cond w)) as [n b]. simpl. rewrite (key_of_cols _ H), M. reflexivity.
Qed.

Lemma del_lrow_obs now d : wf_key d = true -> lrow_obs (del_lrow now d) = (OpDelete, d, ([], [])).
Proof. intro H. unfold lrow_obs, del_lrow. simpl. rewrite (key_of_cols _ H). reflexivity. Qed.

Lemma insert_rows_fresh news : forall cur,
  forallb (fun w => wf_key (w_key w)) news = true -> NoDup (map w_key news) ->
  forallb wf_row cur = true ->
  (forall w r, In w news -> In r cur -> row_key r <> w_key w) ->
  insert_rows (map new_row news) cur = Some (cur ++ map new_row news).
Proof.
  induction news as [|w ws IH]; simpl; intros cur Hk Hn Hc Hd.
  - rewrite app_nil_r. reflexivity.
  - apply andb_true_iff in Hk as [Hk Hks]. inversion Hn as [|? ? Hnin Hn']; subst.
    replace (existsb (fun x => ck_eqb6 (t_ck x) (t_ck (new_row w))) cur) with false.
    + rewrite IH; auto.
      * rewrite <- app_assoc. reflexivity.
      * rewrite forallb_app, Hc. simpl. rewrite (new_row_wf w Hk). reflexivity.
      * intros w' r Hw' Hr. apply in_app_iff in Hr as [Hr|[<-|[]]].
        -- apply Hd; auto.
        -- rewrite (new_row_key w Hk). intro E. apply Hnin. rewrite E. apply in_map. exact Hw'.
    + symmetry. apply not_true_iff_false. intro Hx. apply existsb_exists in Hx as (x & Hx & E).
      rewrite forallb_forall in Hc. destruct (wf_row_inv x (Hc x Hx)) as [Hwx Hcx].
      rewrite <- Hcx, new_row_ck in E. apply cols_inj6 in E; auto.
      exact (Hd w x (or_introl eq_refl) Hx E).
Qed.

Lemma lock_keys_empty dels wrs : make_lock_keys dels wrs = [] -> dels = [] /\ wrs = [].
Proof.
  unfold make_lock_keys. destruct dels as [|d ds]; [|simpl; discriminate].
  destruct wrs as [|w ws]; [auto | simpl; discriminate].
Qed.

Lemma NoDup_map_on {A B : Type} (f : A -> B) l :
  NoDup l -> (forall a b, In a l -> In b l -> f a = f b -> a = b) -> NoDup (map f l).
Proof.
  induction l as [|x l IH]; simpl; intros Hn Hinj; [constructor|].
  inversion Hn as [|? ? Hx Hn']; subst. constructor.
  - intro H. apply in_map_iff in H as (y & E & Hy). apply Hx.
    rewrite (Hinj x y (or_introl eq_refl) (or_intror Hy) (eq_sym E)). exact Hy.
  - apply IH; auto.
Qed.

Lemma present_key_In ts k : present_key ts k = true <-> In k (map fst ts).
Proof.
  unfold present_key. destruct (lookup k ts) eqn:E.
  - split; [|reflexivity]. intros _. destruct (in_dec (fun a b => match key_eqb a b as x return key_eqb a b = x -> {a = b} + {a <> b} with
       | true => fun H => left (proj1 (key_eqb_eq a b) H) | false => fun H => right (proj1 (key_eqb_neq a b) H) end eq_refl) k (map fst ts)) as [H|H]; [exact H|].
    apply lookup_none_keys in H. congruence.
  - apply lookup_none_keys in E. split; [discriminate | contradiction].
Qed.

(* ---- sql_pure computes the specification ---- *)

Lemma sql_find_lookup_none k rows : sql_find k rows = None <-> lookup k (map row_obs rows) = None.
Proof. rewrite lookup_sql. destruct (sql_find k rows); simpl; split; congruence. Qed.

Theorem sql_options_exact_lemma ondup onmiss dels wrs now v :
  wf_tables v = true -> wf_request dels wrs = true -> trig_sql_ctx ondup wrs v = false ->
  match spec_err ondup onmiss dels wrs (sql_obs_tuples v) with
  | Some e => sql_pure ondup onmiss dels wrs now v = (WErr e, v)
  | None =>
      exists v', sql_pure ondup onmiss dels wrs now v = (WOk, v')
        /\ sql_obs_tuples v' = spec_kept dels (sql_obs_tuples v) ++ spec_new wrs (sql_obs_tuples v)
        /\ sql_obs_log v' = sql_obs_log v
             ++ map (fun d => (OpDelete, d, (@nil N, @nil N))) (filter (present_key (sql_obs_tuples v)) dels)
             ++ spec_wlog wrs (sql_obs_tuples v)
        /\ wf_tables v' = true
  end.
Proof.
  intros Hv Hreq Htrig. pose proof Hv as Hv0.
  unfold wf_tables in Hv. apply andb_true_iff in Hv as [Hrows Hnd]. apply nodup_keys_NoDup in Hnd.
  apply wf_request_inv in Hreq as (Hdk & Hwk & Hdn & Hwn & Hdisj & _).
  destruct v as [rows lg]. unfold sql_obs_tuples, sql_obs_log in *. cbn [tt tl] in *.
  set (ts := map row_obs rows).
  unfold sql_pure, spec_err.
  destruct (is_empty (make_lock_keys dels wrs)) eqn:Ee.
  { assert (make_lock_keys dels wrs = []) as El by (destruct (make_lock_keys dels wrs); [reflexivity|discriminate]).
    apply lock_keys_empty in El as [-> ->]. simpl. eexists. split; [reflexivity|]. cbn [tt tl].
    unfold spec_kept, spec_new, spec_wlog. simpl. rewrite filter_true, !app_nil_r. auto. }
  (* what the SELECT returns, item by item *)
  assert (Hex : forall k, wf_key k = true -> In k (req_keys dels wrs) ->
            assoc (key_string k) (existing_of (mkTab rows lg) (make_lock_keys dels wrs))
            = option_map row_cond (sql_find k rows)).
  { intros k Hk Hin. apply (existing_lookup (mkTab rows lg) dels wrs k Hv0 Hk Hin). }
  set (ex := existing_of (mkTab rows lg) (make_lock_keys dels wrs)) in *.
  unfold plan.
  (* deletes *)
  pose proof (plan_deletes_spec (opt_ignore onmiss) ex now dels ts) as Hpd.
  assert (Hpd_h : forall d, In d dels -> (assoc (key_string d) ex = None <-> lookup d ts = None)).
  { intros d Hd. rewrite forallb_forall in Hdk. rewrite (Hex d (Hdk d Hd)).
    - unfold ts. rewrite <- sql_find_lookup_none. destruct (sql_find d rows); simpl; split; congruence.
    - unfold req_keys. apply in_app_iff. left. exact Hd. }
  specialize (Hpd Hpd_h).
  destruct (plan_deletes (opt_ignore onmiss) ex now dels) as [e|[cs ls]]; [rewrite Hpd; reflexivity|].
  destruct Hpd as (Hsd & Hcs & Hls). rewrite Hsd.
  (* writes *)
  pose proof (plan_writes_spec (opt_ignore ondup) ex now wrs ts) as Hpw.
  assert (Hpw_h : forall w, In w wrs ->
     match assoc (key_string (w_key w)) ex, lookup (w_key w) ts with
     | None, None => True
     | Some c, Some oc => opt_ignore ondup = true -> proto_equal c (w_cond w) = ocond_eqb oc (obs_cond (w_cond w))
     | _, _ => False
     end).
  { intros w Hw. rewrite forallb_forall in Hwk. rewrite (Hex (w_key w) (Hwk w Hw)).
    - unfold ts. rewrite lookup_sql. destruct (sql_find (w_key w) rows) as [r|] eqn:Ef; simpl; [|exact I].
      intro Hig. apply sql_find_some in Ef as [Hr Ek].
      apply (trig_sql_ctx_false ondup wrs (mkTab rows lg) Htrig Hig w r Hw Hr Ek).
    - unfold req_keys. apply in_app_iff. right. apply in_map. exact Hw. }
  specialize (Hpw Hpw_h).
  destruct (plan_writes (opt_ignore ondup) ex now wrs) as [e|[rs lgs]]; [rewrite Hpw; reflexivity|].
  destruct Hpw as (Hsw & Hrs & Hlgs). rewrite Hsw.
  set (news := filter (fun w => negb (present_in ts w)) wrs) in *.
  set (pdels := filter (present_key ts) dels) in *.
  assert (Hnk : forallb (fun w => wf_key (w_key w)) news = true) by (apply forallb_filter_sub; exact Hwk).
  assert (Hpk : forallb wf_key pdels = true) by (apply forallb_filter_sub; exact Hdk).
  rewrite forallb_forall in Hrows.
  (* the DELETE batches *)
  assert (Hck : NoDup (map t_ck rows)).
  { apply (NoDup_map_inv key_of_ck). rewrite map_map. exact Hnd. }
  assert (Hhit : forall r, In r rows -> hit cs r = in_keys (row_key r) dels).
  { intros r Hr. destruct (wf_row_inv r (Hrows r Hr)) as [Hwr Hcr]. apply bool_eq_iff.
    rewrite hit_In, in_keys_In, Hcs. split.
    - intro H. apply in_map_iff in H as (d & E & Hd). apply filter_In in Hd as [Hd _].
      rewrite <- Hcr in E. rewrite forallb_forall in Hdk.
      assert (d = row_key r) as <-; [|exact Hd].
      apply cols_inj6; auto. apply ck_eqb7_6. apply ck_eqb7_eq. exact E.
    - intro H. apply in_map_iff. exists (row_key r). split; [exact Hcr|].
      apply filter_In. split; [exact H|]. apply present_key_In. unfold ts. rewrite map_map.
      apply in_map_iff. exists r. auto. }
  assert (Hgood : good_conds cs rows).
  { repeat split; [| |exact Hck].
    - rewrite Hcs. apply NoDup_map_on; [apply NoDup_filter'; exact Hdn|].
      intros a b Ha Hb E. rewrite forallb_forall in Hpk. apply cols_inj6; auto.
      apply ck_eqb7_6. apply ck_eqb7_eq. exact E.
    - intros c Hc. rewrite Hcs in Hc. apply in_map_iff in Hc as (d & <- & Hd).
      apply filter_In in Hd as [Hd Hp]. unfold present_key, ts in Hp. rewrite lookup_sql in Hp.
      destruct (sql_find d rows) as [r|] eqn:Ef; [|discriminate].
      apply sql_find_some in Ef as [Hr Ek]. destruct (wf_row_inv r (Hrows r Hr)) as [_ Hcr].
      apply in_map_iff. exists r. split; [|exact Hr]. rewrite <- Hcr, Ek. reflexivity. }
  unfold batches at 1. rewrite (pure_delete_chunks batch ltac:(unfold batch; lia) _ cs rows lg _ (le_n _) Hgood).
  set (rows1 := filter (fun r => negb (hit cs r)) rows).
  assert (Hrows1 : rows1 = filter (fun r => negb (in_keys (row_key r) dels)) rows).
  { unfold rows1. apply filter_ext_in'. intros r Hr. rewrite (Hhit r Hr). reflexivity. }
  assert (Hkept : map row_obs rows1 = spec_kept dels ts).
  { rewrite Hrows1. unfold spec_kept, ts. rewrite <- filter_map_comm. reflexivity. }
  (* the INSERT batches *)
  assert (Hins : insert_rows rs rows1 = Some (rows1 ++ rs)).
  { rewrite Hrs. apply insert_rows_fresh; auto.
    - apply NoDup_map_filter. exact Hwn.
    - rewrite forallb_forall. intros r Hr. apply filter_In in Hr as [Hr _]. auto.
    - intros w r Hw Hr E. apply filter_In in Hw as [Hw Hp]. apply filter_In in Hr as [Hr _].
      unfold present_in in Hp. destruct (lookup (w_key w) ts) eqn:El; [discriminate|].
      apply lookup_none_keys in El. apply El. unfold ts. rewrite map_map. apply in_map_iff.
      exists r. split; [exact E | exact Hr]. }
  unfold batches at 1. rewrite (pure_insert_chunks batch ltac:(unfold batch; lia) _ rs rows1 lg _ (le_n _) Hins).
  unfold batches at 1. rewrite (pure_log_chunks batch ltac:(unfold batch; lia) _ (ls ++ lgs) (rows1 ++ rs) lg _ (le_n _)).
  cbn [pure_dml]. eexists. split; [reflexivity|]. cbn [tt tl].
  assert (Hobs_rs : map row_obs rs = spec_new wrs ts).
  { rewrite Hrs, spec_new_present, map_map. apply map_ext_in. intros w Hw. apply new_row_obs.
    rewrite forallb_forall in Hnk. auto. }
  repeat split.
  - rewrite map_app, Hkept, Hobs_rs. reflexivity.
  - rewrite !map_app. f_equal. f_equal.
    + rewrite Hls, map_map. apply map_ext_in. intros d Hd. apply del_lrow_obs.
      rewrite forallb_forall in Hpk. auto.
    + rewrite Hlgs. unfold spec_wlog. rewrite spec_new_present, !map_map. apply map_ext_in.
      intros w Hw. rewrite forallb_forall in Hnk. rewrite (new_lrow_obs now w (Hnk w Hw)). reflexivity.
  - unfold wf_tables. cbn [tt]. apply andb_true_iff. split.
    + rewrite forallb_app. apply andb_true_iff. split.
      * rewrite forallb_forall. intros r Hr. apply filter_In in Hr as [Hr _]. auto.
      * rewrite Hrs, forallb_forall. intros r Hr. apply in_map_iff in Hr as (w & <- & Hw).
        rewrite forallb_forall in Hnk. apply new_row_wf. auto.
    + apply nodup_keys_NoDup. rewrite map_app. apply NoDup_app_intro.
      * apply NoDup_map_filter. exact Hnd.
      * assert (E : map row_key rs = map w_key news).
        { rewrite Hrs, map_map. apply map_ext_in. intros w Hw. apply new_row_key.
          rewrite forallb_forall in Hnk. auto. }
        rewrite E. apply NoDup_map_filter. exact Hwn.
      * intros k Hk1 Hk2. apply in_map_iff in Hk1 as (r & <- & Hr). apply filter_In in Hr as [Hr _].
        rewrite Hrs, map_map in Hk2. apply in_map_iff in Hk2 as (w & E & Hw).
        rewrite forallb_forall in Hnk. rewrite (new_row_key w (Hnk w Hw)) in E.
        apply filter_In in Hw as [Hw Hp]. unfold present_in in Hp.
        destruct (lookup (w_key w) ts) eqn:El; [discriminate|].
        apply lookup_none_keys in El. apply El. unfold ts. rewrite map_map. apply in_map_iff.
        exists r. split; [symmetry; exact E | exact Hr].
Qed.

(* ---- refinement: sqlite's transaction computes what the memory backend computes ---- *)

Lemma dlog_perm dels (ts : list otuple) :
  NoDup dels -> NoDup (map fst ts) ->
  Permutation (spec_dlog dels ts)
              (map (fun d => (OpDelete, d, (@nil N, @nil N))) (filter (present_key ts) dels)).
Proof.
  intros Hd Ht. unfold spec_dlog, spec_deleted.
  match goal with
  | |- Permutation ?a _ =>
      assert (E : a = map (fun d : key => (OpDelete, d, (@nil N, @nil N)))
                          (map fst (filter (fun t : otuple => in_keys (fst t) dels) ts)))
        by (rewrite map_map; reflexivity);
      rewrite E; clear E
  end.
  apply (Permutation_map (fun d : key => (OpDelete, d, (@nil N, @nil N)))). apply NoDup_Permutation.
  - apply (NoDup_map_filter (@fst key ocond)). exact Ht.
  - apply NoDup_filter'. exact Hd.
  - intro k. rewrite filter_In, present_key_In. split.
    + intro H. apply in_map_iff in H as (t & <- & Hf). apply filter_In in Hf as [Hf Hi].
      apply in_keys_In in Hi. split; [exact Hi | apply in_map; exact Hf].
    + intros [H1 H2]. apply in_map_iff in H2 as (t & <- & Hf). apply in_map. apply filter_In.
      split; [exact Hf | apply in_keys_In; exact H1].
Qed.

Theorem sql_refines_memory_pure ondup onmiss dels wrs now v st :
  wf_tables v = true -> wf_store st = true -> sql_obs_tuples v = obs_tuples st ->
  wf_request dels wrs = true ->
  trig_mem_ctx ondup wrs st = false -> trig_sql_ctx ondup wrs v = false ->
  exists r st' v' dl1 dl2 wl,
    mem_write ondup onmiss dels wrs now st = (r, st') /\
    sql_pure ondup onmiss dels wrs now v = (r, v') /\
    sql_obs_tuples v' = obs_tuples st' /\ wf_tables v' = true /\ wf_store st' = true /\
    obs_log st' = obs_log st ++ dl1 ++ wl /\
    sql_obs_log v' = sql_obs_log v ++ dl2 ++ wl /\ Permutation dl1 dl2.
Proof.
  intros Hv Hst Hobs Hreq Htm Hts.
  pose proof (write_options_exact_lemma ondup onmiss dels wrs now st Hst Hreq Htm) as Hm.
  pose proof (sql_options_exact_lemma ondup onmiss dels wrs now v Hv Hreq Hts) as Hs.
  rewrite Hobs in Hs.
  destruct (spec_err ondup onmiss dels wrs (obs_tuples st)) as [e|].
  - exists (WErr e), st, v, [], [], []. rewrite !app_nil_r. repeat split; auto.
  - destruct Hm as (st' & Hm1 & Hm2 & Hm3 & Hm4). destruct Hs as (v' & Hs1 & Hs2 & Hs3 & Hs4).
    exists WOk, st', v'. do 3 eexists. repeat split; eauto.
    + rewrite Hs2, Hm2. reflexivity.
    + apply dlog_perm.
      * apply wf_request_inv in Hreq. tauto.
      * unfold wf_store in Hst. apply andb_true_iff in Hst as [_ Hn]. apply nodup_keys_NoDup in Hn.
        unfold obs_tuples. rewrite map_map. exact Hn.
Qed.

Lemma sql_pure_err ondup onmiss dels wrs now v x :
  fst (sql_pure ondup onmiss dels wrs now v) = WErr x -> sql_pure ondup onmiss dels wrs now v = (WErr x, v).
Proof.
  unfold sql_pure. destruct (is_empty _); [discriminate|].
  destruct (plan _ _ _ _ _ _) as [e|ss]; [simpl; intro H; inversion H; reflexivity|].
  destruct (pure_dml ss v) as [[|e] v']; [discriminate|]. simpl. intro H; inversion H; reflexivity.
Qed.

Section EngineRefinement.
  Variable E : Type.
  Variable committed : E -> tables.
  Variable pending : E -> tables.
  Variable e_begin : E -> E.
  Variable e_apply : (tables -> tables) -> E -> E.
  Variable e_commit : E -> E.
  Variable e_abort : E -> E.
  Hypothesis begin_ok : forall e, committed (e_begin e) = committed e /\ pending (e_begin e) = committed e.
  Hypothesis apply_ok : forall f e, committed (e_apply f e) = committed e /\ pending (e_apply f e) = f (pending e).
  Hypothesis commit_ok : forall e, committed (e_commit e) = pending e.
  Hypothesis abort_ok : forall e, committed (e_abort e) = committed e.

  Lemma sql_write_pure ondup onmiss dels wrs now e r e' tr :
    sql_write E pending e_begin e_apply e_commit e_abort ondup onmiss dels wrs now 0 e = (r, e', tr) ->
    sql_pure ondup onmiss dels wrs now (committed e) = (r, committed e').
  Proof.
    intro H.
    destruct (sql_txn_atomic_lemma E committed pending e_begin e_apply e_commit e_abort
                begin_ok apply_ok commit_ok abort_ok _ _ _ _ _ _ _ _ _ _ H) as (A1 & A2 & A3).
    destruct r as [|x].
    - apply A2. reflexivity.
    - rewrite (A1 ltac:(discriminate)). apply sql_pure_err. symmetry. apply A3. reflexivity.
  Qed.

  (* C12: on well-formed stores and requests, outside the two listed condition-comparison
     defects, sqlite's statement list (run to completion on any atomic engine) returns the same
     result class as the memory backend and leaves the same tuples; the changelogs grow by the
     same write entries and by a permutation of the same delete entries *)
  Theorem sql_refines_memory_lemma ondup onmiss dels wrs now e st r e' tr :
    wf_tables (committed e) = true -> wf_store st = true ->
    sql_obs_tuples (committed e) = obs_tuples st ->
    wf_request dels wrs = true ->
    trig_mem_ctx ondup wrs st = false -> trig_sql_ctx ondup wrs (committed e) = false ->
    sql_write E pending e_begin e_apply e_commit e_abort ondup onmiss dels wrs now 0 e = (r, e', tr) ->
    exists st' dl1 dl2 wl,
      mem_write ondup onmiss dels wrs now st = (r, st') /\
      sql_obs_tuples (committed e') = obs_tuples st' /\
      wf_tables (committed e') = true /\ wf_store st' = true /\
      obs_log st' = obs_log st ++ dl1 ++ wl /\
      sql_obs_log (committed e') = sql_obs_log (committed e) ++ dl2 ++ wl /\ Permutation dl1 dl2.
  Proof.
    intros Hv Hst Hobs Hreq Htm Hts H. apply sql_write_pure in H.
    destruct (sql_refines_memory_pure ondup onmiss dels wrs now (committed e) st Hv Hst Hobs Hreq Htm Hts)
      as (r0 & st' & v' & dl1 & dl2 & wl & Hm & Hs & R1 & R2 & R3 & R4 & R5 & R6).
    rewrite H in Hs. inversion Hs; subst. exists st', dl1, dl2, wl. repeat split; auto.
  Qed.
End EngineRefinement.

(* ---- the deviations of the unchanged code, as witnesses ---- *)

Definition v_c1_nil : tables :=
  snd (sql_pure OError OError [] [mkW k_d1 (Some (b_c1, CNil)) true] 1 empty_tables).

(* the identical request a second time with on_duplicate=ignore: the specification skips the
   item, sqlite reports a condition conflict (the stored context-less condition reads back with
   an empty context, the request carries a nil one); the memory backend accepts it *)
Theorem sql_options_exact_refuted_lemma :
  exists ondup onmiss dels wrs now v st,
    wf_tables v = true /\ wf_store st = true /\ sql_obs_tuples v = obs_tuples st /\
    wf_request dels wrs = true /\
    spec_write ondup onmiss dels wrs (sql_obs_tuples v) = Some (sql_obs_tuples v, [], []) /\
    sql_pure ondup onmiss dels wrs now v = (WErr ECondConflict, v) /\
    mem_write ondup onmiss dels wrs now st = (WOk, st).
Proof.
  exists OIgnore, OError, [], [mkW k_d1 (Some (b_c1, CNil)) true], 2, v_c1_nil, st_c1_nil.
  vm_compute. repeat split; reflexivity.
Qed.

(* below the command layer (which rejects such requests) a repeated key makes the backends
   disagree: memory applies the first occurrence, sqlite fails on its primary key *)
Theorem sql_refines_memory_refuted_repeated_key_lemma :
  exists dels wrs st' v,
    nodup_keys (req_keys dels wrs) = false /\
    mem_write OError OError dels wrs 1 empty_state = (WOk, st') /\ length (tuples st') = 1%nat /\
    sql_pure OError OError dels wrs 1 empty_tables = (WErr EConflictInsert, v) /\ v = empty_tables.
Proof.
  exists [], [mkW k_d1 None true; mkW k_d1 None true]. eexists. eexists.
  vm_compute. repeat split; reflexivity.
Qed.

Example sql_refines_memory_nonvacuous :
  wf_tables v_c1_nil = true /\ wf_store st_c1_nil = true /\ sql_obs_tuples v_c1_nil = obs_tuples st_c1_nil /\
  wf_request [k_d1] [mkW k_d2 (Some (b_c1, CStruct [120; 61; 49])) true] = true /\
  trig_mem_ctx OIgnore [mkW k_d2 (Some (b_c1, CStruct [120; 61; 49])) true] st_c1_nil = false /\
  trig_sql_ctx OIgnore [mkW k_d2 (Some (b_c1, CStruct [120; 61; 49])) true] v_c1_nil = false /\
  fst (sql_pure OIgnore OError [k_d1] [mkW k_d2 (Some (b_c1, CStruct [120; 61; 49])) true] 2 v_c1_nil) = WOk.
Proof. vm_compute. repeat split; reflexivity. Qed.
