(* C31 — assertions are stored and returned verbatim per (store, model).

   Transcribes
     pkg/storage/memory/memory.go   WriteAssertions / ReadAssertions
         (one Go map keyed by fmt.Sprintf("%s|%s", store, modelID))
     pkg/storage/sqlite/sqlite.go   WriteAssertions / ReadAssertions
         (table assertion(store, authorization_model_id, assertions BLOB), primary key
          (store, authorization_model_id), INSERT .. ON CONFLICT DO UPDATE, proto marshalling)
     pkg/server/assertions.go + pkg/server/commands/{write,read}_assertions.go
         (request validation, model resolution, size limit, tuple validation, then the backend)

   Definitions only; the proofs are in Store/AssertionsProofs.v. *)
From OFGA Require Import Base.Bytes.

(* One assertion as the backends see it: an opaque payload (canonical encoding of the proto
   message: tuple key, expectation, contextual tuples, context) plus the three attributes the
   command layer looks at before storing it. *)
Record asrt := mkAsrt {
  a_enc   : bytes;   (* the message itself; the backends never look inside *)
  a_size  : N;       (* proto.Size(assertion) *)
  a_wf    : bool;    (* passes req.Validate(): tuple key present and well-formed, <= 20 contextual tuples *)
  a_valid : bool     (* tuple key / contextual tuples valid against the model's typesystem *)
}.

Definition asrt_eqb (a b : asrt) : bool :=
  beqb (a_enc a) (a_enc b) && N.eqb (a_size a) (a_size b)
  && Bool.eqb (a_wf a) (a_wf b) && Bool.eqb (a_valid a) (a_valid b).

Fixpoint asrts_eqb (l l' : list asrt) : bool :=
  match l, l' with
  | [], [] => true
  | a :: r, b :: r' => asrt_eqb a b && asrts_eqb r r'
  | _, _ => false
  end.

(* ---------------------------------------------------------------------------------------- *)
(* Go map / SQL table with a unique key, as an association list                             *)

Section Assoc.
  Variables K V : Type.
  Variable keqb : K -> K -> bool.

  Fixpoint alookup (k : K) (l : list (K * V)) : option V :=
    match l with
    | [] => None
    | (k', v) :: r => if keqb k' k then Some v else alookup k r
    end.

  (* m[k] = v  /  INSERT .. ON CONFLICT (key) DO UPDATE SET v *)
  Fixpoint aupsert (k : K) (v : V) (l : list (K * V)) : list (K * V) :=
    match l with
    | [] => [(k, v)]
    | (k', v') :: r => if keqb k' k then (k, v) :: r else (k', v') :: aupsert k v r
    end.
End Assoc.
Arguments alookup {K V} keqb k l.
Arguments aupsert {K V} keqb k v l.

Definition key := (bytes * bytes)%type.   (* (store id, model id) *)
Definition key_eqb (k k' : key) : bool := beqb (fst k) (fst k') && beqb (snd k) (snd k').

(* ---------------------------------------------------------------------------------------- *)
(* memory backend                                                                            *)

(* assertionsID := fmt.Sprintf("%s|%s", store, modelID) *)
Definition mem_key (s m : bytes) : bytes := s ++ c_pipe :: m.

Definition mem_state := list (bytes * list asrt).
Definition mem_init : mem_state := [].

Definition mem_write (st : mem_state) (s m : bytes) (l : list asrt) : mem_state :=
  aupsert beqb (mem_key s m) l st.

(* a missing map entry is returned as the empty list; the read never fails *)
Definition mem_read (st : mem_state) (s m : bytes) : option (list asrt) :=
  match alookup beqb (mem_key s m) st with
  | Some l => Some l
  | None => Some []
  end.

(* ---------------------------------------------------------------------------------------- *)
(* sqlite backend: rows keyed by the column pair; the list is stored proto-marshalled.      *)

Section Sql.
  Variable blob : Type.
  Variable marshal : list asrt -> blob.              (* proto.Marshal(&Assertions{...})     *)
  Variable unmarshal : blob -> option (list asrt).   (* proto.Unmarshal; None = error       *)

  Definition sql_state := list (key * blob).
  Definition sql_init : sql_state := [].

  Definition sql_write (st : sql_state) (s m : bytes) (l : list asrt) : sql_state :=
    aupsert key_eqb (s, m) (marshal l) st.

  (* sql.ErrNoRows -> empty list; unmarshal error -> error (None) *)
  Definition sql_read (st : sql_state) (s m : bytes) : option (list asrt) :=
    match alookup key_eqb (s, m) st with
    | None => Some []
    | Some b => unmarshal b
    end.
End Sql.

(* ---------------------------------------------------------------------------------------- *)
(* A backend, its histories at the datastore interface (storage.AssertionsBackend)           *)

Record backend := mkBackend {
  b_state : Type;
  b_init  : b_state;
  b_write : b_state -> bytes -> bytes -> list asrt -> b_state;
  b_read  : b_state -> bytes -> bytes -> option (list asrt)
}.

Definition mem_backend : backend := mkBackend mem_state mem_init mem_write mem_read.

Definition sql_backend (blob : Type) (marshal : list asrt -> blob)
           (unmarshal : blob -> option (list asrt)) : backend :=
  mkBackend (sql_state blob) (sql_init blob) (sql_write blob marshal) (sql_read blob unmarshal).

(* the instance the oracle runs: the blob is the list itself *)
Definition sql_backend_id : backend := sql_backend (list asrt) (fun l => l) (fun b => Some b).

(* ---------------------------------------------------------------------------------------- *)
(* The specification: a total function (store, model) -> list.  It has the shape of a         *)
(* backend, so the same d_step / srv_step run on it; the proofs show that every law-abiding   *)
(* backend produces the same trace as this one on every history.                              *)

Definition amap := key -> list asrt.
Definition aempty : amap := fun _ => [].
Definition aupd (f : amap) (k : key) (l : list asrt) : amap :=
  fun k' => if key_eqb k k' then l else f k'.

Definition abs_backend : backend :=
  mkBackend amap aempty (fun f s m l => aupd f (s, m) l) (fun f s m => Some (f (s, m))).

Inductive dop :=
| DWrite (s m : bytes) (l : list asrt)
| DRead (s m : bytes).

Inductive dout :=
| DOk
| DList (l : list asrt)
| DErr.

Definition d_step (B : backend) (st : b_state B) (o : dop) : b_state B * dout :=
  match o with
  | DWrite s m l => (b_write B st s m l, DOk)
  | DRead s m => (st, match b_read B st s m with Some l => DList l | None => DErr end)
  end.

Fixpoint d_run (B : backend) (st : b_state B) (h : list dop) : b_state B :=
  match h with
  | [] => st
  | o :: r => d_run B (fst (d_step B st o)) r
  end.

(* the outputs of a history, in order *)
Fixpoint d_trace (B : backend) (st : b_state B) (h : list dop) : list (dop * dout) :=
  match h with
  | [] => []
  | o :: r => let (st', out) := d_step B st o in (o, out) :: d_trace B st' r
  end.

Definition dop_key (o : dop) : key :=
  match o with DWrite s m _ => (s, m) | DRead s m => (s, m) end.

(* The hypothesis under which memory's concatenated key is injective: no '|' in the STORE id
   (the model id may contain anything: the key is cut at the first '|'). *)
Definition store_ok (s : bytes) : bool := negb (mem c_pipe s).
Definition dops_store_ok (h : list dop) : bool := forallb (fun o => store_ok (fst (dop_key o))) h.

(* ---------------------------------------------------------------------------------------- *)
(* The property itself, as a predicate on an observed trace (ops with their outputs).  This   *)
(* is what the oracle evaluates on the IMPLEMENTATION's observations, and what the theorems   *)
(* show for the model's own trace of every history.                                           *)

(* the list a read of k must return after the (reversed) prefix [rev_prefix]: the most recent
   accepted write to k, the empty list if there is none *)
Fixpoint d_expected (rev_prefix : list (dop * dout)) (k : key) : list asrt :=
  match rev_prefix with
  | [] => []
  | (DWrite s m l, DOk) :: r => if key_eqb (s, m) k then l else d_expected r k
  | _ :: r => d_expected r k
  end.

Fixpoint d_trace_ok_from (rev_prefix : list (dop * dout)) (t : list (dop * dout)) : bool :=
  match t with
  | [] => true
  | (o, out) :: r =>
    (match o, out with
     | DRead s m, DList l => asrts_eqb l (d_expected rev_prefix (s, m))
     | DRead _ _, _ => false
     | DWrite _ _ _, DOk => true
     | DWrite _ _ _, _ => false
     end) && d_trace_ok_from ((o, out) :: rev_prefix) r
  end.

Definition d_trace_ok (t : list (dop * dout)) : bool := d_trace_ok_from [] t.

(* ---------------------------------------------------------------------------------------- *)
(* Server / command layer on top of a backend                                                *)

(* ^[ABCDEFGHJKMNPQRSTVWXYZ0-9]{26}$ — the pattern of store_id and authorization_model_id in
   Write/ReadAssertionsRequest.Validate() *)
Definition is_ulid_char (c : N) : bool :=
  ((48 <=? c) && (c <=? 57))                       (* 0-9 *)
  || ((65 <=? c) && (c <=? 90)                     (* A-Z without I L O U *)
      && negb (N.eqb c 73) && negb (N.eqb c 76) && negb (N.eqb c 79) && negb (N.eqb c 85)).

Definition is_ulid (s : bytes) : bool := Nat.eqb (length s) 26 && forallb is_ulid_char s.

Definition max_assertions : nat := 100.            (* WriteAssertionsRequest: max_items *)
Definition max_assertion_bytes : N := 64000.       (* DefaultMaxAssertionSizeInBytes    *)

Definition total_size (l : list asrt) : N := fold_right (fun a acc => a_size a + acc) 0 l.

Inductive serr :=
| EInvalidArgument      (* req.Validate() failed *)
| EModelNotFound        (* resolveTypesystem / ReadAuthorizationModel: no such model in the store *)
| ETooLarge             (* ExceededEntityLimit("bytes") *)
| EValidation           (* assertion tuple key / contextual tuple rejected by the typesystem *)
| EInternal.            (* backend error *)

Inductive sop :=
| SAddModel (s m : bytes)                 (* a model with this id now exists in store s *)
| SWrite (s m : bytes) (l : list asrt)    (* Server.WriteAssertions *)
| SRead (s m : bytes).                    (* Server.ReadAssertions  *)

Inductive sout :=
| SOk
| SList (l : list asrt)
| SErr (e : serr).

Record srv_state (B : backend) := mkSrv {
  sv_models : list key;            (* authorization models that exist, per store *)
  sv_back   : b_state B
}.
Arguments mkSrv {B} _ _.
Arguments sv_models {B} _.
Arguments sv_back {B} _.

Definition srv_init (B : backend) : srv_state B := mkSrv [] (b_init B).

Definition model_exists (ms : list key) (s m : bytes) : bool := existsb (key_eqb (s, m)) ms.

Definition srv_step (B : backend) (st : srv_state B) (o : sop) : srv_state B * sout :=
  match o with
  | SAddModel s m => (mkSrv ((s, m) :: sv_models st) (sv_back st), SOk)
  | SWrite s m l =>
    (* 1. req.Validate() *)
    if negb (is_ulid s && is_ulid m && (length l <=? max_assertions)%nat && forallb a_wf l)
    then (st, SErr EInvalidArgument)
    (* 2. resolveTypesystem, and ReadAuthorizationModel in the command *)
    else if negb (model_exists (sv_models st) s m) then (st, SErr EModelNotFound)
    (* 3. sum of proto.Size over the assertions *)
    else if max_assertion_bytes <? total_size l then (st, SErr ETooLarge)
    (* 4. ValidateUserObjectRelation / ValidateTupleForWrite *)
    else if negb (forallb a_valid l) then (st, SErr EValidation)
    (* 5. datastore.WriteAssertions *)
    else (mkSrv (sv_models st) (b_write B (sv_back st) s m l), SOk)
  | SRead s m =>
    if negb (is_ulid s && is_ulid m) then (st, SErr EInvalidArgument)
    else if negb (model_exists (sv_models st) s m) then (st, SErr EModelNotFound)
    else match b_read B (sv_back st) s m with
         | Some l => (st, SList l)
         | None => (st, SErr EInternal)
         end
  end.

Fixpoint srv_run (B : backend) (st : srv_state B) (h : list sop) : srv_state B :=
  match h with
  | [] => st
  | o :: r => srv_run B (fst (srv_step B st o)) r
  end.

Fixpoint srv_trace (B : backend) (st : srv_state B) (h : list sop) : list (sop * sout) :=
  match h with
  | [] => []
  | o :: r => let (st', out) := srv_step B st o in (o, out) :: srv_trace B st' r
  end.

(* the property predicate on a server-level trace: a read that is answered returns the most
   recent ACCEPTED write of the same (store, model), or [] *)
Fixpoint s_expected (rev_prefix : list (sop * sout)) (k : key) : list asrt :=
  match rev_prefix with
  | [] => []
  | (SWrite s m l, SOk) :: r => if key_eqb (s, m) k then l else s_expected r k
  | _ :: r => s_expected r k
  end.

Fixpoint s_trace_ok_from (rev_prefix : list (sop * sout)) (t : list (sop * sout)) : bool :=
  match t with
  | [] => true
  | (o, out) :: r =>
    (match o, out with
     | SRead s m, SList l => asrts_eqb l (s_expected rev_prefix (s, m))
     | _, _ => true
     end) && s_trace_ok_from ((o, out) :: rev_prefix) r
  end.

Definition s_trace_ok (t : list (sop * sout)) : bool := s_trace_ok_from [] t.

(* entry points of the oracle *)
Definition mem_d_trace (h : list dop) := d_trace mem_backend mem_init h.
Definition sql_d_trace (h : list dop) := d_trace sql_backend_id (b_init sql_backend_id) h.
Definition mem_s_trace (h : list sop) := srv_trace mem_backend (srv_init mem_backend) h.
Definition sql_s_trace (h : list sop) := srv_trace sql_backend_id (srv_init sql_backend_id) h.

(* trigger flag of the memory key collision: two operations of the history address different
   (store, model) pairs with the same concatenated key *)
Definition keys_collide (k k' : key) : bool :=
  negb (key_eqb k k') && beqb (mem_key (fst k) (snd k)) (mem_key (fst k') (snd k')).

Definition pipe_collision (h : list dop) : bool :=
  existsb (fun o => existsb (fun o' => keys_collide (dop_key o) (dop_key o')) h) h.
