(* Proofs about Store/Paging.v (C14). *)
From OFGA Require Import Store.Paging.
From Coq Require Import Lia ZArith Sorting.Sorted Sorting.Permutation.
Open Scope N_scope.

(* ------------------------------------------------------------------------------------------ *)
(* decimal numerals: atoi (itoa z) = z *)

Lemma parse_digits_fold s : forall a, forallb is_digit s = true ->
  parse_digits a s = Some (fold_left dstep s a).
Proof.
  induction s as [|c s IH]; simpl; intros a H; [reflexivity|].
  apply andb_true_iff in H as [H1 H2]. rewrite H1. apply IH. exact H2.
Qed.

Lemma digit_char n : is_digit (48 + n mod 10) = true.
Proof.
  unfold is_digit. pose proof (N.mod_upper_bound n 10 ltac:(discriminate)) as Hm.
  apply andb_true_iff. split; apply N.leb_le; generalize dependent (n mod 10); intros; lia.
Qed.

Lemma lsd_digits f : forall n, forallb is_digit (lsd f n) = true.
Proof.
  induction f as [|f IH]; intro n; cbn [lsd forallb]; [reflexivity|].
  rewrite digit_char. cbn [andb]. destruct (n <? 10); [reflexivity|apply IH].
Qed.

Definition dval (ds : bytes) : N := fold_right (fun c acc => dstep acc c) 0 ds.

Lemma dstep_digit a d : dstep a (48 + d) = a * 10 + d.
Proof. unfold dstep. lia. Qed.

Lemma dval_cons c r : dval (c :: r) = dstep (dval r) c.
Proof. reflexivity. Qed.

Lemma lsd_step f n :
  lsd (S f) n = (48 + n mod 10) :: (if n <? 10 then [] else lsd f (n / 10)).
Proof. reflexivity. Qed.

Lemma lsd_val f : forall n, n < 2 ^ N.of_nat (S f) -> dval (lsd (S f) n) = n.
Proof.
  induction f as [|f IH]; intros n Hn.
  - change (2 ^ N.of_nat 1) with 2 in Hn.
    assert (Hm : n mod 10 = n) by (apply N.mod_small; lia).
    rewrite lsd_step, dval_cons, dstep_digit, Hm.
    destruct (n <? 10); cbn [lsd]; change (dval []) with 0; lia.
  - rewrite lsd_step, dval_cons, dstep_digit. destruct (n <? 10) eqn:E.
    + apply N.ltb_lt in E.
      assert (Hm : n mod 10 = n) by (apply N.mod_small; lia).
      rewrite Hm. change (dval []) with 0. lia.
    + apply N.ltb_ge in E. rewrite IH.
      * pose proof (N.div_mod' n 10) as Hdm.
        generalize dependent (n mod 10). generalize dependent (n / 10). intros. lia.
      * rewrite (Nat2N.inj_succ (S f)), N.pow_succ_r' in Hn.
        apply N.div_lt_upper_bound; [discriminate|]. lia.
Qed.

Lemma log2_fuel n : n < 2 ^ N.of_nat (S (N.to_nat (N.log2 n))).
Proof.
  rewrite Nat2N.inj_succ, N2Nat.id.
  destruct n as [|p]; [reflexivity|].
  apply N.log2_spec. reflexivity.
Qed.

Lemma parse_itoa_N n : parse_digits 0 (itoa_N n) = Some n.
Proof.
  unfold itoa_N. rewrite parse_digits_fold.
  - f_equal. transitivity (dval (lsd (S (N.to_nat (N.log2 n))) n)); [|apply lsd_val, log2_fuel].
    unfold dval. set (L := lsd (S (N.to_nat (N.log2 n))) n).
    rewrite <- (rev_involutive L) at 2. rewrite fold_left_rev_right. reflexivity.
  - apply forallb_forall. intros x Hx. apply in_rev in Hx.
    pose proof (lsd_digits (S (N.to_nat (N.log2 n))) n) as Hd.
    rewrite forallb_forall in Hd. apply Hd. exact Hx.
Qed.

Lemma itoa_N_shape n : exists c r, itoa_N n = c :: r /\ is_digit c = true.
Proof.
  unfold itoa_N. remember (S (N.to_nat (N.log2 n))) as f.
  pose proof (lsd_digits f n) as Hd.
  assert (Hne : lsd f n <> []) by (subst f; simpl; discriminate).
  destruct (rev (lsd f n)) as [|c r] eqn:E.
  - apply (f_equal (@rev N)) in E. rewrite rev_involutive in E. simpl in E. contradiction.
  - exists c, r. split; [reflexivity|].
    rewrite forallb_forall in Hd. apply Hd. apply in_rev. rewrite E. left. reflexivity.
Qed.

Lemma itoa_N_nonempty n : itoa_N n <> [].
Proof. destruct (itoa_N_shape n) as (c & r & E & _). rewrite E. discriminate. Qed.

Lemma digit_not_sign c : is_digit c = true -> c <> 43 /\ c <> 45.
Proof.
  unfold is_digit. intro H. apply andb_true_iff in H as [H1 H2].
  apply N.leb_le in H1. apply N.leb_le in H2. lia.
Qed.

Lemma atoi_itoa_nonneg n : n < two63 -> atoi (itoa (Z.of_N n)) = Some (Z.of_N n).
Proof.
  intro Hn. assert (E : itoa (Z.of_N n) = itoa_N n).
  { destruct n; simpl; reflexivity. }
  rewrite E. destruct (itoa_N_shape n) as (c & r & Es & Hc).
  destruct (digit_not_sign c Hc) as [H43 H45].
  pose proof (parse_itoa_N n) as Hp. rewrite Es in Hp.
  unfold atoi. rewrite Es.
  apply N.eqb_neq in H43. apply N.eqb_neq in H45. rewrite H43, H45.
  rewrite Hp. apply N.ltb_lt in Hn. rewrite Hn. reflexivity.
Qed.

Lemma atoi_itoa_nat k : (Z.of_nat k < 9223372036854775808)%Z ->
  atoi (itoa (Z.of_nat k)) = Some (Z.of_nat k).
Proof.
  intro H. rewrite <- (nat_N_Z k). apply atoi_itoa_nonneg. unfold two63. lia.
Qed.

Lemma itoa_nat_shape k : exists c r, itoa (Z.of_nat k) = c :: r /\ forallb is_digit (c :: r) = true.
Proof.
  assert (E : itoa (Z.of_nat k) = itoa_N (N.of_nat k)).
  { rewrite <- (nat_N_Z k). destruct (N.of_nat k); reflexivity. }
  rewrite E. unfold itoa_N.
  assert (Hd : forallb is_digit (rev (lsd (S (N.to_nat (N.log2 (N.of_nat k)))) (N.of_nat k))) = true).
  { apply forallb_forall. intros x Hx. apply in_rev in Hx.
    pose proof (lsd_digits (S (N.to_nat (N.log2 (N.of_nat k)))) (N.of_nat k)) as Hd.
    rewrite forallb_forall in Hd. apply Hd. exact Hx. }
  pose proof (itoa_N_nonempty (N.of_nat k)) as Hne. unfold itoa_N in Hne.
  destruct (rev (lsd (S (N.to_nat (N.log2 (N.of_nat k)))) (N.of_nat k))) as [|c r]; [contradiction|].
  exists c, r. split; [reflexivity|exact Hd].
Qed.

Lemma digits_no_pipe s : forallb is_digit s = true -> mem c_pipe s = false.
Proof.
  induction s as [|c s IH]; simpl; intro H; [reflexivity|].
  apply andb_true_iff in H as [H1 H2]. rewrite (IH H2).
  unfold is_digit in H1. apply andb_true_iff in H1 as [_ H1]. apply N.leb_le in H1.
  assert (c =? c_pipe = false) by (apply N.eqb_neq; unfold c_pipe; lia).
  rewrite H. reflexivity.
Qed.

Lemma wrap64_small z : (0 <= z < 9223372036854775808)%Z -> wrap64 z = z.
Proof.
  intro H. unfold wrap64. rewrite Z.mod_small; lia.
Qed.

(* ------------------------------------------------------------------------------------------ *)
(* the byte order is a total order *)

Lemma ble_refl a : ble a a = true.
Proof.
  induction a as [|x a IH]; simpl; [reflexivity|]. rewrite N.ltb_irrefl. exact IH.
Qed.

Lemma ble_total a : forall b, ble a b = true \/ ble b a = true.
Proof.
  induction a as [|x a IH]; intros [|y b]; simpl; auto.
  destruct (x <? y) eqn:E1; [auto|]. destruct (y <? x) eqn:E2; [auto|]. apply IH.
Qed.

Lemma ble_antisym a : forall b, ble a b = true -> ble b a = true -> a = b.
Proof.
  induction a as [|x a IH]; intros [|y b]; simpl; intros H1 H2; try reflexivity; try discriminate.
  destruct (x <? y) eqn:E1; destruct (y <? x) eqn:E2; try discriminate.
  - apply N.ltb_lt in E1. apply N.ltb_lt in E2. lia.
  - apply N.ltb_ge in E1. apply N.ltb_ge in E2. assert (x = y) by lia. subst. f_equal. apply IH; assumption.
Qed.

Lemma ble_trans a : forall b c, ble a b = true -> ble b c = true -> ble a c = true.
Proof.
  induction a as [|x a IH]; intros [|y b] [|z c]; simpl; intros H1 H2;
    try reflexivity; try discriminate.
  destruct (x <? y) eqn:E1; destruct (y <? z) eqn:E2;
    destruct (x <? z) eqn:E3; try reflexivity;
    destruct (y <? x) eqn:E4; try discriminate;
    destruct (z <? y) eqn:E5; try discriminate;
    destruct (z <? x) eqn:E6;
    repeat match goal with
           | H : (_ <? _) = true |- _ => apply N.ltb_lt in H
           | H : (_ <? _) = false |- _ => apply N.ltb_ge in H
           end; try lia.
  eapply IH; eassumption.
Qed.

Lemma desc_refl a : desc a a = true. Proof. apply ble_refl. Qed.
Lemma desc_total a b : desc a b = true \/ desc b a = true.
Proof. unfold desc. destruct (ble_total a b); auto. Qed.
Lemma desc_antisym a b : desc a b = true -> desc b a = true -> a = b.
Proof. unfold desc. intros. apply ble_antisym; assumption. Qed.
Lemma desc_trans a b c : desc a b = true -> desc b c = true -> desc a c = true.
Proof. unfold desc. intros. eapply ble_trans; eassumption. Qed.

Lemma memb_In k ks : memb k ks = true <-> In k ks.
Proof.
  induction ks as [|x r IH]; simpl; [split; [discriminate|tauto]|].
  rewrite orb_true_iff, beqb_eq, IH. split; intros [H|H]; auto.
Qed.

Lemma nodupb_NoDup ks : nodupb ks = true <-> NoDup ks.
Proof.
  induction ks as [|k r IH]; simpl.
  - split; [constructor|reflexivity].
  - rewrite andb_true_iff, negb_true_iff, IH. split.
    + intros [H1 H2]. constructor; [|exact H2]. intro Hin. apply memb_In in Hin. congruence.
    + intro H. inversion H as [|? ? Hn Hd]; subst. split; [|exact Hd].
      destruct (memb k r) eqn:E; [|reflexivity]. apply memb_In in E. contradiction.
Qed.

(* ------------------------------------------------------------------------------------------ *)
(* sorting and range filters over a total order on keys *)

Section Ordered.
  Variable le : bytes -> bytes -> bool.
  Hypothesis le_refl : forall a, le a a = true.
  Hypothesis le_total : forall a b, le a b = true \/ le b a = true.
  Hypothesis le_antisym : forall a b, le a b = true -> le b a = true -> a = b.
  Hypothesis le_trans : forall a b c, le a b = true -> le b c = true -> le a c = true.

  Section Keyed.
    Context {X : Type} (kf : X -> bytes).
    Definition R (x y : X) : Prop := le (kf x) (kf y) = true.

    Lemma filter_all_true (p : X -> bool) t : Forall (fun x => p x = true) t -> filter p t = t.
    Proof.
      induction t as [|a t IH]; simpl; intro H; [reflexivity|].
      inversion H; subst. rewrite H2. f_equal. apply IH. assumption.
    Qed.

    Lemma filter_ge_skipn t : StronglySorted R t -> NoDup (map kf t) ->
      forall k r, nth_error t k = Some r ->
      filter (fun x => le (kf r) (kf x)) t = skipn k t.
    Proof.
      induction t as [|a t IH]; intros Hs Hn k r Hk.
      - destruct k; discriminate.
      - inversion Hs as [|? ? Hs' Hall]; subst. simpl in Hn. inversion Hn as [|? ? Hni Hn']; subst.
        destruct k as [|k]; simpl in Hk.
        + inversion Hk; subst. simpl. rewrite le_refl. f_equal.
          apply filter_all_true. exact Hall.
        + simpl. assert (Hin : In r t) by (eapply nth_error_In; eassumption).
          destruct (le (kf r) (kf a)) eqn:E.
          * exfalso. apply Hni. rewrite Forall_forall in Hall. specialize (Hall r Hin).
            unfold R in Hall. rewrite (le_antisym _ _ Hall E). apply in_map. exact Hin.
          * apply IH; assumption.
    Qed.

    Lemma filter_gt_skipn t : StronglySorted R t -> NoDup (map kf t) ->
      forall k r, nth_error t k = Some r ->
      filter (fun x => negb (le (kf x) (kf r))) t = skipn (S k) t.
    Proof.
      induction t as [|a t IH]; intros Hs Hn k r Hk.
      - destruct k; discriminate.
      - inversion Hs as [|? ? Hs' Hall]; subst. simpl in Hn. inversion Hn as [|? ? Hni Hn']; subst.
        destruct k as [|k]; simpl in Hk.
        + inversion Hk; subst. cbn [filter]. rewrite le_refl. cbn [negb skipn].
          apply filter_all_true. rewrite Forall_forall in *. intros x Hx.
          destruct (le (kf x) (kf r)) eqn:E; [|reflexivity].
          exfalso. apply Hni. specialize (Hall x Hx). unfold R in Hall.
          rewrite (le_antisym _ _ Hall E). apply in_map. exact Hx.
        + assert (Hin : In r t) by (eapply nth_error_In; eassumption).
          cbn [filter]. rewrite Forall_forall in Hall. specialize (Hall r Hin). unfold R in Hall.
          rewrite Hall. cbn [negb]. change (skipn (S (S k)) (a :: t)) with (skipn (S k) t).
          apply IH; assumption.
    Qed.
  End Keyed.

  Section Rows.
    Context {A : Type}.
    Notation row := (bytes * A)%type.
    Notation Rr := (@R row fst).

    Lemma insert_perm (r : row) l : Permutation (insert le r l) (r :: l).
    Proof.
      induction l as [|x t IH]; simpl; [reflexivity|].
      destruct (le (fst r) (fst x)); [reflexivity|].
      rewrite IH. apply perm_swap.
    Qed.

    Lemma isort_perm (l : list row) : Permutation (isort le l) l.
    Proof.
      induction l as [|r t IH]; simpl; [reflexivity|].
      rewrite insert_perm. constructor. exact IH.
    Qed.

    Lemma insert_sorted (r : row) l : StronglySorted Rr l -> StronglySorted Rr (insert le r l).
    Proof.
      induction l as [|x t IH]; simpl; intro Hs.
      - constructor; constructor.
      - inversion Hs as [|? ? Hs' Hall]; subst. destruct (le (fst r) (fst x)) eqn:E.
        + constructor; [exact Hs|]. constructor; [exact E|].
          rewrite Forall_forall in *. intros y Hy. unfold R. eapply le_trans; [exact E|]. apply Hall. exact Hy.
        + constructor; [apply IH; exact Hs'|].
          assert (Hxr : le (fst x) (fst r) = true) by (destruct (le_total (fst x) (fst r)); congruence).
          rewrite Forall_forall in *. intros y Hy.
          apply (Permutation_in _ (insert_perm r t)) in Hy. destruct Hy as [<-|Hy]; [exact Hxr|].
          apply Hall. exact Hy.
    Qed.

    Lemma isort_sorted (l : list row) : StronglySorted Rr (isort le l).
    Proof.
      induction l as [|r t IH]; simpl; [constructor|]. apply insert_sorted. exact IH.
    Qed.

    Lemma isort_id (l : list row) : StronglySorted Rr l -> isort le l = l.
    Proof.
      induction l as [|r t IH]; simpl; intro Hs; [reflexivity|].
      inversion Hs as [|? ? Hs' Hall]; subst. rewrite (IH Hs').
      destruct t as [|x t']; [reflexivity|]. simpl.
      inversion Hall; subst. unfold R in H1. rewrite H1. reflexivity.
    Qed.

    Lemma isort_nodup (l : list row) : NoDup (map fst l) -> NoDup (map fst (isort le l)).
    Proof.
      intro H. eapply Permutation_NoDup; [|exact H].
      apply Permutation_map. symmetry. apply isort_perm.
    Qed.

    Lemma isort_length (l : list row) : length (isort le l) = length l.
    Proof. apply Permutation_length. apply isort_perm. Qed.
  End Rows.
End Ordered.

(* ------------------------------------------------------------------------------------------ *)
(* following tokens: two generic induction schemes (strong induction on the remaining length) *)

Lemma pages_items_cons {A} (items : list A) t ps :
  pages_items ((items, t) :: ps) = items ++ pages_items ps.
Proof. reflexivity. Qed.

Lemma skipn_add {A} (l : list A) : forall k s, skipn (k + s) l = skipn s (skipn k l).
Proof.
  induction l as [|x l IH]; intros k s.
  - rewrite !skipn_nil. reflexivity.
  - destruct k as [|k]; [reflexivity|]. simpl. apply IH.
Qed.

Lemma firstn_skipn_add {A} (l : list A) k s : firstn s (skipn k l) ++ skipn (k + s) l = skipn k l.
Proof.
  rewrite skipn_add. apply firstn_skipn.
Qed.

Section FollowGeneric.
  Context {A : Type} (l : list A) (size : nat) (step : bytes -> outcome A) (tk : nat -> bytes).
  Hypothesis Hsize : (0 < size)%nat.
  Hypothesis Htk : forall k, (0 < k)%nat -> tk k <> [].
  Hypothesis Hstep : forall k, (k < length l \/ k = 0)%nat ->
    step (tk k) = if (k + size <? length l)%nat
                  then Page (firstn size (skipn k l)) (tk (k + size))
                  else Page (skipn k l) [].

  Lemma follow_generic : forall fuel k, (k < length l \/ k = 0)%nat -> (length l - k < fuel)%nat ->
    exists ps, follow fuel step (tk k) = (ps, EndMarker)
               /\ pages_items ps = skipn k l
               /\ Forall (fun p => (length (fst p) <= size)%nat) ps.
  Proof.
    induction fuel as [|fuel IH]; intros k Hk Hf; [lia|].
    cbn [follow]. rewrite (Hstep k Hk). destruct (k + size <? length l)%nat eqn:E.
    - apply Nat.ltb_lt in E.
      destruct (IH (k + size)%nat) as (ps & Hfo & Hit & Hall); [lia|lia|].
      destruct (tk (k + size)) as [|c r] eqn:Et; [exfalso; apply (Htk (k + size)%nat); [lia|exact Et]|].
      rewrite Hfo. eexists. split; [reflexivity|]. split.
      + rewrite pages_items_cons, Hit. apply firstn_skipn_add.
      + constructor; [|exact Hall]. simpl. rewrite firstn_length. lia.
    - apply Nat.ltb_ge in E. eexists. split; [reflexivity|]. split.
      + unfold pages_items. simpl. rewrite app_nil_r. reflexivity.
      + constructor; [|constructor]. simpl. rewrite skipn_length. lia.
  Qed.
End FollowGeneric.

Section FollowChangesGeneric.
  Context {A : Type} (l : list A) (size : nat) (step : bytes -> outcome A) (tk : nat -> bytes).
  Hypothesis Hsize : (0 < size)%nat.
  Hypothesis Hstep : forall k, (k <= length l)%nat ->
    step (tk k) = if (k <? length l)%nat
                  then Page (firstn size (skipn k l)) (tk (Nat.min (k + size) (length l)))
                  else Page [] (tk k).

  Lemma follow_changes_generic : forall fuel k, (k <= length l)%nat -> (length l - k < fuel)%nat ->
    exists ps, follow_changes fuel step (tk k) = (ps, EndMarker)
               /\ pages_items ps = skipn k l
               /\ Forall (fun p => (length (fst p) <= size)%nat) ps.
  Proof.
    induction fuel as [|fuel IH]; intros k Hk Hf; [lia|].
    cbn [follow_changes]. rewrite (Hstep k Hk). destruct (k <? length l)%nat eqn:E.
    - apply Nat.ltb_lt in E.
      destruct (IH (Nat.min (k + size) (length l))) as (ps & Hfo & Hit & Hall); [lia|lia|].
      destruct (firstn size (skipn k l)) as [|x items] eqn:Ef.
      + exfalso. apply (f_equal (@length A)) in Ef. rewrite firstn_length, skipn_length in Ef.
        simpl in Ef. lia.
      + rewrite Hfo. eexists. split; [reflexivity|]. split.
        * rewrite pages_items_cons, Hit, <- Ef.
          destruct (Nat.le_gt_cases (k + size) (length l)) as [Hle|Hgt].
          -- rewrite Nat.min_l by exact Hle. apply firstn_skipn_add.
          -- rewrite Nat.min_r by lia. rewrite skipn_all, app_nil_r.
             apply firstn_all2. rewrite skipn_length. lia.
        * constructor; [|exact Hall]. cbn [fst]. rewrite <- Ef, firstn_length. lia.
    - apply Nat.ltb_ge in E. assert (k = length l) by lia. subst k.
      eexists. split; [reflexivity|]. split.
      + unfold pages_items. simpl. rewrite skipn_all. reflexivity.
      + constructor; [|constructor]. simpl. lia.
  Qed.
End FollowChangesGeneric.

(* ------------------------------------------------------------------------------------------ *)
(* token codec interface *)

Lemma deserialize_serialize u ty : u <> [] -> mem c_pipe u = false ->
  deserialize (u ++ c_pipe :: ty) = Some (u, ty).
Proof.
  intros Hne Hm. unfold deserialize. rewrite (cut_app _ _ _ Hm).
  destruct u; [contradiction|reflexivity].
Qed.

Lemma serialize_some u ty : u <> [] -> serialize u ty = Some (u ++ c_pipe :: ty).
Proof. destruct u; [contradiction|reflexivity]. Qed.

Lemma page_size_opt_pos ps : (0 < N.to_nat (page_size_opt ps))%nat.
Proof.
  unfold page_size_opt, default_page_size. destruct (0 <? ps)%Z eqn:E.
  - apply Z.ltb_lt in E. lia.
  - lia.
Qed.

(* ------------------------------------------------------------------------------------------ *)
(* (1) Read on the memory backend: offset tokens *)

Definition int64_fits (len : nat) (size : N) : bool :=
  (Z.of_nat len + Z.of_N size <? 9223372036854775808)%Z.

Lemma parse_from_itoa k : (Z.of_nat k < 9223372036854775808)%Z ->
  parse_from (itoa (Z.of_nat k)) = Some (Z.of_nat k).
Proof.
  intro H. unfold parse_from. destruct (itoa_nat_shape k) as (c & r & E & _). rewrite E, <- E.
  apply atoi_itoa_nat. exact H.
Qed.

Lemma page_offset_at {A} (l : list A) (size : N) k from :
  parse_from from = Some (Z.of_nat k) -> (k <= length l)%nat -> size <> 0 ->
  int64_fits (length l) size = true ->
  page_offset l size from =
    if (k + N.to_nat size <? length l)%nat
    then Page (firstn (N.to_nat size) (skipn k l)) (itoa (Z.of_nat (k + N.to_nat size)))
    else Page (skipn k l) [].
Proof.
  intros Hp Hk Hs Hfit. unfold int64_fits in Hfit. apply Z.ltb_lt in Hfit.
  unfold page_offset. rewrite Hp.
  assert (E2 : (Z.of_nat k <? 0)%Z = false) by (apply Z.ltb_ge; lia).
  rewrite E2. cbv zeta. rewrite Z.min_l by lia. rewrite Nat2Z.id, skipn_length.
  apply N.eqb_neq in Hs. rewrite Hs. cbn [negb andb].
  destruct (k + N.to_nat size <? length l)%nat eqn:E.
  - apply Nat.ltb_lt in E.
    assert (E3 : (N.to_nat size <? length l - k)%nat = true) by (apply Nat.ltb_lt; lia).
    rewrite E3. f_equal. f_equal. rewrite wrap64_small by lia. lia.
  - apply Nat.ltb_ge in E.
    assert (E3 : (N.to_nat size <? length l - k)%nat = false) by (apply Nat.ltb_ge; lia).
    rewrite E3. reflexivity.
Qed.

Definition tk_offset (suffix : bytes) (k : nat) : bytes :=
  match k with O => [] | _ => itoa (Z.of_nat k) ++ suffix end.

Lemma tk_offset_nonempty suffix k : (0 < k)%nat -> tk_offset suffix k <> [].
Proof.
  intro H. destruct k; [lia|]. unfold tk_offset.
  destruct (itoa_nat_shape (S k)) as (c & r & E & _). rewrite E. discriminate.
Qed.

Lemma read_cmd_offset_token {A} (st : N -> bytes -> outcome A) ps k :
  (0 < k)%nat ->
  read_cmd st ps (tk_offset [c_pipe] k) =
    match st (page_size_opt ps) (itoa (Z.of_nat k)) with
    | Page items [] => Page items []
    | Page items c => match serialize c [] with Some t => Page items t | None => Rejected EInternal end
    | o => o
    end.
Proof.
  intro Hk. destruct k; [lia|]. unfold tk_offset, read_cmd.
  destruct (itoa_nat_shape (S k)) as (c & r & E & Hd).
  rewrite deserialize_serialize.
  - rewrite E. reflexivity.
  - rewrite E. discriminate.
  - rewrite E. apply digits_no_pipe. exact Hd.
Qed.

Lemma read_mem_step {A} (l : list A) ps k :
  int64_fits (length l) (page_size_opt ps) = true -> (k <= length l)%nat ->
  read_mem l ps (tk_offset [c_pipe] k) =
    if (k + N.to_nat (page_size_opt ps) <? length l)%nat
    then Page (firstn (N.to_nat (page_size_opt ps)) (skipn k l))
              (tk_offset [c_pipe] (k + N.to_nat (page_size_opt ps)))
    else Page (skipn k l) [].
Proof.
  intros Hfit Hk. pose proof (page_size_opt_pos ps) as Hpos.
  assert (Hne : page_size_opt ps <> 0) by lia.
  assert (Hlt : (Z.of_nat k < 9223372036854775808)%Z).
  { unfold int64_fits in Hfit. apply Z.ltb_lt in Hfit. lia. }
  unfold read_mem.
  assert (Hst : forall from, parse_from from = Some (Z.of_nat k) ->
            match page_offset l (page_size_opt ps) from with
            | Page items [] => Page items []
            | Page items c => match serialize c [] with Some t => Page items t | None => Rejected EInternal end
            | o => o
            end =
            if (k + N.to_nat (page_size_opt ps) <? length l)%nat
            then Page (firstn (N.to_nat (page_size_opt ps)) (skipn k l))
                      (tk_offset [c_pipe] (k + N.to_nat (page_size_opt ps)))
            else Page (skipn k l) []).
  { intros from Hp. rewrite (page_offset_at l _ k from Hp Hk Hne Hfit).
    destruct (k + N.to_nat (page_size_opt ps) <? length l)%nat; [|reflexivity].
    destruct (itoa_nat_shape (k + N.to_nat (page_size_opt ps))) as (c & r & E & _).
    rewrite E. cbn [serialize]. unfold tk_offset.
    destruct (k + N.to_nat (page_size_opt ps))%nat eqn:En; [lia|]. rewrite E. reflexivity. }
  destruct k as [|k].
  - cbn [tk_offset]. unfold read_cmd. apply Hst. reflexivity.
  - rewrite read_cmd_offset_token by lia. apply Hst. apply parse_from_itoa. exact Hlt.
Qed.

Theorem paging_exact_read_mem {A} (l : list A) ps :
  int64_fits (length l) (page_size_opt ps) = true ->
  exists pages, follow (S (length l)) (read_mem l ps) [] = (pages, EndMarker)
                /\ pages_items pages = l
                /\ Forall (fun p => (length (fst p) <= N.to_nat (page_size_opt ps))%nat) pages.
Proof.
  intro Hfit.
  destruct (follow_generic l (N.to_nat (page_size_opt ps)) (read_mem l ps) (tk_offset [c_pipe])
              (page_size_opt_pos ps) (tk_offset_nonempty [c_pipe])) with (fuel := S (length l)) (k := O)
    as (pages & Hf & Hi & Hall).
  - intros k Hk. apply read_mem_step; [exact Hfit|lia].
  - right. reflexivity.
  - lia.
  - exists pages. split; [exact Hf|]. split; [exact Hi|exact Hall].
Qed.

(* ------------------------------------------------------------------------------------------ *)
(* (2) keyset pages (sqlite Read, ListStores, ReadAuthorizationModels) *)

Definition keyat {A} (t : list (bytes * A)) (k : nat) : bytes :=
  match nth_error t k with Some r => fst r | None => [] end.

Lemma nth_error_skipn {A} (l : list A) : forall k i, nth_error (skipn k l) i = nth_error l (k + i).
Proof.
  induction l as [|x l IH]; intros k i.
  - rewrite skipn_nil. destruct i; destruct k; reflexivity.
  - destruct k as [|k]; [reflexivity|]. simpl. apply IH.
Qed.

Lemma nth_error_firstn {A} (l : list A) : forall n i, (i < n)%nat -> nth_error (firstn n l) i = nth_error l i.
Proof.
  induction l as [|x l IH]; intros n i H.
  - rewrite firstn_nil. reflexivity.
  - destruct n as [|n]; [lia|]. destruct i as [|i]; [reflexivity|]. simpl. apply IH. lia.
Qed.

Lemma keyset_tail {A} (m : list (bytes * A)) (size : N) : size <> 0 ->
  let got := if size =? 0 then m else firstn (S (N.to_nat size)) m in
  Page (map snd (firstn (N.to_nat size) got))
       (match nth_error got (N.to_nat size) with Some r => fst r | None => [] end)
  = if (N.to_nat size <? length m)%nat
    then Page (map snd (firstn (N.to_nat size) m)) (keyat m (N.to_nat size))
    else Page (map snd m) [].
Proof.
  intro Hs. apply N.eqb_neq in Hs. rewrite Hs. cbv zeta.
  rewrite firstn_firstn, Nat.min_l by lia. rewrite nth_error_firstn by lia.
  destruct (N.to_nat size <? length m)%nat eqn:E.
  - reflexivity.
  - apply Nat.ltb_ge in E. rewrite firstn_all2 by exact E.
    assert (Hn : nth_error m (N.to_nat size) = None) by (apply nth_error_None; exact E).
    rewrite Hn. reflexivity.
Qed.

Definition keys_nonempty {A} (rows : list (bytes * A)) : bool := forallb nonemptyb (map fst rows).
Definition keys_no_pipe {A} (rows : list (bytes * A)) : bool :=
  forallb (fun k => negb (mem c_pipe k)) (map fst rows).

Section KeysetProofs.
  Variable le : bytes -> bytes -> bool.
  Hypothesis le_refl : forall a, le a a = true.
  Hypothesis le_total : forall a b, le a b = true \/ le b a = true.
  Hypothesis le_antisym : forall a b, le a b = true -> le b a = true -> a = b.
  Hypothesis le_trans : forall a b c, le a b = true -> le b c = true -> le a c = true.
  Context {A : Type}.
  Variable rows : list (bytes * A).
  Hypothesis Hnodup : nodupb (map fst rows) = true.
  Hypothesis Hnonempty : keys_nonempty rows = true.

  Let t := isort le rows.

  Lemma keyat_in k : (k < length t)%nat -> In (keyat t k) (map fst rows).
  Proof.
    intro Hk. unfold keyat. destruct (nth_error t k) as [r|] eqn:E.
    - apply nth_error_In in E. apply (Permutation_in _ (isort_perm le rows)) in E.
      apply in_map. exact E.
    - apply nth_error_None in E. lia.
  Qed.

  Lemma keyat_nonempty k : (k < length t)%nat -> keyat t k <> [].
  Proof.
    intros Hk. pose proof (keyat_in k Hk) as Hin. unfold keys_nonempty in Hnonempty.
    rewrite forallb_forall in Hnonempty. specialize (Hnonempty _ Hin).
    destruct (keyat t k); [discriminate|discriminate].
  Qed.

  Definition tk_key (suffix : bytes) (k : nat) : bytes :=
    match k with O => [] | _ => keyat t k ++ suffix end.

  Lemma page_keyset_at (size : N) k from : size <> 0 ->
    (k = 0%nat /\ from = [] \/ (k < length t)%nat /\ from = keyat t k) ->
    page_keyset le rows size from =
      if (k + N.to_nat size <? length t)%nat
      then Page (firstn (N.to_nat size) (skipn k (map snd t))) (keyat t (k + N.to_nat size))
      else Page (skipn k (map snd t)) [].
  Proof.
    intros Hs Hk. unfold page_keyset. fold t.
    assert (Hm : (match from with [] => t | _ => filter (fun r => le from (fst r)) t end) = skipn k t).
    { destruct Hk as [[-> ->]|[Hk ->]]; [reflexivity|].
      pose proof (keyat_nonempty k Hk) as Hne.
      destruct (keyat t k) as [|c r0] eqn:Ek; [contradiction|]. rewrite <- Ek.
      unfold keyat in *. destruct (nth_error t k) as [r|] eqn:En; [|discriminate].
      apply (filter_ge_skipn le le_refl le_antisym fst t).
      - apply isort_sorted; assumption.
      - apply isort_nodup, nodupb_NoDup. exact Hnodup.
      - exact En. }
    rewrite Hm. rewrite (keyset_tail (skipn k t) size Hs).
    rewrite skipn_length.
    replace (N.to_nat size <? length t - k)%nat with (k + N.to_nat size <? length t)%nat
      by (destruct (k + N.to_nat size <? length t)%nat eqn:E1;
          destruct (N.to_nat size <? length t - k)%nat eqn:E2; try reflexivity;
          [apply Nat.ltb_lt in E1; apply Nat.ltb_ge in E2; lia
          |apply Nat.ltb_ge in E1; apply Nat.ltb_lt in E2; lia]).
    destruct (k + N.to_nat size <? length t)%nat.
    - f_equal.
      + rewrite skipn_map, firstn_map. reflexivity.
      + unfold keyat. rewrite nth_error_skipn. reflexivity.
    - rewrite skipn_map. reflexivity.
  Qed.

  (* raw tokens: ListStores / ReadAuthorizationModels on sqlite *)
  Lemma raw_keyset_step ps k : (k < length t \/ k = 0)%nat ->
    raw_cmd (page_keyset le rows) ps (tk_key [] k) =
      if (k + N.to_nat (page_size_opt ps) <? length (map snd t))%nat
      then Page (firstn (N.to_nat (page_size_opt ps)) (skipn k (map snd t)))
                (tk_key [] (k + N.to_nat (page_size_opt ps)))
      else Page (skipn k (map snd t)) [].
  Proof.
    intro Hk. pose proof (page_size_opt_pos ps) as Hpos. unfold raw_cmd.
    assert (Hne : page_size_opt ps <> 0) by lia.
    assert (Hcase : k = 0%nat /\ tk_key [] k = [] \/ (k < length t)%nat /\ tk_key [] k = keyat t k).
    { destruct k as [|k]; [left; split; reflexivity|].
      right. split; [lia|]. unfold tk_key. rewrite app_nil_r. reflexivity. }
    rewrite (page_keyset_at (page_size_opt ps) k _ Hne Hcase).
    rewrite map_length.
    destruct (k + N.to_nat (page_size_opt ps) <? length t)%nat; [|reflexivity].
    f_equal. unfold tk_key. destruct (k + N.to_nat (page_size_opt ps))%nat eqn:E; [lia|].
    rewrite app_nil_r. reflexivity.
  Qed.

  Lemma tk_key_nonempty suffix k : (0 < k < length t)%nat -> tk_key suffix k <> [].
  Proof.
    intros [H0 Hk]. destruct k; [lia|]. unfold tk_key.
    pose proof (keyat_nonempty (S k) Hk) as Hne. destruct (keyat t (S k)); [contradiction|discriminate].
  Qed.

  Theorem paging_exact_raw_keyset ps :
    exists pages, follow (S (length rows)) (raw_cmd (page_keyset le rows) ps) [] = (pages, EndMarker)
                  /\ pages_items pages = map snd (isort le rows)
                  /\ Forall (fun p => (length (fst p) <= N.to_nat (page_size_opt ps))%nat) pages.
  Proof.
    (* the generic scheme wants non-empty tokens for every k > 0; tokens beyond the table are never
       issued, so they are patched to a dummy non-empty value there *)
    set (tk := fun k => if (k <? length t)%nat then tk_key [] k
                        else match k with O => [] | _ => [0] end).
    assert (Htk : forall k, (0 < k)%nat -> tk k <> []).
    { intros k Hk. unfold tk. destruct (k <? length t)%nat eqn:E.
      - apply Nat.ltb_lt in E. apply tk_key_nonempty. lia.
      - destruct k; [lia|discriminate]. }
    assert (Htk_in : forall k, (k < length t \/ k = 0)%nat -> tk k = tk_key [] k).
    { intros k [Hk| ->]; unfold tk.
      - apply Nat.ltb_lt in Hk. rewrite Hk. reflexivity.
      - destruct (0 <? length t)%nat; reflexivity. }
    destruct (follow_generic (map snd t) (N.to_nat (page_size_opt ps))
                (raw_cmd (page_keyset le rows) ps) tk (page_size_opt_pos ps) Htk)
      with (fuel := S (length rows)) (k := O) as (pages & Hf & Hi & Hall).
    - intros k Hk. rewrite map_length in Hk.
      rewrite (Htk_in k Hk). rewrite raw_keyset_step by exact Hk. rewrite map_length.
      destruct (k + N.to_nat (page_size_opt ps) <? length t)%nat eqn:E; [|reflexivity].
      rewrite Htk_in; [reflexivity|]. left. apply Nat.ltb_lt. exact E.
    - right. reflexivity.
    - rewrite map_length. unfold t. rewrite isort_length. lia.
    - exists pages. split; [|split; [exact Hi|exact Hall]].
      rewrite Htk_in in Hf by (right; reflexivity). exact Hf.
  Qed.

  (* "<key>|" tokens: Read on sqlite *)
  Hypothesis Hnopipe : keys_no_pipe rows = true.

  Lemma keyat_no_pipe k : (k < length t)%nat -> mem c_pipe (keyat t k) = false.
  Proof.
    intros Hk. pose proof (keyat_in k Hk) as Hin. unfold keys_no_pipe in Hnopipe.
    rewrite forallb_forall in Hnopipe. specialize (Hnopipe _ Hin).
    apply negb_true_iff in Hnopipe. exact Hnopipe.
  Qed.

  Lemma read_keyset_step ps k : (k < length t \/ k = 0)%nat ->
    read_cmd (page_keyset le rows) ps (tk_key [c_pipe] k) =
      if (k + N.to_nat (page_size_opt ps) <? length (map snd t))%nat
      then Page (firstn (N.to_nat (page_size_opt ps)) (skipn k (map snd t)))
                (tk_key [c_pipe] (k + N.to_nat (page_size_opt ps)))
      else Page (skipn k (map snd t)) [].
  Proof.
    intro Hk. pose proof (page_size_opt_pos ps) as Hpos.
    assert (Hne : page_size_opt ps <> 0) by lia.
    assert (Hst : forall from, (k = 0%nat /\ from = [] \/ (k < length t)%nat /\ from = keyat t k) ->
              match page_keyset le rows (page_size_opt ps) from with
              | Page items [] => Page items []
              | Page items c => match serialize c [] with Some tok0 => Page items tok0 | None => Rejected EInternal end
              | o => o
              end =
              if (k + N.to_nat (page_size_opt ps) <? length (map snd t))%nat
              then Page (firstn (N.to_nat (page_size_opt ps)) (skipn k (map snd t)))
                        (tk_key [c_pipe] (k + N.to_nat (page_size_opt ps)))
              else Page (skipn k (map snd t)) []).
    { intros from Hcase. rewrite (page_keyset_at (page_size_opt ps) k from Hne Hcase). rewrite map_length.
      destruct (k + N.to_nat (page_size_opt ps) <? length t)%nat eqn:E; [|reflexivity].
      apply Nat.ltb_lt in E. pose proof (keyat_nonempty _ E) as Hk2.
      unfold tk_key. destruct (k + N.to_nat (page_size_opt ps))%nat eqn:En; [lia|].
      destruct (keyat t (S n)) as [|c r]; [contradiction|]. reflexivity. }
    destruct k as [|k].
    - cbn [tk_key]. unfold read_cmd. apply Hst. left. split; reflexivity.
    - assert (Hk' : (S k < length t)%nat) by lia.
      pose proof (keyat_nonempty _ Hk') as Hk2. pose proof (keyat_no_pipe _ Hk') as Hk3.
      unfold tk_key, read_cmd. pose proof (deserialize_serialize _ [] Hk2 Hk3) as Hd.
      destruct (keyat t (S k) ++ [c_pipe]) as [|c r] eqn:Et.
      + apply app_eq_nil in Et. destruct Et; discriminate.
      + rewrite Hd. apply Hst. right. split; [exact Hk'|reflexivity].
  Qed.

  Theorem paging_exact_read_keyset ps :
    exists pages, follow (S (length rows)) (read_cmd (page_keyset le rows) ps) [] = (pages, EndMarker)
                  /\ pages_items pages = map snd (isort le rows)
                  /\ Forall (fun p => (length (fst p) <= N.to_nat (page_size_opt ps))%nat) pages.
  Proof.
    set (tk := fun k => if (k <? length t)%nat then tk_key [c_pipe] k
                        else match k with O => [] | _ => [0] end).
    assert (Htk : forall k, (0 < k)%nat -> tk k <> []).
    { intros k Hk. unfold tk. destruct (k <? length t)%nat eqn:E.
      - apply Nat.ltb_lt in E. apply tk_key_nonempty. lia.
      - destruct k; [lia|discriminate]. }
    assert (Htk_in : forall k, (k < length t \/ k = 0)%nat -> tk k = tk_key [c_pipe] k).
    { intros k [Hk| ->]; unfold tk.
      - apply Nat.ltb_lt in Hk. rewrite Hk. reflexivity.
      - destruct (0 <? length t)%nat; reflexivity. }
    destruct (follow_generic (map snd t) (N.to_nat (page_size_opt ps))
                (read_cmd (page_keyset le rows) ps) tk (page_size_opt_pos ps) Htk)
      with (fuel := S (length rows)) (k := O) as (pages & Hf & Hi & Hall).
    - intros k Hk. rewrite map_length in Hk.
      rewrite (Htk_in k Hk). rewrite read_keyset_step by exact Hk. rewrite map_length.
      destruct (k + N.to_nat (page_size_opt ps) <? length t)%nat eqn:E; [|reflexivity].
      rewrite Htk_in; [reflexivity|]. left. apply Nat.ltb_lt. exact E.
    - right. reflexivity.
    - rewrite map_length. unfold t. rewrite isort_length. lia.
    - exists pages. split; [|split; [exact Hi|exact Hall]].
      rewrite Htk_in in Hf by (right; reflexivity). exact Hf.
  Qed.
End KeysetProofs.

(* ------------------------------------------------------------------------------------------ *)
(* (3) sorted + clamped offsets: ListStores / ReadAuthorizationModels on the memory backend *)

Section ClampProofs.
  Variable le : bytes -> bytes -> bool.
  Context {A : Type}.
  Variable rows : list (bytes * A).
  Let t := isort le rows.

  Lemma page_clamp_at (size : N) k from :
    parse_from from = Some (Z.of_nat k) -> (k <= length t)%nat -> size <> 0 ->
    page_clamp le rows size from =
      if (k + N.to_nat size <? length t)%nat
      then Page (firstn (N.to_nat size) (skipn k (map snd t))) (itoa (Z.of_nat (k + N.to_nat size)))
      else Page (skipn k (map snd t)) [].
  Proof.
    intros Hp Hk Hs. unfold page_clamp. rewrite Hp. fold t. cbv zeta.
    replace (Z.to_nat (Z.max 0 (Z.min (Z.of_nat k) (Z.of_nat (length t))))) with k by lia.
    destruct (k + N.to_nat size <? length t)%nat eqn:E.
    - apply Nat.ltb_lt in E. rewrite Nat.min_r by lia.
      replace (k + N.to_nat size - k)%nat with (N.to_nat size) by lia.
      assert (E2 : (k + N.to_nat size =? length t)%nat = false) by (apply Nat.eqb_neq; lia).
      rewrite E2. rewrite skipn_map, firstn_map. reflexivity.
    - apply Nat.ltb_ge in E. rewrite Nat.min_l by lia. rewrite Nat.eqb_refl.
      rewrite firstn_all2 by (rewrite skipn_length; lia). rewrite skipn_map. reflexivity.
  Qed.

  Lemma raw_clamp_step ps k :
    int64_fits (length rows) (page_size_opt ps) = true -> (k <= length t)%nat ->
    raw_cmd (page_clamp le rows) ps (tk_offset [] k) =
      if (k + N.to_nat (page_size_opt ps) <? length (map snd t))%nat
      then Page (firstn (N.to_nat (page_size_opt ps)) (skipn k (map snd t)))
                (tk_offset [] (k + N.to_nat (page_size_opt ps)))
      else Page (skipn k (map snd t)) [].
  Proof.
    intros Hfit Hk. pose proof (page_size_opt_pos ps) as Hpos.
    assert (Hne : page_size_opt ps <> 0) by lia.
    assert (Hlen : length t = length rows).
    { unfold t. apply Permutation_length. clear. induction rows as [|r l IH]; simpl; [reflexivity|].
      transitivity (r :: isort le l); [|constructor; exact IH].
      clear IH. generalize (isort le l). intro l0. induction l0 as [|x l0 IH]; simpl; [reflexivity|].
      destruct (le (fst r) (fst x)); [reflexivity|]. rewrite IH. apply perm_swap. }
    assert (Hlt : (Z.of_nat k < 9223372036854775808)%Z).
    { unfold int64_fits in Hfit. apply Z.ltb_lt in Hfit. lia. }
    unfold raw_cmd. rewrite map_length.
    rewrite (page_clamp_at (page_size_opt ps) k); [| |exact Hk|exact Hne].
    - destruct (k + N.to_nat (page_size_opt ps) <? length t)%nat; [|reflexivity].
      f_equal. unfold tk_offset. destruct (k + N.to_nat (page_size_opt ps))%nat eqn:E; [lia|].
      rewrite app_nil_r. reflexivity.
    - destruct k as [|k]; [reflexivity|]. unfold tk_offset. rewrite app_nil_r.
      apply parse_from_itoa. exact Hlt.
  Qed.

  Theorem paging_exact_raw_clamp ps :
    int64_fits (length rows) (page_size_opt ps) = true ->
    exists pages, follow (S (length rows)) (raw_cmd (page_clamp le rows) ps) [] = (pages, EndMarker)
                  /\ pages_items pages = map snd (isort le rows)
                  /\ Forall (fun p => (length (fst p) <= N.to_nat (page_size_opt ps))%nat) pages.
  Proof.
    intro Hfit.
    assert (Hlen : length t = length rows).
    { unfold t. apply Permutation_length. clear. induction rows as [|r l IH]; simpl; [reflexivity|].
      transitivity (r :: isort le l); [|constructor; exact IH].
      clear IH. generalize (isort le l). intro l0. induction l0 as [|x l0 IH]; simpl; [reflexivity|].
      destruct (le (fst r) (fst x)); [reflexivity|]. rewrite IH. apply perm_swap. }
    destruct (follow_generic (map snd t) (N.to_nat (page_size_opt ps))
                (raw_cmd (page_clamp le rows) ps) (tk_offset []) (page_size_opt_pos ps)
                (tk_offset_nonempty [])) with (fuel := S (length rows)) (k := O)
      as (pages & Hf & Hi & Hall).
    - intros k Hk. rewrite map_length in Hk. apply raw_clamp_step; [exact Hfit|lia].
    - right. reflexivity.
    - rewrite map_length, Hlen. lia.
    - exists pages. split; [exact Hf|]. split; [exact Hi|exact Hall].
  Qed.
End ClampProofs.

(* ------------------------------------------------------------------------------------------ *)
(* (4) ReadChanges *)

Lemma blt_ble_trans a b c : blt a b = true -> ble b c = true -> blt a c = true.
Proof.
  unfold blt. intros H1 H2. apply negb_true_iff in H1. apply negb_true_iff.
  destruct (ble c a) eqn:E; [|reflexivity].
  rewrite (ble_trans _ _ _ H2 E) in H1. discriminate.
Qed.

Lemma blt_ble a b : blt a b = true -> ble a b = true.
Proof.
  unfold blt. intro H. apply negb_true_iff in H. destruct (ble_total a b); congruence.
Qed.

Lemma strictly_sorted_rows {X} (kf : X -> bytes) (t : list X) :
  strictly_sorted (map kf t) = true ->
  StronglySorted (R ble kf) t /\ NoDup (map kf t)
  /\ Forall (fun x => match t with [] => True | a :: _ => ble (kf a) (kf x) = true end) t.
Proof.
  induction t as [|a t IH]; intro H.
  - repeat split; constructor.
  - cbn [map strictly_sorted] in H. destruct t as [|b t'].
    + repeat split; repeat constructor; try apply ble_refl. intros [].
    + cbn [map] in H. apply andb_true_iff in H as [Hab Hrest].
      destruct (IH Hrest) as (Hs & Hn & Hhead).
      assert (Hall : Forall (fun x => blt (kf a) (kf x) = true) (b :: t')).
      { rewrite Forall_forall in *. intros x Hx. eapply blt_ble_trans; [exact Hab|]. apply Hhead. exact Hx. }
      split; [|split].
      * constructor; [exact Hs|]. rewrite Forall_forall in *. intros x Hx. apply blt_ble. apply Hall. exact Hx.
      * cbn [map]. constructor; [|exact Hn]. intro Hin. change (In (kf a) (map kf (b :: t'))) in Hin.
        apply in_map_iff in Hin as (x & Hx1 & Hx2). rewrite Forall_forall in Hall.
        specialize (Hall x Hx2). rewrite Hx1 in Hall. unfold blt in Hall. rewrite ble_refl in Hall. discriminate.
      * constructor; [apply ble_refl|]. rewrite Forall_forall in *. intros x Hx. apply blt_ble. apply Hall. exact Hx.
Qed.

Lemma last_key_keyat {A} (l : list (bytes * A)) : forall acc,
  fold_left (fun (_ : bytes) r => fst r) l acc =
  match l with [] => acc | _ => keyat l (length l - 1) end.
Proof.
  induction l as [|x l IH]; intro acc; [reflexivity|].
  cbn [fold_left]. rewrite IH. destruct l as [|y l']; [reflexivity|].
  unfold keyat. cbn [length]. replace (S (S (length l')) - 1)%nat with (S (length l')) by lia.
  replace (S (length l') - 1)%nat with (length l') by lia. reflexivity.
Qed.

Lemma keyat_window {A} (t : list (bytes * A)) k s : (k < length t)%nat -> (0 < s)%nat ->
  last_key (firstn s (skipn k t)) = keyat t (Nat.min (k + s) (length t) - 1).
Proof.
  intros Hk Hs. unfold last_key. rewrite last_key_keyat.
  assert (Hne : firstn s (skipn k t) <> []).
  { intro E. apply (f_equal (@length _)) in E. rewrite firstn_length, skipn_length in E. simpl in E. lia. }
  assert (Hgen : forall w : list (bytes * A), w <> [] ->
            match w with [] => [] | _ => keyat w (length w - 1) end = keyat w (length w - 1))
    by (intros [|? ?] H; [contradiction|reflexivity]).
  rewrite Hgen by exact Hne. rewrite firstn_length, skipn_length.
  unfold keyat. rewrite nth_error_firstn by lia. rewrite nth_error_skipn.
  replace (k + (Init.Nat.min s (length t - k) - 1))%nat with (Nat.min (k + s) (length t) - 1)%nat by lia.
  reflexivity.
Qed.

Section ChangesProofs.
  Context {A : Type}.
  Variable norm : bytes -> option bytes.
  Variable sorted : bool.
  Variable rows : list (bytes * A).
  Variable ty : bytes.
  Let kf := fun r : bytes * A => norm_key norm (fst r).
  Hypothesis Hsorted : strictly_sorted (map kf rows) = true.
  Hypothesis Hparse : forallb (fun r => match norm (fst r) with Some _ => true | None => false end) rows = true.
  Hypothesis Hnonempty : keys_nonempty rows = true.
  Hypothesis Hnopipe : keys_no_pipe rows = true.
  Hypothesis Htable : (if sorted then isort ble rows else rows) = rows.

  Definition tk_change (k : nat) : bytes :=
    match k with O => [] | S j => keyat rows j ++ c_pipe :: ty end.

  Lemma row_at k : (k < length rows)%nat -> exists r, nth_error rows k = Some r /\ keyat rows k = fst r.
  Proof.
    intro Hk. unfold keyat. destruct (nth_error rows k) as [r|] eqn:E.
    - exists r. split; reflexivity.
    - apply nth_error_None in E. lia.
  Qed.

  Lemma change_key_ok k : (k < length rows)%nat ->
    keyat rows k <> [] /\ mem c_pipe (keyat rows k) = false.
  Proof.
    intro Hk. destruct (row_at k Hk) as (r & Hn & ->). apply nth_error_In in Hn.
    assert (Hin : In (fst r) (map fst rows)) by (apply in_map; exact Hn).
    unfold keys_nonempty in Hnonempty. unfold keys_no_pipe in Hnopipe.
    rewrite forallb_forall in Hnonempty, Hnopipe.
    specialize (Hnonempty _ Hin). specialize (Hnopipe _ Hin). apply negb_true_iff in Hnopipe.
    split; [|exact Hnopipe]. destruct (fst r); discriminate.
  Qed.

  Lemma changes_page_at (size : N) k from : size <> 0 -> (k <= length rows)%nat ->
    (k = 0%nat /\ from = [] \/ exists j, k = S j /\ from = keyat rows j) ->
    changes_page norm sorted rows size from =
      if (k <? length rows)%nat
      then CPage (firstn (N.to_nat size) (skipn k (map snd rows)))
                 (keyat rows (Nat.min (k + N.to_nat size) (length rows) - 1))
      else CNotFound.
  Proof.
    intros Hs Hk Hcase. unfold changes_page. rewrite Htable.
    assert (Hm : exists bd, (match from with
                             | [] => Some None
                             | _ => match norm from with Some b => Some (Some b) | None => None end
                             end) = Some bd
                            /\ match bd with
                               | None => rows
                               | Some b => filter (fun r => blt b (norm_key norm (fst r))) rows
                               end = skipn k rows).
    { destruct Hcase as [[-> ->]|(j & -> & ->)].
      - exists None. split; reflexivity.
      - assert (Hj : (j < length rows)%nat) by lia.
        destruct (change_key_ok j Hj) as [Hne _]. destruct (row_at j Hj) as (r & Hn & Hkey).
        assert (Hnr : exists b, norm (fst r) = Some b).
        { rewrite forallb_forall in Hparse. specialize (Hparse r (nth_error_In _ _ Hn)).
          destruct (norm (fst r)) as [b|]; [exists b; reflexivity|discriminate]. }
        destruct Hnr as (b & Hb). exists (Some b). rewrite Hkey in *. split.
        + destruct (fst r); [contradiction|]. rewrite Hb. reflexivity.
        + destruct (strictly_sorted_rows kf rows Hsorted) as (Hss & Hnd & _).
          assert (Eb : b = kf r) by (unfold kf, norm_key; rewrite Hb; reflexivity).
          rewrite Eb. apply (filter_gt_skipn ble ble_refl ble_antisym kf rows Hss Hnd j r Hn). }
    destruct Hm as (bd & Hb1 & Hb2). rewrite Hb1, Hb2.
    destruct (k <? length rows)%nat eqn:E.
    - apply Nat.ltb_lt in E.
      assert (Hpos : (0 < N.to_nat size)%nat) by lia.
      pose proof (keyat_window rows k (N.to_nat size) E Hpos) as Hw.
      destruct (firstn (N.to_nat size) (skipn k rows)) as [|x res] eqn:Ef.
      + apply (f_equal (@length _)) in Ef. rewrite firstn_length, skipn_length in Ef. simpl in Ef. lia.
      + cbv iota. rewrite Hw, <- Ef. rewrite skipn_map, firstn_map. reflexivity.
    - apply Nat.ltb_ge in E. rewrite skipn_all2 by exact E. rewrite firstn_nil. reflexivity.
  Qed.

  Lemma changes_cmd_step ps k : (k <= length (map snd rows))%nat ->
    changes_cmd (changes_page norm sorted rows) ps ty (tk_change k) =
      if (k <? length (map snd rows))%nat
      then Page (firstn (N.to_nat (page_size_opt ps)) (skipn k (map snd rows)))
                (tk_change (Nat.min (k + N.to_nat (page_size_opt ps)) (length (map snd rows))))
      else Page [] (tk_change k).
  Proof.
    rewrite map_length. intro Hk. pose proof (page_size_opt_pos ps) as Hpos.
    assert (Hne : page_size_opt ps <> 0) by lia.
    assert (Hst : forall from tok, (k = 0%nat /\ from = [] \/ exists j, k = S j /\ from = keyat rows j) ->
              tok = tk_change k ->
              match changes_page norm sorted rows (page_size_opt ps) from with
              | CNotFound => Page [] tok
              | CRejected e => Rejected e
              | CPage items lastk => match serialize lastk ty with
                                     | Some t0 => Page items t0
                                     | None => Page items []
                                     end
              end =
              if (k <? length rows)%nat
              then Page (firstn (N.to_nat (page_size_opt ps)) (skipn k (map snd rows)))
                        (tk_change (Nat.min (k + N.to_nat (page_size_opt ps)) (length rows)))
              else Page [] (tk_change k)).
    { intros from tok Hcase ->. rewrite (changes_page_at (page_size_opt ps) k from Hne Hk Hcase).
      destruct (k <? length rows)%nat eqn:E; [|reflexivity].
      apply Nat.ltb_lt in E.
      set (i := (Nat.min (k + N.to_nat (page_size_opt ps)) (length rows) - 1)%nat).
      assert (Hi : (i < length rows)%nat) by (unfold i; lia).
      destruct (change_key_ok i Hi) as [Hne2 _]. rewrite (serialize_some _ ty Hne2).
      f_equal. unfold tk_change, i. clear Hi Hne2. clear i.
      destruct (Nat.min (k + N.to_nat (page_size_opt ps)) (length rows)) as [|m] eqn:Em; [lia|].
      replace (S m - 1)%nat with m by lia. reflexivity. }
    destruct k as [|j].
    - cbn [tk_change]. unfold changes_cmd. apply Hst; [left; split; reflexivity|reflexivity].
    - assert (Hj : (j < length rows)%nat) by lia.
      destruct (change_key_ok j Hj) as [Hk2 Hk3].
      pose proof (deserialize_serialize _ ty Hk2 Hk3) as Hd.
      unfold changes_cmd. cbn [tk_change] in *.
      destruct (keyat rows j ++ c_pipe :: ty) as [|c r] eqn:Et.
      + apply app_eq_nil in Et. destruct Et; discriminate.
      + rewrite Hd, beqb_refl. apply Hst; [right; exists j; split; reflexivity|reflexivity].
  Qed.

  Theorem paging_exact_changes_generic ps :
    exists pages, follow_changes (S (length rows)) (changes_cmd (changes_page norm sorted rows) ps ty) []
                  = (pages, EndMarker)
                  /\ pages_items pages = map snd rows
                  /\ Forall (fun p => (length (fst p) <= N.to_nat (page_size_opt ps))%nat) pages.
  Proof.
    destruct (follow_changes_generic (map snd rows) (N.to_nat (page_size_opt ps))
                (changes_cmd (changes_page norm sorted rows) ps ty) tk_change (page_size_opt_pos ps))
      with (fuel := S (length rows)) (k := O) as (pages & Hf & Hi & Hall).
    - intros k Hk. apply changes_cmd_step. exact Hk.
    - lia.
    - rewrite map_length. lia.
    - exists pages. split; [exact Hf|]. split; [exact Hi|exact Hall].
  Qed.
End ChangesProofs.

(* ------------------------------------------------------------------------------------------ *)
(* concrete instances: the eight request functions *)

Lemma strictly_sorted_isort_id {A} (rows : list (bytes * A)) :
  strictly_sorted (map fst rows) = true ->
  isort ble rows = rows /\ nodupb (map fst rows) = true.
Proof.
  intro H. destruct (strictly_sorted_rows fst rows H) as (Hs & Hn & _). split.
  - apply (isort_id ble). exact Hs.
  - apply nodupb_NoDup. exact Hn.
Qed.

Theorem paging_exact_read_sql_general {A} (rows : list (bytes * A)) ps :
  nodupb (map fst rows) = true -> keys_nonempty rows = true -> keys_no_pipe rows = true ->
  exists pages, follow (S (length rows)) (read_sql rows ps) [] = (pages, EndMarker)
                /\ pages_items pages = map snd (isort ble rows)
                /\ Forall (fun p => (length (fst p) <= N.to_nat (page_size_opt ps))%nat) pages.
Proof.
  intros H1 H2 H3. unfold read_sql.
  exact (paging_exact_read_keyset ble ble_refl ble_total ble_antisym ble_trans rows H1 H2 H3 ps).
Qed.

Theorem paging_exact_read_sql {A} (rows : list (bytes * A)) ps :
  strictly_sorted (map fst rows) = true -> keys_nonempty rows = true -> keys_no_pipe rows = true ->
  exists pages, follow (S (length rows)) (read_sql rows ps) [] = (pages, EndMarker)
                /\ pages_items pages = map snd rows
                /\ Forall (fun p => (length (fst p) <= N.to_nat (page_size_opt ps))%nat) pages.
Proof.
  intros H1 H2 H3. destruct (strictly_sorted_isort_id rows H1) as [Hid Hnd].
  destruct (paging_exact_read_sql_general rows ps Hnd H2 H3) as (pages & Hf & Hi & Hall).
  exists pages. rewrite Hid in Hi. auto.
Qed.

Theorem paging_exact_stores_sql {A} (rows : list (bytes * A)) ps :
  nodupb (map fst rows) = true -> keys_nonempty rows = true ->
  exists pages, follow (S (length rows)) (stores_sql rows ps) [] = (pages, EndMarker)
                /\ pages_items pages = map snd (isort ble rows)
                /\ Forall (fun p => (length (fst p) <= N.to_nat (page_size_opt ps))%nat) pages.
Proof.
  intros H1 H2. unfold stores_sql.
  exact (paging_exact_raw_keyset ble ble_refl ble_total ble_antisym ble_trans rows H1 H2 ps).
Qed.

Theorem paging_exact_models_sql {A} (rows : list (bytes * A)) ps :
  nodupb (map fst rows) = true -> keys_nonempty rows = true ->
  exists pages, follow (S (length rows)) (models_sql rows ps) [] = (pages, EndMarker)
                /\ pages_items pages = map snd (isort desc rows)
                /\ Forall (fun p => (length (fst p) <= N.to_nat (page_size_opt ps))%nat) pages.
Proof.
  intros H1 H2. unfold models_sql.
  exact (paging_exact_raw_keyset desc desc_refl desc_total desc_antisym desc_trans rows H1 H2 ps).
Qed.

Theorem paging_exact_stores_mem {A} (rows : list (bytes * A)) ps :
  int64_fits (length rows) (page_size_opt ps) = true ->
  exists pages, follow (S (length rows)) (stores_mem rows ps) [] = (pages, EndMarker)
                /\ pages_items pages = map snd (isort ble rows)
                /\ Forall (fun p => (length (fst p) <= N.to_nat (page_size_opt ps))%nat) pages.
Proof. intro H. unfold stores_mem. exact (paging_exact_raw_clamp ble rows ps H). Qed.

Theorem paging_exact_models_mem {A} (rows : list (bytes * A)) ps :
  int64_fits (length rows) (page_size_opt ps) = true ->
  exists pages, follow (S (length rows)) (models_mem rows ps) [] = (pages, EndMarker)
                /\ pages_items pages = map snd (isort desc rows)
                /\ Forall (fun p => (length (fst p) <= N.to_nat (page_size_opt ps))%nat) pages.
Proof. intro H. unfold models_mem. exact (paging_exact_raw_clamp desc rows ps H). Qed.

(* the sorted order that ListStores / ReadAuthorizationModels deliver: a permutation of the rows
   (each exactly once), in key order *)
Theorem isort_ble_spec {A} (rows : list (bytes * A)) :
  Permutation (isort ble rows) rows
  /\ StronglySorted (fun x y => ble (fst x) (fst y) = true) (isort ble rows).
Proof.
  split; [apply isort_perm|]. exact (isort_sorted ble ble_total ble_trans rows).
Qed.

Theorem isort_desc_spec {A} (rows : list (bytes * A)) :
  Permutation (isort desc rows) rows
  /\ StronglySorted (fun x y => ble (fst y) (fst x) = true) (isort desc rows).
Proof.
  split; [apply isort_perm|]. exact (isort_sorted desc desc_total desc_trans rows).
Qed.

Definition ulid_keys_ok {A} (rows : list (bytes * A)) : bool :=
  forallb (fun r => match ulid_parse (fst r) with Some _ => true | None => false end) rows.

Theorem paging_exact_changes_mem {A} (rows : list (bytes * A)) ps ty :
  changes_sorted_by_ulid rows = true ->
  ulid_keys_ok rows = true -> keys_nonempty rows = true -> keys_no_pipe rows = true ->
  exists pages, follow_changes (S (length rows)) (changes_mem rows ps ty) [] = (pages, EndMarker)
                /\ pages_items pages = map snd rows
                /\ Forall (fun p => (length (fst p) <= N.to_nat (page_size_opt ps))%nat) pages.
Proof.
  intros H1 H2 H3 H4. unfold changes_mem.
  exact (paging_exact_changes_generic ulid_parse false rows ty H1 H2 H3 H4 eq_refl ps).
Qed.

Theorem paging_exact_changes_sql {A} (rows : list (bytes * A)) ps ty :
  strictly_sorted (map fst rows) = true -> keys_nonempty rows = true -> keys_no_pipe rows = true ->
  exists pages, follow_changes (S (length rows)) (changes_sql rows ps ty) [] = (pages, EndMarker)
                /\ pages_items pages = map snd rows
                /\ Forall (fun p => (length (fst p) <= N.to_nat (page_size_opt ps))%nat) pages.
Proof.
  intros H1 H3 H4. unfold changes_sql.
  destruct (strictly_sorted_isort_id rows H1) as [Hid _].
  assert (H1' : strictly_sorted (map (fun r : bytes * A => norm_key (fun k => Some k) (fst r)) rows) = true).
  { unfold norm_key. exact H1. }
  assert (H2 : forallb (fun r : bytes * A => match (fun k : bytes => Some k) (fst r) with Some _ => true | None => false end) rows = true).
  { apply forallb_forall. intros; reflexivity. }
  exact (paging_exact_changes_generic (fun k => Some k) true rows ty H1' H2 H3 H4 Hid ps).
Qed.

(* ------------------------------------------------------------------------------------------ *)
(* page_size_respected: no page is longer than the (defaulted) page size, for EVERY token *)

Lemma page_offset_size {A} (l : list A) size from items next :
  size <> 0 -> page_offset l size from = Page items next -> (length items <= N.to_nat size)%nat.
Proof.
  intros Hs. unfold page_offset. destruct (parse_from from) as [z|]; [|discriminate].
  destruct (z <? 0)%Z; [discriminate|]. cbv zeta.
  apply N.eqb_neq in Hs. rewrite Hs. cbn [negb andb].
  set (m := skipn (Z.to_nat (Z.min z (Z.of_nat (length l)))) l).
  destruct (N.to_nat size <? length m)%nat eqn:E; intro H; inversion H; subst.
  - rewrite firstn_length. lia.
  - apply Nat.ltb_ge in E. exact E.
Qed.

Lemma page_clamp_size {A} le (rows : list (bytes * A)) size from items next :
  page_clamp le rows size from = Page items next -> (length items <= N.to_nat size)%nat.
Proof.
  unfold page_clamp. destruct (parse_from from) as [z|]; [|discriminate].
  intro H. inversion H; subst. rewrite map_length, firstn_length. lia.
Qed.

Lemma page_keyset_size {A} le (rows : list (bytes * A)) size from items next :
  page_keyset le rows size from = Page items next -> (length items <= N.to_nat size)%nat.
Proof.
  unfold page_keyset. intro H. inversion H; subst. rewrite map_length, firstn_length. lia.
Qed.

Lemma changes_page_size {A} norm sorted (rows : list (bytes * A)) size from items lastk :
  changes_page norm sorted rows size from = CPage items lastk -> (length items <= N.to_nat size)%nat.
Proof.
  unfold changes_page.
  destruct (match from with [] => Some None | _ => match norm from with Some b => Some (Some b) | None => None end end)
    as [bd|]; [|discriminate].
  set (m := match bd with None => _ | Some b => _ end).
  destruct (firstn (N.to_nat size) m) as [|x res] eqn:E; [discriminate|].
  assert (Hl : (length (x :: res) <= N.to_nat size)%nat) by (rewrite <- E, firstn_length; lia).
  intro H. inversion H; subst. simpl. rewrite map_length. simpl in Hl. exact Hl.
Qed.

Lemma read_cmd_items {A} (st : N -> bytes -> outcome A) ps tok items next :
  read_cmd st ps tok = Page items next ->
  exists from c, st (page_size_opt ps) from = Page items c.
Proof.
  unfold read_cmd.
  destruct (match tok with [] => Some [] | _ => match deserialize tok with Some (u, _) => Some u | None => None end end)
    as [from|]; [|discriminate].
  destruct (st (page_size_opt ps) from) as [its c| |] eqn:E; try discriminate.
  destruct c as [|c0 c]; intro H.
  - inversion H; subst. eauto.
  - cbn [serialize] in H. inversion H; subst. eauto.
Qed.

Lemma page_size_opt_ne ps : page_size_opt ps <> 0.
Proof. pose proof (page_size_opt_pos ps). lia. Qed.

Definition within {A} (ps : Z) (o : outcome A) : Prop :=
  match o with Page items _ => (length items <= N.to_nat (page_size_opt ps))%nat | _ => True end.

Theorem page_size_respected_all {A} (l : list A) (rows : list (bytes * A)) ps ty tok :
  within ps (read_mem l ps tok) /\ within ps (read_sql rows ps tok)
  /\ within ps (changes_mem rows ps ty tok) /\ within ps (changes_sql rows ps ty tok)
  /\ within ps (stores_mem rows ps tok) /\ within ps (stores_sql rows ps tok)
  /\ within ps (models_mem rows ps tok) /\ within ps (models_sql rows ps tok).
Proof.
  assert (Hch : forall norm sorted, within ps (changes_cmd (changes_page norm sorted rows) ps ty tok)).
  { intros norm sorted. unfold within, changes_cmd.
    destruct (match tok with
              | [] => inl []
              | _ => match deserialize tok with
                     | None => inr EInvalidToken
                     | Some (u, ty0) => if beqb ty0 ty then inl u else inr EMismatchType
                     end
              end) as [f|e]; [|exact I].
    destruct (changes_page norm sorted rows (page_size_opt ps) f) as [its lk| |] eqn:E.
    - apply changes_page_size in E. destruct (serialize lk ty); exact E.
    - simpl. lia.
    - exact I. }
  repeat split.
  - unfold within, read_mem. destruct (read_cmd (page_offset l) ps tok) as [its nx| |] eqn:E; try exact I.
    apply read_cmd_items in E as (from & c & E). eapply page_offset_size; [apply page_size_opt_ne|exact E].
  - unfold within, read_sql. destruct (read_cmd (page_keyset ble rows) ps tok) as [its nx| |] eqn:E; try exact I.
    apply read_cmd_items in E as (from & c & E). eapply page_keyset_size; exact E.
  - apply Hch.
  - apply Hch.
  - unfold within, stores_mem, raw_cmd. destruct (page_clamp ble rows (page_size_opt ps) tok) eqn:E; try exact I.
    eapply page_clamp_size; exact E.
  - unfold within, stores_sql, raw_cmd. destruct (page_keyset ble rows (page_size_opt ps) tok) eqn:E; try exact I.
    eapply page_keyset_size; exact E.
  - unfold within, models_mem, raw_cmd. destruct (page_clamp desc rows (page_size_opt ps) tok) eqn:E; try exact I.
    eapply page_clamp_size; exact E.
  - unfold within, models_sql, raw_cmd. destruct (page_keyset desc rows (page_size_opt ps) tok) eqn:E; try exact I.
    eapply page_keyset_size; exact E.
Qed.

(* ------------------------------------------------------------------------------------------ *)
(* changes_token_type_bound *)

Theorem changes_token_type_bound_cmd {A} (st : N -> bytes -> changes_result A) ps u ty ty' :
  u <> [] -> mem c_pipe u = false -> ty <> ty' ->
  changes_cmd st ps ty' (u ++ c_pipe :: ty) = Rejected EMismatchType.
Proof.
  intros Hu Hp Hty. unfold changes_cmd. pose proof (deserialize_serialize u ty Hu Hp) as Hd.
  destruct (u ++ c_pipe :: ty) as [|c r] eqn:E.
  - apply app_eq_nil in E. destruct E; discriminate.
  - rewrite Hd. destruct (beqb ty ty') eqn:Eb; [|reflexivity].
    apply beqb_eq in Eb. contradiction.
Qed.

Lemma last_key_in {A} (res : list (bytes * A)) : res <> [] -> In (last_key res) (map fst res).
Proof.
  intro Hne. unfold last_key. rewrite last_key_keyat. destruct res as [|x l]; [contradiction|].
  unfold keyat. destruct (nth_error (x :: l) (length (x :: l) - 1)) as [r|] eqn:E.
  - apply nth_error_In in E. apply in_map. exact E.
  - apply nth_error_None in E. simpl in E. lia.
Qed.

Lemma changes_page_last_in {A} norm sorted (rows : list (bytes * A)) size from items lastk :
  changes_page norm sorted rows size from = CPage items lastk -> In lastk (map fst rows).
Proof.
  unfold changes_page.
  destruct (match from with [] => Some None | _ => match norm from with Some b => Some (Some b) | None => None end end)
    as [bd|]; [|discriminate].
  set (table := if sorted then isort ble rows else rows).
  assert (Ht : forall x, In x table -> In x rows).
  { intros x Hx. unfold table in Hx. destruct sorted; [|exact Hx].
    eapply Permutation_in; [apply isort_perm|exact Hx]. }
  set (m := match bd with None => table | Some b => _ end).
  assert (Hm : forall x, In x m -> In x table).
  { intros x Hx. unfold m in Hx. destruct bd; [|exact Hx]. apply filter_In in Hx. tauto. }
  destruct (firstn (N.to_nat size) m) as [|x res] eqn:E; [discriminate|].
  intro H. inversion H; subst.
  assert (Hl : In (last_key (x :: res)) (map fst (x :: res))) by (apply last_key_in; discriminate).
  apply in_map_iff in Hl as (r & Hr1 & Hr2). rewrite <- Hr1. apply in_map.
  apply Ht, Hm. rewrite <- E in Hr2. rewrite <- (firstn_skipn (N.to_nat size) m).
  apply in_or_app. left. exact Hr2.
Qed.

Theorem changes_issued_token_type_bound {A} norm sorted norm' sorted'
        (rows rows' : list (bytes * A)) ps ps' ty ty' tok items next :
  keys_nonempty rows = true -> keys_no_pipe rows = true ->
  changes_cmd (changes_page norm sorted rows) ps ty tok = Page items next ->
  items <> [] -> ty <> ty' ->
  changes_cmd (changes_page norm' sorted' rows') ps' ty' next = Rejected EMismatchType.
Proof.
  intros Hne Hnp H Hitems Hty. unfold changes_cmd in H.
  destruct (match tok with
            | [] => inl []
            | _ => match deserialize tok with
                   | None => inr EInvalidToken
                   | Some (u, ty0) => if beqb ty0 ty then inl u else inr EMismatchType
                   end
            end) as [f|e]; [|discriminate].
  destruct (changes_page norm sorted rows (page_size_opt ps) f) as [its lk| |] eqn:E.
  - apply changes_page_last_in in E.
    unfold keys_nonempty in Hne. unfold keys_no_pipe in Hnp. rewrite forallb_forall in Hne, Hnp.
    specialize (Hne _ E). specialize (Hnp _ E). apply negb_true_iff in Hnp.
    assert (Hlk : lk <> []) by (destruct lk; discriminate).
    rewrite (serialize_some lk ty Hlk) in H. inversion H; subst.
    apply changes_token_type_bound_cmd; assumption.
  - inversion H; subst. contradiction.
  - discriminate.
Qed.

(* ------------------------------------------------------------------------------------------ *)
(* malformed tokens: a token is either rejected or read as a LOWER BOUND -- the page is a prefix of
   the items at or after the position the token denotes; nothing before it comes back, no panic *)

Definition offset_sound {A} (l : list A) (size : N) (from : bytes) : Prop :=
  match page_offset l size from with
  | Page items _ => exists z n, parse_from from = Some z /\ items = firstn n (skipn (Z.to_nat z) l)
  | Rejected _ => parse_from from = None \/ exists z, parse_from from = Some z /\ (z < 0)%Z
  | Panic => False
  end.

(* memory ReadPage since fix 3cab6a7: EVERY byte string is rejected or read as a lower bound *)
Theorem malformed_token_rejected_memory {A} (l : list A) size from : offset_sound l size from.
Proof.
  unfold offset_sound, page_offset.
  destruct (parse_from from) as [z|]; [|left; reflexivity].
  destruct (z <? 0)%Z eqn:Eneg.
  - right. exists z. split; [reflexivity|]. apply Z.ltb_lt. exact Eneg.
  - apply Z.ltb_ge in Eneg. cbv zeta.
    assert (Hskip : skipn (Z.to_nat (Z.min z (Z.of_nat (length l)))) l = skipn (Z.to_nat z) l).
    { destruct (Z.leb_spec z (Z.of_nat (length l))) as [Hle|Hgt].
      - rewrite Z.min_l by lia. reflexivity.
      - rewrite Z.min_r by lia. rewrite Nat2Z.id, skipn_all. symmetry. apply skipn_all2. lia. }
    rewrite Hskip.
    destruct (negb (size =? 0) && (N.to_nat size <? length (skipn (Z.to_nat z) l))%nat).
    + exists z, (N.to_nat size). split; reflexivity.
    + exists z, (length (skipn (Z.to_nat z) l)). split; [reflexivity|]. symmetry. apply firstn_all.
Qed.

Definition five : list N := [0; 1; 2; 3; 4].

(* History (not a claim about the code any more): before 3cab6a7 read() tested `from <= len`
   before slicing -- "99|" on five tuples restarted from the first page, "-1|" panicked (F5). *)
Definition page_offset_before_3cab6a7 {A} (l : list A) (size : N) (from : bytes) : outcome A :=
  match parse_from from with
  | None => Rejected EInternal
  | Some z =>
    let len := Z.of_nat (length l) in
    if (z <=? len)%Z && (z <? 0)%Z then Panic
    else
      let m := if (z <=? len)%Z then skipn (Z.to_nat z) l else l in
      if negb (size =? 0) && (N.to_nat size <? length m)%nat
      then Page (firstn (N.to_nat size) m) (itoa (wrap64 (z + Z.of_N size)))
      else Page m []
  end.

Definition clamp_sound {A} le (rows : list (bytes * A)) (size : N) (from : bytes) : Prop :=
  match page_clamp le rows size from with
  | Page items _ => exists z n, parse_from from = Some z
                                /\ items = map snd (firstn n (skipn (Z.to_nat z) (isort le rows)))
  | Rejected _ => parse_from from = None
  | Panic => False
  end.

Theorem token_lower_bound_clamp {A} le (rows : list (bytes * A)) size from :
  clamp_sound le rows size from.
Proof.
  unfold clamp_sound, page_clamp. destruct (parse_from from) as [z|]; [|reflexivity].
  cbv zeta. set (t := isort le rows).
  destruct (Z.leb_spec z (Z.of_nat (length t))) as [Hle|Hgt].
  - exists z. eexists. split; [reflexivity|].
    replace (Z.to_nat (Z.max 0 (Z.min z (Z.of_nat (length t))))) with (Z.to_nat z) by lia.
    reflexivity.
  - exists z, 0%nat. split; [reflexivity|].
    replace (Z.to_nat (Z.max 0 (Z.min z (Z.of_nat (length t))))) with (length t) by lia.
    rewrite skipn_all. rewrite firstn_nil. reflexivity.
Qed.

Theorem token_lower_bound_keyset {A} le (rows : list (bytes * A)) size from :
  exists items next n, page_keyset le rows size from = Page items next
    /\ items = map snd (firstn n (match from with
                                  | [] => isort le rows
                                  | _ => filter (fun r => le from (fst r)) (isort le rows)
                                  end)).
Proof.
  unfold page_keyset.
  set (m := match from with [] => isort le rows | _ => _ end).
  destruct (size =? 0).
  - eexists. eexists. exists (N.to_nat size). split; reflexivity.
  - eexists. eexists. exists (Nat.min (N.to_nat size) (S (N.to_nat size))). split; [reflexivity|].
    rewrite firstn_firstn. reflexivity.
Qed.

Theorem token_lower_bound_changes {A} norm sorted (rows : list (bytes * A)) size from :
  match changes_page norm sorted rows size from with
  | CPage items _ =>
    exists n, items = map snd (firstn n
      (match from with
       | [] => (if sorted then isort ble rows else rows)
       | _ => filter (fun r => match norm from with
                               | Some b => blt b (norm_key norm (fst r))
                               | None => false
                               end) (if sorted then isort ble rows else rows)
       end))
  | CNotFound => True
  | CRejected _ => from <> [] /\ norm from = None
  end.
Proof.
  unfold changes_page. destruct from as [|c r].
  - destruct (firstn (N.to_nat size) (if sorted then isort ble rows else rows)) eqn:E; [exact I|].
    exists (N.to_nat size). rewrite E. reflexivity.
  - destruct (norm (c :: r)) as [b|]; [|split; [discriminate|reflexivity]].
    destruct (firstn (N.to_nat size) (filter _ _)) eqn:E; [exact I|].
    exists (N.to_nat size). rewrite E. reflexivity.
Qed.

(* tokens the serializer cannot split are rejected by the command layer, never passed down *)
Theorem unsplittable_token_rejected {A} (st : N -> bytes -> outcome A)
        (stc : N -> bytes -> changes_result A) ps ty tok :
  tok <> [] -> deserialize tok = None ->
  read_cmd st ps tok = Rejected EInvalidToken /\ changes_cmd stc ps ty tok = Rejected EInvalidToken.
Proof.
  intros Hne Hd. unfold read_cmd, changes_cmd. rewrite Hd.
  destruct tok; [contradiction|]. split; reflexivity.
Qed.

Theorem undecodable_token_rejected {A} (k : bytes -> outcome A) : with_b64 None k = Rejected EInvalidToken.
Proof. reflexivity. Qed.

Theorem sorted_listing_spec_all {A} (rows : list (bytes * A)) :
  (Permutation (isort ble rows) rows
   /\ StronglySorted (fun x y => ble (fst x) (fst y) = true) (isort ble rows))
  /\ (Permutation (isort desc rows) rows
      /\ StronglySorted (fun x y => ble (fst y) (fst x) = true) (isort desc rows)).
Proof. exact (conj (isort_ble_spec rows) (isort_desc_spec rows)). Qed.

(* ------------------------------------------------------------------------------------------ *)
(* inner-iteration faults *)

Lemma scan_until_hit {A} bad (stmt : list (bytes * A)) :
  fault_in_stmt bad stmt = true -> snd (scan_until bad stmt) = true.
Proof.
  induction stmt as [|r t IH]; simpl; intro H; [discriminate|].
  destruct (beqb (fst r) bad); [reflexivity|]. simpl in H.
  specialize (IH H). destruct (scan_until bad t) as [p e]. exact IH.
Qed.

Lemma scan_until_miss {A} bad (stmt : list (bytes * A)) :
  fault_in_stmt bad stmt = false -> scan_until bad stmt = (stmt, false).
Proof.
  induction stmt as [|r t IH]; simpl; intro H; [reflexivity|].
  destruct (beqb (fst r) bad); [discriminate|]. simpl in H. rewrite (IH H). reflexivity.
Qed.

Lemma page_keyset_f_clean {A} le (rows : list (bytes * A)) size from :
  page_keyset_f le rows size from None = page_keyset le rows size from.
Proof. reflexivity. Qed.

Theorem paging_fault_never_truncates_keyset {A} le (rows : list (bytes * A)) size from bad :
  fault_in_stmt bad (keyset_stmt le rows size from) = true ->
  page_keyset_f le rows size from (Some bad) = Rejected EInternal.
Proof.
  intro H. unfold page_keyset_f, scan. pose proof (scan_until_hit _ _ H) as Hs.
  destruct (scan_until bad (keyset_stmt le rows size from)) as [got failed].
  simpl in Hs. rewrite Hs. reflexivity.
Qed.

Theorem paging_fault_outside_keyset {A} le (rows : list (bytes * A)) size from bad :
  fault_in_stmt bad (keyset_stmt le rows size from) = false ->
  page_keyset_f le rows size from (Some bad) = page_keyset le rows size from.
Proof.
  intro H. unfold page_keyset_f, scan. rewrite (scan_until_miss _ _ H). reflexivity.
Qed.

(* command level: ListStores, ReadAuthorizationModels, Read on sqlite.  A request whose statement
   reaches the faulty row is an error -- never a page, hence never a page with the end marker *)
Theorem paging_fault_never_truncates_all {A} (rows : list (bytes * A)) ps tok from bad :
  (fault_in_stmt bad (keyset_stmt ble rows (page_size_opt ps) tok) = true ->
   stores_sql_f rows (Some bad) ps tok = Rejected EInternal)
  /\ (fault_in_stmt bad (keyset_stmt desc rows (page_size_opt ps) tok) = true ->
      models_sql_f rows (Some bad) ps tok = Rejected EInternal)
  /\ (storage_from tok = Some from ->
      fault_in_stmt bad (keyset_stmt ble rows (page_size_opt ps) from) = true ->
      read_sql_f rows (Some bad) ps tok = Rejected EInternal).
Proof.
  split; [|split].
  - intro H. unfold stores_sql_f, raw_cmd. apply paging_fault_never_truncates_keyset. exact H.
  - intro H. unfold models_sql_f, raw_cmd. apply paging_fault_never_truncates_keyset. exact H.
  - intros Hf H. unfold read_sql_f, read_cmd. unfold storage_from in Hf.
    destruct tok as [|c r].
    + inversion Hf; subst from. rewrite (paging_fault_never_truncates_keyset _ _ _ _ _ H). reflexivity.
    + destruct (deserialize (c :: r)) as [[u ty]|]; [|discriminate]. inversion Hf; subst from.
      rewrite (paging_fault_never_truncates_keyset _ _ _ _ _ H). reflexivity.
Qed.

(* without a reachable fault the faulty readers are the fault-free ones *)
Theorem paging_fault_outside_all {A} (rows : list (bytes * A)) ps tok bad :
  (fault_in_stmt bad (keyset_stmt ble rows (page_size_opt ps) tok) = false ->
   stores_sql_f rows (Some bad) ps tok = stores_sql rows ps tok)
  /\ (fault_in_stmt bad (keyset_stmt desc rows (page_size_opt ps) tok) = false ->
      models_sql_f rows (Some bad) ps tok = models_sql rows ps tok).
Proof.
  split; intro H; unfold stores_sql_f, stores_sql, models_sql_f, models_sql, raw_cmd;
    apply paging_fault_outside_keyset; exact H.
Qed.

Lemma changes_page_f_clean {A} (rows : list (bytes * A)) size from :
  changes_page_f rows size from None = changes_page (fun k => Some k) true rows size from.
Proof.
  unfold changes_page_f, changes_page, changes_stmt, scan, norm_key. destruct from; reflexivity.
Qed.

Lemma scan_until_prefix {A} bad (stmt : list (bytes * A)) :
  exists rest, stmt = fst (scan_until bad stmt) ++ rest.
Proof.
  induction stmt as [|r t IH]; simpl; [exists []; reflexivity|].
  destruct (beqb (fst r) bad); [exists (r :: t); reflexivity|].
  destruct IH as (rest & IH). destruct (scan_until bad t) as [p e]. simpl in *.
  exists rest. rewrite <- IH. reflexivity.
Qed.

(* ReadChanges under a fault: an error, or the genuine end of the log, or a NON-EMPTY prefix of
   what the statement yields together with the key of its last row as continuation position --
   a correct prefix continuation (the remaining changes are those after that key) *)
Theorem changes_fault_prefix_continuation {A} (rows : list (bytes * A)) size from bad :
  match changes_page_f rows size from (Some bad) with
  | CRejected _ => fault_in_stmt bad (changes_stmt rows size from) = true
  | CNotFound => changes_stmt rows size from = []
  | CPage items lastk =>
    exists got rest, got <> [] /\ changes_stmt rows size from = got ++ rest
                     /\ items = map snd got /\ lastk = last_key got
  end.
Proof.
  unfold changes_page_f, scan.
  destruct (scan_until_prefix bad (changes_stmt rows size from)) as (rest & Hp).
  destruct (fault_in_stmt bad (changes_stmt rows size from)) eqn:Eh.
  - pose proof (scan_until_hit _ _ Eh) as Hs.
    destruct (scan_until bad (changes_stmt rows size from)) as [got failed]. simpl in *. subst failed.
    destruct got as [|x g]; [reflexivity|].
    exists (x :: g), rest. repeat split; [discriminate|exact Hp].
  - rewrite (scan_until_miss _ _ Eh) in *. simpl in Hp.
    destruct (changes_stmt rows size from) as [|x g] eqn:Es; [reflexivity|].
    exists (x :: g), []. rewrite app_nil_r. repeat split. discriminate.
Qed.

Theorem changes_fault_outside {A} (rows : list (bytes * A)) size from bad :
  fault_in_stmt bad (changes_stmt rows size from) = false ->
  changes_page_f rows size from (Some bad) = changes_page_f rows size from None.
Proof.
  intro H. unfold changes_page_f, scan. rewrite (scan_until_miss _ _ H). reflexivity.
Qed.

Definition crows3 : list (bytes * N) :=
  [([48; 49; 65], 1); ([48; 49; 66], 2); ([48; 49; 67], 3)].

(* the role of the lock in memory.Write: a two-entry log whose second entry carries the OLDER ulid
   (writer A drew its timestamp, then writer B committed first) loses that entry under page size 1,
   and with three entries and page size 2 an entry comes back twice *)
Definition ulid_a : bytes := [48;49;75;53;90;56;88;57;71;48;48;48;48;48;48;48;48;48;48;48;48;48;48;48;48;49].
Definition ulid_b : bytes := [48;49;75;53;90;56;88;57;71;49;48;48;48;48;48;48;48;48;48;48;48;48;48;48;48;48].
Definition ulid_c : bytes := [48;49;75;53;90;56;88;57;71;50;48;48;48;48;48;48;48;48;48;48;48;48;48;48;48;48].

Theorem paging_changes_unsorted_refuted_witness :
  (exists rows : list (bytes * N),
      changes_sorted_by_ulid rows = false /\ ulid_keys_ok rows = true
      /\ map snd rows = [2; 1]
      /\ follow_changes 3 (changes_mem rows 1 []) []
         = ([([2], ulid_b ++ [124]); ([], ulid_b ++ [124])], EndMarker))
  /\ (exists rows : list (bytes * N),
      changes_sorted_by_ulid rows = false
      /\ map snd rows = [2; 1; 3]
      /\ pages_items (fst (follow_changes 4 (changes_mem rows 2 []) [])) = [2; 1; 2; 3]).
Proof.
  split.
  - exists [(ulid_b, 2); (ulid_a, 1)]. vm_compute. repeat split; reflexivity.
  - exists [(ulid_b, 2); (ulid_a, 1); (ulid_c, 3)]. vm_compute. repeat split; reflexivity.
Qed.
