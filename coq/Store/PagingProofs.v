(* Proofs about Store/Paging.v (C14). *)
From OFGA Require Import Store.Paging.
From Coq Require Import Lia ZArith Sorting.Sorted Sorting.Permutation.
Open Scope N_scope.

(* ------------------------------------------------------------------------------------------ *)
(* decimal numerals: atoi (itoa z) = z *)

Lemma parse_digits_fold s : forall a, forallb is_digit s = true ->
  parse_digits a s = Some (fold_left dstep s a).
Proof.
  induction s as [|c s IH]; simpl; intros a H; [reflexivity|].
  apply andb_true_iff in H as [H1 H2]. rewrite H1. apply IH. exact H2.
Qed.

Lemma digit_char n : is_digit (48 + n mod 10) = true.
Proof.
  unfold is_digit. pose proof (N.mod_upper_bound n 10 ltac:(discriminate)) as Hm.
  apply andb_true_iff. split; apply N.leb_le; generalize dependent (n mod 10); intros; lia.
Qed.

Lemma lsd_digits f : forall n, forallb is_digit (lsd f n) = true.
Proof.
  induction f as [|f IH]; intro n; cbn [lsd forallb]; [reflexivity|].
  rewrite digit_char. cbn [andb]. destruct (n <? 10); [reflexivity|apply IH].
Qed.

Definition dval (ds : bytes) : N := fold_right (fun c acc => dstep acc c) 0 ds.

Lemma dstep_digit a d : dstep a (48 + d) = a * 10 + d.
Proof. unfold dstep. lia. Qed.

Lemma dval_cons c r : dval (c :: r) = dstep (dval r) c.
Proof. reflexivity. Qed.

Lemma lsd_step f n :
  lsd (S f) n = (48 + n mod 10) :: (if n <? 10 then [] else lsd f (n / 10)).
Proof. reflexivity. Qed.

Lemma lsd_val f : forall n, n < 2 ^ N.of_nat (S f) -> dval (lsd (S f) n) = n.
Proof.
  induction f as [|f IH]; intros n Hn.
  - change (2 ^ N.of_nat 1) with 2 in Hn.
    assert (Hm : n mod 10 = n) by (apply N.mod_small; lia).
    rewrite lsd_step, dval_cons, dstep_digit, Hm.
    destruct (n <? 10); cbn [lsd]; change (dval []) with 0; lia.
  - rewrite lsd_step, dval_cons, dstep_digit. destruct (n <? 10) eqn:E.
    + apply N.ltb_lt in E.
      assert (Hm : n mod 10 = n) by (apply N.mod_small; lia).
      rewrite Hm. change (dval []) with 0. lia.
    + apply N.ltb_ge in E. rewrite IH.
      * pose proof (N.div_mod' n 10) as Hdm.
        generalize dependent (n mod 10). generalize dependent (n / 10). intros. lia.
      * rewrite (Nat2N.inj_succ (S f)), N.pow_succ_r' in Hn.
        apply N.div_lt_upper_bound; [discriminate|]. lia.
Qed.

Lemma log2_fuel n : n < 2 ^ N.of_nat (S (N.to_nat (N.log2 n))).
Proof.
  rewrite Nat2N.inj_succ, N2Nat.id.
  destruct n as [|p]; [reflexivity|].
  apply N.log2_spec. reflexivity.
Qed.

Lemma parse_itoa_N n : parse_digits 0 (itoa_N n) = Some n.
Proof.
  unfold itoa_N. rewrite parse_digits_fold.
  - f_equal. transitivity (dval (lsd (S (N.to_nat (N.log2 n))) n)); [|apply lsd_val, log2_fuel].
    unfold dval. set (L := lsd (S (N.to_nat (N.log2 n))) n).
    rewrite <- (rev_involutive L) at 2. rewrite fold_left_rev_right. reflexivity.
  - apply forallb_forall. intros x Hx. apply in_rev in Hx.
    pose proof (lsd_digits (S (N.to_nat (N.log2 n))) n) as Hd.
    rewrite forallb_forall in Hd. apply Hd. exact Hx.
Qed.

Lemma itoa_N_shape n : exists c r, itoa_N n = c :: r /\ is_digit c = true.
Proof.
  unfold itoa_N. remember (S (N.to_nat (N.log2 n))) as f.
  pose proof (lsd_digits f n) as Hd.
  assert (Hne : lsd f n <> []) by (subst f; simpl; discriminate).
  destruct (rev (lsd f n)) as [|c r] eqn:E.
  - apply (f_equal (@rev N)) in E. rewrite rev_involutive in E. simpl in E. contradiction.
  - exists c, r. split; [reflexivity|].
    rewrite forallb_forall in Hd. apply Hd. apply in_rev. rewrite E. left. reflexivity.
Qed.

Lemma itoa_N_nonempty n : itoa_N n <> [].
Proof. destruct (itoa_N_shape n) as (c & r & E & _). rewrite E. discriminate. Qed.

Lemma digit_not_sign c : is_digit c = true -> c <> 43 /\ c <> 45.
Proof.
  unfold is_digit. intro H. apply andb_true_iff in H as [H1 H2].
  apply N.leb_le in H1. apply N.leb_le in H2. lia.
Qed.

Lemma atoi_itoa_nonneg n : n < two63 -> atoi (itoa (Z.of_N n)) = Some (Z.of_N n).
Proof.
  intro Hn. assert (E : itoa (Z.of_N n) = itoa_N n).
  { destruct n; simpl; reflexivity. }
  rewrite E. destruct (itoa_N_shape n) as (c & r & Es & Hc).
  destruct (digit_not_sign c Hc) as [H43 H45].
  pose proof (parse_itoa_N n) as Hp. rewrite Es in Hp.
  unfold atoi. rewrite Es.
  apply N.eqb_neq in H43. apply N.eqb_neq in H45. rewrite H43, H45.
  rewrite Hp. apply N.ltb_lt in Hn. rewrite Hn. reflexivity.
Qed.

Lemma atoi_itoa_nat k : (Z.of_nat k < 9223372036854775808)%Z ->
  atoi (itoa (Z.of_nat k)) = Some (Z.of_nat k).
Proof.
  intro H. rewrite <- (nat_N_Z k). apply atoi_itoa_nonneg. unfold two63. lia.
Qed.

Lemma itoa_nat_shape k : exists c r, itoa (Z.of_nat k) = c :: r /\ forallb is_digit (c :: r) = true.
Proof.
  assert (E : itoa (Z.of_nat k) = itoa_N (N.of_nat k)).
  { rewrite <- (nat_N_Z k). destruct (N.of_nat k); reflexivity. }
  rewrite E. unfold itoa_N.
  assert (Hd : forallb is_digit (rev (lsd (S (N.to_nat (N.log2 (N.of_nat k)))) (N.of_nat k))) = true).
  { apply forallb_forall. intros x Hx. apply in_rev in Hx.
    pose proof (lsd_digits (S (N.to_nat (N.log2 (N.of_nat k)))) (N.of_nat k)) as Hd.
    rewrite forallb_forall in Hd. apply Hd. exact Hx. }
  pose proof (itoa_N_nonempty (N.of_nat k)) as Hne. unfold itoa_N in Hne.
  destruct (rev (lsd (S (N.to_nat (N.log2 (N.of_nat k)))) (N.of_nat k))) as [|c r]; [contradiction|].
  exists c, r. split; [reflexivity|exact Hd].
Qed.

Lemma digits_no_pipe s : forallb is_digit s = true -> mem c_pipe s = false.
Proof.
  induction s as [|c s IH]; simpl; intro H; [reflexivity|].
  apply andb_true_iff in H as [H1 H2]. rewrite (IH H2).
  unfold is_digit in H1. apply andb_true_iff in H1 as [_ H1]. apply N.leb_le in H1.
  assert (c =? c_pipe = false) by (apply N.eqb_neq; unfold c_pipe; lia).
  rewrite H. reflexivity.
Qed.

Lemma wrap64_small z : (0 <= z < 9223372036854775808)%Z -> wrap64 z = z.
Proof.
  intro H. unfold wrap64. rewrite Z.mod_small; lia.
Qed.

(* ------------------------------------------------------------------------------------------ *)
(* the byte order is a total order *)

Lemma ble_refl a : ble a a = true.
Proof.
  induction a as [|x a IH]; simpl; [reflexivity|]. rewrite N.ltb_irrefl. exact IH.
Qed.

Lemma ble_total a : forall b, ble a b = true \/ ble b a = true.
Proof.
  induction a as [|x a IH]; intros [|y b]; simpl; auto.
  destruct (x <? y) eqn:E1; [auto|]. destruct (y <? x) eqn:E2; [auto|]. apply IH.
Qed.

Lemma ble_antisym a : forall b, ble a b = true -> ble b a = true -> a = b.
Proof.
  induction a as [|x a IH]; intros [|y b]; simpl; intros H1 H2; try reflexivity; try discriminate.
  destruct (x <? y) eqn:E1; destruct (y <? x) eqn:E2; try discriminate.
  - apply N.ltb_lt in E1. apply N.ltb_lt in E2. lia.
  - apply N.ltb_ge in E1. apply N.ltb_ge in E2. assert (x = y) by lia. subst. f_equal. apply IH; assumption.
Qed.

Lemma ble_trans a : forall b c, ble a b = true -> ble b c = true -> ble a c = true.
Proof.
  induction a as [|x a IH]; intros [|y b] [|z c]; simpl; intros H1 H2;
    try reflexivity; try discriminate.
  destruct (x <? y) eqn:E1; destruct (y <? z) eqn:E2;
    destruct (x <? z) eqn:E3; try reflexivity;
    destruct (y <? x) eqn:E4; try discriminate;
    destruct (z <? y) eqn:E5; try discriminate;
    destruct (z <? x) eqn:E6;
    repeat match goal with
           | H : (_ <? _) = true |- _ => apply N.ltb_lt in H
           | H : (_ <? _) = false |- _ => apply N.ltb_ge in H
           end; try lia.
  eapply IH; eassumption.
Qed.

Lemma desc_refl a : desc a a = true. Proof. apply ble_refl. Qed.
Lemma desc_total a b : desc a b = true \/ desc b a = true.
Proof. unfold desc. destruct (ble_total a b); auto. Qed.
Lemma desc_antisym a b : desc a b = true -> desc b a = true -> a = b.
Proof. unfold desc. intros. apply ble_antisym; assumption. Qed.
Lemma desc_trans a b c : desc a b = true -> desc b c = true -> desc a c = true.
Proof. unfold desc. intros. eapply ble_trans; eassumption. Qed.

Lemma memb_In k ks : memb k ks = true <-> In k ks.
Proof.
  induction ks as [|x r IH]; simpl; [split; [discriminate|tauto]|].
  rewrite orb_true_iff, beqb_eq, IH. split; intros [H|H]; auto.
Qed.

Lemma nodupb_NoDup ks : nodupb ks = true <-> NoDup ks.
Proof.
  induction ks as [|k r IH]; simpl.
  - split; [constructor|reflexivity].
  - rewrite andb_true_iff, negb_true_iff, IH. split.
    + intros [H1 H2]. constructor; [|exact H2]. intro Hin. apply memb_In in Hin. congruence.
    + intro H. inversion H as [|? ? Hn Hd]; subst. split; [|exact Hd].
      destruct (memb k r) eqn:E; [|reflexivity]. apply memb_In in E. contradiction.
Qed.

(* ------------------------------------------------------------------------------------------ *)
(* sorting and range filters over a total order on keys *)

Section Ordered.
  Variable le : bytes -> bytes -> bool.
  Hypothesis le_refl : forall a, le a a = true.
  Hypothesis le_total : forall a b, le a b = true \/ le b a = true.
  Hypothesis le_antisym : forall a b, le a b = true -> le b a = true -> a = b.
  Hypothesis le_trans : forall a b c, le a b = true -> le b c = true -> le a c = true.

  Section Keyed.
    Context {X : Type} (kf : X -> bytes).
    Definition R (x y : X) : Prop := le (kf x) (kf y) = true.

    Lemma filter_all_true (p : X -> bool) t : Forall (fun x => p x = true) t -> filter p t = t.
    Proof.
      induction t as [|a t IH]; simpl; intro H; [reflexivity|].
      inversion H; subst. rewrite H2. f_equal. apply IH. assumption.
    Qed.

    Lemma filter_ge_skipn t : StronglySorted R t -> NoDup (map kf t) ->
      forall k r, nth_error t k = Some r ->
      filter (fun x => le (kf r) (kf x)) t = skipn k t.
    Proof.
      induction t as [|a t IH]; intros Hs Hn k r Hk.
      - destruct k; discriminate.
      - inversion Hs as [|? ? Hs' Hall]; subst. simpl in Hn. inversion Hn as [|? ? Hni Hn']; subst.
        destruct k as [|k]; simpl in Hk.
        + inversion Hk; subst. simpl. rewrite le_refl. f_equal.
          apply filter_all_true. exact Hall.
        + simpl. assert (Hin : In r t) by (eapply nth_error_In; eassumption).
          destruct (le (kf r) (kf a)) eqn:E.
          * exfalso. apply Hni. rewrite Forall_forall in Hall. specialize (Hall r Hin).
            unfold R in Hall. rewrite (le_antisym _ _ Hall E). apply in_map. exact Hin.
          * apply IH; assumption.
    Qed.

    Lemma filter_gt_skipn t : StronglySorted R t -> NoDup (map kf t) ->
      forall k r, nth_error t k = Some r ->
      filter (fun x => negb (le (kf x) (kf r))) t = skipn (S k) t.
    Proof.
      induction t as [|a t IH]; intros Hs Hn k r Hk.
      - destruct k; discriminate.
      - inversion Hs as [|? ? Hs' Hall]; subst. simpl in Hn. inversion Hn as [|? ? Hni Hn']; subst.
        destruct k as [|k]; simpl in Hk.
        + inversion Hk; subst. cbn [filter]. rewrite le_refl. cbn [negb skipn].
          apply filter_all_true. rewrite Forall_forall in *. intros x Hx.
          destruct (le (kf x) (kf r)) eqn:E; [|reflexivity].
          exfalso. apply Hni. specialize (Hall x Hx). unfold R in Hall.
          rewrite (le_antisym _ _ Hall E). apply in_map. exact Hx.
        + assert (Hin : In r t) by (eapply nth_error_In; eassumption).
          cbn [filter]. rewrite Forall_forall in Hall. specialize (Hall r Hin). unfold R in Hall.
          rewrite Hall. cbn [negb]. change (skipn (S (S k)) (a :: t)) with (skipn (S k) t).
          apply IH; assumption.
    Qed.
  End Keyed.

  Section Rows.
    Context {A : Type}.
    Notation row := (bytes * A)%type.
    Notation Rr := (@R row fst).

    Lemma insert_perm (r : row) l : Permutation (insert le r l) (r :: l).
    Proof.
      induction l as [|x t IH]; simpl; [reflexivity|].
      destruct (le (fst r) (fst x)); [reflexivity|].
      rewrite IH. apply perm_swap.
    Qed.

    Lemma isort_perm (l : list row) : Permutation (isort le l) l.
    Proof.
      induction l as [|r t IH]; simpl; [reflexivity|].
      rewrite insert_perm. constructor. exact IH.
    Qed.

    Lemma insert_sorted (r : row) l : StronglySorted Rr l -> StronglySorted Rr (insert le r l).
    Proof.
      induction l as [|x t IH]; simpl; intro Hs.
      - constructor; constructor.
      - inversion Hs as [|? ? Hs' Hall]; subst. destruct (le (fst r) (fst x)) eqn:E.
        + constructor; [exact Hs|]. constructor; [exact E|].
          rewrite Forall_forall in *. intros y Hy. unfold R. eapply le_trans; [exact E|]. apply Hall. exact Hy.
        + constructor; [apply IH; exact Hs'|].
          assert (Hxr : le (fst x) (fst r) = true) by (destruct (le_total (fst x) (fst r)); congruence).
          rewrite Forall_forall in *. intros y Hy.
          apply (Permutation_in _ (insert_perm r t)) in Hy. destruct Hy as [<-|Hy]; [exact Hxr|].
          apply Hall. exact Hy.
    Qed.

    Lemma isort_sorted (l : list row) : StronglySorted Rr (isort le l).
    Proof.
      induction l as [|r t IH]; simpl; [constructor|]. apply insert_sorted. exact IH.
    Qed.

    Lemma isort_id (l : list row) : StronglySorted Rr l -> isort le l = l.
    Proof.
      induction l as [|r t IH]; simpl; intro Hs; [reflexivity|].
      inversion Hs as [|? ? Hs' Hall]; subst. rewrite (IH Hs').
      destruct t as [|x t']; [reflexivity|]. simpl.
      inversion Hall; subst. unfold R in H1. rewrite H1. reflexivity.
    Qed.

    Lemma isort_nodup (l : list row) : NoDup (map fst l) -> NoDup (map fst (isort le l)).
    Proof.
      intro H. eapply Permutation_NoDup; [|exact H].
      apply Permutation_map. symmetry. apply isort_perm.
    Qed.

    Lemma isort_length (l : list row) : length (isort le l) = length l.
    Proof. apply Permutation_length. apply isort_perm. Qed.
  End Rows.
End Ordered.

(* ------------------------------------------------------------------------------------------ *)
(* following tokens: two generic induction schemes (strong induction on the remaining length) *)

Lemma pages_items_cons {A} (items : list A) t ps :
  pages_items ((items, t) :: ps) = items ++ pages_items ps.
Proof. reflexivity. Qed.

Lemma skipn_add {A} (l : list A) : forall k s, skipn (k + s) l = skipn s (skipn k l).
Proof.
  induction l as [|x l IH]; intros k s.
  - rewrite !skipn_nil. reflexivity.
  - destruct k as [|k]; [reflexivity|]. simpl. apply IH.
Qed.

Lemma firstn_skipn_add {A} (l : list A) k s : firstn s (skipn k l) ++ skipn (k + s) l = skipn k l.
Proof.
  rewrite skipn_add. apply firstn_skipn.
Qed.

Section FollowGeneric.
  Context {A : Type} (l : list A) (size : nat) (step : bytes -> outcome A) (tk : nat -> bytes).
  Hypothesis Hsize : (0 < size)%nat.
  Hypothesis Htk : forall k, (0 < k)%nat -> tk k <> [].
  Hypothesis Hstep : forall k, (k < length l \/ k = 0)%nat ->
    step (tk k) = if (k + size <? length l)%nat
                  then Page (firstn size (skipn k l)) (tk (k + size))
                  else Page (skipn k l) [].

  Lemma follow_generic : forall fuel k, (k < length l \/ k = 0)%nat -> (length l - k < fuel)%nat ->
    exists ps, follow fuel step (tk k) = (ps, EndMarker)
               /\ pages_items ps = skipn k l
               /\ Forall (fun p => (length (fst p) <= size)%nat) ps.
  Proof.
    induction fuel as [|fuel IH]; intros k Hk Hf; [lia|].
    cbn [follow]. rewrite (Hstep k Hk). destruct (k + size <? length l)%nat eqn:E.
    - apply Nat.ltb_lt in E.
      destruct (IH (k + size)%nat) as (ps & Hfo & Hit & Hall); [lia|lia|].
      destruct (tk (k + size)) as [|c r] eqn:Et; [exfalso; apply (Htk (k + size)%nat); [lia|exact Et]|].
      rewrite Hfo. eexists. split; [reflexivity|]. split.
      + rewrite pages_items_cons, Hit. apply firstn_skipn_add.
      + constructor; [|exact Hall]. simpl. rewrite firstn_length. lia.
    - apply Nat.ltb_ge in E. eexists. split; [reflexivity|]. split.
      + unfold pages_items. simpl. rewrite app_nil_r. reflexivity.
      + constructor; [|constructor]. simpl. rewrite skipn_length. lia.
  Qed.
End FollowGeneric.

Section FollowChangesGeneric.
  Context {A : Type} (l : list A) (size : nat) (step : bytes -> outcome A) (tk : nat -> bytes).
  Hypothesis Hsize : (0 < size)%nat.
  Hypothesis Hstep : forall k, (k <= length l)%nat ->
    step (tk k) = if (k <? length l)%nat
                  then Page (firstn size (skipn k l)) (tk (Nat.min (k + size) (length l)))
                  else Page [] (tk k).

  Lemma follow_changes_generic : forall fuel k, (k <= length l)%nat -> (length l - k < fuel)%nat ->
    exists ps, follow_changes fuel step (tk k) = (ps, EndMarker)
               /\ pages_items ps = skipn k l
               /\ Forall (fun p => (length (fst p) <= size)%nat) ps.
  Proof.
    induction fuel as [|fuel IH]; intros k Hk Hf; [lia|].
    cbn [follow_changes]. rewrite (Hstep k Hk). destruct (k <? length l)%nat eqn:E.
    - apply Nat.ltb_lt in E.
      destruct (IH (Nat.min (k + size) (length l))) as (ps & Hfo & Hit & Hall); [lia|lia|].
      destruct (firstn size (skipn k l)) as [|x items] eqn:Ef.
      + exfalso. apply (f_equal (@length A)) in Ef. rewrite firstn_length, skipn_length in Ef.
        simpl in Ef. lia.
      + rewrite Hfo. eexists. split; [reflexivity|]. split.
        * rewrite pages_items_cons, Hit, <- Ef.
          destruct (Nat.le_gt_cases (k + size) (length l)) as [Hle|Hgt].
          -- rewrite Nat.min_l by exact Hle. apply firstn_skipn_add.
          -- rewrite Nat.min_r by lia. rewrite skipn_all, app_nil_r.
             apply firstn_all2. rewrite skipn_length. lia.
        * constructor; [|exact Hall]. cbn [fst]. rewrite <- Ef, firstn_length. lia.
    - apply Nat.ltb_ge in E. assert (k = length l) by lia. subst k.
      eexists. split; [reflexivity|]. split.
      + unfold pages_items. simpl. rewrite skipn_all. reflexivity.
      + constructor; [|constructor]. simpl. lia.
  Qed.
End FollowChangesGeneric.
