(* C13 — the read loops of the in-memory backend, pkg/storage/memory/memory.go, transcribed as
   they are coded (including the places where they do not do what storage.go documents).
   Definitions only. *)
From OFGA Require Import Base.Bytes Store.ReadSpec.

(* memory.go:37 match(t, target).  target.Object / Relation / User empty = ignored.
   Object "type:" compares the type only.  User: ToUserParts(target.User); a non-empty id
   compares the whole user string, an empty id tests the prefix "type:". *)
Definition m_match (t : tuple) (o : ofilter) (r : bytes) (u : ufilter) : bool :=
  (match o with
   | OAny => true
   | OType ty => beqb ty (t_otype t)
   | OFull ty id => beqb ty (t_otype t) && beqb id (t_oid t)
   end) &&
  (beqb r [] || beqb (t_rel t) r) &&
  (match u with
   | UAny => true
   | UType ty => beqb (u_type (t_user t)) ty
   | UExact x => if beqb (u_id x) [] then beqb (u_type (t_user t)) (u_type x)
                 else user_eqb (t_user t) x
   end).

(* slices.Contains(filter.Conditions, t.ConditionName) *)
Definition m_contains (cs : list bytes) (c : bytes) : bool := existsb (beqb c) cs.

(* memory.go:293 read.  `if filter.Object == "" && filter.Relation == "" && filter.User == ""`
   copies the whole store — the Conditions are not looked at on that path. *)
Definition m_filter_is_empty (f : read_filter) : bool :=
  match rf_obj f, rf_usr f with
  | OAny, UAny => beqb (rf_rel f) []
  | _, _ => false
  end.

Fixpoint m_read_loop (s : store) (f : read_filter) : list tuple :=
  match s with
  | [] => []
  | t :: s' =>
    if m_match t (rf_obj f) (rf_rel f) (rf_usr f) &&
       (null (rf_conds f) || m_contains (rf_conds f) (t_cond t))
    then t :: m_read_loop s' f
    else m_read_loop s' f
  end.

Definition memory_read (s : store) (f : read_filter) : list tuple :=
  map obs (if m_filter_is_empty f then s else m_read_loop s f).

(* memory.go:488 ReadUserTuple: the first record that matches, skipping records whose condition
   is not listed. *)
Fixpoint memory_read_user_tuple (s : store) (k : key) (cs : list bytes) : option tuple :=
  match s with
  | [] => None
  | t :: s' =>
    if m_match t (OFull (k_otype k) (k_oid k)) (k_rel k) (UExact (k_user k)) then
      if negb (null cs) && negb (m_contains cs (t_cond t))
      then memory_read_user_tuple s' k cs          (* continue *)
      else Some (obs t)
    else memory_read_user_tuple s' k cs
  end.

(* memory.go:509 ReadUsersetTuples (since d969704).
     for t := range tuples {
       if match(t, {Object, Relation}) && GetUserTypeFromUser(t.User) == UserSet {
         if len(Conditions) > 0 && !Contains(Conditions, t.ConditionName) { continue }
         if len(restrictions) == 0 { matches = append(matches, t); continue }
         for _, allowedType := range restrictions {
           if allowedType.GetType() == userType && allowedType.GetRelation() == userRelation {
             matches = append(matches, t)
             break                         // a tuple is returned once
           }
         }
       } }
   RelationReference.GetRelation() is "" for a wildcard reference and for a bare type. *)
Definition m_restr_rel (r : restriction) : bytes :=
  match r with RRel _ rel => rel | RWild _ => [] | RBare _ => [] end.
Definition m_restr_type (r : restriction) : bytes :=
  match r with RRel ty _ => ty | RWild ty => ty | RBare ty => ty end.
Definition m_restr_match (r : restriction) (t : tuple) : bool :=
  beqb (m_restr_type r) (u_type (t_user t)) && beqb (m_restr_rel r) (u_rel (t_user t)).

Fixpoint m_usersets_inner (rs : list restriction) (t : tuple) : list tuple :=
  match rs with
  | [] => []
  | r :: rs' => if m_restr_match r t then [t] (* break *) else m_usersets_inner rs' t
  end.

Fixpoint m_usersets_loop (s : store) (f : usersets_filter) : list tuple :=
  match s with
  | [] => []
  | t :: s' =>
    if m_match t (uf_obj f) (uf_rel f) UAny && is_userset_user (t_user t) then
      if negb (null (uf_conds f)) && negb (m_contains (uf_conds f) (t_cond t))
      then m_usersets_loop s' f                     (* continue *)
      else if null (uf_restr f) then t :: m_usersets_loop s' f
      else m_usersets_inner (uf_restr f) t ++ m_usersets_loop s' f
    else m_usersets_loop s' f
  end.

Definition memory_read_userset_tuples (s : store) (f : usersets_filter) : list tuple :=
  map obs (m_usersets_loop s f).

(* memory.go:552 ReadStartingWithUser.
     if t.ObjectType != filter.ObjectType { continue }
     if t.Relation != filter.Relation { continue }
     if filter.ObjectIDs != nil && !filter.ObjectIDs.Exists(t.ObjectID) { continue }
     if len(Conditions) > 0 && !Contains(Conditions, t.ConditionName) { continue }
     for _, userFilter := range filter.UserFilter {       // one append per matching entry
       targetUser := Object, or Object#Relation when Relation != ""
       if targetUser != t.User { continue }
       matches = append(matches, t) }
   then sort.Slice by ObjectID. *)
Fixpoint m_rswu_inner (us : list user) (t : tuple) : list tuple :=
  match us with
  | [] => []
  | u :: us' => if user_eqb u (t_user t) then t :: m_rswu_inner us' t else m_rswu_inner us' t
  end.

Fixpoint m_rswu_loop (s : store) (f : rswu_filter) : list tuple :=
  match s with
  | [] => []
  | t :: s' =>
    if negb (beqb (t_otype t) (sf_otype f)) then m_rswu_loop s' f
    else if negb (beqb (t_rel t) (sf_rel f)) then m_rswu_loop s' f
    else if (match sf_oids f with None => false | Some l => negb (m_contains l (t_oid t)) end)
         then m_rswu_loop s' f
    else if negb (null (sf_conds f)) && negb (m_contains (sf_conds f) (t_cond t))
         then m_rswu_loop s' f
    else m_rswu_inner (sf_users f) t ++ m_rswu_loop s' f
  end.

(* byte-wise string order (Go's < on strings), and an insertion sort on the object id *)
Fixpoint bleb (a b : bytes) : bool :=
  match a, b with
  | [], _ => true
  | _ :: _, [] => false
  | x :: a', y :: b' => if N.ltb x y then true else if N.eqb x y then bleb a' b' else false
  end.

Fixpoint insert_by_oid (t : tuple) (l : list tuple) : list tuple :=
  match l with
  | [] => [t]
  | x :: l' => if bleb (t_oid t) (t_oid x) then t :: l else x :: insert_by_oid t l'
  end.
Fixpoint sort_by_oid (l : list tuple) : list tuple :=
  match l with [] => [] | t :: l' => insert_by_oid t (sort_by_oid l') end.

Definition memory_rswu (s : store) (f : rswu_filter) : list tuple :=
  map obs (sort_by_oid (m_rswu_loop s f)).
