(* C15: the changelog of the memory backend faithfully records tuple history.
   Proofs over Store/Memory.v (definitions of replay / histories are in Memory.v). *)
From OFGA Require Import Store.Memory Store.MemoryProofs.
From Coq Require Import Permutation.
Open Scope N_scope.

Arguments rec_obs : simpl never.

(* ---------------------------------------------------------------------------------------- *)
(* Replay                                                                                    *)

Definition nocolon (r : mrec) : Prop := mem c_colon (m_otype r) = false.

Lemma rec_key_cols a b :
  nocolon a -> nocolon b -> rec_key a = rec_key b ->
  m_otype a = m_otype b /\ m_oid a = m_oid b /\ m_rel a = m_rel b /\ m_user a = m_user b.
Proof.
  unfold rec_key. intros Ha Hb H. inversion H as [[H1 H2 H3]].
  apply build_object_inj in H1; auto. tauto.
Qed.

(* match looks at the four key columns only *)
Lemma tk_match_cols a b k :
  nocolon a -> nocolon b -> rec_key a = rec_key b -> tk_match a k = tk_match b k.
Proof.
  intros Ha Hb H. destruct (rec_key_cols a b Ha Hb H) as (E1 & E2 & E3 & E4).
  unfold tk_match. rewrite E1, E2, E3, E4. reflexivity.
Qed.

Lemma drop_key_notin k ts : ~ In k (map fst ts) -> drop_key k ts = ts.
Proof.
  unfold drop_key. induction ts as [|[k' c] ts IH]; simpl; intro H; [reflexivity|].
  destruct (key_eqb k' k) eqn:E.
  - apply key_eqb_eq in E. subst. exfalso. apply H. left. reflexivity.
  - simpl. rewrite IH; [reflexivity|]. intro Hin. apply H. right. exact Hin.
Qed.

Lemma filter_filter_comm {A : Type} (p q : A -> bool) l : filter p (filter q l) = filter q (filter p l).
Proof.
  induction l as [|a l IH]; simpl; [reflexivity|].
  destruct (q a) eqn:Eq, (p a) eqn:Ep; simpl; rewrite ?Eq, ?Ep, IH; reflexivity.
Qed.

Lemma filter_filter_and {A : Type} (p q : A -> bool) l : filter p (filter q l) = filter (fun x => q x && p x) l.
Proof.
  induction l as [|a l IH]; simpl; [reflexivity|].
  destruct (q a); simpl; [destruct (p a); rewrite IH; reflexivity | exact IH].
Qed.

(* replaying the delete entries of one request removes exactly the tuples carrying those keys *)
Lemma replay_deletes (gone : list mrec) : forall ts,
  fold_left apply_change (map (fun r => (OpDelete, rec_key r, (@nil N, @nil N))) gone) ts
  = filter (fun t => negb (in_keys (fst t) (map rec_key gone))) ts.
Proof.
  induction gone as [|g gone IH]; simpl; intro ts.
  - induction ts as [|t ts IHt]; simpl; [reflexivity|]. rewrite <- IHt. reflexivity.
  - rewrite IH. unfold drop_key. rewrite filter_filter_and. apply filter_ext_in'. intros t _.
    rewrite negb_orb. rewrite (key_eqb_sym (fst t) (rec_key g)). reflexivity.
Qed.

Lemma kept_after_deletes (p : mrec -> bool) (T : list mrec) :
  (forall a b, In a T -> In b T -> rec_key a = rec_key b -> p a = p b) ->
  filter (fun t => negb (in_keys (fst t) (map rec_key (filter p T)))) (map rec_obs T)
  = map rec_obs (filter (fun r => negb (p r)) T).
Proof.
  intro Hp. rewrite <- (filter_map_comm rec_obs (fun t => negb (in_keys (fst t) (map rec_key (filter p T))))).
  f_equal. apply filter_ext_in'. intros r Hr. f_equal.
  change (fst (rec_obs r)) with (rec_key r).
  destruct (p r) eqn:E.
  - apply in_keys_In. apply in_map. apply filter_In. auto.
  - apply in_keys_false. intro Hin. apply in_map_iff in Hin as (g & Eg & Hg).
    apply filter_In in Hg as [Hg Hpg]. rewrite (Hp g r Hg Hr Eg) in Hpg. congruence.
Qed.

(* each appended write is for a key that no tuple carries at that moment *)
Fixpoint fresh_seq (ts : list otuple) (added : list witem) : Prop :=
  match added with
  | [] => True
  | w :: a => ~ In (rec_key (new_rec w)) (map fst ts) /\ fresh_seq (ts ++ [rec_obs (new_rec w)]) a
  end.

Lemma apply_wr now w ts :
  ~ In (rec_key (new_rec w)) (map fst ts) ->
  apply_change ts (obs_change (wr_change now w)) = ts ++ [rec_obs (new_rec w)].
Proof.
  intro H. unfold obs_change, wr_change, apply_change. cbn [c_op c_key c_cond].
  rewrite drop_key_notin; [reflexivity | exact H].
Qed.

Lemma replay_writes now (added : list witem) : forall ts,
  fresh_seq ts added ->
  fold_left apply_change (map obs_change (map (wr_change now) added)) ts
  = ts ++ map rec_obs (map new_rec added).
Proof.
  induction added as [|w a IH]; cbn [map fold_left fresh_seq]; intros ts H.
  - rewrite app_nil_r. reflexivity.
  - destruct H as [Hn Hf]. rewrite (apply_wr now w ts Hn).
    etransitivity; [apply IH; exact Hf|]. rewrite <- app_assoc. reflexivity.
Qed.

Lemma write_loop_fresh now wrs : forall recs log recs' log',
  forallb self_match wrs = true ->
  (forall r, In r recs -> nocolon r) ->
  write_loop now wrs recs log = (recs', log') ->
  exists added, recs' = recs ++ map new_rec added /\ log' = log ++ map (wr_change now) added
                /\ fresh_seq (map rec_obs recs) added /\ (forall w, In w added -> In w wrs).
Proof.
  induction wrs as [|w ws IH]; simpl; intros recs log recs' log' Hs Hc H.
  - inversion H; subst. exists []. simpl. rewrite !app_nil_r. auto.
  - apply andb_true_iff in Hs as [Hsw Hs].
    destruct (existsb (fun et => tk_match et (w_key w)) recs) eqn:Ex.
    + destruct (IH _ _ _ _ Hs Hc H) as (ad & -> & -> & Hf & Hin). exists ad. repeat split; auto.
    + assert (Hc' : forall r, In r (recs ++ [new_rec w]) -> nocolon r).
      { intros r Hr. apply in_app_iff in Hr as [Hr|[<-|[]]]; [auto | apply new_rec_nocolon]. }
      destruct (IH _ _ _ _ Hs Hc' H) as (ad & -> & -> & Hf & Hin). exists (w :: ad).
      simpl. rewrite <- !app_assoc. simpl. repeat split; auto.
      * rewrite map_map. intro Hk. apply in_map_iff in Hk as (r & Er & Hr).
        change (fst (rec_obs r)) with (rec_key r) in Er.
        assert (tk_match r (w_key w) = true) as Hm.
        { rewrite (tk_match_cols r (new_rec w) (w_key w) (Hc r Hr) (new_rec_nocolon w) Er). exact Hsw. }
        apply not_true_iff_false in Ex. apply Ex. apply existsb_exists. exists r. auto.
      * rewrite map_app in Hf. exact Hf.
      * intros x [->|Hx]; auto.
Qed.

Definition replay_inv (st : mstate) : Prop :=
  replay (obs_log st) = obs_tuples st /\ (forall r, In r (tuples st) -> nocolon r).

Lemma deleted_by_cols df a b :
  nocolon a -> nocolon b -> rec_key a = rec_key b -> deleted_by df a = deleted_by df b.
Proof.
  intros Ha Hb H. unfold deleted_by. apply existsb_ext'. intros x _.
  rewrite (tk_match_cols a b (fst x) Ha Hb H). reflexivity.
Qed.

Lemma mem_write_replay ondup onmiss dels wrs now st r st' :
  replay_inv st -> forallb self_match wrs = true ->
  mem_write ondup onmiss dels wrs now st = (r, st') -> replay_inv st'.
Proof.
  intros [Hrep Hc] Hs. unfold mem_write.
  destruct (sanitize_deletes (tuples st) (opt_ignore onmiss) dels) as [e|flags].
  { intro H; inversion H; subst. split; assumption. }
  destruct (sanitize_writes (tuples st) (opt_ignore ondup) wrs) as [e|].
  { intro H; inversion H; subst. split; assumption. }
  set (df := combine dels flags).
  destruct (write_loop now wrs _ _) as [recs log2] eqn:El. intro H; inversion H; subst. clear H.
  assert (Hck : forall x, In x (filter (fun x => negb (deleted_by df x)) (tuples st)) -> nocolon x).
  { intros x Hx. apply filter_In in Hx as [Hx _]. auto. }
  apply (write_loop_fresh now wrs _ _ _ _ Hs Hck) in El as (added & -> & -> & Hf & _).
  split.
  - unfold replay, obs_log, obs_tuples in *. simpl.
    rewrite !map_app, !fold_left_app. rewrite Hrep.
    assert (E : map obs_change (map (del_change now) (filter (deleted_by df) (tuples st)))
                = map (fun r => (OpDelete, rec_key r, (@nil N, @nil N))) (filter (deleted_by df) (tuples st))).
    { rewrite map_map. reflexivity. }
    rewrite E, replay_deletes, kept_after_deletes.
    + apply replay_writes. exact Hf.
    + intros a b Ha Hb. apply deleted_by_cols; auto.
  - simpl. intros x Hx. apply in_app_iff in Hx as [Hx|Hx]; [auto|].
    apply in_map_iff in Hx as (w & <- & _). apply new_rec_nocolon.
Qed.

Lemma cmd_state_cases ondup onmiss dels wrs now st :
  snd (mem_cmd_write ondup onmiss dels wrs now st) = st \/
  snd (mem_cmd_write ondup onmiss dels wrs now st) = snd (mem_write ondup onmiss dels wrs now st).
Proof.
  unfold mem_cmd_write, cmd_wrap. destruct (cmd_validate ondup onmiss dels wrs); [left; reflexivity|].
  right. destruct (mem_write ondup onmiss dels wrs now st) as [[|e] s']; reflexivity.
Qed.

Lemma step_replay st q : replay_inv st -> req_self_match q = true -> replay_inv (step st q).
Proof.
  intros Hi Hs. unfold step. destruct (q_cmd q).
  - destruct (cmd_state_cases (q_ondup q) (q_onmiss q) (q_dels q) (q_wrs q) (q_now q) st) as [E|E]; rewrite E; [exact Hi|].
    destruct (mem_write (q_ondup q) (q_onmiss q) (q_dels q) (q_wrs q) (q_now q) st) as [r s'] eqn:Em.
    simpl. eapply mem_write_replay; eauto.
  - destruct (mem_write (q_ondup q) (q_onmiss q) (q_dels q) (q_wrs q) (q_now q) st) as [r s'] eqn:Em.
    simpl. eapply mem_write_replay; eauto.
Qed.

Lemma fold_step_replay h : forall st,
  replay_inv st -> forallb req_self_match h = true -> replay_inv (fold_left step h st).
Proof.
  induction h as [|q h IH]; simpl; intros st Hi Hs; [exact Hi|].
  apply andb_true_iff in Hs as [Hq Hs]. apply IH; [apply step_replay; assumption | exact Hs].
Qed.

(* C15: for every history, folding the changelog oldest-first onto the empty store gives
   exactly the current tuples *)
Theorem replay_reconstructs_lemma (h : list req) :
  forallb req_self_match h = true ->
  replay (obs_log (run_history h)) = obs_tuples (run_history h).
Proof.
  intro Hs. apply (fold_step_replay h empty_state); [|exact Hs].
  split; [reflexivity | intros r []].
Qed.

(* every well-formed key is self-matching, so the hypothesis holds for everything the command
   layer lets through *)
Lemma wf_self_match w : wf_key (w_key w) = true -> self_match w = true.
Proof.
  intro H. unfold self_match. rewrite (match_wf (new_rec w) (w_key w) (new_rec_nocolon w) H).
  rewrite (new_rec_key w H). apply key_eqb_refl.
Qed.

(* ---------------------------------------------------------------------------------------- *)
(* One entry per applied item                                                                *)

Theorem one_entry_per_applied_item_lemma ondup onmiss dels wrs now st st' :
  mem_write ondup onmiss dels wrs now st = (WOk, st') ->
  exists (p : mrec -> bool) (news : list mrec),
    let gone := filter p (tuples st) in
    let kept := filter (fun r => negb (p r)) (tuples st) in
    tuples st' = kept ++ news
    /\ obs_log st' = obs_log st
                     ++ map (fun r => (OpDelete, rec_key r, (@nil N, @nil N))) gone
                     ++ map (fun r => (OpWrite, rec_key r, snd (rec_obs r))) news
    /\ length (changes st') = (length (changes st) + length gone + length news)%nat
    /\ Forall (fun c => c_ts c = now) (skipn (length (changes st)) (changes st')).
Proof.
  intro H. pose proof (write_all_or_nothing_lemma _ _ _ _ _ _ _ _ H) as (p & added & Ht & Hc & _ & _).
  exists p, (map new_rec added). simpl. repeat split.
  - exact Ht.
  - unfold obs_log. rewrite Hc, !map_app, !map_map. reflexivity.
  - rewrite Hc, !app_length, !map_length. lia.
  - rewrite Hc. rewrite skipn_app, skipn_all, Nat.sub_diag. simpl.
    apply Forall_app. split; apply Forall_forall; intros c Hin; apply in_map_iff in Hin as (x & <- & _); reflexivity.
Qed.

(* ---------------------------------------------------------------------------------------- *)
(* Horizon                                                                                   *)

Lemma rc_scan_sound typ now h l c :
  In c (rc_scan typ now h l) -> In c l /\ type_ok typ (c_key c) = true /\ c_ts c + h <= now.
Proof.
  induction l as [|a l IH]; simpl; [tauto|].
  destruct (type_ok typ (c_key a)) eqn:Et.
  - destruct (now <? c_ts a + h) eqn:El; [intros []|].
    intros [<-|Hin].
    + apply N.ltb_ge in El. auto.
    + destruct (IH Hin) as (H1 & H2 & H3). auto.
  - intro Hin. destruct (IH Hin) as (H1 & H2 & H3). auto.
Qed.

Theorem horizon_withholds_lemma typ now h desc st c :
  In c (read_changes typ now h desc st) ->
  In c (changes st) /\ type_ok typ (c_key c) = true /\ c_ts c + h <= now.
Proof.
  unfold read_changes. intro H. destruct desc; [apply in_rev in H|]; eapply rc_scan_sound; eauto.
Qed.

Lemma ts_sorted_weaken a b l : a <= b -> ts_sorted b l = true -> ts_sorted a l = true.
Proof.
  destruct l as [|c l]; simpl; [reflexivity|]. intros Hab H.
  apply andb_true_iff in H as [H1 H2]. apply N.leb_le in H1.
  apply andb_true_iff. split; [apply N.leb_le; lia | exact H2].
Qed.

Lemma ts_sorted_all_ge last l c : ts_sorted last l = true -> In c l -> last <= c_ts c.
Proof.
  revert last. induction l as [|a l IH]; simpl; intros last H Hin; [contradiction|].
  apply andb_true_iff in H as [H1 H2]. apply N.leb_le in H1.
  destruct Hin as [<-|Hin]; [exact H1|]. specialize (IH _ H2 Hin). lia.
Qed.

(* with non-decreasing timestamps nothing old enough is withheld either *)
Lemma rc_scan_complete typ now h l last :
  ts_sorted last l = true ->
  rc_scan typ now h l = filter (fun c => type_ok typ (c_key c) && (c_ts c + h <=? now)) l.
Proof.
  revert last. induction l as [|a l IH]; simpl; intros last H; [reflexivity|].
  apply andb_true_iff in H as [H1 H2].
  destruct (type_ok typ (c_key a)) eqn:Et; simpl; [|eapply IH; eauto].
  destruct (now <? c_ts a + h) eqn:El.
  - apply N.ltb_lt in El. replace (c_ts a + h <=? now) with false by (symmetry; apply N.leb_gt; lia).
    symmetry. clear IH. induction l as [|b l IHl]; simpl; [reflexivity|].
    simpl in H2. apply andb_true_iff in H2 as [H3 H4]. apply N.leb_le in H3.
    replace (c_ts b + h <=? now) with false by (symmetry; apply N.leb_gt; lia).
    rewrite andb_false_r. apply IHl. eapply ts_sorted_weaken; [|exact H4]. exact H3.
  - apply N.ltb_ge in El. replace (c_ts a + h <=? now) with true by (symmetry; apply N.leb_le; lia).
    f_equal. eapply IH; eauto.
Qed.

Theorem horizon_complete_lemma typ now h st :
  ts_sorted 0 (changes st) = true ->
  read_changes typ now h false st
  = filter (fun c => type_ok typ (c_key c) && (c_ts c + h <=? now)) (changes st).
Proof. intro H. unfold read_changes. eapply rc_scan_complete; eauto. Qed.

(* ---- the same for a client that follows continuation tokens page by page ---- *)

Lemma rc_scan_from_sound typ now h from l : forall i j c,
  In (j, c) (rc_scan_from typ now h from i l) ->
  In c l /\ type_ok typ (c_key c) = true /\ c_ts c + h <= now /\ (from < j)%nat.
Proof.
  induction l as [|a l IH]; simpl; intros i j c H; [contradiction|].
  destruct (type_ok typ (c_key a)) eqn:Et.
  - destruct (now <? c_ts a + h) eqn:El; [contradiction|]. apply N.ltb_ge in El.
    destruct (i <=? from)%nat eqn:Ei.
    + destruct (IH _ _ _ H) as (H1 & H2 & H3 & H4). auto.
    + destruct H as [H|H].
      * inversion H; subst. apply Nat.leb_gt in Ei. auto.
      * destruct (IH _ _ _ H) as (H1 & H2 & H3 & H4). auto.
  - destruct (IH _ _ _ H) as (H1 & H2 & H3 & H4). auto.
Qed.

Lemma read_page_sound typ now h from ps st c :
  In c (fst (read_page typ now h from ps st)) ->
  In c (changes st) /\ type_ok typ (c_key c) = true /\ c_ts c + h <= now.
Proof.
  unfold read_page. simpl. intro H. apply in_map_iff in H as ([j c'] & E & Hin). simpl in E. subst c'.
  assert (Hin' : In (j, c) (rc_scan_from typ now h from 1 (changes st))).
  { clear - Hin. revert Hin. generalize (rc_scan_from typ now h from 1 (changes st)) as L.
    induction ps as [|n IH]; intros L H; [destruct L; contradiction|].
    destruct L as [|x L]; [contradiction|]. simpl in H. destruct H as [->|H]; [left; reflexivity|].
    right. apply IH. exact H. }
  destruct (rc_scan_from_sound _ _ _ _ _ _ _ _ Hin') as (H1 & H2 & H3 & _). auto.
Qed.

(* C15, horizon across pages: whatever the page size, the token and the number of requests, every
   page of a token-following read through the ReadChanges command contains only changes that
   are, at the time of THAT request, at least as old as the configured horizon *)
Theorem horizon_withholds_all_pages_lemma typ hz ps st : forall nows tok pages tok',
  follow_tokens typ hz ps nows tok st = (pages, tok') ->
  Forall2 (fun now pg => forall c, In c pg ->
             In c (changes st) /\ type_ok typ (c_key c) = true /\ c_ts c + hz <= now)
          (firstn (length pages) nows) pages.
Proof.
  induction nows as [|now ns IH]; intros tok pages tok' H; cbn [follow_tokens] in H.
  - inversion H; subst. constructor.
  - unfold read_changes_cmd in H.
    destruct (read_page typ now hz tok ps st) as [pg t1] eqn:Ep.
    destruct pg as [|c0 pg'].
    + inversion H; subst. constructor.
    + destruct (follow_tokens typ hz ps ns t1 st) as [pgs t2] eqn:Ef. inversion H; subst. clear H.
      cbn [length firstn]. constructor.
      * intros c Hc. apply (read_page_sound typ now hz tok ps st c). rewrite Ep. exact Hc.
      * eapply IH. exact Ef.
Qed.

(* histories whose clock does not go backwards keep the changelog sorted *)
Fixpoint nows_sorted (last : N) (h : list req) : bool :=
  match h with
  | [] => true
  | q :: h' => (last <=? q_now q) && nows_sorted (q_now q) h'
  end.

Definition sorted_upto (last : N) (st : mstate) : Prop :=
  ts_sorted 0 (changes st) = true /\ (forall c, In c (changes st) -> c_ts c <= last).

Lemma ts_sorted_app_const a l now m :
  ts_sorted a l = true -> (forall c, In c l -> c_ts c <= now) -> a <= now ->
  Forall (fun c => c_ts c = now) m -> ts_sorted a (l ++ m) = true.
Proof.
  revert a. induction l as [|x l IH]; simpl; intros a Hs Hle Ha Hm.
  - revert a Ha. induction Hm as [|y m Hy Hm IHm]; simpl; intros a Ha; [reflexivity|].
    rewrite Hy. apply andb_true_iff. split; [apply N.leb_le; exact Ha | apply IHm; lia].
  - apply andb_true_iff in Hs as [H1 H2]. rewrite H1. simpl. apply IH; auto.
Qed.

Lemma mem_write_sorted ondup onmiss dels wrs now st r st' last :
  sorted_upto last st -> last <= now ->
  mem_write ondup onmiss dels wrs now st = (r, st') -> sorted_upto now st'.
Proof.
  intros [Hs Hle] Hl H. pose proof (write_all_or_nothing_lemma _ _ _ _ _ _ _ _ H) as Hw.
  destruct r as [|e].
  - destruct Hw as (p & added & _ & Hc & _). unfold sorted_upto. rewrite Hc. split.
    + apply ts_sorted_app_const with (now := now); auto.
      * intros c Hc'. specialize (Hle c Hc'). lia.
      * lia.
      * apply Forall_app. split; apply Forall_forall; intros c Hin; apply in_map_iff in Hin as (x & <- & _); reflexivity.
    + intros c Hin. apply in_app_iff in Hin as [Hin|Hin]; [specialize (Hle c Hin); lia|].
      apply in_app_iff in Hin as [Hin|Hin]; apply in_map_iff in Hin as (x & <- & _); simpl; lia.
  - subst st'. split; [exact Hs|]. intros c Hc. specialize (Hle c Hc). lia.
Qed.

Lemma step_sorted st q last : sorted_upto last st -> last <= q_now q -> sorted_upto (q_now q) (step st q).
Proof.
  intros Hi Hl.
  assert (Hsame : sorted_upto (q_now q) st).
  { destruct Hi as [H1 H2]. split; [exact H1|]. intros c Hc. specialize (H2 c Hc). lia. }
  unfold step. destruct (q_cmd q).
  - destruct (cmd_state_cases (q_ondup q) (q_onmiss q) (q_dels q) (q_wrs q) (q_now q) st) as [E|E]; rewrite E; [exact Hsame|].
    destruct (mem_write (q_ondup q) (q_onmiss q) (q_dels q) (q_wrs q) (q_now q) st) as [r s'] eqn:Em.
    simpl. exact (mem_write_sorted _ _ _ _ _ _ _ _ _ Hi Hl Em).
  - destruct (mem_write (q_ondup q) (q_onmiss q) (q_dels q) (q_wrs q) (q_now q) st) as [r s'] eqn:Em.
    simpl. exact (mem_write_sorted _ _ _ _ _ _ _ _ _ Hi Hl Em).
Qed.

Lemma fold_step_sorted h : forall st last,
  sorted_upto last st -> nows_sorted last h = true -> ts_sorted 0 (changes (fold_left step h st)) = true.
Proof.
  induction h as [|q h IH]; simpl; intros st last Hi Hs; [destruct Hi; assumption|].
  apply andb_true_iff in Hs as [H1 H2]. apply N.leb_le in H1.
  eapply IH; [eapply step_sorted; eauto | exact H2].
Qed.

Theorem history_sorted_lemma h : nows_sorted 0 h = true -> ts_sorted 0 (changes (run_history h)) = true.
Proof.
  intro H. eapply (fold_step_sorted h empty_state 0); [|exact H]. split; [reflexivity | intros c []].
Qed.

(* ---------------------------------------------------------------------------------------- *)
(* Descending order                                                                          *)

Theorem desc_is_rev_asc_lemma typ now h st :
  read_changes typ now h true st = rev (read_changes typ now h false st).
Proof. reflexivity. Qed.

(* ---------------------------------------------------------------------------------------- *)
(* The type filter commutes with replay                                                      *)

Definition entry_key (c : cop * key * ocond) : key := snd (fst c).

Lemma apply_change_filter (q : key -> bool) acc c :
  q (entry_key c) = true ->
  apply_change (filter (fun t => q (fst t)) acc) c = filter (fun t => q (fst t)) (apply_change acc c).
Proof.
  destruct c as [[op k] cd]. unfold entry_key. simpl. intro Hq. unfold drop_key.
  destruct op.
  - rewrite filter_app. simpl. rewrite Hq. f_equal. apply filter_filter_comm.
  - apply filter_filter_comm.
Qed.

Lemma apply_change_other (q : key -> bool) acc c :
  q (entry_key c) = false ->
  filter (fun t => q (fst t)) (apply_change acc c) = filter (fun t => q (fst t)) acc.
Proof.
  destruct c as [[op k] cd]. unfold entry_key. simpl. intro Hq.
  assert (E : filter (fun t => q (fst t)) (drop_key k acc) = filter (fun t => q (fst t)) acc).
  { unfold drop_key. rewrite filter_filter_and. apply filter_ext_in'. intros t _.
    destruct (key_eqb (fst t) k) eqn:Ek; simpl; [|reflexivity].
    apply key_eqb_eq in Ek. rewrite Ek, Hq. reflexivity. }
  destruct op; [|exact E]. rewrite filter_app. cbn [filter fst]. rewrite Hq, app_nil_r. exact E.
Qed.

Lemma replay_filter_gen (q : key -> bool) (l : olog) : forall acc : list otuple,
  fold_left apply_change (filter (fun c => q (entry_key c)) l) (filter (fun t => q (fst t)) acc)
  = filter (fun t => q (fst t)) (fold_left apply_change l acc).
Proof.
  induction l as [|c l IH]; intro acc; [reflexivity|].
  cbn [filter fold_left]. destruct (q (entry_key c)) eqn:E.
  - cbn [fold_left]. rewrite (apply_change_filter q acc c E). apply IH.
  - rewrite <- (apply_change_other q acc c E). apply IH.
Qed.

Theorem type_filter_commutes_lemma (q : key -> bool) (l : olog) :
  replay (filter (fun c => q (entry_key c)) l) = filter (fun t => q (fst t)) (replay l).
Proof. unfold replay. exact (replay_filter_gen q l []). Qed.

Lemma rc_scan_all typ now h l :
  (forall c, In c l -> c_ts c + h <= now) ->
  rc_scan typ now h l = filter (fun c => type_ok typ (c_key c)) l.
Proof.
  induction l as [|a l IH]; simpl; intro H; [reflexivity|].
  rewrite IH by (intros c Hc; apply H; right; exact Hc).
  destruct (type_ok typ (c_key a)); [|reflexivity].
  replace (now <? c_ts a + h) with false; [reflexivity|].
  symmetry. apply N.ltb_ge. apply H. left. reflexivity.
Qed.

(* replaying what ReadChanges returns for one object type (everything old enough) gives the
   store's tuples of that type *)
Theorem typed_replay_reconstructs_lemma (h : list req) typ now hz :
  forallb req_self_match h = true ->
  (forall c, In c (changes (run_history h)) -> c_ts c + hz <= now) ->
  replay (map obs_change (read_changes typ now hz false (run_history h)))
  = filter (fun t => type_ok typ (fst t)) (obs_tuples (run_history h)).
Proof.
  intros Hs Hold. unfold read_changes. rewrite (rc_scan_all typ now hz _ Hold).
  rewrite <- (replay_reconstructs_lemma h Hs). rewrite <- type_filter_commutes_lemma.
  unfold obs_log. f_equal. rewrite <- filter_map_comm. reflexivity.
Qed.

(* non-vacuity: a concrete history (write two tuples, delete one through a partial key, write
   again) satisfying the hypotheses *)
Definition ex_history : list req :=
  [ mkReq false OError OError [] [mkW k_d1 None true; mkW k_d2 (Some (b_c1, CNil)) true] 1;
    mkReq true OError OIgnore [k_d1] [] 2;
    mkReq false OIgnore OError [] [mkW k_d1 (Some (b_c1, CStruct [])) true; mkW k_d2 (Some (b_c1, CNil)) true] 3 ].

Example replay_reconstructs_nonvacuous :
  forallb req_self_match ex_history = true /\ nows_sorted 0 ex_history = true /\
  length (obs_tuples (run_history ex_history)) = 2%nat /\ length (changes (run_history ex_history)) = 4%nat.
Proof. vm_compute. repeat split; reflexivity. Qed.
