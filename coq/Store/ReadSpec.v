(* C13 — the documented meaning of the tuple read operations of pkg/storage/storage.go
   (RelationshipTupleReader), as list comprehensions over a store.

   Abstraction level.  A stored tuple is the record that both backends keep:
     object type / object id / relation / user / condition name / condition context.
   The user is kept in its three parts (user_object_type, user_object_id, user_relation — the
   columns of the SQL schema, and the result of tuple.ToUserParts on the memory backend's
   string): "user:a" = (user,a,""), "user:*" = (user,*,""), "group:1#member" = (group,1,member).
   The string <-> parts codec is property C29's subject; here parts are compared directly.
   A condition context is an opaque identifier (N): index into the driver's table of
   structpb values compared by canonical JSON; 0 = no context / empty context (both backends
   return &structpb.Struct{} for either, see tuple.NewRelationshipCondition).

   Definitions only (proofs are in Store/ReadProofs.v). *)
From OFGA Require Import Base.Bytes.

Record user := mkUser { u_type : bytes; u_id : bytes; u_rel : bytes }.

Record tuple := mkTuple {
  t_otype : bytes; t_oid : bytes; t_rel : bytes;
  t_user : user;
  t_cond : bytes;      (* condition name, [] = unconditioned *)
  t_ctx  : N           (* condition context id, 0 = none/empty *)
}.

Definition store := list tuple.

Definition star : bytes := [c_star].

Definition user_eqb (a b : user) : bool :=
  beqb (u_type a) (u_type b) && beqb (u_id a) (u_id b) && beqb (u_rel a) (u_rel b).

(* tuple.IsTypedWildcard on the parts *)
Definition is_wildcard_user (u : user) : bool := beqb (u_id u) star && beqb (u_rel u) [].

(* tuple.GetUserTypeFromUser(user) == UserSet: an object#relation or a typed wildcard *)
Definition is_userset_user (u : user) : bool := negb (beqb (u_rel u) []) || beqb (u_id u) star.

(* What a reader hands back for a stored record: storage.TupleRecord.AsTuple.  A record whose
   condition name is empty is returned without condition (and therefore without context). *)
Definition obs (t : tuple) : tuple :=
  if beqb (t_cond t) [] then mkTuple (t_otype t) (t_oid t) (t_rel t) (t_user t) [] 0 else t.

(* ---- filters ---------------------------------------------------------------------------- *)

(* ReadFilter.Object: "" | "type:" | "type:id" *)
Inductive ofilter := OAny | OType (ty : bytes) | OFull (ty id : bytes).
(* ReadFilter.User: "" | "type:" | a full user *)
Inductive ufilter := UAny | UType (ty : bytes) | UExact (u : user).

Definition obj_ok (o : ofilter) (t : tuple) : bool :=
  match o with
  | OAny => true
  | OType ty => beqb (t_otype t) ty
  | OFull ty id => beqb (t_otype t) ty && beqb (t_oid t) id
  end.

(* Relation: "" = not constrained *)
Definition rel_ok (r : bytes) (t : tuple) : bool := beqb r [] || beqb (t_rel t) r.

Definition usr_ok (u : ufilter) (t : tuple) : bool :=
  match u with
  | UAny => true
  | UType ty => beqb (u_type (t_user t)) ty
  | UExact x => user_eqb (t_user t) x
  end.

(* Conditions: nil or empty = not constrained; otherwise the tuple's condition name must be one
   of the listed names ("" stands for "no condition"). *)
Definition bmem (c : bytes) (cs : list bytes) : bool := existsb (beqb c) cs.
Definition null {A} (l : list A) : bool := match l with [] => true | _ => false end.
Definition conds_ok (cs : list bytes) (t : tuple) : bool := null cs || bmem (t_cond t) cs.

Record read_filter := mkRF { rf_obj : ofilter; rf_rel : bytes; rf_usr : ufilter; rf_conds : list bytes }.

(* Read / ReadPage (all pages): the tuples that match the partially filled key. *)
Definition read_pred (f : read_filter) (t : tuple) : bool :=
  obj_ok (rf_obj f) t && rel_ok (rf_rel f) t && usr_ok (rf_usr f) t && conds_ok (rf_conds f) t.
Definition read_spec (s : store) (f : read_filter) : list tuple :=
  map obs (filter (read_pred f) s).

(* ReadUserTuple: "one tuple that matches the provided key exactly", ErrNotFound otherwise. *)
Record key := mkKey { k_otype : bytes; k_oid : bytes; k_rel : bytes; k_user : user }.
Definition key_of (t : tuple) : key := mkKey (t_otype t) (t_oid t) (t_rel t) (t_user t).
Definition key_eqb (a b : key) : bool :=
  beqb (k_otype a) (k_otype b) && beqb (k_oid a) (k_oid b) && beqb (k_rel a) (k_rel b) &&
  user_eqb (k_user a) (k_user b).

Definition rut_pred (k : key) (cs : list bytes) (t : tuple) : bool :=
  key_eqb (key_of t) k && conds_ok cs t.
(* all candidates (at most one when keys are unique in the store) *)
Definition read_user_tuple_spec (s : store) (k : key) (cs : list bytes) : list tuple :=
  map obs (filter (rut_pred k cs) s).
(* an answer r (Some tuple | None = ErrNotFound) is acceptable *)
Definition read_user_tuple_sat (s : store) (k : key) (cs : list bytes) (r : option tuple) : Prop :=
  match r with
  | Some x => In x (read_user_tuple_spec s k cs)
  | None => read_user_tuple_spec s k cs = []
  end.

(* ReadUsersetTuples: the userset tuples (object#relation users and typed wildcards) of an
   object and relation, restricted to the allowed user types: type#relation or type:*. *)
Inductive restriction :=
  | RRel (ty rel : bytes)   (* RelationReference{Type, Relation}  : ty#rel *)
  | RWild (ty : bytes)      (* RelationReference{Type, Wildcard}  : ty:*   *)
  | RBare (ty : bytes).     (* RelationReference{Type} only: a direct type; never a userset *)

Definition restr_ok (r : restriction) (t : tuple) : bool :=
  match r with
  | RRel ty rel => beqb (u_type (t_user t)) ty && beqb (u_rel (t_user t)) rel
  | RWild ty => beqb (u_type (t_user t)) ty && is_wildcard_user (t_user t)
  | RBare _ => false
  end.

Record usersets_filter := mkUF {
  uf_obj : ofilter; uf_rel : bytes; uf_restr : list restriction; uf_conds : list bytes }.

Definition usersets_pred (f : usersets_filter) (t : tuple) : bool :=
  is_userset_user (t_user t) && obj_ok (uf_obj f) t && rel_ok (uf_rel f) t &&
  (null (uf_restr f) || existsb (fun r => restr_ok r t) (uf_restr f)) && conds_ok (uf_conds f) t.
Definition read_userset_tuples_spec (s : store) (f : usersets_filter) : list tuple :=
  map obs (filter (usersets_pred f) s).

(* ReadStartingWithUser: tuples of objectType#relation whose user is one of the listed users
   (an ObjectRelation without relation denotes the object / typed wildcard itself), intersected
   with ObjectIDs when present (None = nil = absent; Some [] = present and empty). *)
Record rswu_filter := mkSF {
  sf_otype : bytes; sf_rel : bytes; sf_users : list user;
  sf_oids : option (list bytes); sf_conds : list bytes }.

Definition oids_ok (o : option (list bytes)) (t : tuple) : bool :=
  match o with None => true | Some l => bmem (t_oid t) l end.

Definition rswu_pred (f : rswu_filter) (t : tuple) : bool :=
  beqb (t_otype t) (sf_otype f) && beqb (t_rel t) (sf_rel f) && oids_ok (sf_oids f) t &&
  conds_ok (sf_conds f) t && existsb (user_eqb (t_user t)) (sf_users f).
Definition rswu_spec (s : store) (f : rswu_filter) : list tuple :=
  map obs (filter (rswu_pred f) s).

(* ---- well-formedness (the contract of the callers, not a finding) ------------------------ *)

(* stored users: the id "*" only occurs without relation (type:* is valid, type:*#rel is not) *)
Definition wf_user (u : user) : bool := negb (beqb (u_id u) star) || beqb (u_rel u) [].
Definition wf_store (s : store) : bool := forallb (fun t => wf_user (t_user t)) s.

(* the parts named in a filter are non-empty: "type:" and "type:id" have a type, a full user has
   a type and an id *)
Definition nonempty (b : bytes) : bool := negb (beqb b []).
Definition wf_ofilter (o : ofilter) : bool :=
  match o with OAny => true | OType ty => nonempty ty | OFull ty id => nonempty ty && nonempty id end.
Definition wf_ufilter (u : ufilter) : bool :=
  match u with UAny => true | UType ty => nonempty ty
             | UExact x => nonempty (u_type x) && nonempty (u_id x) end.
Definition wf_read_filter (f : read_filter) : bool := wf_ofilter (rf_obj f) && wf_ufilter (rf_usr f).

(* the primary key of the tuple table *)
Fixpoint keys_unique (s : store) : bool :=
  match s with
  | [] => true
  | t :: s' => negb (existsb (fun t' => key_eqb (key_of t') (key_of t)) s') && keys_unique s'
  end.
