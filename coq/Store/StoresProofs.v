(* Proofs for Store/Stores.v (C16). *)
From OFGA Require Import Base.Bytes Store.Assertions Store.AssertionsProofs Store.Models Store.Stores.
From OFGA Require Import Generated.C16KeySites.
From Coq Require Import String.

Section StoresProofs.
  Variable body : Type.
  Variable ntypes : body -> N.
  Variables tup chg wreq wres qreq qres : Type.
  Variable apply_write : view body tup chg -> wreq -> wres * option (list tup * list chg).
  Variable eval_query : view body tup chg -> qreq -> qres.

  Notation sstate := (sstate body tup chg).
  Notation sop := (sop body wreq qreq).
  Notation sout := (sout body wres qres).
  Notation sstep := (sstep body ntypes tup chg wreq wres qreq qres apply_write eval_query).
  Notation srun := (srun body ntypes tup chg wreq wres qreq qres apply_write eval_query).
  Notation strace := (strace body ntypes tup chg wreq wres qreq qres apply_write eval_query).
  Notation sinit := (sinit body tup chg).
  Notation op_store := (op_store body wreq qreq).
  Notation on_store := (on_store body wreq qreq).
  Notation op_store_ok := (op_store_ok body wreq qreq).
  Notation outs_on := (outs_on body wreq wres qreq qres).

  (* the projection of the state on store s, as an equivalence of states *)
  Definition proj_eq (a b : sstate) (s : bytes) : Prop :=
    alookup beqb s (s_stores body tup chg a) = alookup beqb s (s_stores body tup chg b) /\
    getl (s_tuples body tup chg a) s = getl (s_tuples body tup chg b) s /\
    getl (s_changes body tup chg a) s = getl (s_changes body tup chg b) s /\
    alookup beqb s (s_models body tup chg a) = alookup beqb s (s_models body tup chg b) /\
    (forall m, mem_read (s_asserts body tup chg a) s m = mem_read (s_asserts body tup chg b) s m).

  Lemma proj_eq_refl a s : proj_eq a a s.
  Proof. repeat split. Qed.

  Lemma proj_eq_trans a b c s : proj_eq a b s -> proj_eq b c s -> proj_eq a c s.
  Proof.
    intros (A1 & A2 & A3 & A4 & A5) (B1 & B2 & B3 & B4 & B5).
    split; [congruence|]. split; [congruence|]. split; [congruence|]. split; [congruence|].
    intro m. rewrite A5. apply B5.
  Qed.

  (* ---- maps ------------------------------------------------------------------------------ *)

  Lemma up_same {T} k (v : T) m : alookup beqb k (aupsert beqb k v m) = Some v.
  Proof. apply (alookup_upsert_same _ _ beqb beqb_eq). Qed.

  Lemma up_other {T} k k' (v : T) m : k <> k' -> alookup beqb k' (aupsert beqb k v m) = alookup beqb k' m.
  Proof. apply (alookup_upsert_other _ _ beqb beqb_eq). Qed.

  Lemma rm_same {T} k (m : list (bytes * T)) : alookup beqb k (aremove k m) = None.
  Proof.
    induction m as [|[k' v] m IH]; simpl; [reflexivity|].
    destruct (beqb k' k) eqn:E; [exact IH|]. simpl. rewrite E. exact IH.
  Qed.

  Lemma rm_other {T} k k' (m : list (bytes * T)) : k <> k' -> alookup beqb k' (aremove k m) = alookup beqb k' m.
  Proof.
    intro Hne. induction m as [|[k0 v] m IH]; simpl; [reflexivity|].
    destruct (beqb k0 k) eqn:E.
    - apply beqb_eq in E. subst k0.
      destruct (beqb k k') eqn:E'; [apply beqb_eq in E'; contradiction | exact IH].
    - simpl. destruct (beqb k0 k'); [reflexivity | exact IH].
  Qed.

  Lemma getl_up_same {T} k (v : list T) m : getl (aupsert beqb k v m) k = v.
  Proof. unfold getl. rewrite up_same. reflexivity. Qed.

  Lemma getl_up_other {T} k k' (v : list T) m : k <> k' -> getl (aupsert beqb k v m) k' = getl m k'.
  Proof. intro H. unfold getl. rewrite (up_other _ _ _ _ H). reflexivity. Qed.

  Lemma mem_same st s m l : store_ok s = true -> mem_read (mem_write st s m l) s m = Some l.
  Proof. exact (law_same _ _ mem_backend_ok st s m l). Qed.

  Lemma mem_other st s m l s' m' :
    store_ok s = true -> store_ok s' = true -> (s, m) <> (s', m') ->
    mem_read (mem_write st s m l) s' m' = mem_read st s' m'.
  Proof. exact (law_other _ _ mem_backend_ok st s m l s' m'). Qed.

  Lemma asserts_other st s m l s' m' :
    store_ok s = true -> store_ok s' = true -> s <> s' ->
    mem_read (mem_write st s m l) s' m' = mem_read st s' m'.
  Proof.
    intros Hs Hs' Hne. apply mem_other; [exact Hs | exact Hs'|].
    intro E. inversion E. contradiction.
  Qed.

  Lemma asserts_same_store st st' s m l m' :
    store_ok s = true ->
    (forall x, mem_read st s x = mem_read st' s x) ->
    mem_read (mem_write st s m l) s m' = mem_read (mem_write st' s m l) s m'.
  Proof.
    intros Hs H. destruct (beqb m m') eqn:E.
    - apply beqb_eq in E. subst m'. rewrite !mem_same by exact Hs. reflexivity.
    - assert (Hne : (s, m) <> (s, m')).
      { intro X. inversion X. subst. rewrite beqb_refl in E. discriminate. }
      rewrite !mem_other by assumption. apply H.
  Qed.

  Lemma latest_eq (a b : mmem_state body) s :
    alookup beqb s a = alookup beqb s b -> mmem_latest body a s = mmem_latest body b s.
  Proof. intro H. unfold mmem_latest. rewrite H. reflexivity. Qed.

  Lemma view_eq a b s : proj_eq a b s -> view_of body tup chg a s = view_of body tup chg b s.
  Proof.
    intros (_ & H2 & H3 & H4 & _). unfold view_of. rewrite H2, H3, (latest_eq _ _ _ H4). reflexivity.
  Qed.

  (* ---- frame: an operation on store s leaves the projection of every other store alone ----- *)

  Lemma frame st o s s' :
    op_store o = Some s -> s <> s' -> store_ok s = true -> store_ok s' = true ->
    proj_eq (fst (sstep st o)) st s'.
  Proof.
    intros Ho Hne Hs Hs'.
    destruct o as [id name | id | id | | ids nm | s0 w | s0 q | s0 id b | s0 id | s0 | s0 | s0 m l | s0 m];
      simpl in Ho; inversion Ho; subst; simpl; try apply proj_eq_refl.
    - destruct (alookup beqb s (s_stores body tup chg st)); simpl; [apply proj_eq_refl|].
      split; [apply up_other; exact Hne | repeat split].
    - split; [simpl; apply rm_other; exact Hne | repeat split].
    - destruct (apply_write (view_of body tup chg st s) w) as [r [[t' c']|]]; simpl; [|apply proj_eq_refl].
      split; [reflexivity|]. split; [apply getl_up_other; exact Hne|].
      split; [apply getl_up_other; exact Hne | repeat split].
    - unfold mmem_write. simpl. split; [reflexivity|]. split; [reflexivity|]. split; [reflexivity|].
      split; [apply up_other; exact Hne | intro; reflexivity].
    - split; [reflexivity|]. split; [reflexivity|]. split; [reflexivity|]. split; [reflexivity|].
      intro m'. simpl. apply asserts_other; assumption.
  Qed.

  (* ---- determinacy: the result of an operation on s, and the new projection of s, depend only
     on the projection of s ---------------------------------------------------------------- *)

  Lemma determinacy a b o s :
    op_store o = Some s -> store_ok s = true -> proj_eq a b s ->
    snd (sstep a o) = snd (sstep b o) /\ proj_eq (fst (sstep a o)) (fst (sstep b o)) s.
  Proof.
    intros Ho Hs P. pose proof P as (P1 & P2 & P3 & P4 & P5).
    destruct o as [id name | id | id | | ids nm | s0 w | s0 q | s0 id b0 | s0 id | s0 | s0 | s0 m l | s0 m];
      simpl in Ho; inversion Ho; subst; simpl.
    - rewrite P1. destruct (alookup beqb s (s_stores body tup chg b)); simpl; [split; [reflexivity | exact P]|].
      split; [reflexivity|]. split; [simpl; rewrite !up_same; reflexivity|].
      split; [exact P2|]. split; [exact P3|]. split; [exact P4 | exact P5].
    - split; [reflexivity|]. split; [simpl; rewrite !rm_same; reflexivity|].
      split; [exact P2|]. split; [exact P3|]. split; [exact P4 | exact P5].
    - rewrite P1. split; [reflexivity | exact P].
    - rewrite (view_eq a b s P).
      destruct (apply_write (view_of body tup chg b s) w) as [r [[t' c']|]]; simpl; [|split; [reflexivity | exact P]].
      split; [reflexivity|]. split; [exact P1|]. split; [simpl; rewrite !getl_up_same; reflexivity|].
      split; [simpl; rewrite !getl_up_same; reflexivity|]. split; [exact P4 | exact P5].
    - rewrite (view_eq a b s P). split; [reflexivity | exact P].
    - unfold mmem_write. simpl. split; [reflexivity|].
      split; [exact P1|]. split; [exact P2|]. split; [exact P3|].
      split; [simpl; rewrite !up_same, P4; reflexivity | exact P5].
    - unfold mmem_read. rewrite P4. split; [reflexivity | exact P].
    - rewrite (latest_eq _ _ _ P4). split; [reflexivity | exact P].
    - unfold mmem_list. rewrite P4. split; [reflexivity | exact P].
    - split; [reflexivity|]. split; [exact P1|]. split; [exact P2|]. split; [exact P3|]. split; [exact P4|].
      intro m'. simpl. apply asserts_same_store; assumption.
    - rewrite P5. split; [reflexivity | exact P].
  Qed.

  Lemma on_store_true s o : on_store s o = true -> op_store o = Some s.
  Proof.
    unfold Stores.on_store. destruct (op_store o) as [s'|]; [|discriminate].
    intro H. apply beqb_eq in H. subst. reflexivity.
  Qed.

  Lemma on_store_false s o :
    on_store s o = false -> op_store o = None \/ exists s', op_store o = Some s' /\ s' <> s.
  Proof.
    unfold Stores.on_store. destruct (op_store o) as [s'|]; [|auto].
    intro H. right. exists s'. split; [reflexivity|]. intro E. subst. rewrite beqb_refl in H. discriminate.
  Qed.

  Lemma no_store_no_change st o : op_store o = None -> fst (sstep st o) = st.
  Proof. destruct o; simpl; try discriminate; reflexivity. Qed.

  Lemma local_gen h : forall a b s,
    proj_eq a b s -> store_ok s = true -> forallb op_store_ok h = true ->
    proj_eq (srun a h) (srun b (filter (on_store s) h)) s /\
    outs_on s (strace a h) = map snd (strace b (filter (on_store s) h)).
  Proof.
    induction h as [|o h IH]; intros a b s P Hs Hok; [split; [exact P | reflexivity]|].
    simpl in Hok. apply andb_true_iff in Hok as [Ho Hh].
    cbn [filter Stores.srun Stores.strace].
    destruct (on_store s o) eqn:E.
    - pose proof (on_store_true s o E) as Hst.
      destruct (determinacy a b o s Hst Hs P) as [Hout Hp].
      cbn [Stores.srun Stores.strace].
      destruct (sstep a o) as [a' oa] eqn:Ea. destruct (sstep b o) as [b' ob] eqn:Eb.
      cbn [fst snd] in *. subst ob.
      destruct (IH a' b' s Hp Hs Hh) as [IH1 IH2]. split; [exact IH1|].
      unfold Stores.outs_on in *. cbn [filter fst]. rewrite E. cbn [map snd]. rewrite IH2. reflexivity.
    - assert (Hp : proj_eq (fst (sstep a o)) b s).
      { destruct (on_store_false s o E) as [Hn | [s' [Hs' Hne]]].
        - rewrite (no_store_no_change a o Hn). exact P.
        - apply (proj_eq_trans _ a); [|exact P].
          apply (frame a o s' s Hs' Hne); [|exact Hs].
          unfold Stores.op_store_ok in Ho. rewrite Hs' in Ho. exact Ho. }
      destruct (sstep a o) as [a' oa] eqn:Ea. cbn [fst] in Hp.
      destruct (IH a' b s Hp Hs Hh) as [IH1 IH2]. split; [exact IH1|].
      unfold Stores.outs_on in *. cbn [filter fst]. rewrite E. exact IH2.
  Qed.

  (* For every history and every store: what the operations on s return, and the final
     projection of s, are those of the history with all operations on other stores erased. *)
  Theorem memory_ops_local h s :
    store_ok s = true -> forallb op_store_ok h = true ->
    proj_eq (srun sinit h) (srun sinit (filter (on_store s) h)) s /\
    outs_on s (strace sinit h) = map snd (strace sinit (filter (on_store s) h)).
  Proof. intros Hs Hok. apply local_gen; [apply proj_eq_refl | exact Hs | exact Hok]. Qed.

  (* ---- deleted stores ---------------------------------------------------------------------- *)

  Lemma listed_none id (l : list (bytes * bytes)) :
    alookup beqb id l = None -> existsb (fun p => beqb (fst p) id) l = false.
  Proof.
    induction l as [|[k v] l IH]; simpl; [reflexivity|].
    destruct (beqb k id); [discriminate | exact IH].
  Qed.

  Lemma hidden_step st o id :
    creates body wreq qreq id o = false ->
    alookup beqb id (s_stores body tup chg st) = None ->
    alookup beqb id (s_stores body tup chg (fst (sstep st o))) = None.
  Proof.
    intros Hc H.
    destruct o as [id' name | id' | id' | | ids nm | s0 w | s0 q | s0 i b0 | s0 i | s0 | s0 | s0 m l | s0 m]; simpl; try exact H.
    - destruct (alookup beqb id' (s_stores body tup chg st)); simpl; [exact H|].
      simpl in Hc. rewrite up_other; [exact H|]. intro E. subst. rewrite beqb_refl in Hc. discriminate.
    - destruct (beqb id' id) eqn:E.
      + apply beqb_eq in E. subst. apply rm_same.
      + rewrite rm_other; [exact H|]. intro X. subst. rewrite beqb_refl in E. discriminate.
    - destruct (apply_write (view_of body tup chg st s0) w) as [r [[t' c']|]]; simpl; exact H.
  Qed.

  Lemma srun_app h1 h2 st : srun st (h1 ++ h2) = srun (srun st h1) h2.
  Proof. revert st. induction h1 as [|o h1 IH]; intro st; simpl; [reflexivity | apply IH]. Qed.

  Lemma lookup_none_all id (l : list (bytes * bytes)) :
    alookup beqb id l = None -> forall p, In p l -> beqb (fst p) id = false.
  Proof.
    induction l as [|[k v] l IH]; simpl; [intros _ p []|].
    destruct (beqb k id) eqn:E; [discriminate|]. intros H p [<- | Hp]; [exact E | apply IH; assumption].
  Qed.

  Lemma mem_list_sub tbl ids name p : In p (mem_list_stores tbl ids name) -> In p tbl.
  Proof.
    unfold mem_list_stores. intro H.
    assert (G : In p (match ids with [] => tbl | _ => flat_map (fun id => filter (fun q => beqb (fst q) id) tbl) ids end)).
    { destruct name; [exact H | apply filter_In in H; apply H]. }
    destruct ids as [|i ids]; [exact G|].
    apply in_flat_map in G as [x [_ Hx]]. apply filter_In in Hx. apply Hx.
  Qed.

  Lemma listed_filtered_none id tbl ids name :
    alookup beqb id tbl = None -> existsb (fun p => beqb (fst p) id) (mem_list_stores tbl ids name) = false.
  Proof.
    intro H. destruct (existsb _ _) eqn:E; [|reflexivity].
    apply existsb_exists in E as [p [Hp Hid]]. apply mem_list_sub in Hp.
    rewrite (lookup_none_all id tbl H p Hp) in Hid. discriminate.
  Qed.

  Theorem deleted_store_hidden h1 h2 id :
    forallb (fun o => negb (creates body wreq qreq id o)) h2 = true ->
    snd (sstep (srun sinit (h1 ++ PDelete body wreq qreq id :: h2)) (PGet body wreq qreq id)) = QNotFound body wres qres /\
    listed body wres qres id (snd (sstep (srun sinit (h1 ++ PDelete body wreq qreq id :: h2)) (PList body wreq qreq))) = false /\
    forall ids name,
      listed body wres qres id (snd (sstep (srun sinit (h1 ++ PDelete body wreq qreq id :: h2)) (PListF body wreq qreq ids name))) = false.
  Proof.
    intro Hn.
    assert (G : forall h st, forallb (fun o => negb (creates body wreq qreq id o)) h = true ->
                alookup beqb id (s_stores body tup chg st) = None ->
                alookup beqb id (s_stores body tup chg (srun st h)) = None).
    { clear. induction h as [|o h IH]; intros st Hn H; [exact H|].
      simpl in Hn. apply andb_true_iff in Hn as [Ho Hh]. apply negb_true_iff in Ho.
      cbn [Stores.srun]. apply IH; [exact Hh|]. apply hidden_step; assumption. }
    assert (H : alookup beqb id (s_stores body tup chg (srun sinit (h1 ++ PDelete body wreq qreq id :: h2))) = None).
    { rewrite srun_app. change (srun (srun sinit h1) (PDelete body wreq qreq id :: h2))
        with (srun (fst (sstep (srun sinit h1) (PDelete body wreq qreq id))) h2).
      apply G; [exact Hn|]. simpl. apply rm_same. }
    split; [|split].
    - simpl. rewrite H. reflexivity.
    - simpl. apply listed_none. exact H.
    - intros ids name. simpl. apply listed_filtered_none. exact H.
  Qed.
End StoresProofs.

(* ------------------------------------------------------------------------------------------ *)
(* sqlite's store table                                                                          *)

Definition all_deleted (id : bytes) (t : sql_store_tbl) : Prop :=
  forall r, In r t -> beqb (fst (fst r)) id = true -> snd r = true.

Lemma sql_tstep_keeps id t o : tcreates id o = false -> all_deleted id t -> all_deleted id (fst (sql_tstep t o)).
Proof.
  intros Hc H. destruct o as [id' name | id' | id' | ids name]; simpl; try exact H.
  - unfold sql_create_store. destruct (existsb _ t); simpl; [exact H|].
    intros r Hr Hid. apply in_app_or in Hr as [Hr | [<- | []]]; [apply (H r Hr Hid)|].
    simpl in *. rewrite Hid in Hc. discriminate.
  - unfold sql_delete_store. intros r Hr Hid. apply in_map_iff in Hr as [r0 [<- Hr0]].
    destruct (beqb (fst (fst r0)) id') eqn:E; simpl in *; [reflexivity | apply (H r0 Hr0 Hid)].
Qed.

Lemma sql_delete_all_deleted id t : all_deleted id (sql_delete_store t id).
Proof.
  unfold sql_delete_store. intros r Hr Hid. apply in_map_iff in Hr as [r0 [<- Hr0]].
  destruct (beqb (fst (fst r0)) id) eqn:E; simpl in *; [reflexivity | congruence].
Qed.

Lemma sql_trun_app h1 h2 t : sql_trun t (h1 ++ h2) = sql_trun (sql_trun t h1) h2.
Proof. revert t. induction h1 as [|o h1 IH]; intro t; simpl; [reflexivity | apply IH]. Qed.

Lemma sql_trun_keeps id h : forall t,
  forallb (fun o => negb (tcreates id o)) h = true -> all_deleted id t -> all_deleted id (sql_trun t h).
Proof.
  induction h as [|o h IH]; intros t Hn H; [exact H|].
  simpl in Hn. apply andb_true_iff in Hn as [Ho Hh]. apply negb_true_iff in Ho.
  simpl. apply IH; [exact Hh|]. apply sql_tstep_keeps; assumption.
Qed.

Lemma all_deleted_get id t : all_deleted id t -> sql_get_store t id = None.
Proof.
  intro H. unfold sql_get_store.
  destruct (filter (fun r => beqb (fst (fst r)) id && negb (snd r)) t) as [|r l] eqn:E; [reflexivity|].
  assert (Hin : In r (filter (fun r => beqb (fst (fst r)) id && negb (snd r)) t)) by (rewrite E; left; reflexivity).
  apply filter_In in Hin as [Hr Hc]. apply andb_true_iff in Hc as [Hid Hd].
  rewrite (H r Hr Hid) in Hd. discriminate.
Qed.

Lemma all_deleted_list id t ids name :
  all_deleted id t -> existsb (fun p => beqb (fst p) id) (sql_list_stores t ids name) = false.
Proof.
  intro H. destruct (existsb _ _) eqn:E; [|reflexivity].
  apply existsb_exists in E as [p [Hp Hid]]. unfold sql_list_stores in Hp.
  apply in_map_iff in Hp as [r [<- Hr]]. apply filter_In in Hr as [Hr Hc].
  apply andb_true_iff in Hc as [Hc _]. apply andb_true_iff in Hc as [Hd _].
  rewrite (H r Hr Hid) in Hd. discriminate.
Qed.

(* sqlite: a deleted store is hidden from GetStore and from ListStores under every combination
   of the IDs and name filters, after every later history that does not create the id *)
Theorem sqlite_deleted_store_hidden h1 h2 id :
  forallb (fun o => negb (tcreates id o)) h2 = true ->
  let t := sql_trun [] (h1 ++ TDelete id :: h2) in
  sql_get_store t id = None /\
  forall ids name, existsb (fun p => beqb (fst p) id) (sql_list_stores t ids name) = false.
Proof.
  intros Hn t.
  assert (H : all_deleted id t).
  { unfold t. rewrite sql_trun_app. simpl. apply sql_trun_keeps; [exact Hn | apply sql_delete_all_deleted]. }
  split; [apply all_deleted_get; exact H | intros ids name; apply all_deleted_list; exact H].
Qed.

(* ------------------------------------------------------------------------------------------ *)
(* cache keys                                                                                    *)

Local Open Scope string_scope.

(* every constructor found in the source is classified, and every shared-cache constructor has
   the store id among the string fields of the key it returns *)
Lemma c16_all_sites_ok : forallb site_ok c16_sites = true.
Proof. vm_compute. reflexivity. Qed.

Lemma c16_all_sf_sites_ok : forallb sf_site_ok c16_sf_sites = true.
Proof. vm_compute. reflexivity. Qed.

Lemma eval_differs env1 envn1 env2 envn2 e (l : list c16_call) :
  existsb (is_str_field e) l = true -> env1 e <> env2 e ->
  List.map (eval_call env1 envn1) l <> List.map (eval_call env2 envn2) l.
Proof.
  induction l as [|c l IH]; simpl; [discriminate|].
  intros H Hne E. inversion E as [[E1 E2]].
  apply orb_true_iff in H as [H | H].
  - destruct c; simpl in H; try discriminate. apply String.eqb_eq in H. subst arg.
    simpl in E1. inversion E1. contradiction.
  - exact (IH H Hne E2).
Qed.

(* two requests for different stores never produce the same key, whatever their other arguments *)
Lemma c16_store_in_every_key :
  forall site e, In site c16_sites -> shared_store_expr site = Some e ->
  forall env1 envn1 env2 envn2, env1 e <> env2 e ->
    eval_site env1 envn1 site <> eval_site env2 envn2 site.
Proof.
  intros site e Hin He env1 envn1 env2 envn2 Hne.
  pose proof c16_all_sites_ok as Hall. rewrite forallb_forall in Hall. specialize (Hall site Hin).
  unfold site_ok in Hall. unfold shared_store_expr in He.
  destruct (classify (c16_file site) (c16_func site) site_table) as [[e'|]|]; try discriminate.
  inversion He; subst e'. unfold eval_site. apply (eval_differs env1 envn1 env2 envn2 e); assumption.
Qed.
