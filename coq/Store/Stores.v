(* C16 — stores are isolated from each other.

   Transcribes the data layout of pkg/storage/memory/memory.go: five Go maps
       stores     map[storeID]*Store
       tuples     map[storeID][]*TupleRecord
       changes    map[storeID][]*tupleChangeRec
       models     map[storeID]map[modelID]*entry          (Store/Models.v, memory backend)
       assertions map[storeID + "|" + modelID][]*Assertion (Store/Assertions.v, memory backend)
   and every operation of the backend (each takes the store id as an argument).  What an
   operation computes from the slices / maps of ITS store is left abstract (Section variables:
   tuple write semantics are C12's subject, read filters C13's, query evaluation C01's ...);
   what is modelled is WHICH part of the state an operation reads and writes.

   The second half classifies the cache-key constructors enumerated from the source by
   harness/cmd/gen_c16 (Generated/C16KeySites.v).
   Definitions only; proofs in Store/StoresProofs.v. *)
From OFGA Require Import Base.Bytes Store.Assertions Store.Models.

(* ------------------------------------------------------------------------------------------ *)
(* The store table and ListStores with its filters (storage.ListStoresOptions{IDs, Name}), as   *)
(* coded in both backends.  Pagination only cuts the result into pages (C14); the result here   *)
(* is the whole filtered list, unsorted (both backends sort it by id afterwards).               *)

Fixpoint tremove {T : Type} (k : bytes) (m : list (bytes * T)) : list (bytes * T) :=
  match m with
  | [] => []
  | (k', v) :: r => if beqb k' k then tremove k r else (k', v) :: tremove k r
  end.

(* memory.go ListStores: all stores; if len(IDs) > 0, for each requested id (in request order)
   the stores with that id; if Name != "", only those with that name *)
Definition mem_list_stores (tbl : list (bytes * bytes)) (ids : list bytes) (name : bytes) : list (bytes * bytes) :=
  let by_id := match ids with
               | [] => tbl
               | _ => flat_map (fun id => filter (fun p => beqb (fst p) id) tbl) ids
               end in
  match name with
  | [] => by_id
  | _ => filter (fun p => beqb (snd p) name) by_id
  end.

(* sqlite.go: table store(id PRIMARY KEY, name, deleted_at) *)
Definition sql_store_tbl := list (bytes * bytes * bool).      (* id, name, deleted *)

Definition sql_create_store (t : sql_store_tbl) (id name : bytes) : option sql_store_tbl :=
  if existsb (fun r => beqb (fst (fst r)) id) t then None          (* primary key: ErrCollision *)
  else Some (t ++ [(id, name, false)]).

(* UPDATE store SET deleted_at = now WHERE id = ? *)
Definition sql_delete_store (t : sql_store_tbl) (id : bytes) : sql_store_tbl :=
  map (fun r => if beqb (fst (fst r)) id then (fst r, true) else r) t.

(* SELECT .. WHERE id = ? AND deleted_at IS NULL *)
Definition sql_get_store (t : sql_store_tbl) (id : bytes) : option bytes :=
  match filter (fun r => beqb (fst (fst r)) id && negb (snd r)) t with
  | r :: _ => Some (snd (fst r))
  | [] => None
  end.

(* WHERE deleted_at IS NULL [AND id IN (ids)] [AND name = ?] *)
Definition sql_list_stores (t : sql_store_tbl) (ids : list bytes) (name : bytes) : list (bytes * bytes) :=
  map fst
    (filter (fun r => negb (snd r)
                      && match ids with [] => true | _ => existsb (beqb (fst (fst r))) ids end
                      && match name with [] => true | _ => beqb (snd (fst r)) name end) t).

Inductive top :=
| TCreate (id name : bytes)
| TDelete (id : bytes)
| TGet (id : bytes)
| TList (ids : list bytes) (name : bytes).

Inductive tout :=
| TOk
| TCollision
| TNotFound
| TStore (id name : bytes)
| TStores (l : list (bytes * bytes)).

Definition sql_tstep (t : sql_store_tbl) (o : top) : sql_store_tbl * tout :=
  match o with
  | TCreate id name => match sql_create_store t id name with Some t' => (t', TStore id name) | None => (t, TCollision) end
  | TDelete id => (sql_delete_store t id, TOk)
  | TGet id => (t, match sql_get_store t id with Some n => TStore id n | None => TNotFound end)
  | TList ids name => (t, TStores (sql_list_stores t ids name))
  end.

Fixpoint sql_trun (t : sql_store_tbl) (h : list top) : sql_store_tbl :=
  match h with [] => t | o :: r => sql_trun (fst (sql_tstep t o)) r end.

Fixpoint sql_ttrace (t : sql_store_tbl) (h : list top) : list (top * tout) :=
  match h with
  | [] => []
  | o :: r => let (t', out) := sql_tstep t o in (o, out) :: sql_ttrace t' r
  end.

Definition tcreates (id : bytes) (o : top) : bool :=
  match o with TCreate id' _ => beqb id' id | _ => false end.

Section Stores.
  Variable body : Type.              (* content of an authorization model *)
  Variable ntypes : body -> N.
  Variables tup chg : Type.          (* tuple records, changelog records *)
  Variables wreq wres : Type.        (* a tuple write request and its outcome *)
  Variables qreq qres : Type.        (* any read-only request on a store and its result:
                                        Read*, ReadChanges, Check, ListObjects ... *)

  (* what an operation on store s can see of the tuple side of s *)
  Definition view := (list tup * list chg * option (model body))%type.

  (* memory.Write on the store's slices: the outcome, and the new slices if it succeeded *)
  Variable apply_write : view -> wreq -> wres * option (list tup * list chg).
  (* everything read-only *)
  Variable eval_query : view -> qreq -> qres.

  Record sstate := mkS {
    s_stores  : list (bytes * bytes);              (* id -> name *)
    s_tuples  : list (bytes * list tup);
    s_changes : list (bytes * list chg);
    s_models  : mmem_state body;
    s_asserts : mem_state
  }.
  Definition sinit : sstate := mkS [] [] [] [] [].

  Definition getl {T : Type} (m : list (bytes * list T)) (s : bytes) : list T :=
    match alookup beqb s m with Some l => l | None => [] end.

  Fixpoint aremove {T : Type} (k : bytes) (m : list (bytes * T)) : list (bytes * T) :=
    match m with
    | [] => []
    | (k', v) :: r => if beqb k' k then aremove k r else (k', v) :: aremove k r
    end.

  Inductive sop :=
  | PCreate (id name : bytes)
  | PDelete (id : bytes)
  | PGet (id : bytes)
  | PList
  | PListF (ids : list bytes) (name : bytes)       (* ListStores with the IDs / name filters *)
  | PWrite (s : bytes) (w : wreq)
  | PQuery (s : bytes) (q : qreq)
  | PWriteModel (s id : bytes) (b : body)
  | PReadModel (s id : bytes)
  | PLatest (s : bytes)
  | PListModels (s : bytes)
  | PWriteAsserts (s m : bytes) (l : list asrt)
  | PReadAsserts (s m : bytes).

  Inductive sout :=
  | QOk
  | QCollision
  | QNotFound
  | QStore (id name : bytes)
  | QStores (l : list (bytes * bytes))
  | QWrite (r : wres)
  | QQuery (r : qres)
  | QModel (id : bytes) (b : body)
  | QIds (ids : list bytes)
  | QAsserts (l : list asrt).

  Definition view_of (st : sstate) (s : bytes) : view :=
    (getl (s_tuples st) s, getl (s_changes st) s, mmem_latest body (s_models st) s).

  Definition sstep (st : sstate) (o : sop) : sstate * sout :=
    match o with
    | PCreate id name =>
      match alookup beqb id (s_stores st) with
      | Some _ => (st, QCollision)
      | None => (mkS (aupsert beqb id name (s_stores st)) (s_tuples st) (s_changes st) (s_models st) (s_asserts st),
                 QStore id name)
      end
    | PDelete id =>      (* delete(s.stores, id): tuples, models, assertions of the store stay *)
      (mkS (aremove id (s_stores st)) (s_tuples st) (s_changes st) (s_models st) (s_asserts st), QOk)
    | PGet id =>
      (st, match alookup beqb id (s_stores st) with Some name => QStore id name | None => QNotFound end)
    | PList => (st, QStores (s_stores st))
    | PListF ids name => (st, QStores (mem_list_stores (s_stores st) ids name))
    | PWrite s w =>
      match apply_write (view_of st s) w with
      | (r, Some (t', c')) =>
        (mkS (s_stores st) (aupsert beqb s t' (s_tuples st)) (aupsert beqb s c' (s_changes st)) (s_models st) (s_asserts st),
         QWrite r)
      | (r, None) => (st, QWrite r)
      end
    | PQuery s q => (st, QQuery (eval_query (view_of st s) q))
    | PWriteModel s id b =>
      match mmem_write body (s_models st) s id b with
      | Some ms => (mkS (s_stores st) (s_tuples st) (s_changes st) ms (s_asserts st), QOk)
      | None => (st, QCollision)
      end
    | PReadModel s id =>
      (st, match mmem_read body ntypes (s_models st) s id with Some b => QModel id b | None => QNotFound end)
    | PLatest s =>
      (st, match mmem_latest body (s_models st) s with Some (id, b) => QModel id b | None => QNotFound end)
    | PListModels s => (st, QIds (mmem_list body (s_models st) s))
    | PWriteAsserts s m l =>
      (mkS (s_stores st) (s_tuples st) (s_changes st) (s_models st) (mem_write (s_asserts st) s m l), QOk)
    | PReadAsserts s m =>
      (st, match mem_read (s_asserts st) s m with Some l => QAsserts l | None => QNotFound end)
    end.

  Fixpoint srun (st : sstate) (h : list sop) : sstate :=
    match h with
    | [] => st
    | o :: r => srun (fst (sstep st o)) r
    end.

  Fixpoint strace (st : sstate) (h : list sop) : list (sop * sout) :=
    match h with
    | [] => []
    | o :: r => let (st', out) := sstep st o in (o, out) :: strace st' r
    end.

  (* the store an operation addresses; ListStores addresses none (it is global by nature) *)
  Definition op_store (o : sop) : option bytes :=
    match o with
    | PCreate id _ => Some id
    | PDelete id => Some id
    | PGet id => Some id
    | PList => None
    | PListF _ _ => None
    | PWrite s _ => Some s
    | PQuery s _ => Some s
    | PWriteModel s _ _ => Some s
    | PReadModel s _ => Some s
    | PLatest s => Some s
    | PListModels s => Some s
    | PWriteAsserts s _ _ => Some s
    | PReadAsserts s _ => Some s
    end.

  Definition on_store (s : bytes) (o : sop) : bool :=
    match op_store o with Some s' => beqb s' s | None => false end.

  (* hypothesis of the assertion map's concatenated key (Props/C31.v): no '|' in store ids *)
  Definition op_store_ok (o : sop) : bool :=
    match op_store o with Some s => store_ok s | None => true end.

  (* the outputs of the operations of a trace that address store s, in order *)
  Definition outs_on (s : bytes) (t : list (sop * sout)) : list sout :=
    map snd (filter (fun p => on_store s (fst p)) t).

  Definition creates (id : bytes) (o : sop) : bool :=
    match o with PCreate id' _ => beqb id' id | _ => false end.

  Definition listed (id : bytes) (out : sout) : bool :=
    match out with QStores l => existsb (fun p => beqb (fst p) id) l | _ => false end.
End Stores.

(* ------------------------------------------------------------------------------------------ *)
(* Cache keys: the constructors enumerated from the source                                      *)

From OFGA Require Import Generated.C16KeySites.
From Coq Require Import String.
Local Open Scope string_scope.

(* The fields that end up in the key a site returns: a Reset discards what was encoded before
   it (it only fed a digest); a Write of the saved prefix re-adds the fields of that prefix. *)
Fixpoint final_fields_aux (before cur : list c16_call) (calls : list c16_call) : list c16_call :=
  match calls with
  | [] => cur
  | C16Reset :: r => final_fields_aux (before ++ cur)%list [] r
  | C16Other "Write" _ :: r => final_fields_aux before (cur ++ before)%list r
  | c :: r => final_fields_aux before (cur ++ [c])%list r
  end.
Definition final_fields (s : c16_site) : list c16_call := final_fields_aux [] [] (c16_calls s).

Inductive site_class :=
| SharedKey (store_expr : string)   (* key of a cache / planner shared by all stores *)
| RequestLocal.                     (* key of a map that lives inside one request *)

(* (file, function) -> class; written by hand from reading each site *)
Definition site_table : list (string * string * site_class) :=
  [("internal/check/check.go", "EdgeCacheKey", SharedKey "req.GetStoreID()");
   ("internal/check/request.go", "ctxTuplesByUserKey", RequestLocal);
   ("internal/check/request.go", "ctxTuplesByObjectKey", RequestLocal);
   ("internal/check/strategies.go", "createUsersetPlanKey", SharedKey "req.GetStoreID()");
   ("internal/check/strategies.go", "createRecursiveUsersetPlanKey", SharedKey "req.GetStoreID()");
   ("internal/check/strategies.go", "createRecursiveTTUPlanKey", SharedKey "req.GetStoreID()");
   ("internal/check/strategies.go", "createTTUPlanKey", SharedKey "req.GetStoreID()");
   ("internal/graph/check.go", "checkDirectUsersetTuples", SharedKey "req.GetStoreID()");
   ("internal/graph/check.go", "checkTTU", SharedKey "req.GetStoreID()");
   ("internal/modelgraph/resolver.go", "CacheKey", SharedKey "storeID");
   ("pkg/storage/cache.go", "ChangelogCacheKey", SharedKey "storeID");
   ("pkg/storage/cache.go", "InvalidIteratorCacheKey", SharedKey "storeID");
   ("pkg/storage/cache.go", "InvalidIteratorByObjectRelationCacheKey", SharedKey "storeID");
   ("pkg/storage/cache.go", "InvalidIteratorByUserObjectTypeCacheKey", SharedKey "storeID");
   ("pkg/storage/cache.go", "CheckCacheKey", SharedKey "storeID");
   ("pkg/storage/cache.go", "InvariantCacheKey", SharedKey "storeID");
   ("pkg/storage/keys.go", "ReadStartingWithUserKey", SharedKey "store");
   ("pkg/storage/keys.go", "ReadUsersetTuplesKey", SharedKey "store");
   ("pkg/storage/keys.go", "ReadKey", SharedKey "store");
   ("pkg/storage/storagewrappers/model_caching.go", "ModelCacheKey", SharedKey "storeID");
   ("pkg/typesystem/resolver.go", "MemoizedTypesystemResolverFunc", SharedKey "storeID")].

Fixpoint classify (file fn : string) (t : list (string * string * site_class)) : option site_class :=
  match t with
  | [] => None
  | (f, g, c) :: r => if (String.eqb f file && String.eqb g fn)%bool then Some c else classify file fn r
  end.

Definition is_str_field (e : string) (c : c16_call) : bool :=
  match c with C16Str a => String.eqb a e | _ => false end.

Definition site_ok (s : c16_site) : bool :=
  match classify (c16_file s) (c16_func s) site_table with
  | None => false                                        (* an unreviewed constructor *)
  | Some RequestLocal => true
  | Some (SharedKey e) => existsb (is_str_field e) (final_fields s)
  end.

(* singleflight keys: the key expression mentions the store id, or is a builder key (which has it) *)
Fixpoint contains (needle hay : string) : bool :=
  match hay with
  | EmptyString => String.eqb needle EmptyString
  | String _ rest => (String.prefix needle hay || contains needle rest)%bool
  end.

Definition sf_site_ok (s : string * string * string) : bool :=
  (contains "storeID" (snd s) || String.eqb (snd s) "c.cacheKey.String()")%bool.

(* Evaluation of a site's final fields under an assignment of values to source expressions:
   the sequence of (kind, value) the builder encodes. *)
Inductive fval := FStr (s : bytes) | FNum (n : N) | FOpaque (s : bytes).

Definition eval_call (env : string -> bytes) (envn : string -> N) (c : c16_call) : fval :=
  match c with
  | C16Str a => FStr (env a)
  | C16U64 a => FNum (envn a)
  | C16Arr a => FOpaque (env a)
  | C16Ser a => FOpaque (env a)
  | C16Reset => FOpaque []
  | C16Other _ a => FOpaque (env a)
  end.

Definition eval_site (env : string -> bytes) (envn : string -> N) (s : c16_site) : list fval :=
  List.map (eval_call env envn) (final_fields s).

Definition shared_store_expr (s : c16_site) : option string :=
  match classify (c16_file s) (c16_func s) site_table with
  | Some (SharedKey e) => Some e
  | _ => None
  end.

(* ------------------------------------------------------------------------------------------ *)
(* The instance the oracle runs: tuples without conditions, the write rule of memory.Write with   *)
(* default options, read-all, changelog, and Check on the probe models of the drivers (relation   *)
(* bK of a document is `viewer` when bit K of the model's variant is set, `editor` otherwise).    *)

Local Close Scope string_scope.

Definition ttup := (bytes * bytes * bytes)%type.           (* object, relation, user *)
Definition ttup_eqb (a b : ttup) : bool :=
  beqb (fst (fst a)) (fst (fst b)) && beqb (snd (fst a)) (snd (fst b)) && beqb (snd a) (snd b).
Definition tchg := (bool * ttup)%type.                      (* true = write, false = delete *)
Definition twreq := (list ttup * list ttup)%type.           (* deletes, writes *)

Inductive tqreq :=
| TReadAll
| TChanges
| TCheck (obj : bytes) (k : N) (user : bytes).

Inductive tqres :=
| TTuples (l : list ttup)
| TChgs (l : list tchg)
| TBool (b : bool)
| TErr (cls : N).

Definition t_in (t : ttup) (l : list ttup) : bool := existsb (ttup_eqb t) l.

Definition rel_viewer : bytes := [118; 105; 101; 119; 101; 114].
Definition rel_editor : bytes := [101; 100; 105; 116; 111; 114].

Definition t_apply_write (v : view tbody ttup tchg) (w : twreq) : N * option (list ttup * list tchg) :=
  let '(tuples, changes, latest) := v in
  let (dels, wrs) := w in
  match latest with
  | None => (3, None)                                           (* latest_authorization_model_not_found *)
  | Some _ =>
    if forallb (fun t => t_in t tuples) dels && forallb (fun t => negb (t_in t tuples)) wrs
    then (0, Some (filter (fun t => negb (t_in t dels)) tuples ++ wrs,
                   changes ++ map (fun t => (false, t)) (filter (fun t => t_in t dels) tuples)
                           ++ map (fun t => (true, t)) wrs))
    else (8, None)                                              (* write_failed_due_to_invalid_input *)
  end.

Definition t_eval_query (v : view tbody ttup tchg) (q : tqreq) : tqres :=
  let '(tuples, changes, latest) := v in
  match q with
  | TReadAll => TTuples tuples
  | TChanges => TChgs changes
  | TCheck obj k user =>
    match latest with
    | None => TErr 3
    | Some (_, b) =>
      let rel := if N.testbit (tb_variant b) k then rel_viewer else rel_editor in
      TBool (t_in (obj, rel, user) tuples)
    end
  end.

Definition t_sstate := sstate tbody ttup tchg.
Definition t_sop := sop tbody twreq tqreq.
Definition t_sout := sout tbody N tqres.
Definition t_strace (h : list t_sop) : list (t_sop * t_sout) :=
  strace tbody tb_ntypes ttup tchg twreq N tqreq tqres t_apply_write t_eval_query (sinit tbody ttup tchg) h.
Definition t_outs_on (s : bytes) (t : list (t_sop * t_sout)) : list t_sout :=
  outs_on tbody twreq N tqreq tqres s t.
Definition t_on_store (s : bytes) (o : t_sop) : bool := on_store tbody twreq tqreq s o.
