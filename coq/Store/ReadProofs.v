(* C13 — proofs: each backend model against the documented meaning, for all stores and filters. *)
From Coq Require Import Permutation.
From OFGA Require Import Base.Bytes Store.ReadSpec Store.MemoryRead Store.SqlRead Store.ReadFlags.

(* ---- small facts ------------------------------------------------------------------------- *)

Lemma beqb_sym a b : beqb a b = beqb b a.
Proof.
  destruct (beqb a b) eqn:E1; destruct (beqb b a) eqn:E2; try reflexivity.
  - apply beqb_eq in E1. subst. rewrite beqb_refl in E2. discriminate.
  - apply beqb_eq in E2. subst. rewrite beqb_refl in E1. discriminate.
Qed.

Lemma beqb_neq a b : beqb a b = false <-> a <> b.
Proof.
  split.
  - intros H E. subst. rewrite beqb_refl in H. discriminate.
  - intro H. destruct (beqb a b) eqn:E; [|reflexivity]. apply beqb_eq in E. contradiction.
Qed.

Lemma user_eqb_eq a b : user_eqb a b = true <-> a = b.
Proof.
  unfold user_eqb. destruct a as [a1 a2 a3], b as [b1 b2 b3]. simpl.
  rewrite !andb_true_iff, !beqb_eq. split.
  - intros [[-> ->] ->]. reflexivity.
  - intro H. inversion H. auto.
Qed.

Lemma user_eqb_refl a : user_eqb a a = true.
Proof. apply user_eqb_eq. reflexivity. Qed.

Lemma user_eqb_sym a b : user_eqb a b = user_eqb b a.
Proof.
  unfold user_eqb. rewrite (beqb_sym (u_type a)), (beqb_sym (u_id a)), (beqb_sym (u_rel a)). reflexivity.
Qed.

Lemma key_eqb_eq a b : key_eqb a b = true <-> a = b.
Proof.
  unfold key_eqb. destruct a as [a1 a2 a3 a4], b as [b1 b2 b3 b4]. simpl.
  rewrite !andb_true_iff, !beqb_eq, user_eqb_eq. split.
  - intros [[[-> ->] ->] ->]. reflexivity.
  - intro H. inversion H. auto.
Qed.

Lemma filter_all {A} (p : A -> bool) l : forallb p l = true -> filter p l = l.
Proof.
  induction l as [|x l IH]; simpl; intro H; [reflexivity|].
  apply andb_true_iff in H as [H1 H2]. rewrite H1, IH by exact H2. reflexivity.
Qed.

Lemma existsb_false_forall {A} (p : A -> bool) l :
  existsb p l = false -> forall x, In x l -> p x = false.
Proof.
  induction l as [|y l IH]; simpl; intros H x Hx; [contradiction|].
  apply orb_false_iff in H as [H1 H2]. destruct Hx as [->|Hx]; auto.
Qed.

Lemma existsb_map_fun {A B} (g : A -> B -> bool) (l : list A) (t : B) :
  existsb (fun p => p t) (map g l) = existsb (fun a => g a t) l.
Proof. induction l as [|a l IH]; simpl; [reflexivity|]. rewrite IH. reflexivity. Qed.

Lemma null_map {A B} (g : A -> B) l : null (map g l) = null l.
Proof. destruct l; reflexivity. Qed.

Lemma nonempty_opt_eq x col : nonempty x = true -> sq_opt_eq x col = beqb col x.
Proof. unfold nonempty, sq_opt_eq. intro H. apply negb_true_iff in H. rewrite H. reflexivity. Qed.

(* ---- obs / round trip -------------------------------------------------------------------- *)

Definition from_store (s : store) (x : tuple) : Prop :=
  exists t, In t s /\ key_of x = key_of t /\ t_cond x = t_cond t /\
            (t_cond t <> [] -> t_ctx x = t_ctx t) /\ (t_cond t = [] -> t_ctx x = 0).

Lemma obs_from_store s t : In t s -> from_store s (obs t).
Proof.
  intro H. exists t. unfold obs. destruct (beqb (t_cond t) []) eqn:E; simpl.
  - apply beqb_eq in E. repeat split; auto. intro N. contradiction.
  - apply beqb_neq in E. repeat split; auto. intro N. contradiction.
Qed.

Lemma map_obs_from_store s l :
  (forall t, In t l -> In t s) -> forall x, In x (map obs l) -> from_store s x.
Proof.
  intros Hsub x Hx. apply in_map_iff in Hx as [t [<- Ht]]. apply obs_from_store. auto.
Qed.

Lemma filter_sub {A} (p : A -> bool) l : forall t, In t (filter p l) -> In t l.
Proof. intros t H. apply filter_In in H. tauto. Qed.

(* ---- Read -------------------------------------------------------------------------------- *)

Lemma m_read_loop_filter s f :
  m_read_loop s f =
  filter (fun t => m_match t (rf_obj f) (rf_rel f) (rf_usr f) &&
                   (null (rf_conds f) || m_contains (rf_conds f) (t_cond t))) s.
Proof. induction s as [|t s IH]; simpl; [reflexivity|]. rewrite IH. reflexivity. Qed.

Lemma m_match_spec t o r u :
  wf_ufilter u = true -> m_match t o r u = obj_ok o t && rel_ok r t && usr_ok u t.
Proof.
  intro Hu. unfold m_match, obj_ok, rel_ok, usr_ok.
  f_equal; [f_equal|].
  - destruct o as [|ty|ty id]; [reflexivity|apply beqb_sym|].
    rewrite (beqb_sym ty), (beqb_sym id). reflexivity.
  - destruct u as [|ty|x]; try reflexivity. simpl in Hu.
    apply andb_true_iff in Hu as [_ Hid]. unfold nonempty in Hid. apply negb_true_iff in Hid.
    rewrite Hid. reflexivity.
Qed.

Lemma memory_read_eq_spec_partial s f :
  wf_read_filter f = true -> flag_read_all_ignores_conditions s f = false ->
  memory_read s f = read_spec s f.
Proof.
  intros Hwf Hflag. unfold memory_read, read_spec. f_equal.
  unfold wf_read_filter in Hwf. apply andb_true_iff in Hwf as [_ Hu].
  unfold flag_read_all_ignores_conditions in Hflag.
  destruct (m_filter_is_empty f) eqn:E.
  - simpl in Hflag. apply negb_false_iff in Hflag.
    unfold m_filter_is_empty in E.
    destruct (rf_obj f) eqn:Eo; try discriminate. destruct (rf_usr f) eqn:Eu; try discriminate.
    symmetry. rewrite <- (filter_all _ _ Hflag) at 2. apply filter_ext. intro t.
    unfold read_pred. rewrite Eo, Eu. unfold rel_ok. rewrite E. reflexivity.
  - rewrite m_read_loop_filter. apply filter_ext. intro t.
    rewrite (m_match_spec _ _ _ _ Hu). unfold read_pred, conds_ok, m_contains, bmem. reflexivity.
Qed.

Lemma sq_obj_spec o t : wf_ofilter o = true -> sq_obj o t = obj_ok o t.
Proof.
  destruct o as [|ty|ty id]; simpl; intro H; [reflexivity|apply nonempty_opt_eq; exact H|].
  apply andb_true_iff in H as [H1 H2]. rewrite !nonempty_opt_eq by assumption. reflexivity.
Qed.

(* the predicates of a full user "type:id[#rel]" against exact equality (a279b76) *)
Lemma sq_user_parts_spec x t :
  nonempty (u_type x) = true -> nonempty (u_id x) = true ->
  sq_opt_eq (u_type x) (u_type (t_user t)) && sq_opt_eq (u_id x) (u_id (t_user t)) &&
  (if negb (beqb (u_rel x) []) || negb (beqb (u_id x) [])
   then sq_eq (u_rel x) (u_rel (t_user t)) else true) = user_eqb (t_user t) x.
Proof.
  intros Ht Hi. rewrite !nonempty_opt_eq by assumption. unfold nonempty in Hi. rewrite Hi, orb_true_r.
  reflexivity.
Qed.

Lemma sql_read_eq_spec s f :
  wf_read_filter f = true -> sql_read s f = read_spec s f.
Proof.
  intros Hwf. unfold sql_read, read_spec. f_equal. apply filter_ext. intros t.
  unfold wf_read_filter in Hwf. apply andb_true_iff in Hwf as [Ho Hu].
  unfold sql_read_where, read_pred. rewrite (sq_obj_spec _ _ Ho).
  f_equal. f_equal.
  unfold sq_read_user, usr_ok.
  destruct (rf_usr f) as [|ty|x]; [reflexivity|apply nonempty_opt_eq; exact Hu|].
  simpl in Hu. apply andb_true_iff in Hu as [H1 H2]. apply sq_user_parts_spec; assumption.
Qed.

Lemma memory_eq_sql_read s f :
  wf_read_filter f = true ->
  flag_read_all_ignores_conditions s f = false ->
  Permutation (memory_read s f) (sql_read s f).
Proof.
  intros H1 H2. rewrite memory_read_eq_spec_partial, sql_read_eq_spec by assumption.
  apply Permutation_refl.
Qed.

(* witnesses *)
Definition b_doc : bytes := [100; 111; 99].
Definition b_1 : bytes := [49].
Definition b_2 : bytes := [50].
Definition b_viewer : bytes := [118].
Definition b_user : bytes := [117].
Definition b_group : bytes := [103].
Definition b_member : bytes := [109].
Definition b_a : bytes := [97].
Definition b_c1 : bytes := [99; 49].

Definition w_t1 := mkTuple b_doc b_1 b_viewer (mkUser b_user b_a []) [] 0.
Definition w_t2 := mkTuple b_doc b_2 b_viewer (mkUser b_group b_1 b_member) b_c1 7.
Definition w_t3 := mkTuple b_doc b_1 b_viewer (mkUser b_group b_1 []) [] 0.
Definition w_t4 := mkTuple b_doc b_2 b_viewer (mkUser b_user star []) [] 0.
Definition w_store : store := [w_t1; w_t2; w_t3; w_t4].

Lemma not_perm_by_length {A} (l1 l2 : list A) : length l1 <> length l2 -> ~ Permutation l1 l2.
Proof. intros H P. apply Permutation_length in P. contradiction. Qed.

Lemma memory_read_eq_spec_refuted :
  exists s f, wf_store s = true /\ keys_unique s = true /\ wf_read_filter f = true /\
              ~ Permutation (memory_read s f) (read_spec s f).
Proof.
  exists w_store, (mkRF OAny [] UAny [[]]). repeat split; try reflexivity.
  apply not_perm_by_length. vm_compute. discriminate.
Qed.

(* historical (before a279b76 sqlite's read put no predicate on user_relation for "type:id"): the
   old witness, on which the sqlite model returned the userset group:1#member as well *)
Example sql_read_relationless_user_regression :
  sql_read w_store (mkRF OAny [] (UExact (mkUser b_group b_1 [])) []) = [w_t3].
Proof. vm_compute. reflexivity. Qed.

(* ---- ReadUserTuple ----------------------------------------------------------------------- *)

Lemma memory_rut_hd s k cs :
  key_full k = true ->
  memory_read_user_tuple s k cs = hd_error (read_user_tuple_spec s k cs).
Proof.
  intro Hk. unfold key_full in Hk. apply andb_true_iff in Hk as [Hk Hid].
  apply andb_true_iff in Hk as [Hrel _].
  unfold nonempty in Hrel, Hid. apply negb_true_iff in Hrel, Hid.
  unfold read_user_tuple_spec.
  induction s as [|t s IH]; simpl; [reflexivity|].
  assert (Hm : m_match t (OFull (k_otype k) (k_oid k)) (k_rel k) (UExact (k_user k)) = key_eqb (key_of t) k).
  { unfold m_match, key_eqb, key_of. simpl. rewrite Hid.
    rewrite (beqb_sym (k_otype k)), (beqb_sym (k_oid k)).
    rewrite Hrel. reflexivity. }
  rewrite Hm. unfold rut_pred at 1. destruct (key_eqb (key_of t) k); simpl; [|exact IH].
  unfold conds_ok, m_contains, bmem.
  destruct (null cs); simpl; [reflexivity|].
  destruct (existsb (beqb (t_cond t)) cs); simpl; [reflexivity|exact IH].
Qed.

Lemma hd_error_sat {A} (l : list A) :
  match hd_error l with Some x => In x l | None => l = [] end.
Proof. destruct l; simpl; auto. Qed.

Lemma memory_read_user_tuple_eq_spec_partial s k cs :
  key_full k = true -> read_user_tuple_sat s k cs (memory_read_user_tuple s k cs).
Proof.
  intro Hk. rewrite (memory_rut_hd _ _ _ Hk). unfold read_user_tuple_sat.
  apply hd_error_sat.
Qed.

Lemma memory_read_user_tuple_eq_spec_refuted :
  exists s k cs, wf_store s = true /\ keys_unique s = true /\
                 ~ read_user_tuple_sat s k cs (memory_read_user_tuple s k cs).
Proof.
  (* a key without relation: the memory backend answers with the first tuple of the object and user *)
  exists w_store, (mkKey b_doc b_1 [] (mkUser b_user b_a [])), []. repeat split; try reflexivity.
  vm_compute. intro H. exact H.
Qed.

Lemma sql_rut_where_spec k cs t : sql_rut_where k cs t = rut_pred k cs t.
Proof.
  unfold sql_rut_where, rut_pred, key_eqb, key_of, sq_eq, row_user_type_is_userset, user_eqb. simpl.
  destruct (beqb (t_otype t) (k_otype k)); [|reflexivity].
  destruct (beqb (t_oid t) (k_oid k)); [|reflexivity].
  destruct (beqb (t_rel t) (k_rel k)); [|reflexivity]. simpl.
  destruct (beqb (u_type (t_user t)) (u_type (k_user k))) eqn:E1; [|reflexivity].
  destruct (beqb (u_id (t_user t)) (u_id (k_user k))) eqn:E2; [|reflexivity].
  destruct (beqb (u_rel (t_user t)) (u_rel (k_user k))) eqn:E3; [|reflexivity]. simpl.
  apply beqb_eq in E1, E2, E3. unfold is_userset_user. rewrite E2, E3.
  rewrite Bool.eqb_reflx. reflexivity.
Qed.

Lemma sql_rut_hd s k cs : sql_read_user_tuple s k cs = hd_error (read_user_tuple_spec s k cs).
Proof.
  unfold sql_read_user_tuple, read_user_tuple_spec. do 2 f_equal.
  apply filter_ext. intro t. apply sql_rut_where_spec.
Qed.

Lemma sql_read_user_tuple_eq_spec s k cs :
  read_user_tuple_sat s k cs (sql_read_user_tuple s k cs).
Proof. rewrite sql_rut_hd. unfold read_user_tuple_sat. apply hd_error_sat. Qed.

(* with the table's primary key there is at most one candidate: "one tuple" is "the tuple" *)
Lemma keys_unique_candidates s k cs :
  keys_unique s = true -> (length (read_user_tuple_spec s k cs) <= 1)%nat.
Proof.
  unfold read_user_tuple_spec. rewrite map_length.
  induction s as [|t s IH]; simpl; intro H; [lia|].
  apply andb_true_iff in H as [H1 H2]. apply negb_true_iff in H1.
  destruct (rut_pred k cs t) eqn:E; [|auto]. simpl.
  assert (Hnone : filter (rut_pred k cs) s = []).
  { clear IH H2. induction s as [|t' s IH]; [reflexivity|]. simpl in *.
    apply orb_false_iff in H1 as [H1a H1b].
    destruct (rut_pred k cs t') eqn:E'; [|auto].
    unfold rut_pred in E, E'. apply andb_true_iff in E as [E _]. apply andb_true_iff in E' as [E' _].
    apply key_eqb_eq in E, E'. rewrite E, E' in H1a. rewrite (proj2 (key_eqb_eq k k) eq_refl) in H1a.
    discriminate. }
  rewrite Hnone. simpl. lia.
Qed.

Lemma memory_eq_sql_read_user_tuple s k cs :
  key_full k = true -> memory_read_user_tuple s k cs = sql_read_user_tuple s k cs.
Proof. intro Hk. rewrite memory_rut_hd by exact Hk. rewrite sql_rut_hd. reflexivity. Qed.

(* ---- ReadUsersetTuples ------------------------------------------------------------------- *)

Lemma m_inner_first rs t :
  m_usersets_inner rs t = if existsb (fun r => m_restr_match r t) rs then [t] else [].
Proof.
  induction rs as [|r rs IH]; simpl; [reflexivity|].
  destruct (m_restr_match r t); simpl; [reflexivity|exact IH].
Qed.

Lemma m_restr_match_spec r t :
  is_userset_user (t_user t) = true -> (match r with RBare _ => false | _ => true end) = true ->
  m_restr_match r t = restr_ok r t.
Proof.
  intros Hus Hnb. unfold m_restr_match, restr_ok.
  destruct r as [ty rel|ty|ty]; cbn [m_restr_type m_restr_rel]; [| |discriminate Hnb].
  - rewrite (beqb_sym ty), (beqb_sym rel). reflexivity.
  - rewrite (beqb_sym ty), (beqb_sym [] (u_rel (t_user t))). f_equal.
    unfold is_wildcard_user. unfold is_userset_user in Hus.
    destruct (beqb (u_rel (t_user t)) []); [|rewrite andb_false_r; reflexivity].
    cbn [negb orb] in Hus. rewrite Hus. reflexivity.
Qed.

Lemma existsb_restr_spec rs t :
  is_userset_user (t_user t) = true -> no_bare rs = true ->
  existsb (fun r => m_restr_match r t) rs = existsb (fun r => restr_ok r t) rs.
Proof.
  intros Hus. induction rs as [|r rs IH]; simpl; intro H; [reflexivity|].
  apply andb_true_iff in H as [H1 H2]. rewrite (m_restr_match_spec _ _ Hus H1), IH by exact H2. reflexivity.
Qed.

Lemma memory_read_userset_tuples_eq_spec s f :
  no_bare (uf_restr f) = true ->
  memory_read_userset_tuples s f = read_userset_tuples_spec s f.
Proof.
  intros Hnb. unfold memory_read_userset_tuples, read_userset_tuples_spec. f_equal.
  induction s as [|t s IH]; simpl; [reflexivity|].
  assert (Hm : m_match t (uf_obj f) (uf_rel f) UAny = obj_ok (uf_obj f) t && rel_ok (uf_rel f) t).
  { rewrite m_match_spec by reflexivity. simpl. apply andb_true_r. }
  rewrite Hm. unfold usersets_pred at 1.
  destruct (is_userset_user (t_user t)) eqn:Hus; simpl; [|rewrite andb_false_r; exact IH].
  rewrite andb_true_r.
  destruct (obj_ok (uf_obj f) t && rel_ok (uf_rel f) t); simpl; [|exact IH].
  assert (Hc : negb (null (uf_conds f)) && negb (m_contains (uf_conds f) (t_cond t)) =
               negb (conds_ok (uf_conds f) t)).
  { unfold conds_ok, m_contains, bmem. rewrite negb_orb. reflexivity. }
  rewrite Hc. destruct (conds_ok (uf_conds f) t); simpl; [|rewrite andb_false_r; exact IH].
  rewrite andb_true_r.
  destruct (null (uf_restr f)) eqn:En; simpl; [rewrite IH; reflexivity|].
  rewrite m_inner_first, (existsb_restr_spec _ _ Hus Hnb), IH.
  destruct (existsb (fun r => restr_ok r t) (uf_restr f)); reflexivity.
Qed.

Lemma sq_restr_terms_spec rs t :
  wf_user (t_user t) = true ->
  existsb (fun p => p t) (sq_restr_terms rs) = existsb (fun r => restr_ok r t) rs.
Proof.
  intro Hwf. induction rs as [|r rs IH]; simpl; [reflexivity|].
  destruct r as [ty rel|ty|ty]; simpl; rewrite IH; try reflexivity.
  f_equal. unfold sq_eq, is_wildcard_user. f_equal. unfold wf_user in Hwf.
  destruct (beqb (u_id (t_user t)) star); simpl in *; [|reflexivity]. rewrite Hwf. reflexivity.
Qed.

Lemma sql_read_userset_tuples_eq_spec s f :
  wf_store s = true -> wf_ofilter (uf_obj f) = true ->
  sql_read_userset_tuples s f = read_userset_tuples_spec s f.
Proof.
  intros Hs Ho. unfold sql_read_userset_tuples, read_userset_tuples_spec. f_equal.
  apply filter_ext_in. intros t Hin.
  unfold wf_store in Hs. rewrite forallb_forall in Hs. specialize (Hs t Hin).
  unfold sql_usersets_where, usersets_pred, row_user_type_is_userset.
  rewrite (sq_obj_spec _ _ Ho).
  unfold sq_or. rewrite (sq_restr_terms_spec _ _ Hs).
  unfold sq_opt_eq, rel_ok, sq_conds, conds_ok, bmem. reflexivity.
Qed.

Lemma memory_eq_sql_read_userset_tuples s f :
  wf_store s = true -> wf_usersets_filter f = true ->
  Permutation (memory_read_userset_tuples s f) (sql_read_userset_tuples s f).
Proof.
  intros Hs Hf. unfold wf_usersets_filter in Hf.
  apply andb_true_iff in Hf as [Ho Hnb].
  rewrite memory_read_userset_tuples_eq_spec, sql_read_userset_tuples_eq_spec by assumption.
  apply Permutation_refl.
Qed.

(* historical (before d969704 the memory loop never applied Conditions and appended a row once per
   matching restriction): the old witnesses, on which the memory model returned w_t2 although its
   condition is not listed, resp. returned it twice *)
Example memory_usersets_conditions_regression :
  memory_read_userset_tuples w_store (mkUF (OFull b_doc b_2) b_viewer [] [[]]) = [w_t4].
Proof. vm_compute. reflexivity. Qed.

Example memory_usersets_duplicate_restrictions_regression :
  memory_read_userset_tuples w_store
    (mkUF (OFull b_doc b_2) b_viewer [RRel b_group b_member; RRel b_group b_member] []) = [w_t2].
Proof. vm_compute. reflexivity. Qed.

(* ---- ReadStartingWithUser ---------------------------------------------------------------- *)

Lemma insert_perm t l : Permutation (insert_by_oid t l) (t :: l).
Proof.
  induction l as [|x l IH]; simpl; [apply Permutation_refl|].
  destruct (bleb (t_oid t) (t_oid x)); [apply Permutation_refl|].
  eapply Permutation_trans; [apply perm_skip; exact IH|apply perm_swap].
Qed.

Lemma sort_perm l : Permutation (sort_by_oid l) l.
Proof.
  induction l as [|t l IH]; simpl; [apply Permutation_refl|].
  eapply Permutation_trans; [apply insert_perm|apply perm_skip; exact IH].
Qed.

Lemma m_rswu_inner_none us t :
  existsb (user_eqb (t_user t)) us = false -> m_rswu_inner us t = [].
Proof.
  induction us as [|u us IH]; simpl; intro H; [reflexivity|].
  apply orb_false_iff in H as [H1 H2]. rewrite user_eqb_sym, H1. auto.
Qed.

Lemma m_rswu_inner_nodup us t :
  nodup_users us = true ->
  m_rswu_inner us t = if existsb (user_eqb (t_user t)) us then [t] else [].
Proof.
  induction us as [|u us IH]; simpl; intro H; [reflexivity|].
  apply andb_true_iff in H as [H1 H2]. apply negb_true_iff in H1.
  rewrite (user_eqb_sym (t_user t) u).
  destruct (user_eqb u (t_user t)) eqn:E; simpl; [|auto].
  apply user_eqb_eq in E. subst u. rewrite (m_rswu_inner_none _ _ H1). reflexivity.
Qed.

Lemma m_rswu_loop_filter s f :
  nodup_users (sf_users f) = true -> m_rswu_loop s f = filter (rswu_pred f) s.
Proof.
  intro Hnd. induction s as [|t s IH]; simpl; [reflexivity|].
  unfold rswu_pred at 1.
  destruct (beqb (t_otype t) (sf_otype f)); simpl; [|exact IH].
  destruct (beqb (t_rel t) (sf_rel f)); simpl; [|exact IH].
  assert (Ho : (match sf_oids f with None => false | Some l => negb (m_contains l (t_oid t)) end) =
               negb (oids_ok (sf_oids f) t)).
  { unfold oids_ok, m_contains, bmem. destruct (sf_oids f); reflexivity. }
  rewrite Ho. destruct (oids_ok (sf_oids f) t); simpl; [|exact IH].
  assert (Hc : negb (null (sf_conds f)) && negb (m_contains (sf_conds f) (t_cond t)) =
               negb (conds_ok (sf_conds f) t)).
  { unfold conds_ok, m_contains, bmem. rewrite negb_orb. reflexivity. }
  rewrite Hc. destruct (conds_ok (sf_conds f) t); simpl; [|exact IH].
  rewrite (m_rswu_inner_nodup _ _ Hnd), IH.
  destruct (existsb (user_eqb (t_user t)) (sf_users f)); reflexivity.
Qed.

Lemma memory_rswu_eq_spec_partial s f :
  flag_rswu_duplicate_user_filter f = false ->
  Permutation (memory_rswu s f) (rswu_spec s f).
Proof.
  intro H. unfold flag_rswu_duplicate_user_filter in H. apply negb_false_iff in H.
  unfold memory_rswu, rswu_spec. apply Permutation_map.
  rewrite <- (m_rswu_loop_filter _ _ H). apply sort_perm.
Qed.

Lemma memory_rswu_eq_spec_refuted :
  exists s f, wf_store s = true /\ keys_unique s = true /\
              ~ Permutation (memory_rswu s f) (rswu_spec s f).
Proof.
  exists w_store, (mkSF b_doc b_viewer [mkUser b_user b_a []; mkUser b_user b_a []] None []).
  repeat split; try reflexivity.
  apply not_perm_by_length. vm_compute. discriminate.
Qed.

Lemma sq_rswu_user_spec us t :
  existsb (fun u => sq_rswu_user u t) us = existsb (user_eqb (t_user t)) us.
Proof. reflexivity. Qed.

Lemma sql_rswu_eq_spec_partial s f :
  flag_rswu_empty_object_ids f = false -> sql_rswu s f = rswu_spec s f.
Proof.
  intros He. unfold sql_rswu, rswu_spec. f_equal. apply filter_ext. intros t.
  unfold sql_rswu_where, rswu_pred, sq_eq.
  unfold sq_or. rewrite existsb_map_fun, sq_rswu_user_spec.
  assert (Ho : sq_rswu_oids (sf_oids f) t = oids_ok (sf_oids f) t).
  { unfold flag_rswu_empty_object_ids in He. unfold sq_rswu_oids, oids_ok, bmem.
    destruct (sf_oids f) as [[|x l]|]; try reflexivity. discriminate. }
  rewrite Ho. unfold sq_conds, conds_ok, bmem.
  destruct (beqb (t_otype t) (sf_otype f)); simpl; [|reflexivity].
  destruct (beqb (t_rel t) (sf_rel f)); simpl; [|reflexivity].
  destruct (oids_ok (sf_oids f) t); simpl; [|rewrite andb_false_r; reflexivity].
  rewrite andb_true_r. apply andb_comm.
Qed.

(* historical (before a279b76 a user filter without relation also matched type:id#rel): the old
   witness, on which the sqlite model returned doc:2#viewer@group:1#member as well *)
Example sql_rswu_relationless_user_regression :
  sql_rswu w_store (mkSF b_doc b_viewer [mkUser b_group b_1 []] None []) = [w_t3].
Proof. vm_compute. reflexivity. Qed.

Lemma sql_rswu_eq_spec_refuted_empty_object_ids :
  exists s f, wf_store s = true /\ keys_unique s = true /\
              ~ Permutation (sql_rswu s f) (rswu_spec s f).
Proof.
  exists w_store, (mkSF b_doc b_viewer [mkUser b_user b_a []] (Some []) []).
  repeat split; try reflexivity.
  apply not_perm_by_length. vm_compute. discriminate.
Qed.

Lemma memory_eq_sql_rswu s f :
  flag_rswu_duplicate_user_filter f = false -> flag_rswu_empty_object_ids f = false ->
  Permutation (memory_rswu s f) (sql_rswu s f).
Proof.
  intros Hd He. rewrite sql_rswu_eq_spec_partial by assumption.
  apply memory_rswu_eq_spec_partial. exact Hd.
Qed.

(* memory and sqlite still disagree with each other on the open findings *)
Lemma memory_eq_sql_refuted :
  (exists s f, ~ Permutation (memory_rswu s f) (sql_rswu s f)) /\
  (exists s f, ~ Permutation (memory_read s f) (sql_read s f)).
Proof.
  split.
  - exists w_store, (mkSF b_doc b_viewer [mkUser b_user b_a []] (Some []) []).
    apply not_perm_by_length. vm_compute. discriminate.
  - exists w_store, (mkRF OAny [] UAny [[]]).
    apply not_perm_by_length. vm_compute. discriminate.
Qed.

(* ---- conditions and contexts round-trip -------------------------------------------------- *)

Lemma m_read_loop_sub s f : forall t, In t (m_read_loop s f) -> In t s.
Proof. intros t. rewrite m_read_loop_filter. apply filter_sub. Qed.

Lemma m_usersets_inner_sub rs t : forall x, In x (m_usersets_inner rs t) -> x = t.
Proof.
  intros x. rewrite m_inner_first. destruct (existsb (fun r => m_restr_match r t) rs); simpl; [|tauto].
  intros [<-|[]]. reflexivity.
Qed.

Lemma m_usersets_loop_sub s f : forall x, In x (m_usersets_loop s f) -> In x s.
Proof.
  induction s as [|t s IH]; simpl; intros x H; [contradiction|].
  destruct (m_match t (uf_obj f) (uf_rel f) UAny && is_userset_user (t_user t)); [|right; auto].
  destruct (negb (null (uf_conds f)) && negb (m_contains (uf_conds f) (t_cond t))); [right; auto|].
  destruct (null (uf_restr f)).
  - destruct H as [<-|H]; [left; reflexivity|right; auto].
  - apply in_app_or in H as [H|H]; [left; symmetry; eapply m_usersets_inner_sub; eauto|right; auto].
Qed.

Lemma m_rswu_inner_sub us t : forall x, In x (m_rswu_inner us t) -> x = t.
Proof.
  induction us as [|u us IH]; simpl; intros x H; [contradiction|].
  destruct (user_eqb u (t_user t)); [destruct H as [<-|H]; auto|auto].
Qed.

Lemma m_rswu_loop_sub s f : forall x, In x (m_rswu_loop s f) -> In x s.
Proof.
  induction s as [|t s IH]; simpl; intros x H; [contradiction|].
  destruct (negb (beqb (t_otype t) (sf_otype f))); [right; auto|].
  destruct (negb (beqb (t_rel t) (sf_rel f))); [right; auto|].
  destruct (match sf_oids f with None => false | Some l => negb (m_contains l (t_oid t)) end); [right; auto|].
  destruct (negb (null (sf_conds f)) && negb (m_contains (sf_conds f) (t_cond t))); [right; auto|].
  apply in_app_or in H as [H|H]; [left; symmetry; eapply m_rswu_inner_sub; eauto|right; auto].
Qed.

Lemma memory_rut_from_store s k cs x :
  memory_read_user_tuple s k cs = Some x -> from_store s x.
Proof.
  induction s as [|t s IH]; simpl; intro H; [discriminate|].
  assert (Hrec : memory_read_user_tuple s k cs = Some x -> from_store (t :: s) x).
  { intro H'. destruct (IH H') as [t' [Hin Hrest]]. exists t'. split; [right; exact Hin|exact Hrest]. }
  destruct (m_match t (OFull (k_otype k) (k_oid k)) (k_rel k) (UExact (k_user k))); [|auto].
  destruct (negb (null cs) && negb (m_contains cs (t_cond t))); [auto|].
  inversion H; subst. apply obs_from_store. left. reflexivity.
Qed.

Lemma hd_error_in {A} (l : list A) x : hd_error l = Some x -> In x l.
Proof. destruct l; simpl; intro H; [discriminate|]. inversion H. left. reflexivity. Qed.

Lemma cond_ctx_roundtrip s :
  (forall f x, In x (memory_read s f) -> from_store s x) /\
  (forall f x, In x (sql_read s f) -> from_store s x) /\
  (forall k cs x, memory_read_user_tuple s k cs = Some x -> from_store s x) /\
  (forall k cs x, sql_read_user_tuple s k cs = Some x -> from_store s x) /\
  (forall f x, In x (memory_read_userset_tuples s f) -> from_store s x) /\
  (forall f x, In x (sql_read_userset_tuples s f) -> from_store s x) /\
  (forall f x, In x (memory_rswu s f) -> from_store s x) /\
  (forall f x, In x (sql_rswu s f) -> from_store s x).
Proof.
  repeat split.
  - intros f x. unfold memory_read. apply map_obs_from_store.
    destruct (m_filter_is_empty f); [auto|apply m_read_loop_sub].
  - intros f x. apply map_obs_from_store, filter_sub.
  - intros k cs x. apply memory_rut_from_store.
  - intros k cs x H. apply hd_error_in in H. revert H. apply map_obs_from_store, filter_sub.
  - intros f x. apply map_obs_from_store, m_usersets_loop_sub.
  - intros f x. apply map_obs_from_store, filter_sub.
  - intros f x. unfold memory_rswu. apply map_obs_from_store. intros t Ht.
    apply m_rswu_loop_sub with (f := f). eapply Permutation_in; [apply sort_perm|exact Ht].
  - intros f x. apply map_obs_from_store, filter_sub.
Qed.

(* a named condition is handed back exactly as stored *)
Lemma obs_named t : t_cond t <> [] -> obs t = t.
Proof. intro H. unfold obs. apply beqb_neq in H. rewrite H. reflexivity. Qed.

(* ---- large ObjectIDs sets: only membership of the STORED object ids (and emptiness) matters ---- *)

Definition oids_equiv (s : store) (o o' : option (list bytes)) : Prop :=
  match o, o' with
  | None, None => True
  | Some l, Some l' => null l = null l' /\ forall t, In t s -> bmem (t_oid t) l = bmem (t_oid t) l'
  | _, _ => False
  end.

Definition with_oids (f : rswu_filter) (o : option (list bytes)) : rswu_filter :=
  mkSF (sf_otype f) (sf_rel f) (sf_users f) o (sf_conds f).

Lemma m_rswu_loop_oids s f o' :
  oids_equiv s (sf_oids f) o' -> m_rswu_loop s f = m_rswu_loop s (with_oids f o').
Proof.
  intro H. induction s as [|t s IH]; simpl; [reflexivity|].
  assert (Hs : oids_equiv s (sf_oids f) o').
  { unfold oids_equiv in *. destruct (sf_oids f), o'; auto. destruct H as [H1 H2]. split; auto.
    intros t' Ht'. apply H2. right. exact Ht'. }
  rewrite (IH Hs).
  assert (Ht : (match sf_oids f with None => false | Some l => negb (m_contains l (t_oid t)) end) =
               (match o' with None => false | Some l => negb (m_contains l (t_oid t)) end)).
  { unfold oids_equiv in H. destruct (sf_oids f), o'; try contradiction; [|reflexivity].
    destruct H as [_ H2]. unfold m_contains. unfold bmem in H2. rewrite (H2 t (or_introl eq_refl)). reflexivity. }
  rewrite Ht. reflexivity.
Qed.

Lemma rswu_oids_equiv s f o' :
  oids_equiv s (sf_oids f) o' ->
  rswu_spec s f = rswu_spec s (with_oids f o') /\
  memory_rswu s f = memory_rswu s (with_oids f o') /\
  sql_rswu s f = sql_rswu s (with_oids f o') /\
  flag_rswu_empty_object_ids f = flag_rswu_empty_object_ids (with_oids f o').
Proof.
  intro H. repeat split.
  - unfold rswu_spec. f_equal. apply filter_ext_in. intros t Ht. unfold rswu_pred. simpl.
    do 3 f_equal. unfold oids_equiv in H. unfold oids_ok.
    destruct (sf_oids f), o'; try contradiction; [|reflexivity]. destruct H as [_ H2]. auto.
  - unfold memory_rswu. rewrite (m_rswu_loop_oids _ _ _ H). reflexivity.
  - unfold sql_rswu. f_equal. apply filter_ext_in. intros t Ht. unfold sql_rswu_where. simpl.
    do 2 f_equal. unfold oids_equiv in H. unfold sq_rswu_oids.
    destruct (sf_oids f) as [l|], o' as [l'|]; try contradiction; [|reflexivity].
    destruct H as [H1 H2]. specialize (H2 t Ht). unfold bmem in H2.
    destruct l, l'; try discriminate; [reflexivity|]. exact H2.
  - unfold flag_rswu_empty_object_ids. simpl. unfold oids_equiv in H.
    destruct (sf_oids f) as [l|], o' as [l'|]; try contradiction; [|reflexivity].
    destruct H as [H1 _]. destruct l, l'; try discriminate; reflexivity.
Qed.

(* a 3-element stand-in for a big set: the stored ids it contains plus one id that is not stored *)
Example rswu_oids_equiv_nonvacuous :
  oids_equiv w_store (Some [b_2; [33; 48]; [33; 49]; [126; 48]; [126; 49]]) (Some [b_2; [33; 48]]) /\
  rswu_spec w_store (mkSF b_doc b_viewer [mkUser b_user star []; mkUser b_user b_a []] (Some [b_2; [33; 48]]) []) = [w_t4].
Proof.
  split; [|vm_compute; reflexivity]. split; [reflexivity|].
  intros t [<-|[<-|[<-|[<-|[]]]]]; vm_compute; reflexivity.
Qed.
