(* C17 — models are validated, immutable and resolved to the latest.

   Transcribes
     pkg/server/commands/write_authzmodel.go       Execute (limits, ulid.Make, NewAndValidate, persist)
     pkg/storage/memory/memory.go                  Write/Read/FindLatest/ReadAuthorizationModel(s)
     pkg/storage/sqlite/sqlite.go                  the same four on table authorization_model
     pkg/storage/storagewrappers/model_caching.go  cachedOpenFGADatastore (read-through cache by
                                                   (store, model id); FindLatest NOT cached,
                                                   only deduplicated by singleflight)
     pkg/typesystem/resolver.go                    MemoizedTypesystemResolverFunc (latest lookup,
                                                   cache keyed by the RESOLVED id, singleflight)
   The validator typesystem.NewAndValidate is a Section variable (not re-proved).
   Definitions only; proofs in Store/ModelsProofs.v. *)
From OFGA Require Import Base.Bytes Store.Assertions.

(* Go string comparison (bytewise lexicographic), strict *)
Fixpoint bltb (a b : bytes) : bool :=
  match a, b with
  | [], [] => false
  | [], _ :: _ => true
  | _ :: _, [] => false
  | x :: a', y :: b' => if N.ltb x y then true else if N.eqb x y then bltb a' b' else false
  end.

Section Models.
  Variable body : Type.            (* what a WriteAuthorizationModel request carries: schema version,
                                      type definitions, conditions *)
  Variable valid : body -> bool.   (* typesystem.NewAndValidate(model) succeeds *)
  Variable wf : body -> bool.      (* req.Validate(): >= 1 type definition, schema version in the list, <= 25 conditions *)
  Variable ntypes : body -> N.     (* len(type_definitions) *)
  Variable size : body -> N.       (* proto.Size of the model including its 26-byte id *)

  Definition model := (bytes * body)%type.     (* (id, content) *)

  Definition massoc (id : bytes) (l : list model) : option body := alookup beqb id l.

  (* ORDER BY id DESC / sort.Slice(models, id_i > id_j): insertion sort, newest (greatest) first *)
  Fixpoint insert_desc (x : model) (l : list model) : list model :=
    match l with
    | [] => [x]
    | y :: r => if bltb (fst y) (fst x) then x :: l else y :: insert_desc x r
    end.
  Definition sort_desc (l : list model) : list model := fold_right insert_desc [] l.

  (* -------------------------------------------------------------------------------------- *)
  (* backends                                                                                *)

  Record mbackend := mkMBackend {
    mb_state  : Type;
    mb_init   : mb_state;
    mb_write  : mb_state -> bytes -> bytes -> body -> option mb_state;   (* None = error *)
    mb_read   : mb_state -> bytes -> bytes -> option body;               (* None = ErrNotFound *)
    mb_latest : mb_state -> bytes -> option model;                       (* None = ErrNotFound *)
    mb_list   : mb_state -> bytes -> list bytes                          (* ids, newest first *)
  }.

  (* memory: map store -> map id -> entry{model, latest bool}.  Exactly one entry carries the
     flag: the one written last.  A Go map has no order; it is represented by its entries,
     most recently inserted first, plus the id of the flagged entry. *)
  Record mem_store := mkMemStore { ms_entries : list model; ms_latest : option bytes }.
  Definition mmem_state := list (bytes * mem_store).

  Fixpoint mremove (id : bytes) (l : list model) : list model :=
    match l with
    | [] => []
    | m :: r => if beqb (fst m) id then mremove id r else m :: mremove id r
    end.

  Definition mmem_write (st : mmem_state) (s id : bytes) (b : body) : option mmem_state :=
    let old := match alookup beqb s st with Some ms => ms_entries ms | None => [] end in
    Some (aupsert beqb s (mkMemStore ((id, b) :: mremove id old) (Some id)) st).

  (* findAuthorizationModelByID: an EMPTY id means "the entry carrying the latest flag" *)
  Definition mmem_find (ms : mem_store) (id : bytes) : option body :=
    match id with
    | [] => match ms_latest ms with Some l => massoc l (ms_entries ms) | None => None end
    | _ => massoc id (ms_entries ms)
    end.

  Definition mmem_read (st : mmem_state) (s id : bytes) : option body :=
    match alookup beqb s st with
    | None => None
    | Some ms =>
      match mmem_find ms id with
      | Some b => if N.eqb (ntypes b) 0 then None else Some b   (* no type definitions: ErrNotFound *)
      | None => None
      end
    end.

  Definition mmem_latest (st : mmem_state) (s : bytes) : option model :=
    match alookup beqb s st with
    | None => None
    | Some ms =>
      match ms_latest ms with
      | None => None
      | Some id => match massoc id (ms_entries ms) with Some b => Some (id, b) | None => None end
      end
    end.

  Definition mmem_list (st : mmem_state) (s : bytes) : list bytes :=
    match alookup beqb s st with
    | None => []
    | Some ms => map fst (sort_desc (ms_entries ms))
    end.

  Definition mem_mbackend : mbackend :=
    mkMBackend mmem_state [] mmem_write mmem_read mmem_latest mmem_list.

  (* sqlite: rows of authorization_model, primary key (store, authorization_model_id); a table has
     no order: most recently inserted row first *)
  Definition msql_state := list (key * body).

  Definition rows_of (st : msql_state) (s : bytes) : list model :=
    fold_right (fun r acc => if beqb (fst (fst r)) s then (snd (fst r), snd r) :: acc else acc) [] st.

  Definition msql_write (st : msql_state) (s id : bytes) (b : body) : option msql_state :=
    if N.eqb (ntypes b) 0 then Some st                         (* len(typeDefinitions) < 1: return nil *)
    else match alookup key_eqb (s, id) st with
         | Some _ => None                                      (* unique constraint: ErrCollision *)
         | None => Some (((s, id), b) :: st)
         end.

  Definition msql_read (st : msql_state) (s id : bytes) : option body := alookup key_eqb (s, id) st.

  (* ORDER BY authorization_model_id DESC LIMIT 1 *)
  Definition msql_latest (st : msql_state) (s : bytes) : option model := hd_error (sort_desc (rows_of st s)).

  Definition msql_list (st : msql_state) (s : bytes) : list bytes := map fst (sort_desc (rows_of st s)).

  Definition sql_mbackend : mbackend :=
    mkMBackend msql_state [] msql_write msql_read msql_latest msql_list.

  (* -------------------------------------------------------------------------------------- *)
  (* server: cachedOpenFGADatastore + typesystem resolver + commands                         *)

  Definition max_types : N := 100.            (* MaxTypesPerAuthorizationModel *)
  Definition max_model_size : N := 262144.    (* DefaultMaxAuthorizationModelSizeInBytes = 256 * 1024 *)

  Record mserver (B : mbackend) := mkMServer {
    sm_ds      : mb_state B;
    sm_mcache  : list (key * body);     (* model cache,      key MODEL/store/id *)
    sm_tscache : list (key * body)      (* typesystem cache, key TS/store/id    *)
  }.
  Arguments mkMServer {B} _ _ _.
  Arguments sm_ds {B} _.
  Arguments sm_mcache {B} _.
  Arguments sm_tscache {B} _.

  Definition mserver_init (B : mbackend) : mserver B := mkMServer (mb_init B) [] [].

  Inductive merr :=
  | MInvalidArgument       (* req.Validate() *)
  | MExceeded              (* too many type definitions / model too large *)
  | MInvalidModel          (* NewAndValidate failed on write *)
  | MModelNotFound
  | MLatestNotFound
  | MStoredModelInvalid    (* resolver: the stored model does not validate *)
  | MInternal.             (* datastore error *)

  Inductive mop :=
  | MWrite (s : bytes) (b : body) (id : bytes)     (* id: the value ulid.Make() returns in this call *)
  | MRead (s id : bytes)                           (* ReadAuthorizationModel *)
  | MList (s : bytes)                              (* ReadAuthorizationModels (one page holding all) *)
  | MResolve (s : bytes) (id : option bytes).      (* a request through resolveTypesystem (Check ...) *)

  Inductive mout :=
  | MWritten (id : bytes)
  | MModel (id : bytes) (b : body)
  | MIds (ids : list bytes)
  | MResolved (id : bytes) (b : body)
  | MErr (e : merr).

  (* cachedOpenFGADatastore.ReadAuthorizationModel *)
  Definition cached_read (B : mbackend) (st : mserver B) (s id : bytes) : mserver B * option body :=
    match alookup key_eqb (s, id) (sm_mcache st) with
    | Some b => (st, Some b)
    | None =>
      match mb_read B (sm_ds st) s id with
      | None => (st, None)
      | Some b => (mkMServer (sm_ds st) (aupsert key_eqb (s, id) b (sm_mcache st)) (sm_tscache st), Some b)
      end
    end.

  (* ulid.Parse: 26 characters, first one at most '7' (the value fits 128 bits); other
     characters are not checked *)
  Definition ulid_parse_ok (id : bytes) : bool :=
    Nat.eqb (length id) 26 && match id with c :: _ => c <=? 55 | [] => false end.

  (* MemoizedTypesystemResolverFunc *)
  Definition resolve (B : mbackend) (st : mserver B) (s : bytes) (ido : option bytes) : mserver B * mout :=
    match ido with
    | Some id =>
      if negb (ulid_parse_ok id) then (st, MErr MModelNotFound)
      else
        match alookup key_eqb (s, id) (sm_tscache st) with
        | Some b => (st, MResolved id b)
        | None =>
          let (st1, r) := cached_read B st s id in
          match r with
          | None => (st1, MErr MModelNotFound)
          | Some b =>
            if valid b
            then (mkMServer (sm_ds st1) (sm_mcache st1) (aupsert key_eqb (s, id) b (sm_tscache st1)), MResolved id b)
            else (st1, MErr MStoredModelInvalid)
          end
        end
    | None =>
      match mb_latest B (sm_ds st) s with          (* FindLatestAuthorizationModel: never cached *)
      | None => (st, MErr MLatestNotFound)
      | Some (id, b) =>
        match alookup key_eqb (s, id) (sm_tscache st) with
        | Some b' => (st, MResolved id b')         (* cache hit on the resolved id *)
        | None =>
          if valid b
          then (mkMServer (sm_ds st) (sm_mcache st) (aupsert key_eqb (s, id) b (sm_tscache st)), MResolved id b)
          else (st, MErr MStoredModelInvalid)
        end
      end
    end.

  Definition mstep (B : mbackend) (st : mserver B) (o : mop) : mserver B * mout :=
    match o with
    | MWrite s b id =>
      if negb (is_ulid s && wf b) then (st, MErr MInvalidArgument)
      else if max_types <? ntypes b then (st, MErr MExceeded)
      else if max_model_size <? size b then (st, MErr MExceeded)
      else if negb (valid b) then (st, MErr MInvalidModel)
      else match mb_write B (sm_ds st) s id b with
           | Some ds' => (mkMServer ds' (sm_mcache st) (sm_tscache st), MWritten id)
           | None => (st, MErr MInternal)
           end
    | MRead s id =>
      if negb (is_ulid s && is_ulid id) then (st, MErr MInvalidArgument)
      else let (st1, r) := cached_read B st s id in
           match r with
           | Some b => (st1, MModel id b)
           | None => (st1, MErr MModelNotFound)
           end
    | MList s =>
      if negb (is_ulid s) then (st, MErr MInvalidArgument)
      else (st, MIds (mb_list B (sm_ds st) s))
    | MResolve s ido =>
      if negb (is_ulid s && match ido with Some id => is_ulid id | None => true end)
      then (st, MErr MInvalidArgument)
      else resolve B st s ido
    end.

  Fixpoint mrun (B : mbackend) (st : mserver B) (h : list mop) : mserver B :=
    match h with
    | [] => st
    | o :: r => mrun B (fst (mstep B st o)) r
    end.

  Fixpoint mtrace (B : mbackend) (st : mserver B) (h : list mop) : list (mop * mout) :=
    match h with
    | [] => []
    | o :: r => let (st', out) := mstep B st o in (o, out) :: mtrace B st' r
    end.

  (* -------------------------------------------------------------------------------------- *)
  (* specification: what a store contains after a history = the accepted writes, newest first *)

  Definition accepts (s : bytes) (b : body) : bool :=
    is_ulid s && wf b && negb (max_types <? ntypes b) && negb (max_model_size <? size b) && valid b.

  (* rh: the history so far, most recent operation first *)
  Fixpoint spec_rev (rh : list mop) (s : bytes) : list model :=
    match rh with
    | [] => []
    | MWrite s' b id :: r => if beqb s' s && accepts s' b then (id, b) :: spec_rev r s else spec_rev r s
    | _ :: r => spec_rev r s
    end.

  (* ULID-monotonic hypothesis: the id drawn in a write is greater than every id drawn before *)
  Fixpoint ids_increasing_from (seen : list bytes) (h : list mop) : bool :=
    match h with
    | [] => true
    | MWrite _ _ id :: r => forallb (fun i => bltb i id) seen && ids_increasing_from (id :: seen) r
    | _ :: r => ids_increasing_from seen r
    end.
  Definition ids_increasing (h : list mop) : bool := ids_increasing_from [] h.

  Fixpoint write_ids (h : list mop) : list bytes :=
    match h with
    | [] => []
    | MWrite _ _ id :: r => id :: write_ids r
    | _ :: r => write_ids r
    end.

  (* The stateless specification of every output (no caches, no backend): *)
  Definition spec_out (rp : list mop) (o : mop) : mout :=
    match o with
    | MWrite s b id =>
      if negb (is_ulid s && wf b) then MErr MInvalidArgument
      else if max_types <? ntypes b then MErr MExceeded
      else if max_model_size <? size b then MErr MExceeded
      else if negb (valid b) then MErr MInvalidModel
      else MWritten id
    | MRead s id =>
      if negb (is_ulid s && is_ulid id) then MErr MInvalidArgument
      else match massoc id (spec_rev rp s) with
           | Some b => MModel id b
           | None => MErr MModelNotFound
           end
    | MList s =>
      if negb (is_ulid s) then MErr MInvalidArgument else MIds (map fst (spec_rev rp s))
    | MResolve s ido =>
      if negb (is_ulid s && match ido with Some id => is_ulid id | None => true end)
      then MErr MInvalidArgument
      else match ido with
           | Some id =>
             if negb (ulid_parse_ok id) then MErr MModelNotFound
             else match massoc id (spec_rev rp s) with
                  | Some b => MResolved id b
                  | None => MErr MModelNotFound
                  end
           | None =>
             match spec_rev rp s with
             | [] => MErr MLatestNotFound
             | (id, b) :: _ => MResolved id b        (* the most recently written model *)
             end
           end
    end.

  Fixpoint spec_trace_from (rp : list mop) (h : list mop) : list (mop * mout) :=
    match h with
    | [] => []
    | o :: r => (o, spec_out rp o) :: spec_trace_from (o :: rp) r
    end.
  Definition spec_trace (h : list mop) : list (mop * mout) := spec_trace_from [] h.

  (* The property as a predicate on an observed trace (most recent first prefix [rp] of
     operations already seen, with their outputs) — evaluated by the oracle on the
     implementation's observations and proved of the model's trace. *)
  Fixpoint obs_content (rp : list (mop * mout)) (s : bytes) : list model :=
    match rp with
    | [] => []
    | (MWrite s' b _, MWritten id) :: r => if beqb s' s then (id, b) :: obs_content r s else obs_content r s
    | _ :: r => obs_content r s
    end.

  Variable body_eqb : body -> body -> bool.

  Fixpoint ids_eqb (a b : list bytes) : bool :=
    match a, b with
    | [], [] => true
    | x :: a', y :: b' => beqb x y && ids_eqb a' b'
    | _, _ => false
    end.

  Definition step_ok (rp : list (mop * mout)) (o : mop) (out : mout) : bool :=
    match o, out with
    (* only valid, well-formed models are accepted; the new id is the drawn one and is greater
       than every id of the store *)
    | MWrite s b id, MWritten id' =>
      valid b && wf b && beqb id id' && forallb (fun m => bltb (fst m) id') (obs_content rp s)
    | MWrite _ _ _, MErr _ => true
    (* a model that is returned is the one written under that id in that store *)
    | MRead s id, MModel id' b =>
      beqb id id' && match massoc id (obs_content rp s) with Some b' => body_eqb b b' | None => false end
    | MRead s id, MErr MModelNotFound => match massoc id (obs_content rp s) with Some _ => false | None => true end
    | MRead _ _, MErr _ => true
    | MList s, MIds ids => ids_eqb ids (map fst (obs_content rp s))
    | MList _, MErr _ => true
    (* a request without model id is served by the most recently written model *)
    | MResolve s None, MResolved id b =>
      match obs_content rp s with (id', b') :: _ => beqb id id' && body_eqb b b' | [] => false end
    | MResolve s None, MErr MLatestNotFound => match obs_content rp s with [] => true | _ => false end
    | MResolve s (Some id), MResolved id' b =>
      beqb id id' && match massoc id (obs_content rp s) with Some b' => body_eqb b b' | None => false end
    | MResolve s (Some id), MErr MModelNotFound =>
      negb (ulid_parse_ok id) || match massoc id (obs_content rp s) with Some _ => false | None => true end
    | MResolve _ _, MErr MInvalidArgument => true
    | _, _ => false
    end.

  Fixpoint mtrace_ok_from (rp : list (mop * mout)) (t : list (mop * mout)) : bool :=
    match t with
    | [] => true
    | (o, out) :: r => step_ok rp o out && mtrace_ok_from ((o, out) :: rp) r
    end.
  Definition mtrace_ok (t : list (mop * mout)) : bool := mtrace_ok_from [] t.

  (* -------------------------------------------------------------------------------------- *)
  (* Concurrency: the singleflight group of the latest-model lookup in the resolver (and in   *)
  (* cachedOpenFGADatastore): lookupGroup.Do("FindLatestAuthorizationModel:"+storeID, ...).   *)
  (* A model-less request that starts while a call with ITS KEY is in flight does not query   *)
  (* the datastore: it waits for, and uses, the value of the call already in flight.  The key *)
  (* computed from the store id is explicit ([fkey]) because isolation between stores rests    *)
  (* on it.                                                                                    *)

  Variable fkey : bytes -> bytes.      (* store id -> singleflight key *)

  Inductive cev :=
  | CWrite (s : bytes) (m : model)     (* a WriteAuthorizationModel for store s has completed *)
  | CBegin (r : N) (s : bytes)         (* model-less request r for store s starts its latest-model lookup *)
  | CEnd (s : bytes).                  (* the in-flight call with the key of store s returns *)

  Record flight := mkFlight {
    fl_key : bytes;                               (* the singleflight key *)
    fl_store : bytes;                             (* the store the leader queries the datastore for *)
    fl_value : option model;                      (* what the leader's datastore query returns *)
    fl_waiters : list ((N * bytes) * option model * bool)
                                                  (* (request, its store), latest model of ITS store at ITS start, joined? *)
  }.

  Record cstate := mkC {
    c_latest : list (bytes * model);              (* store -> latest model *)
    c_flights : list flight;
    c_done : list (((N * bytes) * bytes) * option model * option model * bool)
      (* ((request, its store), store the serving lookup was made for), latest at start, served, joined? *)
  }.
  Definition cinit : cstate := mkC [] [] [].

  Fixpoint find_flight (k : bytes) (fs : list flight) : option flight :=
    match fs with
    | [] => None
    | f :: r => if beqb (fl_key f) k then Some f else find_flight k r
    end.
  Fixpoint remove_flight (k : bytes) (fs : list flight) : list flight :=
    match fs with
    | [] => []
    | f :: r => if beqb (fl_key f) k then r else f :: remove_flight k r
    end.
  Fixpoint replace_flight (f' : flight) (fs : list flight) : list flight :=
    match fs with
    | [] => []
    | f :: r => if beqb (fl_key f) (fl_key f') then f' :: r else f :: replace_flight f' r
    end.

  Definition cstep (st : cstate) (e : cev) : cstate :=
    match e with
    | CWrite s m => mkC (aupsert beqb s m (c_latest st)) (c_flights st) (c_done st)
    | CBegin r s =>
      let now := alookup beqb s (c_latest st) in
      match find_flight (fkey s) (c_flights st) with
      | None =>      (* leader: the datastore query for store s is issued now *)
        mkC (c_latest st) (mkFlight (fkey s) s now [((r, s), now, false)] :: c_flights st) (c_done st)
      | Some f =>    (* follower: joins the call in flight under this key *)
        mkC (c_latest st)
            (replace_flight (mkFlight (fl_key f) (fl_store f) (fl_value f) (((r, s), now, true) :: fl_waiters f)) (c_flights st))
            (c_done st)
      end
    | CEnd s =>
      match find_flight (fkey s) (c_flights st) with
      | None => st
      | Some f =>
        mkC (c_latest st) (remove_flight (fkey s) (c_flights st))
            (map (fun w => ((fst (fst w), fl_store f), snd (fst w), fl_value f, snd w)) (fl_waiters f) ++ c_done st)
      end
    end.

  Definition crun (h : list cev) : cstate := fold_left cstep h cinit.

  (* a served model is not older than the latest model at the start of the request *)
  Definition fresh_enough (at_start served : option model) : bool :=
    match at_start, served with
    | None, _ => true
    | Some _, None => false
    | Some (i, _), Some (j, _) => negb (bltb j i)
    end.

  Definition all_fresh (st : cstate) : bool :=
    forallb (fun d => fresh_enough (snd (fst (fst d))) (snd (fst d))) (c_done st).
  Definition leaders_fresh (st : cstate) : bool :=
    forallb (fun d => snd d || fresh_enough (snd (fst (fst d))) (snd (fst d))) (c_done st).
  (* trigger flag: some request joined a call that was in flight *)
  Definition some_joined (st : cstate) : bool := existsb (fun d => snd d) (c_done st).
  (* isolation: every request was served by a lookup made for its own store *)
  Definition all_own_store (st : cstate) : bool :=
    forallb (fun d => beqb (snd (fst (fst (fst (fst d))))) (snd (fst (fst (fst d))))) (c_done st).
End Models.

(* ------------------------------------------------------------------------------------------ *)
(* Datastore-interface histories (storage.AuthorizationModelBackend): ids are supplied by the   *)
(* caller, nothing is validated.                                                                *)

Section Raw.
  Variable body : Type.

  Inductive bop :=
  | BWrite (s id : bytes) (b : body)
  | BRead (s id : bytes)
  | BLatest (s : bytes)
  | BList (s : bytes).

  Inductive bout :=
  | BOk
  | BErr              (* any error other than not-found (sqlite: unique constraint) *)
  | BNotFound
  | BModel (id : bytes) (b : body)
  | BIds (ids : list bytes).

  Definition bstep (B : mbackend body) (st : mb_state body B) (o : bop) : mb_state body B * bout :=
    match o with
    | BWrite s id b => match mb_write body B st s id b with Some st' => (st', BOk) | None => (st, BErr) end
    | BRead s id => (st, match mb_read body B st s id with Some b => BModel id b | None => BNotFound end)
    | BLatest s => (st, match mb_latest body B st s with Some (id, b) => BModel id b | None => BNotFound end)
    | BList s => (st, BIds (mb_list body B st s))
    end.

  Fixpoint btrace (B : mbackend body) (st : mb_state body B) (h : list bop) : list (bop * bout) :=
    match h with
    | [] => []
    | o :: r => let (st', out) := bstep B st o in (o, out) :: btrace B st' r
    end.
End Raw.

(* ------------------------------------------------------------------------------------------ *)
(* The instance the oracle runs: the request content with the attributes the driver observes    *)

Record tbody := mkTBody {
  tb_enc : bytes;       (* canonical encoding of schema version + type definitions + conditions *)
  tb_wf : bool;         (* req.Validate() *)
  tb_valid : bool;      (* typesystem.NewAndValidate, computed by the driver with the same function *)
  tb_ntypes : N;
  tb_size : N;
  tb_variant : N        (* which of the probe variants the content is (decides the Check answers) *)
}.

Definition tbody_eqb (a b : tbody) : bool := beqb (tb_enc a) (tb_enc b).

Definition t_mem := mem_mbackend tbody tb_ntypes.
Definition t_sql := sql_mbackend tbody tb_ntypes.
Definition t_mem_trace (h : list (mop tbody)) :=
  mtrace tbody tb_valid tb_wf tb_ntypes tb_size t_mem (mserver_init tbody t_mem) h.
Definition t_sql_trace (h : list (mop tbody)) :=
  mtrace tbody tb_valid tb_wf tb_ntypes tb_size t_sql (mserver_init tbody t_sql) h.
Definition t_spec_trace (h : list (mop tbody)) := spec_trace tbody tb_valid tb_wf tb_ntypes tb_size h.
Definition t_trace_ok (t : list (mop tbody * mout tbody)) := mtrace_ok tbody tb_valid tb_wf tbody_eqb t.
Definition t_ids_increasing (h : list (mop tbody)) := ids_increasing tbody h.
Definition t_mem_btrace (h : list (bop tbody)) := btrace tbody t_mem (mb_init tbody t_mem) h.
Definition t_sql_btrace (h : list (bop tbody)) := btrace tbody t_sql (mb_init tbody t_sql) h.
(* the key as coded: "FindLatestAuthorizationModel:" + storeID *)
Definition lookup_prefix : bytes :=
  [70; 105; 110; 100; 76; 97; 116; 101; 115; 116; 65; 117; 116; 104; 111; 114; 105; 122; 97; 116; 105; 111; 110; 77; 111; 100; 101; 108; 58].
Definition lookup_key (s : bytes) : bytes := lookup_prefix ++ s.
(* a key that omits the store id *)
Definition lookup_key_no_store (_ : bytes) : bytes := lookup_prefix.
Definition t_crun (h : list (cev tbody)) := crun tbody lookup_key h.
Definition t_crun_no_store (h : list (cev tbody)) := crun tbody lookup_key_no_store h.
Definition t_all_own_store (st : cstate tbody) := all_own_store tbody st.
Definition t_all_fresh (st : cstate tbody) := all_fresh tbody st.
Definition t_leaders_fresh (st : cstate tbody) := leaders_fresh tbody st.
Definition t_some_joined (st : cstate tbody) := some_joined tbody st.
