(* C04 — contextual tuples: the request-scoped reader that merges the tuples passed in a request
   into every read of the datastore (pkg/storage/storagewrappers/combinedtuplereader.go), and the
   per-request indexes of the weighted-graph engine (internal/check/request.go), AS CODED.

   Abstraction level.  Strings are interned by the driver as N, order preserving where the code
   orders them: an object "type:id" is its rank [rt_obj] among all object strings of the case (so
   N.ltb on ranks is strings.Compare on the strings), a user string likewise [u_str]; the parts
   the code looks at (object type; user type, "is typed wildcard", user relation) travel next to
   the rank.  Relation / condition names: 0 is the empty string.  Condition contexts are opaque
   ids (0 = none/empty).  The string codec itself is property C29's subject.

   The plain-store operations are the documented meaning of storage.RelationshipTupleReader as
   list comprehensions (the same predicates as Store/ReadSpec.v, which C13 ties to the backends).

   Definitions only; proofs are in Store/CombinedReaderProofs.v. *)
From Coq Require Export NArith List Bool.
Export ListNotations.
Open Scope N_scope.

Record user := mkUser {
  u_str  : N;      (* rank of the whole user string: identity and order of users *)
  u_type : N;      (* tuple.GetType(user) *)
  u_wild : bool;   (* tuple.IsTypedWildcard(user): "type:*" *)
  u_rel  : N       (* tuple.GetRelation(user); 0 = no '#relation' part *)
}.

Record rtuple := mkRT {
  rt_obj   : N;     (* rank of the object string "type:id" *)
  rt_otype : N;     (* tuple.GetType(object) *)
  rt_rel   : N;
  rt_user  : user;
  rt_cond  : N;     (* condition name, 0 = unconditioned *)
  rt_ctx   : N      (* condition context id, 0 = none/empty *)
}.

Definition store := list rtuple.

Definition user_eqb (a b : user) : bool := N.eqb (u_str a) (u_str b).

(* tuple.IsObjectRelation *)
Definition is_objrel (u : user) : bool := negb (N.eqb (u_rel u) 0).
(* tuple.GetUserTypeFromUser(user) == UserSet *)
Definition is_userset_user (u : user) : bool := is_objrel u || u_wild u.

(* What a reader hands back: storage.TupleRecord.AsTuple for stored records and
   tuple.NewTupleKeyWithCondition for contextual tuples (NewCombinedTupleReader): a tuple whose
   condition name is empty carries no condition and therefore no context. *)
Definition obs (t : rtuple) : rtuple :=
  if N.eqb (rt_cond t) 0 then mkRT (rt_obj t) (rt_otype t) (rt_rel t) (rt_user t) 0 0 else t.

(* ---- filters ---------------------------------------------------------------------------- *)

(* ReadFilter.Object: "" | "type:" | "type:id" *)
Inductive ofilter := OAny | OType (ty : N) | OFull (o : N).
(* ReadFilter.User: "" | "type:" | a full user *)
Inductive ufilter := UAny | UType (ty : N) | UExact (u : user).

Definition obj_ok (o : ofilter) (t : rtuple) : bool :=
  match o with
  | OAny => true
  | OType ty => N.eqb (rt_otype t) ty
  | OFull x => N.eqb (rt_obj t) x
  end.

Definition rel_ok (r : N) (t : rtuple) : bool := N.eqb r 0 || N.eqb (rt_rel t) r.

Definition usr_ok (u : ufilter) (t : rtuple) : bool :=
  match u with
  | UAny => true
  | UType ty => N.eqb (u_type (rt_user t)) ty
  | UExact x => user_eqb (rt_user t) x
  end.

Definition nmem (c : N) (cs : list N) : bool := existsb (N.eqb c) cs.
Definition null {A} (l : list A) : bool := match l with [] => true | _ => false end.
(* Conditions: nil or empty = not constrained; 0 in the list stands for "no condition" *)
Definition conds_ok (cs : list N) (t : rtuple) : bool := null cs || nmem (rt_cond t) cs.

Record read_filter := mkRF { rf_obj : ofilter; rf_rel : N; rf_usr : ufilter; rf_conds : list N }.

(* ---- the plain store (documented meaning of the five read operations) -------------------- *)

Definition read_pred (f : read_filter) (t : rtuple) : bool :=
  obj_ok (rf_obj f) t && rel_ok (rf_rel f) t && usr_ok (rf_usr f) t && conds_ok (rf_conds f) t.
Definition read (s : store) (f : read_filter) : list rtuple := map obs (filter (read_pred f) s).
(* ReadPage, all pages together *)
Definition read_page (s : store) (f : read_filter) : list rtuple := read s f.

Record key := mkKey { k_obj : N; k_rel : N; k_user : user }.
Definition key_of (t : rtuple) : key := mkKey (rt_obj t) (rt_rel t) (rt_user t).
Definition key_eqb (a b : key) : bool :=
  N.eqb (k_obj a) (k_obj b) && N.eqb (k_rel a) (k_rel b) && user_eqb (k_user a) (k_user b).

Definition rut_pred (k : key) (cs : list N) (t : rtuple) : bool := key_eqb (key_of t) k && conds_ok cs t.
(* ReadUserTuple: the rtuple with exactly this key (None = ErrNotFound) *)
Definition read_user_tuple (s : store) (k : key) (cs : list N) : option rtuple :=
  option_map obs (find (rut_pred k cs) s).

(* AllowedUserTypeRestrictions *)
Inductive urestr :=
  | URel (ty rel : N)    (* RelationReference{Type, Relation}: ty#rel *)
  | UWild (ty : N)       (* RelationReference{Type, Wildcard}: ty:*   *)
  | UBare (ty : N).      (* RelationReference{Type} only *)

Definition restr_ok (r : urestr) (t : rtuple) : bool :=
  match r with
  | URel ty rel => N.eqb (u_type (rt_user t)) ty && N.eqb (u_rel (rt_user t)) rel
  | UWild ty => N.eqb (u_type (rt_user t)) ty && u_wild (rt_user t)
  | UBare _ => false
  end.

Record usersets_filter := mkUF { uf_obj : ofilter; uf_rel : N; uf_restr : list urestr; uf_conds : list N }.

Definition usersets_pred (f : usersets_filter) (t : rtuple) : bool :=
  is_userset_user (rt_user t) && obj_ok (uf_obj f) t && rel_ok (uf_rel f) t &&
  (null (uf_restr f) || existsb (fun r => restr_ok r t) (uf_restr f)) && conds_ok (uf_conds f) t.
Definition read_userset_tuples (s : store) (f : usersets_filter) : list rtuple :=
  map obs (filter (usersets_pred f) s).

(* ReadStartingWithUser; ObjectIDs: None = nil = absent (the ids are given as object ranks) *)
Record rswu_filter := mkSF {
  sf_otype : N; sf_rel : N; sf_users : list user; sf_oids : option (list N); sf_conds : list N }.

Definition oids_ok (o : option (list N)) (t : rtuple) : bool :=
  match o with None => true | Some l => nmem (rt_obj t) l end.

Definition rswu_pred (f : rswu_filter) (t : rtuple) : bool :=
  N.eqb (rt_otype t) (sf_otype f) && N.eqb (rt_rel t) (sf_rel f) && oids_ok (sf_oids f) t &&
  conds_ok (sf_conds f) t && existsb (user_eqb (rt_user t)) (sf_users f).
Definition rswu (s : store) (f : rswu_filter) : list rtuple := map obs (filter (rswu_pred f) s).

(* stable insertion sort by object rank: slices.SortFunc on the contextual tuples (stable for up to
   12 elements — insertion sort; the oracle does not rely on stability beyond that), and the
   "results sorted ascending" contract of a datastore's ReadStartingWithUser *)
Fixpoint ins_obj (a : rtuple) (l : list rtuple) : list rtuple :=
  match l with
  | [] => [a]
  | b :: l' => if N.ltb (rt_obj b) (rt_obj a) then b :: ins_obj a l' else a :: b :: l'
  end.
Definition sort_obj (l : list rtuple) : list rtuple := fold_right ins_obj [] l.

Definition rswu_sorted (s : store) (f : rswu_filter) : list rtuple := sort_obj (rswu s f).

(* ---- the combined reader, as coded ------------------------------------------------------- *)

(* NewCombinedTupleReader: contextualTuplesOrderedByObjectID *)
Definition ctx_ordered (ctx : list rtuple) : list rtuple := sort_obj (map obs ctx).

(* filterTuples(tuples, targetObject, targetRelation, targetUsers): string equality on the object
   ("type:" never equals the object of a well-formed rtuple), "" = any *)
Definition ctx_obj_ok (o : ofilter) (t : rtuple) : bool :=
  match o with
  | OAny => true
  | OType _ => false
  | OFull x => N.eqb (rt_obj t) x
  end.
Definition ctx_users_ok (us : list user) (t : rtuple) : bool := null us || existsb (user_eqb (rt_user t)) us.
Definition filter_tuples (ts : list rtuple) (o : ofilter) (r : N) (us : list user) : list rtuple :=
  filter (fun t => ctx_obj_ok o t && rel_ok r t && ctx_users_ok us t) ts.

(* Every operation is first given over the RESULT [under] of the wrapped reader (that is what the
   wrapper computes, and what the correspondence run feeds with the observed result of the real
   datastore), then instantiated with the plain store above.

   Read: filter.User and filter.Conditions are not applied to the contextual tuples *)
Definition combined_read_over (under : list rtuple) (ctx : list rtuple) (f : read_filter) : list rtuple :=
  filter_tuples (ctx_ordered ctx) (rf_obj f) (rf_rel f) [] ++ under.
Definition combined_read (stored ctx : list rtuple) (f : read_filter) : list rtuple :=
  combined_read_over (read stored f) ctx f.

(* ReadPage: "No reading from contextual tuples." *)
Definition combined_read_page (stored ctx : list rtuple) (f : read_filter) : list rtuple := read_page stored f.

(* ReadUserTuple: first matching contextual rtuple wins; Conditions not applied to it *)
Definition combined_read_user_tuple_over (under : option rtuple) (ctx : list rtuple) (k : key) : option rtuple :=
  match filter (fun t => user_eqb (rt_user t) (k_user k))
               (filter_tuples (ctx_ordered ctx) (OFull (k_obj k)) (k_rel k) [k_user k]) with
  | t :: _ => Some t
  | [] => under
  end.
Definition combined_read_user_tuple (stored ctx : list rtuple) (k : key) (cs : list N) : option rtuple :=
  combined_read_user_tuple_over (read_user_tuple stored k cs) ctx k.

(* tupleMatchesAllowedUserTypeRestrictions *)
Definition ctx_restr_ok (r : urestr) (t : rtuple) : bool :=
  match r with
  | UWild ty => u_wild (rt_user t) && N.eqb (u_type (rt_user t)) ty
  | URel ty rel => is_objrel (rt_user t) && N.eqb (u_type (rt_user t)) ty && N.eqb (u_rel (rt_user t)) rel
  | UBare _ => false
  end.
Definition ctx_matches_restr (rs : list urestr) (t : rtuple) : bool :=
  is_userset_user (rt_user t) && existsb (fun r => ctx_restr_ok r t) rs.

Definition combined_read_userset_tuples_over (under ctx : list rtuple) (f : usersets_filter) : list rtuple :=
  filter (ctx_matches_restr (uf_restr f)) (filter_tuples (ctx_ordered ctx) (uf_obj f) (uf_rel f) []) ++ under.
Definition combined_read_userset_tuples (stored ctx : list rtuple) (f : usersets_filter) : list rtuple :=
  combined_read_userset_tuples_over (read_userset_tuples stored f) ctx f.

(* ReadStartingWithUser: ObjectIDs and Conditions are not applied to the contextual tuples *)
Definition ctx_rswu_part (ctx : list rtuple) (f : rswu_filter) : list rtuple :=
  filter (fun t => N.eqb (rt_otype t) (sf_otype f))
         (filter_tuples (ctx_ordered ctx) OAny (sf_rel f) (sf_users f)).

(* storage.NewOrderedCombinedIterator(ObjectMapper(), iter1, iter2): smallest head first, iter1 on
   ties; a head whose object equals the last yielded object is discarded *)
Fixpoint merge_obj (l1 : list rtuple) : list rtuple -> list rtuple :=
  fix aux (l2 : list rtuple) : list rtuple :=
    match l1, l2 with
    | [], _ => l2
    | _, [] => l1
    | a :: l1', b :: l2' => if N.ltb (rt_obj b) (rt_obj a) then b :: aux l2' else a :: merge_obj l1' l2
    end.
Fixpoint dedup_from (last : option N) (l : list rtuple) : list rtuple :=
  match l with
  | [] => []
  | a :: l' =>
      if match last with Some o => N.eqb o (rt_obj a) | None => false end
      then dedup_from last l'
      else a :: dedup_from (Some (rt_obj a)) l'
  end.

Definition combined_rswu_over (under ctx : list rtuple) (f : rswu_filter) (sorted : bool) : list rtuple :=
  if sorted
  then dedup_from None (merge_obj (ctx_rswu_part ctx f) under)
  else ctx_rswu_part ctx f ++ under.
Definition combined_rswu (stored ctx : list rtuple) (f : rswu_filter) (sorted : bool) : list rtuple :=
  combined_rswu_over (if sorted then rswu_sorted stored f else rswu stored f) ctx f sorted.

(* ---- operations as one type: the reader is a function of (store, contextual tuples) ------- *)

Inductive op :=
  | OpRead (f : read_filter)
  | OpReadPage (f : read_filter)
  | OpUserTuple (k : key) (cs : list N)
  | OpUsersets (f : usersets_filter)
  | OpRSWU (f : rswu_filter) (sorted : bool).

Inductive result := RList (l : list rtuple) | ROpt (o : option rtuple).

Definition plain_op (s : store) (o : op) : result :=
  match o with
  | OpRead f => RList (read s f)
  | OpReadPage f => RList (read_page s f)
  | OpUserTuple k cs => ROpt (read_user_tuple s k cs)
  | OpUsersets f => RList (read_userset_tuples s f)
  | OpRSWU f sorted => RList (if sorted then rswu_sorted s f else rswu s f)
  end.
Definition is_sorted_rswu (o : op) : bool := match o with OpRSWU _ true => true | _ => false end.

(* one request: its contextual tuples and the read it performs; the new store state is returned
   explicitly — no operation of the reader writes *)
Definition combined_op (s : store) (ctx : list rtuple) (o : op) : store * result :=
  (s, match o with
      | OpRead f => RList (combined_read s ctx f)
      | OpReadPage f => RList (combined_read_page s ctx f)
      | OpUserTuple k cs => ROpt (combined_read_user_tuple s ctx k cs)
      | OpUsersets f => RList (combined_read_userset_tuples s ctx f)
      | OpRSWU f sorted => RList (combined_rswu s ctx f sorted)
      end).

Fixpoint run_ops (s : store) (h : list (list rtuple * op)) : store * list result :=
  match h with
  | [] => (s, [])
  | (ctx, o) :: h' =>
      let '(s1, r) := combined_op s ctx o in
      let '(s2, rs) := run_ops s1 h' in (s2, r :: rs)
  end.

(* ---- filter shapes ----------------------------------------------------------------------- *)

Definition ofilter_exact (o : ofilter) : bool := match o with OType _ => false | _ => true end.
Definition ufilter_any (u : ufilter) : bool := match u with UAny => true | _ => false end.

(* Read as the engines issue it: Object "" or "type:id", User "", no Conditions *)
Definition read_shape_ok (f : read_filter) : bool :=
  ofilter_exact (rf_obj f) && ufilter_any (rf_usr f) && null (rf_conds f).
(* ReadUserTuple: a relation is named, no Conditions *)
Definition rut_shape_ok (k : key) (cs : list N) : bool := negb (N.eqb (k_rel k) 0) && null cs.
(* ReadUsersetTuples: at least one urestr, each type#relation (relation named) or type:*, no Conditions *)
Definition restr_wf (r : urestr) : bool :=
  match r with URel _ rel => negb (N.eqb rel 0) | UWild _ => true | UBare _ => true end.
Definition usersets_shape_ok (f : usersets_filter) : bool :=
  ofilter_exact (uf_obj f) && negb (null (uf_restr f)) && forallb restr_wf (uf_restr f) && null (uf_conds f).
(* ReadStartingWithUser: relation named, at least one user, no ObjectIDs, no Conditions *)
Definition rswu_shape_ok (f : rswu_filter) : bool :=
  negb (N.eqb (sf_rel f) 0) && negb (null (sf_users f)) &&
  match sf_oids f with None => true | Some _ => false end && null (sf_conds f).

(* users: a typed wildcard has no relation part ("type:*#rel" is not a valid user) *)
Definition wf_user (u : user) : bool := negb (u_wild u) || N.eqb (u_rel u) 0.
Definition wf_tuples (l : list rtuple) : bool := forallb (fun t => wf_user (rt_user t)) l.

Fixpoint keys_unique (s : list rtuple) : bool :=
  match s with
  | [] => true
  | t :: s' => negb (existsb (fun t' => key_eqb (key_of t') (key_of t)) s') && keys_unique s'
  end.
(* no contextual rtuple has the key of a stored rtuple (writing it would be rejected as a duplicate) *)
Definition disjoint_keys (stored ctx : list rtuple) : bool :=
  forallb (fun c => negb (existsb (fun t => key_eqb (key_of t) (key_of c)) stored)) ctx.

(* no two tuples of a list are about the same object *)
Fixpoint objs_unique (l : list rtuple) : bool :=
  match l with
  | [] => true
  | t :: l' => negb (existsb (fun t' => N.eqb (rt_obj t') (rt_obj t)) l') && objs_unique l'
  end.

(* what the code guarantees for a sorted combined read: strictly ascending objects, every yielded
   rtuple is a candidate of its object and comes from the contextual tuples whenever they have a
   candidate for that object; every candidate object is yielded *)
Definition cands (l : list rtuple) (o : N) : list rtuple := filter (fun t => N.eqb (rt_obj t) o) l.
Fixpoint strictly_asc (l : list N) : bool :=
  match l with
  | a :: (b :: _) as l' => N.ltb a b && strictly_asc l'
  | _ => true
  end.
Definition tuple_eqb (a b : rtuple) : bool :=
  N.eqb (rt_obj a) (rt_obj b) && N.eqb (rt_otype a) (rt_otype b) && N.eqb (rt_rel a) (rt_rel b) &&
  user_eqb (rt_user a) (rt_user b) && N.eqb (rt_cond a) (rt_cond b) && N.eqb (rt_ctx a) (rt_ctx b).
Definition tmem (t : rtuple) (l : list rtuple) : bool := existsb (tuple_eqb t) l.
Definition sorted_result_ok_over (s ctx : list rtuple) (f : rswu_filter) (out : list rtuple) : bool :=
  let c := ctx_rswu_part ctx f in
  strictly_asc (map rt_obj out) &&
  forallb (fun t => match cands c (rt_obj t) with
                    | [] => tmem t (cands s (rt_obj t))
                    | cc => tmem t cc
                    end) out &&
  forallb (fun t => nmem (rt_obj t) (map rt_obj out)) (c ++ s).
Definition sorted_result_ok (stored ctx : list rtuple) (f : rswu_filter) (out : list rtuple) : bool :=
  sorted_result_ok_over (rswu stored f) ctx f out.

(* ---- the weighted-graph engine's per-request indexes (internal/check/request.go) ---------- *)

(* insertSortedTuple(slice, t, sortKey): binary search for the first element whose key is >= the
   new key; nothing is inserted when that element has the same key.  On a sorted slice the binary
   search returns the first such position; modelled by a linear scan. *)
Fixpoint insert_sorted (kf : rtuple -> N) (l : list rtuple) (t : rtuple) : list rtuple :=
  match l with
  | [] => [t]
  | b :: l' =>
      if N.ltb (kf b) (kf t) then b :: insert_sorted kf l' t
      else if N.eqb (kf b) (kf t) then l else t :: l
  end.

(* ctxTuplesByUserKey(user, relation, objectType); ctxTuplesByObjectKey(object, relation, userType)
   with userType = "type" or "type#relation" (a typed wildcard "type:*" is filed under "type") *)
Definition by_user_key (t : rtuple) : N * N * N := (u_str (rt_user t), rt_rel t, rt_otype t).
Definition by_object_key (t : rtuple) : N * N * (N * N) := (rt_obj t, rt_rel t, (u_type (rt_user t), u_rel (rt_user t))).
Definition k3_eqb (a b : N * N * N) : bool :=
  let '(a1, a2, a3) := a in let '(b1, b2, b3) := b in N.eqb a1 b1 && N.eqb a2 b2 && N.eqb a3 b3.
Definition k4_eqb (a b : N * N * (N * N)) : bool :=
  let '(a1, a2, (a3, a4)) := a in let '(b1, b2, (b3, b4)) := b in
  N.eqb a1 b1 && N.eqb a2 b2 && N.eqb a3 b3 && N.eqb a4 b4.

(* buildContextualTupleMaps: tuples are inserted in request order *)
Definition index_by_user (ctx : list rtuple) (k : N * N * N) : list rtuple :=
  fold_left (fun acc t => if k3_eqb (by_user_key t) k then insert_sorted rt_obj acc t else acc) ctx [].
Definition index_by_object (ctx : list rtuple) (k : N * N * (N * N)) : list rtuple :=
  fold_left (fun acc t => if k4_eqb (by_object_key t) k then insert_sorted (fun x => u_str (rt_user x)) acc t else acc) ctx [].

(* specificType: binary search of the by-user entry for the request's object *)
Definition index_lookup_object (l : list rtuple) (o : N) : option rtuple := find (fun t => N.eqb (rt_obj t) o) l.
