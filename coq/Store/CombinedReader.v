(* C04 — contextual tuples: the request-scoped reader that merges the tuples passed in a request
   into every read of the datastore (pkg/storage/storagewrappers/combinedtuplereader.go), and the
   per-request indexes of the weighted-graph engine (internal/check/request.go), AS CODED.

   Abstraction level.  Strings are interned by the driver as N, order preserving where the code
   orders them: an object "type:id" is its rank [t_obj] among all object strings of the case (so
   N.ltb on ranks is strings.Compare on the strings), a user string likewise [u_str]; the parts
   the code looks at (object type; user type, "is typed wildcard", user relation) travel next to
   the rank.  Relation / condition names: 0 is the empty string.  Condition contexts are opaque
   ids (0 = none/empty).  The string codec itself is property C29's subject.

   The plain-store operations are the documented meaning of storage.RelationshipTupleReader as
   list comprehensions (the same predicates as Store/ReadSpec.v, which C13 ties to the backends).

   Definitions only; proofs are in Store/CombinedReaderProofs.v. *)
From Coq Require Export NArith List Bool.
Export ListNotations.
Open Scope N_scope.

Record user := mkUser {
  u_str  : N;      (* rank of the whole user string: identity and order of users *)
  u_type : N;      (* tuple.GetType(user) *)
  u_wild : bool;   (* tuple.IsTypedWildcard(user): "type:*" *)
  u_rel  : N       (* tuple.GetRelation(user); 0 = no '#relation' part *)
}.

Record tuple := mkTuple {
  t_obj   : N;     (* rank of the object string "type:id" *)
  t_otype : N;     (* tuple.GetType(object) *)
  t_rel   : N;
  t_user  : user;
  t_cond  : N;     (* condition name, 0 = unconditioned *)
  t_ctx   : N      (* condition context id, 0 = none/empty *)
}.

Definition store := list tuple.

Definition user_eqb (a b : user) : bool := N.eqb (u_str a) (u_str b).

(* tuple.IsObjectRelation *)
Definition is_objrel (u : user) : bool := negb (N.eqb (u_rel u) 0).
(* tuple.GetUserTypeFromUser(user) == UserSet *)
Definition is_userset_user (u : user) : bool := is_objrel u || u_wild u.

(* What a reader hands back: storage.TupleRecord.AsTuple for stored records and
   tuple.NewTupleKeyWithCondition for contextual tuples (NewCombinedTupleReader): a tuple whose
   condition name is empty carries no condition and therefore no context. *)
Definition obs (t : tuple) : tuple :=
  if N.eqb (t_cond t) 0 then mkTuple (t_obj t) (t_otype t) (t_rel t) (t_user t) 0 0 else t.

(* ---- filters ---------------------------------------------------------------------------- *)

(* ReadFilter.Object: "" | "type:" | "type:id" *)
Inductive ofilter := OAny | OType (ty : N) | OFull (o : N).
(* ReadFilter.User: "" | "type:" | a full user *)
Inductive ufilter := UAny | UType (ty : N) | UExact (u : user).

Definition obj_ok (o : ofilter) (t : tuple) : bool :=
  match o with
  | OAny => true
  | OType ty => N.eqb (t_otype t) ty
  | OFull x => N.eqb (t_obj t) x
  end.

Definition rel_ok (r : N) (t : tuple) : bool := N.eqb r 0 || N.eqb (t_rel t) r.

Definition usr_ok (u : ufilter) (t : tuple) : bool :=
  match u with
  | UAny => true
  | UType ty => N.eqb (u_type (t_user t)) ty
  | UExact x => user_eqb (t_user t) x
  end.

Definition nmem (c : N) (cs : list N) : bool := existsb (N.eqb c) cs.
Definition null {A} (l : list A) : bool := match l with [] => true | _ => false end.
(* Conditions: nil or empty = not constrained; 0 in the list stands for "no condition" *)
Definition conds_ok (cs : list N) (t : tuple) : bool := null cs || nmem (t_cond t) cs.

Record read_filter := mkRF { rf_obj : ofilter; rf_rel : N; rf_usr : ufilter; rf_conds : list N }.

(* ---- the plain store (documented meaning of the five read operations) -------------------- *)

Definition read_pred (f : read_filter) (t : tuple) : bool :=
  obj_ok (rf_obj f) t && rel_ok (rf_rel f) t && usr_ok (rf_usr f) t && conds_ok (rf_conds f) t.
Definition read (s : store) (f : read_filter) : list tuple := map obs (filter (read_pred f) s).
(* ReadPage, all pages together *)
Definition read_page (s : store) (f : read_filter) : list tuple := read s f.

Record key := mkKey { k_obj : N; k_rel : N; k_user : user }.
Definition key_of (t : tuple) : key := mkKey (t_obj t) (t_rel t) (t_user t).
Definition key_eqb (a b : key) : bool :=
  N.eqb (k_obj a) (k_obj b) && N.eqb (k_rel a) (k_rel b) && user_eqb (k_user a) (k_user b).

Definition rut_pred (k : key) (cs : list N) (t : tuple) : bool := key_eqb (key_of t) k && conds_ok cs t.
(* ReadUserTuple: the tuple with exactly this key (None = ErrNotFound) *)
Definition read_user_tuple (s : store) (k : key) (cs : list N) : option tuple :=
  option_map obs (find (rut_pred k cs) s).

(* AllowedUserTypeRestrictions *)
Inductive restriction :=
  | RRel (ty rel : N)    (* RelationReference{Type, Relation}: ty#rel *)
  | RWild (ty : N)       (* RelationReference{Type, Wildcard}: ty:*   *)
  | RBare (ty : N).      (* RelationReference{Type} only *)

Definition restr_ok (r : restriction) (t : tuple) : bool :=
  match r with
  | RRel ty rel => N.eqb (u_type (t_user t)) ty && N.eqb (u_rel (t_user t)) rel
  | RWild ty => N.eqb (u_type (t_user t)) ty && u_wild (t_user t)
  | RBare _ => false
  end.

Record usersets_filter := mkUF { uf_obj : ofilter; uf_rel : N; uf_restr : list restriction; uf_conds : list N }.

Definition usersets_pred (f : usersets_filter) (t : tuple) : bool :=
  is_userset_user (t_user t) && obj_ok (uf_obj f) t && rel_ok (uf_rel f) t &&
  (null (uf_restr f) || existsb (fun r => restr_ok r t) (uf_restr f)) && conds_ok (uf_conds f) t.
Definition read_userset_tuples (s : store) (f : usersets_filter) : list tuple :=
  map obs (filter (usersets_pred f) s).

(* ReadStartingWithUser; ObjectIDs: None = nil = absent (the ids are given as object ranks) *)
Record rswu_filter := mkSF {
  sf_otype : N; sf_rel : N; sf_users : list user; sf_oids : option (list N); sf_conds : list N }.

Definition oids_ok (o : option (list N)) (t : tuple) : bool :=
  match o with None => true | Some l => nmem (t_obj t) l end.

Definition rswu_pred (f : rswu_filter) (t : tuple) : bool :=
  N.eqb (t_otype t) (sf_otype f) && N.eqb (t_rel t) (sf_rel f) && oids_ok (sf_oids f) t &&
  conds_ok (sf_conds f) t && existsb (user_eqb (t_user t)) (sf_users f).
Definition rswu (s : store) (f : rswu_filter) : list tuple := map obs (filter (rswu_pred f) s).

(* stable insertion sort by object rank: slices.SortFunc on the contextual tuples (stable for up to
   12 elements — insertion sort; the oracle does not rely on stability beyond that), and the
   "results sorted ascending" contract of a datastore's ReadStartingWithUser *)
Fixpoint ins_obj (a : tuple) (l : list tuple) : list tuple :=
  match l with
  | [] => [a]
  | b :: l' => if N.ltb (t_obj b) (t_obj a) then b :: ins_obj a l' else a :: b :: l'
  end.
Definition sort_obj (l : list tuple) : list tuple := fold_right ins_obj [] l.

Definition rswu_sorted (s : store) (f : rswu_filter) : list tuple := sort_obj (rswu s f).

(* ---- the combined reader, as coded ------------------------------------------------------- *)

(* NewCombinedTupleReader: contextualTuplesOrderedByObjectID *)
Definition ctx_ordered (ctx : list tuple) : list tuple := sort_obj (map obs ctx).

(* filterTuples(tuples, targetObject, targetRelation, targetUsers): string equality on the object
   ("type:" never equals the object of a well-formed tuple), "" = any *)
Definition ctx_obj_ok (o : ofilter) (t : tuple) : bool :=
  match o with
  | OAny => true
  | OType _ => false
  | OFull x => N.eqb (t_obj t) x
  end.
Definition ctx_users_ok (us : list user) (t : tuple) : bool := null us || existsb (user_eqb (t_user t)) us.
Definition filter_tuples (ts : list tuple) (o : ofilter) (r : N) (us : list user) : list tuple :=
  filter (fun t => ctx_obj_ok o t && rel_ok r t && ctx_users_ok us t) ts.

(* Read: filter.User and filter.Conditions are not applied to the contextual tuples *)
Definition combined_read (stored ctx : list tuple) (f : read_filter) : list tuple :=
  filter_tuples (ctx_ordered ctx) (rf_obj f) (rf_rel f) [] ++ read stored f.

(* ReadPage: "No reading from contextual tuples." *)
Definition combined_read_page (stored ctx : list tuple) (f : read_filter) : list tuple := read_page stored f.

(* ReadUserTuple: first matching contextual tuple wins; Conditions not applied to it *)
Definition combined_read_user_tuple (stored ctx : list tuple) (k : key) (cs : list N) : option tuple :=
  match filter (fun t => user_eqb (t_user t) (k_user k))
               (filter_tuples (ctx_ordered ctx) (OFull (k_obj k)) (k_rel k) [k_user k]) with
  | t :: _ => Some t
  | [] => read_user_tuple stored k cs
  end.

(* tupleMatchesAllowedUserTypeRestrictions *)
Definition ctx_restr_ok (r : restriction) (t : tuple) : bool :=
  match r with
  | RWild ty => u_wild (t_user t) && N.eqb (u_type (t_user t)) ty
  | RRel ty rel => is_objrel (t_user t) && N.eqb (u_type (t_user t)) ty && N.eqb (u_rel (t_user t)) rel
  | RBare _ => false
  end.
Definition ctx_matches_restr (rs : list restriction) (t : tuple) : bool :=
  is_userset_user (t_user t) && existsb (fun r => ctx_restr_ok r t) rs.

Definition combined_read_userset_tuples (stored ctx : list tuple) (f : usersets_filter) : list tuple :=
  filter (ctx_matches_restr (uf_restr f)) (filter_tuples (ctx_ordered ctx) (uf_obj f) (uf_rel f) []) ++
  read_userset_tuples stored f.

(* ReadStartingWithUser: ObjectIDs and Conditions are not applied to the contextual tuples *)
Definition ctx_rswu_part (ctx : list tuple) (f : rswu_filter) : list tuple :=
  filter (fun t => N.eqb (t_otype t) (sf_otype f))
         (filter_tuples (ctx_ordered ctx) OAny (sf_rel f) (sf_users f)).

(* storage.NewOrderedCombinedIterator(ObjectMapper(), iter1, iter2): smallest head first, iter1 on
   ties; a head whose object equals the last yielded object is discarded *)
Fixpoint merge_obj (l1 : list tuple) : list tuple -> list tuple :=
  fix aux (l2 : list tuple) : list tuple :=
    match l1, l2 with
    | [], _ => l2
    | _, [] => l1
    | a :: l1', b :: l2' => if N.ltb (t_obj b) (t_obj a) then b :: aux l2' else a :: merge_obj l1' l2
    end.
Fixpoint dedup_from (last : option N) (l : list tuple) : list tuple :=
  match l with
  | [] => []
  | a :: l' =>
      if match last with Some o => N.eqb o (t_obj a) | None => false end
      then dedup_from last l'
      else a :: dedup_from (Some (t_obj a)) l'
  end.

Definition combined_rswu (stored ctx : list tuple) (f : rswu_filter) (sorted : bool) : list tuple :=
  if sorted
  then dedup_from None (merge_obj (ctx_rswu_part ctx f) (rswu_sorted stored f))
  else ctx_rswu_part ctx f ++ rswu stored f.

(* ---- operations as one type: the reader is a function of (store, contextual tuples) ------- *)

Inductive op :=
  | OpRead (f : read_filter)
  | OpReadPage (f : read_filter)
  | OpUserTuple (k : key) (cs : list N)
  | OpUsersets (f : usersets_filter)
  | OpRSWU (f : rswu_filter) (sorted : bool).

Inductive result := RList (l : list tuple) | ROpt (o : option tuple).

Definition plain_op (s : store) (o : op) : result :=
  match o with
  | OpRead f => RList (read s f)
  | OpReadPage f => RList (read_page s f)
  | OpUserTuple k cs => ROpt (read_user_tuple s k cs)
  | OpUsersets f => RList (read_userset_tuples s f)
  | OpRSWU f sorted => RList (if sorted then rswu_sorted s f else rswu s f)
  end.
Definition is_sorted_rswu (o : op) : bool := match o with OpRSWU _ true => true | _ => false end.

(* one request: its contextual tuples and the read it performs; the new store state is returned
   explicitly — no operation of the reader writes *)
Definition combined_op (s : store) (ctx : list tuple) (o : op) : store * result :=
  (s, match o with
      | OpRead f => RList (combined_read s ctx f)
      | OpReadPage f => RList (combined_read_page s ctx f)
      | OpUserTuple k cs => ROpt (combined_read_user_tuple s ctx k cs)
      | OpUsersets f => RList (combined_read_userset_tuples s ctx f)
      | OpRSWU f sorted => RList (combined_rswu s ctx f sorted)
      end).

Fixpoint run_ops (s : store) (h : list (list tuple * op)) : store * list result :=
  match h with
  | [] => (s, [])
  | (ctx, o) :: h' =>
      let '(s1, r) := combined_op s ctx o in
      let '(s2, rs) := run_ops s1 h' in (s2, r :: rs)
  end.

(* ---- filter shapes ----------------------------------------------------------------------- *)

Definition ofilter_exact (o : ofilter) : bool := match o with OType _ => false | _ => true end.
Definition ufilter_any (u : ufilter) : bool := match u with UAny => true | _ => false end.

(* Read as the engines issue it: Object "" or "type:id", User "", no Conditions *)
Definition read_shape_ok (f : read_filter) : bool :=
  ofilter_exact (rf_obj f) && ufilter_any (rf_usr f) && null (rf_conds f).
(* ReadUserTuple: a relation is named, no Conditions *)
Definition rut_shape_ok (k : key) (cs : list N) : bool := negb (N.eqb (k_rel k) 0) && null cs.
(* ReadUsersetTuples: at least one restriction, each type#relation (relation named) or type:*, no Conditions *)
Definition restr_wf (r : restriction) : bool :=
  match r with RRel _ rel => negb (N.eqb rel 0) | RWild _ => true | RBare _ => true end.
Definition usersets_shape_ok (f : usersets_filter) : bool :=
  ofilter_exact (uf_obj f) && negb (null (uf_restr f)) && forallb restr_wf (uf_restr f) && null (uf_conds f).
(* ReadStartingWithUser: relation named, at least one user, no ObjectIDs, no Conditions *)
Definition rswu_shape_ok (f : rswu_filter) : bool :=
  negb (N.eqb (sf_rel f) 0) && negb (null (sf_users f)) &&
  match sf_oids f with None => true | Some _ => false end && null (sf_conds f).

(* users: a typed wildcard has no relation part ("type:*#rel" is not a valid user) *)
Definition wf_user (u : user) : bool := negb (u_wild u) || N.eqb (u_rel u) 0.
Definition wf_tuples (l : list tuple) : bool := forallb (fun t => wf_user (t_user t)) l.

Fixpoint keys_unique (s : list tuple) : bool :=
  match s with
  | [] => true
  | t :: s' => negb (existsb (fun t' => key_eqb (key_of t') (key_of t)) s') && keys_unique s'
  end.
(* no contextual tuple has the key of a stored tuple (writing it would be rejected as a duplicate) *)
Definition disjoint_keys (stored ctx : list tuple) : bool :=
  forallb (fun c => negb (existsb (fun t => key_eqb (key_of t) (key_of c)) stored)) ctx.

(* no two tuples of a list are about the same object *)
Fixpoint objs_unique (l : list tuple) : bool :=
  match l with
  | [] => true
  | t :: l' => negb (existsb (fun t' => N.eqb (t_obj t') (t_obj t)) l') && objs_unique l'
  end.

(* what the code guarantees for a sorted combined read: strictly ascending objects, every yielded
   tuple is a candidate of its object and comes from the contextual tuples whenever they have a
   candidate for that object; every candidate object is yielded *)
Definition cands (l : list tuple) (o : N) : list tuple := filter (fun t => N.eqb (t_obj t) o) l.
Fixpoint strictly_asc (l : list N) : bool :=
  match l with
  | a :: (b :: _) as l' => N.ltb a b && strictly_asc l'
  | _ => true
  end.
Definition tuple_eqb (a b : tuple) : bool :=
  N.eqb (t_obj a) (t_obj b) && N.eqb (t_otype a) (t_otype b) && N.eqb (t_rel a) (t_rel b) &&
  user_eqb (t_user a) (t_user b) && N.eqb (t_cond a) (t_cond b) && N.eqb (t_ctx a) (t_ctx b).
Definition tmem (t : tuple) (l : list tuple) : bool := existsb (tuple_eqb t) l.
Definition sorted_result_ok (stored ctx : list tuple) (f : rswu_filter) (out : list tuple) : bool :=
  let c := ctx_rswu_part ctx f in
  let s := rswu stored f in
  strictly_asc (map t_obj out) &&
  forallb (fun t => match cands c (t_obj t) with
                    | [] => tmem t (cands s (t_obj t))
                    | cc => tmem t cc
                    end) out &&
  forallb (fun t => nmem (t_obj t) (map t_obj out)) (c ++ s).

(* ---- the weighted-graph engine's per-request indexes (internal/check/request.go) ---------- *)

(* insertSortedTuple(slice, t, sortKey): binary search for the first element whose key is >= the
   new key; nothing is inserted when that element has the same key.  On a sorted slice the binary
   search returns the first such position; modelled by a linear scan. *)
Fixpoint insert_sorted (kf : tuple -> N) (l : list tuple) (t : tuple) : list tuple :=
  match l with
  | [] => [t]
  | b :: l' =>
      if N.ltb (kf b) (kf t) then b :: insert_sorted kf l' t
      else if N.eqb (kf b) (kf t) then l else t :: l
  end.

(* ctxTuplesByUserKey(user, relation, objectType); ctxTuplesByObjectKey(object, relation, userType)
   with userType = "type" or "type#relation" (a typed wildcard "type:*" is filed under "type") *)
Definition by_user_key (t : tuple) : N * N * N := (u_str (t_user t), t_rel t, t_otype t).
Definition by_object_key (t : tuple) : N * N * (N * N) := (t_obj t, t_rel t, (u_type (t_user t), u_rel (t_user t))).
Definition k3_eqb (a b : N * N * N) : bool :=
  let '(a1, a2, a3) := a in let '(b1, b2, b3) := b in N.eqb a1 b1 && N.eqb a2 b2 && N.eqb a3 b3.
Definition k4_eqb (a b : N * N * (N * N)) : bool :=
  let '(a1, a2, (a3, a4)) := a in let '(b1, b2, (b3, b4)) := b in
  N.eqb a1 b1 && N.eqb a2 b2 && N.eqb a3 b3 && N.eqb a4 b4.

(* buildContextualTupleMaps: tuples are inserted in request order *)
Definition index_by_user (ctx : list tuple) (k : N * N * N) : list tuple :=
  fold_left (fun acc t => if k3_eqb (by_user_key t) k then insert_sorted t_obj acc t else acc) ctx [].
Definition index_by_object (ctx : list tuple) (k : N * N * (N * N)) : list tuple :=
  fold_left (fun acc t => if k4_eqb (by_object_key t) k then insert_sorted (fun x => u_str (t_user x)) acc t else acc) ctx [].

(* specificType: binary search of the by-user entry for the request's object *)
Definition index_lookup_object (l : list tuple) (o : N) : option tuple := find (fun t => N.eqb (t_obj t) o) l.
