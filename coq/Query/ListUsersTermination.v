(* C20 — termination of the ListUsers traversal model (Query/ListUsers.v: expand / expandRewrite /
   dispatch of pkg/server/commands/listusers/list_users_rpc.go).

   Every `expand` call first compares req.depth with resolveNodeLimit and increments it, also for
   computed usersets (unlike Check), so the nesting depth of expand calls is at most the limit
   whatever the data: limit - depth + 1 units of fuel are enough and the fuel list_users gives
   itself (limit + 2) always is (list_users_terminates: LFuel is never among the reported or the
   possibly-reported error classes).  The second guard, enteredCycle (the per-path visited set),
   is the generic argument visited_guard_terminates of Check/V1Termination.v: on a finite store
   it bounds the nesting by the number of (object, relation) atoms independently of the limit. *)
From Coq Require Import List Bool Arith NArith Lia.
From OFGA Require Import Sem.SemProofs Query.ListUsers.
Import ListNotations.
Open Scope N_scope.

(* LFuel neither among the errors nor among the errors that may surface instead *)
Definition fuel_free (x : lres) : Prop := ~ In LFuel (l_errs x) /\ ~ In LFuel (l_amb x).

Lemma not_in_flat_map : forall (f : lres -> list lerr) l,
  (forall x, In x l -> ~ In LFuel (f x)) -> ~ In LFuel (flat_map f l).
Proof.
  intros f l H Hin. apply in_flat_map in Hin. destruct Hin as [x [Hx Hf]]. exact (H x Hx Hf).
Qed.

Section ListUsersTermination.
  Variable m : model.
  Variable conds : list cid.
  Variable store : list tuple.
  Variable ftype : tid.
  Variable frel : rid.
  Variable limit : nat.

  Lemma merge_fuel_free : forall here subs keep cond_err,
    (forall x, In x subs -> fuel_free x) -> fuel_free (merge ftype here subs keep cond_err).
  Proof.
    intros here subs keep cond_err H. unfold merge, fuel_free. simpl. split.
    - intro Hin. apply in_app_or in Hin. destruct Hin as [Hin|Hin].
      + destruct cond_err; simpl in Hin; [destruct Hin as [Hin|[]]; discriminate Hin | destruct Hin].
      + revert Hin. apply not_in_flat_map. intros x Hx. exact (proj1 (H x Hx)).
    - apply not_in_flat_map. intros x Hx. exact (proj2 (H x Hx)).
  Qed.

  Section Step.
    Variable dispatch : obj -> rid -> lres.
    Hypothesis Hdisp : forall o' r', fuel_free (dispatch o' r').

    Lemma go_fuel_free : forall o r l,
      Forall (fun rw => fuel_free (expand_rw m conds store ftype dispatch o rw r)) l ->
      forall x,
        In x ((fix go (l : list rewrite) : list lres :=
                 match l with [] => [] | y :: l' => expand_rw m conds store ftype dispatch o y r :: go l' end) l) ->
        fuel_free x.
    Proof.
      intros o r l H. induction H as [|y l Hy Hl IH]; intros x Hx; [destruct Hx|].
      destruct Hx as [Hx|Hx]; [subst x; exact Hy | exact (IH x Hx)].
    Qed.

    Lemma expand_rw_fuel_free : forall rw o r,
      fuel_free (expand_rw m conds store ftype dispatch o rw r).
    Proof.
      intros rw o r. induction rw as [|r'|ts c|l IH|l IH|b s IHb IHs] using rewrite_ind'.
      - cbn [expand_rw]. apply merge_fuel_free. intros x Hx. apply in_flat_map in Hx.
        destruct Hx as [t [_ Hx]]. destruct (t_sub t) as [u|u|o' r']; try (destruct Hx; fail).
        destruct Hx as [Hx|[]]. subst x. apply Hdisp.
      - cbn [expand_rw]. apply Hdisp.
      - cbn [expand_rw]. apply merge_fuel_free. intros x Hx. apply in_flat_map in Hx.
        destruct Hx as [t [_ Hx]]. destruct (t_sub t) as [o'|u|u r']; try (destruct Hx; fail).
        destruct Hx as [Hx|[]]. subst x. apply Hdisp.
      - cbn [expand_rw]. pose proof (go_fuel_free o r l IH) as Hgo.
        unfold fuel_free. simpl. split; apply not_in_flat_map; intros x Hx;
          [exact (proj1 (Hgo x Hx)) | exact (proj2 (Hgo x Hx))].
      - cbn [expand_rw]. pose proof (go_fuel_free o r l IH) as Hgo.
        unfold fuel_free. simpl. split; apply not_in_flat_map; intros x Hx;
          [exact (proj1 (Hgo x Hx)) | exact (proj2 (Hgo x Hx))].
      - cbn [expand_rw]. destruct IHb as [Hb1 Hb2]. destruct IHs as [Hs1 Hs2].
        destruct (l_cyc (expand_rw m conds store ftype dispatch o s r)).
        + unfold fuel_free. simpl. split; [intros []|].
          intro Hin. apply in_app_or in Hin. destruct Hin as [Hin|Hin].
          * destruct (l_errs (expand_rw m conds store ftype dispatch o s r)) eqn:He; [destruct Hin|].
            apply in_app_or in Hin. destruct Hin as [Hin|Hin]; [exact (Hb1 Hin)|].
            exact (Hs1 Hin).
          * apply in_app_or in Hin. destruct Hin as [Hin|Hin]; [exact (Hb2 Hin) | exact (Hs2 Hin)].
        + unfold fuel_free. simpl. split; intro Hin; apply in_app_or in Hin; destruct Hin as [Hin|Hin]; auto.
    Qed.
  End Step.

  Lemma add_here_fuel_free : forall here x, fuel_free x -> fuel_free (add_here here x).
  Proof. intros here x H. exact H. Qed.

  Lemma lres_empty_fuel_free : fuel_free lres_empty.
  Proof. split; intros []. Qed.

  Lemma lres_err_fuel_free : forall e, e <> LFuel -> fuel_free (lres_err e).
  Proof. intros e He. split; simpl; [intros [H|[]]; exact (He H) | intros []]. Qed.

  Local Notation xpand := (expand m conds store ftype frel limit).

  (* the depth counter alone bounds the traversal *)
  Theorem lu_expand_terminates : forall fuel depth visited o r,
    (1 <= fuel)%nat -> (limit < fuel + depth)%nat ->
    fuel_free (xpand fuel depth visited o r).
  Proof.
    induction fuel as [|f IH]; intros depth visited o r H1 Hf; [lia|].
    cbn [expand]. destruct (Nat.leb limit depth) eqn:Hl.
    { apply lres_err_fuel_free. discriminate. }
    apply Nat.leb_gt in Hl.
    destruct (existsb (atom_eqb (o, r)) visited).
    { split; intros []. }
    destruct (find_type m (otype o)) as [td|].
    - destruct (find_rel (td_rels td) r) as [rd|].
      + apply add_here_fuel_free. apply expand_rw_fuel_free.
        intros o' r'. apply IH; lia.
      + apply add_here_fuel_free. exact lres_empty_fuel_free.
    - apply add_here_fuel_free. apply lres_err_fuel_free. discriminate.
  Qed.

  (* the request: the fuel list_users uses is sufficient for every model, store and request *)
  Theorem list_users_terminates : forall pruned o r,
    ~ In LFuel (lf_errs (list_users m conds store ftype frel limit pruned o r)) /\
    ~ In LFuel (lf_amb (list_users m conds store ftype frel limit pruned o r)).
  Proof.
    intros pruned o r. unfold list_users.
    destruct (pruned && negb (N.eqb (otype o) ftype && N.eqb r frel)).
    - simpl. split; intros [].
    - simpl. apply (lu_expand_terminates (S (S limit)) O [] o r); lia.
  Qed.

  (* the depth argument never exceeds the limit in a call that goes on: a call at depth >= limit
     answers LDepth without looking at the data *)
  Theorem expand_depth_bound : forall f depth visited o r,
    (limit <= depth)%nat -> xpand (S f) depth visited o r = lres_err LDepth.
  Proof.
    intros f depth visited o r H. cbn [expand].
    apply Nat.leb_le in H. rewrite H. reflexivity.
  Qed.

  (* enteredCycle: a revisit on the current path answers at once, with hasCycle set *)
  Theorem expand_cycle_cut : forall f depth visited o r,
    (depth < limit)%nat -> existsb (atom_eqb (o, r)) visited = true ->
    xpand (S f) depth visited o r =
    {| l_outs := [[]]; l_cyc := true; l_errs := []; l_amb := []; l_trig := no_trig |}.
  Proof.
    intros f depth visited o r H Hv. cbn [expand].
    apply Nat.leb_gt in H. rewrite H, Hv. reflexivity.
  Qed.
End ListUsersTermination.
