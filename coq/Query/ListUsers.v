(* Algorithm model of ListUsers (pkg/server/commands/listusers/list_users_rpc.go, validate.go),
   transcribed AS CODED.

   Go structure -> model:
     foundUser{user, excludedUsers, relationshipStatus}        -> found
     what is sent on one foundUsersChan                         -> content (a finite multiset: list)
     expandUnion / expandIntersection / expandExclusion         -> lu_union / lu_inter / lu_excl
     map[key]foundUser filled by "last writer wins"             -> resolve (ALL possible maps)
       (baseFoundUsersMap, subtractFoundUsersMap, foundUsersUnique: the arrival order of entries
        sent by concurrent goroutines is arbitrary, so when one key arrives with both statuses the
        retained status is a scheduler choice; the model returns every possible outcome)
     expand / expandRewrite / expandDirect / expandTTU / dispatch / enteredCycle / depth
                                                                -> expand_rw / expand
     ListUsers (drop NoRelationship entries, keys of the map)   -> list_users
     ValidateListUsersRequest                                   -> validate

   Definitions only; the proofs are in Query/ListUsersProofs.v. *)
From OFGA Require Export Sem.Semantics.
From Coq Require Import Arith.
Open Scope N_scope.

(* ---- found users ------------------------------------------------------------------------- *)

Inductive status := Has | NoRel.      (* HasRelationship | NoRelationship *)

Record found := { f_user : subject; f_status : status; f_excl : list subject }.
Definition content := list found.

Definition mkf (k : subject) (st : status) (ex : list subject) : found :=
  {| f_user := k; f_status := st; f_excl := ex |}.

Definition is_has (e : found) : bool := match f_status e with Has => true | NoRel => false end.

Definition smem (k : subject) (l : list subject) : bool := existsb (subject_eqb k) l.

(* keys of a Go map, some order *)
Fixpoint sdedup (l : list subject) : list subject :=
  match l with
  | [] => []
  | x :: l' => if smem x l' then sdedup l' else x :: sdedup l'
  end.

(* "k was received with HasRelationship" / "... with NoRelationship" / "k is in some excludedUsers" *)
Definition has (R : content) (k : subject) : bool :=
  existsb (fun e => subject_eqb (f_user e) k && is_has e) R.
Definition no (R : content) (k : subject) : bool :=
  existsb (fun e => subject_eqb (f_user e) k && negb (is_has e)) R.
Definition exl (R : content) (k : subject) : bool :=
  existsb (fun e => smem k (f_excl e)) R.

(* ---- denotation -------------------------------------------------------------------------- *)
(* w is the typed wildcard of the filter type.  A concrete object k of that type is IN the set
   denoted by R when it was found explicitly, or when the wildcard was found and k is neither
   marked NoRelationship nor listed in an excludedUsers list.  The wildcard itself and usersets
   are in the set only explicitly. *)
Definition covers (w k : subject) : bool :=
  match w, k with SWild t, SObj o => N.eqb (otype o) t | _, _ => false end.

Definition den (w : subject) (R : content) (k : subject) : bool :=
  has R k || (covers w k && has R w && negb (no R k) && negb (exl R k)).

(* ---- expandUnion ------------------------------------------------------------------------- *)
Definition has_keys (R : content) : list subject := map f_user (filter is_has R).
Definition all_excl (R : content) : list subject := flat_map f_excl R.

(* excludedUsersCountMap[key]: one increment per occurrence in an excludedUsers list of ANY entry
   received on ANY operand channel *)
Definition excl_occ (k : subject) (Rs : list content) : nat :=
  length (filter (subject_eqb k) (all_excl (concat Rs))).

Definition lu_union (Rs : list content) : content :=
  let n := length Rs in
  let all := concat Rs in
  let ex := filter (fun k => Nat.eqb (excl_occ k Rs) n) (sdedup (all_excl all)) in
  map (fun k => mkf k Has ex) (sdedup (has_keys all)).

(* ---- expandIntersection ------------------------------------------------------------------ *)
Definition lu_inter (w : subject) (Rs : list content) : content :=
  let n := length Rs in
  let exs := sdedup (all_excl (concat Rs)) in                         (* excludedUsersMap *)
  let wc := length (filter (fun R => has R w) Rs) in                  (* wildcardCount *)
  let cnt := fun k => length (filter (fun R => has R k && negb (has R w)) Rs) in  (* foundUsersCountMap *)
  let keys := sdedup (flat_map has_keys Rs) in
  map (fun k => mkf k Has exs)
      (filter (fun k => negb (smem k exs) && Nat.eqb (cnt k + wc) n) keys).

(* ---- expandExclusion --------------------------------------------------------------------- *)
(* the two maps after all entries were received: one status per key, excludedUsers forgotten *)
Definition smap := list (subject * status).
Fixpoint mget (m : smap) (k : subject) : option status :=
  match m with
  | [] => None
  | (k', st) :: m' => if subject_eqb k' k then Some st else mget m' k
  end.
Definition mmem (m : smap) (k : subject) : bool := match mget m k with Some _ => true | None => false end.
Definition is_wildcard (s : subject) : bool := match s with SWild _ => true | _ => false end.

Definition lu_excl (w : subject) (B S : smap) : content :=
  let bw := mmem B w in
  let sw := mmem S w in
  flat_map (fun p : subject * status =>
    let (k, st) := p in
    if bw then
      (if negb (mmem S k) && negb sw then [mkf k Has []] else []) ++
      flat_map (fun q : subject * status =>
                  let (s, sst) := q in
                  if is_wildcard s then (if negb (mmem S k) then [mkf k NoRel []] else [])
                  else match sst with
                       | NoRel => [mkf s Has []]
                       | Has => [mkf s NoRel [s]]
                       end) S
    else if sw || mmem S k then
      match mget S k with
      | Some NoRel => [mkf k Has []]
      | _ => [mkf k NoRel []]           (* zero value of foundUser: HasRelationship *)
      end
    else [mkf k st []]) B.

(* ---- "last writer wins" maps ------------------------------------------------------------- *)
Definition statuses (R : content) (k : subject) : list status :=
  (if has R k then [Has] else []) ++ (if no R k then [NoRel] else []).

Fixpoint choices (R : content) (ks : list subject) : list smap :=
  match ks with
  | [] => [[]]
  | k :: ks' => flat_map (fun st => map (cons (k, st)) (choices R ks')) (statuses R k)
  end.

Definition resolve (R : content) : list smap := choices R (sdedup (map f_user R)).
Definition has_race (R : content) : bool := existsb (fun e => has R (f_user e) && no R (f_user e)) R.

Definition of_map (m : smap) : content := map (fun p : subject * status => mkf (fst p) (snd p) []) m.

(* ListUsers: entries with NoRelationship are dropped, the keys are returned *)
Definition final (m : smap) : list subject :=
  flat_map (fun p : subject * status => match snd p with Has => [fst p] | NoRel => [] end) m.

(* ---- trigger flags: the denotational equation of a combinator fails on THIS invocation ----- *)
Definition keys_of (R : content) : list subject := map f_user R ++ all_excl R.

Definition union_den_fail (w : subject) (Rs : list content) : bool :=
  let out := lu_union Rs in
  existsb (fun k => negb (Bool.eqb (den w out k) (existsb (fun R => den w R k) Rs)))
          (w :: flat_map keys_of Rs).

Definition inter_den_fail (w : subject) (Rs : list content) : bool :=
  let out := lu_inter w Rs in
  existsb (fun k => negb (Bool.eqb (den w out k) (forallb (fun R => den w R k) Rs)))
          (w :: flat_map keys_of Rs).

(* the exclusion sees its operands as channel contents Bc, Sc (with excludedUsers) and works on
   the maps B, S *)
Definition excl_den_fail (w : subject) (Bc Sc : content) (B S : smap) : bool :=
  let out := lu_excl w B S in
  existsb (fun k => negb (Bool.eqb (den w out k) (den w Bc k && negb (den w Sc k))))
          (w :: keys_of Bc ++ keys_of Sc).

(* several dispatches of one expandDirect / expandTTU write to ONE channel: an implicit union *)
Definition merge_den_fail (w : subject) (parts : list content) : bool :=
  let out := concat parts in
  existsb (fun k => negb (Bool.eqb (den w out k) (existsb (fun R => den w R k) parts)))
          (w :: flat_map keys_of parts).

Record ltrig := {
  tg_race : bool;          (* a last-writer-wins map received one key with both statuses *)
  tg_excl_cycle : bool;    (* expandExclusion: cycle below the subtract branch -> nothing is sent *)
  tg_union : bool;         (* union_den_fail *)
  tg_inter : bool;         (* inter_den_fail *)
  tg_excl : bool;          (* excl_den_fail *)
  tg_merge : bool          (* merge_den_fail *)
}.
Definition no_trig : ltrig :=
  {| tg_race := false; tg_excl_cycle := false; tg_union := false; tg_inter := false;
     tg_excl := false; tg_merge := false |}.
Definition tg_or (a b : ltrig) : ltrig :=
  {| tg_race := tg_race a || tg_race b; tg_excl_cycle := tg_excl_cycle a || tg_excl_cycle b;
     tg_union := tg_union a || tg_union b; tg_inter := tg_inter a || tg_inter b;
     tg_excl := tg_excl a || tg_excl b; tg_merge := tg_merge a || tg_merge b |}.

(* ---- the traversal ----------------------------------------------------------------------- *)
Inductive lerr := LCond | LDepth | LOther | LFuel.
Definition lerr_eqb (a b : lerr) : bool :=
  match a, b with LCond, LCond | LDepth, LDepth | LOther, LOther | LFuel, LFuel => true | _, _ => false end.

(* l_outs: every possible content of the channel after the call returned; l_cyc: hasCycle;
   l_errs: error classes joined into resp.err (non-empty = the call returns an error);
   l_amb: errors that MAY surface instead of a swallowed one (see Diff) *)
Record lres := { l_outs : list content; l_cyc : bool; l_errs : list lerr; l_amb : list lerr; l_trig : ltrig }.

Definition lres_empty : lres := {| l_outs := [[]]; l_cyc := false; l_errs := []; l_amb := []; l_trig := no_trig |}.
Definition lres_err (e : lerr) : lres := {| l_outs := [[]]; l_cyc := false; l_errs := [e]; l_amb := []; l_trig := no_trig |}.

(* the set of possible contents is kept small: contents equal as multisets are merged *)
Definition status_eqb (a b : status) : bool := match a, b with Has, Has | NoRel, NoRel => true | _, _ => false end.
Fixpoint slist_eqb (a b : list subject) : bool :=
  match a, b with
  | [], [] => true
  | x :: a', y :: b' => subject_eqb x y && slist_eqb a' b'
  | _, _ => false
  end.
Definition found_eqb (a b : found) : bool :=
  subject_eqb (f_user a) (f_user b) && status_eqb (f_status a) (f_status b) && slist_eqb (f_excl a) (f_excl b).
Definition fcount (e : found) (R : content) : nat := length (filter (found_eqb e) R).
Definition content_equiv (a b : content) : bool :=
  Nat.eqb (length a) (length b) && forallb (fun e => Nat.eqb (fcount e a) (fcount e b)) a.
Fixpoint cdedup (l : list content) : list content :=
  match l with
  | [] => []
  | c :: l' => if existsb (content_equiv c) l' then cdedup l' else c :: cdedup l'
  end.

(* all ways of picking one element of every list *)
Fixpoint cart {A : Type} (ls : list (list A)) : list (list A) :=
  match ls with
  | [] => [[]]
  | l :: ls' => flat_map (fun x => map (cons x) (cart ls')) l
  end.

Definition tg_all (l : list lres) : ltrig := fold_right (fun r acc => tg_or (l_trig r) acc) no_trig l.

Inductive verr := VType | VRel.
Record lfinal := { lf_results : list (list subject); lf_errs : list lerr; lf_amb : list lerr; lf_trig : ltrig }.

Section Expand.
  Variable m : model.
  Variable conds : list cid.
  Variable store : list tuple.
  Variable ftype : tid.             (* user filter: type *)
  Variable frel : rid.              (* user filter: relation, 0 = none *)
  Variable limit : nat.             (* resolveNodeLimit *)

  Definition wkey : subject := SWild ftype.

  Definition lu_raw_of (o : obj) (r : rid) : list tuple :=
    filter (fun t => obj_eqb (t_obj t) o && N.eqb (t_rel t) r && valid_for_read m conds t) store.

  Definition has_cond_err (ts : list tuple) : bool :=
    existsb (fun t => match t_ceval t with E => true | _ => false end) ts.
  Definition lu_passing (ts : list tuple) : list tuple :=
    filter (fun t => match t_ceval t with T => true | _ => false end) ts.

  (* several sources writing to one channel *)
  Definition merge (here : content) (subs : list lres) (keep_cyc : bool) (cond_err : bool) : lres :=
    let combos := cart (map l_outs subs) in
    {| l_outs := cdedup (map (fun cs => here ++ concat cs) combos);
       l_cyc := keep_cyc && existsb l_cyc subs;
       l_errs := (if cond_err then [LCond] else []) ++ flat_map l_errs subs;
       l_amb := flat_map l_amb subs;
       l_trig := tg_or (tg_all subs)
                   {| tg_race := false; tg_excl_cycle := false; tg_union := false; tg_inter := false;
                      tg_excl := false;
                      tg_merge := existsb (fun cs => merge_den_fail wkey (here :: cs)) combos |} |}.

  Section Step.
    Variable dispatch : obj -> rid -> lres.      (* l.dispatch on a cloned request *)

    Fixpoint expand_rw (o : obj) (rw : rewrite) (r : rid) {struct rw} : lres :=
      match rw with
      | This =>
          let ts := lu_raw_of o r in
          let ps := lu_passing ts in
          let here := flat_map (fun t => match t_sub t with
                                         | SObj u => if N.eqb (otype u) ftype then [mkf (SObj u) Has []] else []
                                         | SWild ty => if N.eqb ty ftype then [mkf (SWild ty) Has []] else []
                                         | SSet _ _ => []
                                         end) ps in
          let subs := flat_map (fun t => match t_sub t with
                                         | SSet o' r' => [dispatch o' r']
                                         | _ => []
                                         end) ps in
          merge here subs true (has_cond_err ts)
      | Computed r' => dispatch o r'
      | TTU ts c =>
          let tl := lu_raw_of o ts in
          let subs := flat_map (fun t => match t_sub t with
                                         | SObj o' => [dispatch o' c]
                                         | _ => []
                                         end) (lu_passing tl) in
          merge [] subs false (has_cond_err tl)
      | Union l =>
          let rs := (fix go (l : list rewrite) : list lres :=
                       match l with [] => [] | x :: l' => expand_rw o x r :: go l' end) l in
          let combos := cart (map l_outs rs) in
          {| l_outs := cdedup (map lu_union combos); l_cyc := false;
             l_errs := flat_map l_errs rs; l_amb := flat_map l_amb rs;
             l_trig := tg_or (tg_all rs)
                         {| tg_race := false; tg_excl_cycle := false;
                            tg_union := existsb (union_den_fail wkey) combos;
                            tg_inter := false; tg_excl := false; tg_merge := false |} |}
      | Inter l =>
          let rs := (fix go (l : list rewrite) : list lres :=
                       match l with [] => [] | x :: l' => expand_rw o x r :: go l' end) l in
          let combos := cart (map l_outs rs) in
          {| l_outs := cdedup (map (lu_inter wkey) combos); l_cyc := false;
             l_errs := flat_map l_errs rs; l_amb := flat_map l_amb rs;
             l_trig := tg_or (tg_all rs)
                         {| tg_race := false; tg_excl_cycle := false; tg_union := false;
                            tg_inter := existsb (inter_den_fail wkey) combos;
                            tg_excl := false; tg_merge := false |} |}
      | Diff b s =>
          let rb := expand_rw o b r in
          let rs := expand_rw o s r in
          if l_cyc rs then
            (* `if subtractHasCycle { return expandResponse{err: nil} }`: nothing is sent and both
               branch errors are dropped.  When the subtract branch ALSO failed, the failing
               goroutine cancels its siblings, so whether the cycle is seen is a race: the
               dropped errors may surface instead. *)
            {| l_outs := [[]]; l_cyc := false; l_errs := [];
               l_amb := (match l_errs rs with [] => [] | _ => l_errs rb ++ l_errs rs end) ++ l_amb rb ++ l_amb rs;
               l_trig := tg_or (tg_or (l_trig rb) (l_trig rs))
                           {| tg_race := false; tg_excl_cycle := true; tg_union := false;
                              tg_inter := false; tg_excl := false; tg_merge := false |} |}
          else
            let pairs := flat_map (fun bc => map (fun sc => (bc, sc)) (l_outs rs)) (l_outs rb) in
            {| l_outs := cdedup (flat_map (fun p : content * content =>
                                     flat_map (fun B => map (fun S => lu_excl wkey B S) (resolve (snd p)))
                                              (resolve (fst p))) pairs);
               l_cyc := false;
               l_errs := l_errs rb ++ l_errs rs; l_amb := l_amb rb ++ l_amb rs;
               l_trig := tg_or (tg_or (l_trig rb) (l_trig rs))
                           {| tg_race := existsb (fun p : content * content => has_race (fst p) || has_race (snd p)) pairs;
                              tg_excl_cycle := false; tg_union := false; tg_inter := false;
                              tg_excl := existsb (fun p : content * content =>
                                                    existsb (fun B => existsb (fun S => excl_den_fail wkey (fst p) (snd p) B S)
                                                                              (resolve (snd p)))
                                                            (resolve (fst p))) pairs;
                              tg_merge := false |} |}
      end.
  End Step.

  Definition add_here (here : content) (x : lres) : lres :=
    {| l_outs := map (app here) (l_outs x); l_cyc := l_cyc x; l_errs := l_errs x; l_amb := l_amb x;
       l_trig := l_trig x |}.

  (* expand: depth check, depth++, enteredCycle, the reflexive userset entry, the rewrite *)
  Fixpoint expand (fuel : nat) (depth : nat) (visited : list atom) (o : obj) (r : rid) {struct fuel} : lres :=
    match fuel with
    | O => lres_err LFuel
    | S f =>
        if Nat.leb limit depth then lres_err LDepth
        else if existsb (atom_eqb (o, r)) visited
        then {| l_outs := [[]]; l_cyc := true; l_errs := []; l_amb := []; l_trig := no_trig |}
        else
          let here := if N.eqb (otype o) ftype && N.eqb r frel then [mkf (SSet o r) Has []] else [] in
          match find_type m (otype o) with
          | None => add_here here (lres_err LOther)
          | Some td =>
              match find_rel (td_rels td) r with
              | None => add_here here lres_empty
              | Some rd =>
                  add_here here
                    (expand_rw (fun o' r' => expand f (S depth) ((o, r) :: visited) o' r') o (rd_rw rd) r)
              end
          end
    end.

  (* ---- the request ---- *)
  (* validateUsersFilters, then validateTargetRelation *)
  Definition validate (o : obj) (r : rid) : option verr :=
    match find_type m ftype with
    | None => Some VType
    | Some td =>
        if negb (N.eqb frel 0) && negb (rel_defined m ftype frel) then Some VRel
        else match find_type m (otype o) with
             | None => Some VType
             | Some td' => if rel_defined m (otype o) r then None else Some VRel
             end
    end.

  Fixpoint set_dedup (l : list (list subject)) : list (list subject) :=
    match l with
    | [] => []
    | x :: l' =>
        if existsb (fun y => forallb (fun k => smem k y) x && forallb (fun k => smem k x) y) l'
        then set_dedup l' else x :: set_dedup l'
    end.

  (* pruned = doesHavePossibleEdges said "no" (only consulted when the target is not itself of the
     filter's type#relation): the answer is empty without any traversal *)
  Definition list_users (pruned : bool) (o : obj) (r : rid) : lfinal :=
    if pruned && negb (N.eqb (otype o) ftype && N.eqb r frel)
    then {| lf_results := [[]]; lf_errs := []; lf_amb := []; lf_trig := no_trig |}
    else
      let x := expand (S (S limit)) O [] o r in
      {| lf_results := set_dedup (flat_map (fun c => map final (resolve c)) (l_outs x));
         lf_errs := l_errs x; lf_amb := l_amb x;
         lf_trig := tg_or (l_trig x)
                      {| tg_race := existsb has_race (l_outs x); tg_excl_cycle := false; tg_union := false;
                         tg_inter := false; tg_excl := false; tg_merge := false |} |}.

  (* what the result limit counts: the number of distinct keys (HasRelationship or not) that reach
     foundUsersUnique, for every possible content of the top-level channel.  The collector stops
     when len(foundUsersUnique) >= maxResults, so a limit above this number never applies. *)
  Definition list_users_nkeys (pruned : bool) (o : obj) (r : rid) : list nat :=
    if pruned && negb (N.eqb (otype o) ftype && N.eqb r frel)
    then [O]
    else map (fun c => length (sdedup (map f_user c))) (l_outs (expand (S (S limit)) O [] o r)).

  (* ---- a traversal that is cut short ---- *)
  (* When a branch fails (depth, condition, datastore) the pools cancel the sibling branches: what
     each operand channel has received by then is arbitrary, the combinators run on these partial
     contents (an exclusion whose subtract branch was cut passes its base users, an intersection
     that lost an excludedUsers list passes the excluded user, ...).  The error normally replaces
     the answer, but when the result limit is reached first (or the deadline expires) the partial
     answer is returned.  may_keys over-approximates the keys such an answer can contain: every
     key any source can send, set operators ignored. *)
  Section KeysStep.
    Variable dispatch : obj -> rid -> list subject.
    Fixpoint keys_rw (o : obj) (rw : rewrite) (r : rid) {struct rw} : list subject :=
      match rw with
      | This =>
          flat_map (fun t => match t_sub t with
                             | SObj u => if N.eqb (otype u) ftype then [SObj u] else []
                             | SWild ty => if N.eqb ty ftype then [SWild ty] else []
                             | SSet o' r' => dispatch o' r'
                             end) (lu_passing (lu_raw_of o r))
      | Computed r' => dispatch o r'
      | TTU ts c =>
          flat_map (fun t => match t_sub t with SObj o' => dispatch o' c | _ => [] end)
                   (lu_passing (lu_raw_of o ts))
      | Union l | Inter l =>
          (fix go (l : list rewrite) : list subject :=
             match l with [] => [] | x :: l' => keys_rw o x r ++ go l' end) l
      | Diff b s => keys_rw o b r ++ keys_rw o s r
      end.
  End KeysStep.

  Fixpoint keys_expand (fuel : nat) (depth : nat) (visited : list atom) (o : obj) (r : rid) {struct fuel} : list subject :=
    match fuel with
    | O => []
    | S f =>
        if Nat.leb limit depth then []
        else if existsb (atom_eqb (o, r)) visited then []
        else
          (if N.eqb (otype o) ftype && N.eqb r frel then [SSet o r] else []) ++
          match find_type m (otype o) with
          | None => []
          | Some td =>
              match find_rel (td_rels td) r with
              | None => []
              | Some rd => keys_rw (fun o' r' => keys_expand f (S depth) ((o, r) :: visited) o' r') o (rd_rw rd) r
              end
          end
    end.

  Definition list_users_may (pruned : bool) (o : obj) (r : rid) : list subject :=
    if pruned && negb (N.eqb (otype o) ftype && N.eqb r frel) then []
    else sdedup (keys_expand (S (S limit)) O [] o r).
End Expand.
