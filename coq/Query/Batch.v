(* C07 — BatchCheck: model of pkg/server/commands/batch_check_command.go (BatchCheckQuery.Execute,
   validateCorrelationIDs, the de-duplication map, the fan-out) and of the API mapping in
   pkg/server/batch_check.go (proto validation of the correlation ids, validation-error
   mapping, transformCheckCommandErrorToBatchCheckError).

   The de-duplication key (generateCacheKeyFromCheck = storage.CheckCacheKey over
   storage.InvariantCacheKey) is a PARAMETER [key : P -> K]: its injectivity is C24's subject
   (Codec/KeyEnc.v); here it appears only through explicit hypotheses of the theorems.
   A single Check is a parameter as well: [eval : St -> P -> outcome * St], where St is whatever
   the checks of one batch share (the check query cache).  The order in which the groups are
   evaluated (Go map iteration order + the goroutine pool) is the parameter [sched].

   Definitions only; proofs are in Query/BatchProofs.v. *)
From OFGA Require Export Base.Bytes.
Open Scope N_scope.

(* ------------------------------------------------------------------ outcomes *)
(* error classes of commands.CheckQuery.Execute, in the order in which
   transformCheckCommandErrorToBatchCheckError tests them *)
Inductive errclass :=
| EInvalidRelation     (* *commands.InvalidRelationError *)
| EInvalidTuple        (* *commands.InvalidTupleError *)
| EDepth               (* graph.ErrResolutionDepthExceeded *)
| ECondEval            (* condition.ErrEvaluationFailed *)
| EInvalidContext      (* *commands.InvalidContextError *)
| EThrottled           (* *commands.ThrottledError *)
| EDeadline            (* context.DeadlineExceeded *)
| EOther.

Inductive outcome := Allowed (b : bool) | ItemError (c : errclass).

Definition errclass_eqb (a b : errclass) : bool :=
  match a, b with
  | EInvalidRelation, EInvalidRelation | EInvalidTuple, EInvalidTuple | EDepth, EDepth
  | ECondEval, ECondEval | EInvalidContext, EInvalidContext | EThrottled, EThrottled
  | EDeadline, EDeadline | EOther, EOther => true
  | _, _ => false
  end.

Definition outcome_eqb (a b : outcome) : bool :=
  match a, b with
  | Allowed x, Allowed y => Bool.eqb x y
  | ItemError x, ItemError y => errclass_eqb x y
  | _, _ => false
  end.

(* ------------------------------------------------------------------ validation *)
Inductive reject :=
| RTooMany                 (* len(checks) > maxChecksAllowed *)
| REmptyBatch              (* len(checks) = 0 *)
| REmptyId (idx : nat)     (* first item, in request order, whose correlation id is "" *)
| RDupId (id : bytes).     (* first item whose correlation id was seen before *)

Definition bmem (x : bytes) (l : list bytes) : bool := existsb (beqb x) l.

Section Batch.
  Context {P K St : Type}.
  Variable key : P -> K.               (* generateCacheKeyFromCheck (store and model id fixed) *)
  Variable keqb : K -> K -> bool.      (* Go map key equality *)
  Variable eval : St -> P -> outcome * St.   (* one checker.Execute against the shared state *)
  Variable maxn : N.                   (* maxChecksAllowed *)

  Definition item := (bytes * P)%type.   (* correlation id, (tuple, contextual tuples, context) *)

  (* validateCorrelationIDs: one pass in request order; [seen] is the set built so far *)
  Fixpoint validate_ids (seen : list bytes) (idx : nat) (items : list item) : option reject :=
    match items with
    | [] => None
    | (id, _) :: rest =>
        match id with
        | [] => Some (REmptyId idx)
        | _ => if bmem id seen then Some (RDupId id)
               else validate_ids (id :: seen) (S idx) rest
        end
    end.

  (* the three checks at the head of Execute, in their order *)
  Definition validate (items : list item) : option reject :=
    if N.ltb maxn (N.of_nat (length items)) then Some RTooMany
    else match items with
         | [] => Some REmptyBatch
         | _ => validate_ids [] O items
         end.

  (* cacheKeyMap: key -> (first check with that key, correlation ids in request order).
     Kept in first-occurrence order (the Go map has no order: see [schedule]). *)
  Record group := mk_group { g_key : K; g_rep : P; g_ids : list bytes }.

  Fixpoint add_item (gs : list group) (it : item) : list group :=
    match gs with
    | [] => [mk_group (key (snd it)) (snd it) [fst it]]
    | g :: gs' =>
        if keqb (g_key g) (key (snd it))
        then mk_group (g_key g) (g_rep g) (g_ids g ++ [fst it]) :: gs'
        else g :: add_item gs' it
    end.

  Definition groups (items : list item) : list group := fold_left add_item items [].

  (* evaluation order: [sched] selects, step by step, which of the remaining groups runs next
     (index modulo the number of remaining groups; an exhausted [sched] continues with index 0).
     Every [sched] yields a permutation and every permutation is reached by some [sched]
     (BatchProofs.schedule_perm / schedule_complete). *)
  Fixpoint extract {A : Type} (n : nat) (l : list A) {struct l} : option (A * list A) :=
    match l with
    | [] => None
    | x :: l' =>
        match n with
        | O => Some (x, l')
        | S n' => match extract n' l' with
                  | Some (y, r) => Some (y, x :: r)
                  | None => None
                  end
        end
    end.

  Fixpoint schedule_aux {A : Type} (fuel : nat) (sched : list nat) (l : list A) : list A :=
    match fuel with
    | O => l
    | S f =>
        match l with
        | [] => []
        | _ :: _ =>
            let n := match sched with [] => O | n :: _ => Nat.modulo n (length l) end in
            match extract n l with
            | Some (x, r) => x :: schedule_aux f (tl sched) r
            | None => l
            end
        end
    end.

  Definition schedule {A : Type} (sched : list nat) (l : list A) : list A :=
    schedule_aux (length l) sched l.

  (* the pool: one checker.Execute per group, on the group's representative; the results are
     stored under the group's key (resultMap); [trace] = the checks that were executed *)
  Fixpoint run (st : St) (gs : list group) : list (K * outcome) * list P * St :=
    match gs with
    | [] => ([], [], st)
    | g :: gs' =>
        let '(o, st1) := eval st (g_rep g) in
        let '(rs, tr, st2) := run st1 gs' in
        ((g_key g, o) :: rs, g_rep g :: tr, st2)
    end.

  Fixpoint lookup_key (k : K) (rs : list (K * outcome)) : option outcome :=
    match rs with
    | [] => None
    | (k', o) :: rs' => if keqb k' k then Some o else lookup_key k rs'
    end.

  (* results[id] = outcome for every id of every group; a key without a stored result would be a
     nil type assertion (panic) in Go: None *)
  Fixpoint fan_out (gs : list group) (rs : list (K * outcome)) : option (list (bytes * outcome)) :=
    match gs with
    | [] => Some []
    | g :: gs' =>
        match lookup_key (g_key g) rs, fan_out gs' rs with
        | Some o, Some rest => Some (map (fun id => (id, o)) (g_ids g) ++ rest)
        | _, _ => None
        end
    end.

  Inductive response :=
  | Rejected (r : reject)
  | Results (rs : list (bytes * outcome)) (dups : nat)   (* result map, DuplicateCheckCount *)
  | Panic.

  (* BatchCheckQuery.Execute: response, executed checks in execution order, final shared state *)
  Definition batch (sched : list nat) (st : St) (items : list item) : response * list P * St :=
    match validate items with
    | Some r => (Rejected r, [], st)
    | None =>
        let gs := groups items in
        let '(rs, tr, st') := run st (schedule sched gs) in
        match fan_out gs rs with
        | Some out => (Results out (length items - length gs), tr, st')
        | None => (Panic, tr, st')
        end
    end.

  Definition resp_of (x : response * list P * St) : response := fst (fst x).
  Definition trace_of (x : response * list P * St) : list P := snd (fst x).
  Definition state_of (x : response * list P * St) : St := snd x.

  (* the response map read at one correlation id *)
  Fixpoint lookup_id (id : bytes) (rs : list (bytes * outcome)) : option outcome :=
    match rs with
    | [] => None
    | (id', o) :: rs' => if beqb id' id then Some o else lookup_id id rs'
    end.

  Definition outcome_at (id : bytes) (r : response) : option outcome :=
    match r with Results rs _ => lookup_id id rs | _ => None end.

  (* hypothesis of batch_eq_individual, as a boolean: two items of the batch with the same key are
     equivalent requests *)
  Variable sem_eqb : P -> P -> bool.
  Definition no_key_collision (items : list item) : bool :=
    forallb (fun a => forallb (fun b => implb (keqb (key (snd a)) (key (snd b))) (sem_eqb (snd a) (snd b))) items) items.
End Batch.


(* ------------------------------------------------------------------ API layer (pkg/server/batch_check.go) *)
(* BatchCheckItem.correlation_id: ^[\w\d-]{1,36}$ (RE2: \w = [0-9A-Za-z_], ASCII only; $ = end of text) *)
Definition id_char_ok (c : N) : bool :=
  (N.leb 48 c && N.leb c 57) || (N.leb 65 c && N.leb c 90) || (N.leb 97 c && N.leb c 122) ||
  N.eqb c 95 || N.eqb c 45.

Definition id_pattern_ok (id : bytes) : bool :=
  match id with
  | [] => false
  | _ => Nat.leb (length id) 36 && forallb id_char_ok id
  end.

(* CheckError codes of the BatchCheck response *)
Inductive apicode :=
| CValidationError          (* input_error: validation_error *)
| CInvalidTuple             (* input_error: invalid_tuple *)
| CTooComplex               (* input_error: authorization_model_resolution_too_complex *)
| CDeadline                 (* internal_error: deadline_exceeded *)
| CInternal.                (* internal_error: internal_error *)

(* transformCheckCommandErrorToBatchCheckError *)
Definition api_code (c : errclass) : apicode :=
  match c with
  | EInvalidRelation => CValidationError
  | EInvalidTuple => CInvalidTuple
  | EDepth => CTooComplex
  | ECondEval => CValidationError
  | EInvalidContext => CValidationError
  | EThrottled => CValidationError
  | EDeadline => CDeadline
  | EOther => CInternal
  end.

Inductive api_item := AAllowed (b : bool) | AError (c : apicode).

(* transformCheckResultToProto *)
Definition api_item_of (o : outcome) : api_item :=
  match o with Allowed b => AAllowed b | ItemError c => AError (api_code c) end.

Inductive api_response :=
| ApiInvalidArgument                         (* req.Validate(): codes.InvalidArgument *)
| ApiValidationError (r : reject)            (* serverErrors.ValidationError *)
| ApiResults (rs : list (bytes * api_item))
| ApiPanic.

Section Api.
  Context {P K St : Type}.
  Variable key : P -> K.
  Variable keqb : K -> K -> bool.
  Variable eval : St -> P -> outcome * St.
  Variable maxn : N.

  (* Server.BatchCheck on a request whose store id, model id and tuple keys pass the proto rules:
     min_items 1 on checks, the correlation id pattern on every item, then the command *)
  Definition api_batch (sched : list nat) (st : St) (items : list (bytes * P)) : api_response * list P * St :=
    match items with
    | [] => (ApiInvalidArgument, [], st)
    | _ =>
        if negb (forallb (fun it => id_pattern_ok (fst it)) items) then (ApiInvalidArgument, [], st)
        else
          let '(r, tr, st') := batch key keqb eval maxn sched st items in
          (match r with
           | Rejected rj => ApiValidationError rj
           | Results rs _ => ApiResults (map (fun p => (fst p, api_item_of (snd p))) rs)
           | Panic => ApiPanic
           end, tr, st')
    end.
End Api.

(* ------------------------------------------------------------------ instances *)
(* the instance the oracle runs: a payload carries the key the implementation computed for it,
   its equivalence class and the outcome of its standalone Check; no shared state *)
Record rec_payload := mk_rec { rp_key : N; rp_class : N; rp_out : outcome }.

Definition rec_eval (st : unit) (p : rec_payload) : outcome * unit := (rp_out p, st).
Definition rec_sem_eqb (a b : rec_payload) : bool := N.eqb (rp_class a) (rp_class b).

Definition rec_batch (maxn : N) (sched : list nat) (items : list (bytes * rec_payload)) : response :=
  resp_of (batch rp_key N.eqb rec_eval maxn sched tt items).

Definition rec_api_batch (maxn : N) (sched : list nat) (items : list (bytes * rec_payload)) : api_response :=
  fst (fst (api_batch rp_key N.eqb rec_eval maxn sched tt items)).

Definition rec_no_key_collision (items : list (bytes * rec_payload)) : bool :=
  no_key_collision rp_key N.eqb rec_sem_eqb items.

(* check respects sem_eq, on the items of one batch *)
Definition rec_check_respects (items : list (bytes * rec_payload)) : bool :=
  forallb (fun a => forallb (fun b => implb (rec_sem_eqb (snd a) (snd b))
                                            (outcome_eqb (rp_out (snd a)) (rp_out (snd b)))) items) items.

(* a key that forgets the context: payload = (tuple, context), key = tuple; the check reads the
   context (counterexample instance of Props/C07.v batch_eq_individual_refuted) *)
Definition forget_key (p : N * N) : N := fst p.
Definition ctx_check (p : N * N) : outcome := Allowed (N.eqb (snd p) 1).
Definition pure_eval {A : Type} (check : A -> outcome) (st : unit) (p : A) : outcome * unit := (check p, st).

(* a check whose answer depends on how many checks ran before it (counterexample instance of
   batch_order_irrelevant_refuted: the shared state is not transparent) *)
Definition counting_eval (st : nat) (p : N) : outcome * nat := (Allowed (Nat.eqb st O), S st).
