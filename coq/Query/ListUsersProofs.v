(* Proofs about the ListUsers combinators of Query/ListUsers.v (the code of
   pkg/server/commands/listusers/list_users_rpc.go transcribed as coded).

   den w R k = "k is in the set that the channel content R stands for".  For every combinator:
     - what is true of the code for ALL inputs (explicit entries, statuses, duplicates, keys);
     - the denotational equation under the hypotheses that make it true (stated as boolean
       predicates on the operands);
     - a `_refuted` witness showing that the equation is FALSE of the code without them
       (each one replayed on the real ListUsers: corpus/C06-witnesses.jsonl). *)
From OFGA Require Import Sem.SemProofs Query.ListUsers.
From Coq Require Import Lia Arith Btauto.
Open Scope N_scope.

(* ---- equality tests (obj_eqb_eq, subject_eqb_eq, subject_eqb_refl: Sem/SemProofs.v) ---------- *)
Lemma subject_eqb_neq a b : subject_eqb a b = false <-> a <> b.
Proof.
  split.
  - intros H E. apply subject_eqb_eq in E. congruence.
  - intros H. destruct (subject_eqb a b) eqn:E; auto. apply subject_eqb_eq in E. contradiction.
Qed.

Lemma subject_eqb_sym a b : subject_eqb a b = subject_eqb b a.
Proof.
  destruct (subject_eqb a b) eqn:E.
  - apply subject_eqb_eq in E; subst. symmetry; apply subject_eqb_refl.
  - symmetry. apply subject_eqb_neq. apply subject_eqb_neq in E. congruence.
Qed.

Lemma subject_dec (a b : subject) : {a = b} + {a <> b}.
Proof.
  destruct (subject_eqb a b) eqn:E.
  - left. apply subject_eqb_eq in E. exact E.
  - right. apply subject_eqb_neq in E. exact E.
Qed.

(* ---- boolean list helpers ------------------------------------------------------------------ *)
Lemma existsb_ext_in {A} (f g : A -> bool) l :
  (forall x, In x l -> f x = g x) -> existsb f l = existsb g l.
Proof.
  induction l as [|a l IH]; simpl; intros H; auto.
  rewrite H by (left; reflexivity). f_equal. apply IH. intros x Hx; apply H; right; exact Hx.
Qed.

Lemma forallb_ext_in {A} (f g : A -> bool) l :
  (forall x, In x l -> f x = g x) -> forallb f l = forallb g l.
Proof.
  induction l as [|a l IH]; simpl; intros H; auto.
  rewrite H by (left; reflexivity). f_equal. apply IH. intros x Hx; apply H; right; exact Hx.
Qed.

Lemma existsb_orb {A} (f g : A -> bool) l :
  existsb (fun x => f x || g x) l = existsb f l || existsb g l.
Proof. induction l as [|a l IH]; simpl; auto. rewrite IH. btauto. Qed.

Lemma existsb_andb_const {A} (c : bool) (g : A -> bool) l :
  existsb (fun x => c && g x) l = c && existsb g l.
Proof. induction l as [|a l IH]; simpl; [btauto|]. rewrite IH. btauto. Qed.

Lemma existsb_andb_const_r {A} (c : bool) (g : A -> bool) l :
  existsb (fun x => g x && c) l = existsb g l && c.
Proof. induction l as [|a l IH]; simpl; [btauto|]. rewrite IH. btauto. Qed.

Lemma existsb_false {A} (l : list A) : existsb (fun _ => false) l = false.
Proof. induction l; simpl; auto. Qed.

Lemma existsb_flat_map {A B} (f : B -> bool) (g : A -> list B) l :
  existsb f (flat_map g l) = existsb (fun x => existsb f (g x)) l.
Proof. induction l as [|a l IH]; simpl; auto. rewrite existsb_app, IH. reflexivity. Qed.

Lemma existsb_concat {A} (f : A -> bool) (ls : list (list A)) :
  existsb f (concat ls) = existsb (existsb f) ls.
Proof. induction ls as [|a l IH]; simpl; auto. rewrite existsb_app, IH. reflexivity. Qed.

Lemma existsb_map {A B} (f : B -> bool) (g : A -> B) l :
  existsb f (map g l) = existsb (fun x => f (g x)) l.
Proof. induction l as [|a l IH]; simpl; auto. rewrite IH; reflexivity. Qed.

Lemma existsb_filter {A} (f p : A -> bool) l :
  existsb f (filter p l) = existsb (fun x => p x && f x) l.
Proof. induction l as [|a l IH]; simpl; auto. destruct (p a); simpl; rewrite IH; reflexivity. Qed.

Lemma forallb_negb_existsb {A} (f : A -> bool) l : forallb (fun x => negb (f x)) l = negb (existsb f l).
Proof. induction l as [|a l IH]; simpl; auto. rewrite IH. btauto. Qed.

(* ---- smem / sdedup ------------------------------------------------------------------------- *)
Lemma smem_In k l : smem k l = true <-> In k l.
Proof.
  unfold smem. rewrite existsb_exists. split.
  - intros [x [Hx E]]. apply subject_eqb_eq in E. subst. exact Hx.
  - intros H. exists k. split; [exact H | apply subject_eqb_refl].
Qed.

Lemma smem_false k l : smem k l = false <-> ~ In k l.
Proof.
  split.
  - intros H I. apply smem_In in I. congruence.
  - intros H. destruct (smem k l) eqn:E; auto. apply smem_In in E. contradiction.
Qed.

Lemma sdedup_In x l : In x (sdedup l) <-> In x l.
Proof.
  induction l as [|a l IH]; simpl; [tauto|].
  destruct (smem a l) eqn:E.
  - rewrite IH. split; [auto|]. intros [->|H]; auto. apply smem_In; exact E.
  - simpl. rewrite IH. tauto.
Qed.

Lemma sdedup_NoDup l : NoDup (sdedup l).
Proof.
  induction l as [|a l IH]; simpl; [constructor|].
  destruct (smem a l) eqn:E; auto.
  constructor; auto. rewrite sdedup_In. apply smem_false; exact E.
Qed.

Lemma smem_sdedup k l : smem k (sdedup l) = smem k l.
Proof.
  destruct (smem k l) eqn:E.
  - apply smem_In. apply sdedup_In. apply smem_In. exact E.
  - apply smem_false. rewrite sdedup_In. apply smem_false. exact E.
Qed.

Lemma smem_app k a b : smem k (a ++ b) = smem k a || smem k b.
Proof. unfold smem. apply existsb_app. Qed.

Lemma smem_existsb_eq k l : existsb (fun x => subject_eqb x k) l = smem k l.
Proof. unfold smem. apply existsb_ext_in. intros; apply subject_eqb_sym. Qed.

(* ---- has / no / exl ------------------------------------------------------------------------ *)
Lemma has_app R1 R2 k : has (R1 ++ R2) k = has R1 k || has R2 k.
Proof. apply existsb_app. Qed.
Lemma no_app R1 R2 k : no (R1 ++ R2) k = no R1 k || no R2 k.
Proof. apply existsb_app. Qed.
Lemma exl_app R1 R2 k : exl (R1 ++ R2) k = exl R1 k || exl R2 k.
Proof. apply existsb_app. Qed.

Lemma has_concat Rs k : has (concat Rs) k = existsb (fun R => has R k) Rs.
Proof. unfold has. apply existsb_concat. Qed.
Lemma exl_concat Rs k : exl (concat Rs) k = existsb (fun R => exl R k) Rs.
Proof. unfold exl. apply existsb_concat. Qed.

Lemma smem_has_keys k R : smem k (has_keys R) = has R k.
Proof.
  unfold has_keys, has. rewrite <- smem_existsb_eq, existsb_map, existsb_filter.
  apply existsb_ext_in. intros x _. btauto.
Qed.

Lemma smem_all_excl k R : smem k (all_excl R) = exl R k.
Proof.
  unfold all_excl, exl, smem. rewrite existsb_flat_map. reflexivity.
Qed.

(* a channel content produced by a union / intersection: the same list on every entry *)
Lemma has_mk ks ex k : has (map (fun k' => mkf k' Has ex) ks) k = smem k ks.
Proof.
  unfold has. rewrite existsb_map. simpl. rewrite <- smem_existsb_eq.
  apply existsb_ext_in. intros x _. unfold is_has; simpl. btauto.
Qed.
Lemma no_mk ks ex k : no (map (fun k' => mkf k' Has ex) ks) k = false.
Proof.
  induction ks as [|a ks IH]; simpl; auto.
  unfold no in *. simpl. rewrite IH. unfold is_has; simpl. btauto.
Qed.
Lemma exl_mk ks ex k : exl (map (fun k' => mkf k' Has ex) ks) k = match ks with [] => false | _ => smem k ex end.
Proof.
  unfold exl. rewrite existsb_map. simpl. destruct ks as [|a ks]; simpl; auto.
  destruct (smem k ex); simpl; auto. apply existsb_false.
Qed.

Lemma den_mk w ks ex k :
  den w (map (fun k' => mkf k' Has ex) ks) k = smem k ks || (covers w k && smem w ks && negb (smem k ex)).
Proof.
  unfold den. rewrite !has_mk, no_mk, exl_mk. destruct ks as [|a ks]; simpl; btauto.
Qed.

Lemma smem_filter k p l : smem k (filter p l) = smem k l && p k.
Proof.
  induction l as [|a l IH]; simpl; auto.
  destruct (p a) eqn:Pa; simpl; rewrite IH.
  - destruct (subject_eqb k a) eqn:E; simpl; auto.
    apply subject_eqb_eq in E; subst. rewrite Pa. btauto.
  - destruct (subject_eqb k a) eqn:E; simpl; auto.
    apply subject_eqb_eq in E; subst. rewrite Pa. btauto.
Qed.

Lemma smem_flat_map {A} k (f : A -> list subject) l :
  smem k (flat_map f l) = existsb (fun x => smem k (f x)) l.
Proof. unfold smem. apply existsb_flat_map. Qed.

(* ---- expandUnion ---------------------------------------------------------------------------- *)
(* true of the code for all operands: explicit entries are exactly the union of the explicit
   entries, nothing is marked NoRelationship, no key is sent twice *)
Lemma lu_union_has Rs k : has (lu_union Rs) k = existsb (fun R => has R k) Rs.
Proof. unfold lu_union. rewrite has_mk, smem_sdedup, smem_has_keys, has_concat. reflexivity. Qed.

Lemma lu_union_no Rs k : no (lu_union Rs) k = false.
Proof. apply no_mk. Qed.

Lemma map_f_user_mk ks ex : map f_user (map (fun k' => mkf k' Has ex) ks) = ks.
Proof. induction ks as [|a ks IH]; simpl; auto. rewrite IH; reflexivity. Qed.

Lemma lu_union_nodup Rs : NoDup (map f_user (lu_union Rs)).
Proof. unfold lu_union. rewrite map_f_user_mk. apply sdedup_NoDup. Qed.

(* operands without negative information: every entry HasRelationship, no excludedUsers *)
Definition clean (R : content) : bool :=
  forallb (fun e => is_has e && match f_excl e with [] => true | _ => false end) R.

Lemma clean_no R k : clean R = true -> no R k = false.
Proof.
  unfold clean, no. intros H. rewrite forallb_forall in H.
  rewrite <- (existsb_false R). apply existsb_ext_in. intros e He.
  apply H in He. apply andb_true_iff in He. destruct He as [He _]. rewrite He. btauto.
Qed.

Lemma clean_all_excl R : clean R = true -> all_excl R = [].
Proof.
  unfold clean, all_excl. induction R as [|e R IH]; simpl; auto.
  intros H. apply andb_true_iff in H. destruct H as [He HR]. apply andb_true_iff in He. destruct He as [_ He].
  destruct (f_excl e); [simpl; auto | discriminate].
Qed.

Lemma clean_exl R k : clean R = true -> exl R k = false.
Proof. intros H. rewrite <- smem_all_excl, clean_all_excl; auto. Qed.

Lemma den_clean w R k : clean R = true -> den w R k = has R k || (covers w k && has R w).
Proof. intros H. unfold den. rewrite clean_no, clean_exl by exact H. btauto. Qed.

Lemma all_excl_concat_clean Rs : forallb clean Rs = true -> all_excl (concat Rs) = [].
Proof.
  induction Rs as [|R Rs IH]; simpl; auto.
  intros H. apply andb_true_iff in H. destruct H as [HR HRs].
  unfold all_excl in *. rewrite flat_map_app. fold (all_excl R). rewrite clean_all_excl by exact HR.
  simpl. apply IH; exact HRs.
Qed.

(* the union of positive operands (any number, any mix of wildcards) denotes the union *)
Theorem lu_union_den w Rs k :
  forallb clean Rs = true ->
  den w (lu_union Rs) k = existsb (fun R => den w R k) Rs.
Proof.
  intros H.
  rewrite (existsb_ext_in (fun R => den w R k) (fun R => has R k || (covers w k && has R w))).
  2:{ intros R HR. apply den_clean. rewrite forallb_forall in H. apply H; exact HR. }
  rewrite existsb_orb, existsb_andb_const.
  unfold lu_union. rewrite den_mk. rewrite all_excl_concat_clean by exact H. simpl.
  rewrite !smem_sdedup, !smem_has_keys, !has_concat. btauto.
Qed.

(* ---- expandIntersection ----------------------------------------------------------------------- *)
Lemma filter_length_le {A} (p : A -> bool) l : (length (filter p l) <= length l)%nat.
Proof. induction l as [|a l IH]; simpl; auto. destruct (p a); simpl; lia. Qed.

Lemma filter_length_all {A} (p : A -> bool) l :
  Nat.eqb (length (filter p l)) (length l) = forallb p l.
Proof.
  induction l as [|a l IH]; simpl; auto.
  destruct (p a); simpl.
  - exact IH.
  - apply Nat.eqb_neq. pose proof (filter_length_le p l). lia.
Qed.

Lemma filter_length_disjoint {A} (p q : A -> bool) l :
  (forall x, p x && q x = false) ->
  (length (filter p l) + length (filter q l))%nat = length (filter (fun x => p x || q x) l).
Proof.
  intros D. induction l as [|a l IH]; simpl; auto.
  specialize (D a). destruct (p a), (q a); simpl in *; try discriminate; lia.
Qed.

Lemma filter_ext_eq {A} (p q : A -> bool) l : (forall x, p x = q x) -> filter p l = filter q l.
Proof. intros H. induction l as [|a l IH]; simpl; auto. rewrite H, IH. reflexivity. Qed.

Lemma inter_count w Rs k :
  Nat.eqb (length (filter (fun R => has R k && negb (has R w)) Rs) + length (filter (fun R => has R w) Rs))
          (length Rs)
  = forallb (fun R => has R k || has R w) Rs.
Proof.
  rewrite filter_length_disjoint by (intros R; btauto).
  rewrite (filter_ext_eq _ (fun R => has R k || has R w)) by (intros R; btauto).
  apply filter_length_all.
Qed.

(* true of the code for all operands *)
Lemma lu_inter_has w Rs k :
  has (lu_inter w Rs) k =
  existsb (fun R => has R k) Rs && negb (existsb (fun R => exl R k) Rs) &&
  forallb (fun R => has R k || has R w) Rs.
Proof.
  unfold lu_inter. rewrite has_mk, smem_filter, !smem_sdedup, smem_flat_map, smem_all_excl, exl_concat.
  rewrite inter_count.
  rewrite (existsb_ext_in (fun R => smem k (has_keys R)) (fun R => has R k)) by (intros; apply smem_has_keys).
  btauto.
Qed.

Lemma lu_inter_no w Rs k : no (lu_inter w Rs) k = false.
Proof. apply no_mk. Qed.

Lemma lu_inter_nodup w Rs : NoDup (map f_user (lu_inter w Rs)).
Proof.
  unfold lu_inter. rewrite map_f_user_mk. apply NoDup_filter. apply sdedup_NoDup.
Qed.

(* the hypotheses under which the counting trick is right:
     - a key listed in an excludedUsers list of the operand is not also found by it;
     - below a found wildcard, a NoRelationship marker is mirrored in an excludedUsers list
       (the intersection reads only the lists);
     - the wildcard itself is never listed as excluded. *)
Definition wf_op (w : subject) (R : content) : bool :=
  forallb (fun k => negb (exl R k && has R k)) (keys_of R) &&
  forallb (fun k => negb (covers w k && has R w && no R k) || exl R k) (keys_of R) &&
  negb (exl R w).

Lemma exl_keys R k : exl R k = true -> In k (keys_of R).
Proof.
  rewrite <- smem_all_excl, smem_In. intros H. unfold keys_of. apply in_or_app. right. exact H.
Qed.

Lemma no_keys R k : no R k = true -> In k (keys_of R).
Proof.
  unfold no. rewrite existsb_exists. intros [e [He Hk]].
  apply andb_true_iff in Hk. destruct Hk as [Hk _]. apply subject_eqb_eq in Hk. subst.
  unfold keys_of. apply in_or_app. left. apply in_map. exact He.
Qed.

Lemma wf_op_1 w R k : wf_op w R = true -> exl R k = true -> has R k = false.
Proof.
  unfold wf_op. intros H E. apply andb_true_iff in H. destruct H as [H _].
  apply andb_true_iff in H. destruct H as [H _]. rewrite forallb_forall in H.
  specialize (H k (exl_keys R k E)). rewrite E in H. simpl in H. destruct (has R k); auto.
Qed.

Lemma wf_op_2 w R k : wf_op w R = true -> covers w k = true -> has R w = true -> exl R k = false -> no R k = false.
Proof.
  unfold wf_op. intros H C W E. apply andb_true_iff in H. destruct H as [H _].
  apply andb_true_iff in H. destruct H as [_ H]. rewrite forallb_forall in H.
  destruct (no R k) eqn:N; auto.
  specialize (H k (no_keys R k N)). rewrite C, W, N, E in H. discriminate.
Qed.

Lemma wf_op_3 w R : wf_op w R = true -> exl R w = false.
Proof.
  unfold wf_op. intros H. apply andb_true_iff in H. destruct H as [_ H]. destruct (exl R w); auto.
Qed.

Lemma covers_wild w : covers w w = false.
Proof. destruct w; reflexivity. Qed.

Lemma forallb_nonempty_existsb {A} (f : A -> bool) l : l <> [] -> forallb f l = true -> existsb f l = true.
Proof. destruct l as [|a l]; [congruence|]. simpl. intros _ H. apply andb_true_iff in H. destruct H as [-> _]. reflexivity. Qed.

Lemma existsb_false_iff {A} (f : A -> bool) l : existsb f l = false <-> (forall x, In x l -> f x = false).
Proof.
  split.
  - intros H x Hx. destruct (f x) eqn:E; auto.
    assert (existsb f l = true) by (apply existsb_exists; exists x; auto). congruence.
  - intros H. destruct (existsb f l) eqn:E; auto.
    apply existsb_exists in E. destruct E as [x [Hx Fx]]. rewrite H in Fx by exact Hx. discriminate.
Qed.

(* the counting trick equals the pointwise conjunction of the denotations: for any number of
   operands and any mix of wildcards, for every concrete user k of the filter type (and for the
   wildcard itself) *)
Theorem lu_inter_den w Rs k :
  Rs <> [] ->
  forallb (wf_op w) Rs = true ->
  covers w k = true \/ k = w ->
  den w (lu_inter w Rs) k = forallb (fun R => den w R k) Rs.
Proof.
  intros NE WF HK. rewrite forallb_forall in WF.
  assert (Xw : existsb (fun R => exl R w) Rs = false).
  { apply existsb_false_iff. intros R HR. apply (wf_op_3 w). apply WF; exact HR. }
  assert (Hw : has (lu_inter w Rs) w = forallb (fun R => has R w) Rs).
  { rewrite lu_inter_has, Xw.
    rewrite (forallb_ext_in (fun R => has R w || has R w) (fun R => has R w)) by (intros; btauto).
    destruct (forallb (fun R => has R w) Rs) eqn:F.
    - rewrite (forallb_nonempty_existsb _ _ NE F). reflexivity.
    - btauto. }
  destruct HK as [C | ->].
  2:{ unfold den at 1. rewrite covers_wild, Hw. simpl. rewrite orb_false_r.
      apply forallb_ext_in. intros R _. unfold den. rewrite covers_wild. btauto. }
  destruct (existsb (fun R => exl R k) Rs) eqn:X.
  - (* some operand lists k as excluded *)
    apply existsb_exists in X. destruct X as [R0 [HR0 E0]].
    assert (RHS : forallb (fun R => den w R k) Rs = false).
    { destruct (forallb (fun R => den w R k) Rs) eqn:F; auto.
      rewrite forallb_forall in F. specialize (F R0 HR0). unfold den in F.
      rewrite (wf_op_1 w R0 k (WF R0 HR0) E0), E0 in F. simpl in F. rewrite andb_false_r in F. discriminate. }
    rewrite RHS. unfold lu_inter. rewrite den_mk.
    rewrite (smem_sdedup k (all_excl (concat Rs))), smem_all_excl, exl_concat.
    assert (X : existsb (fun R => exl R k) Rs = true) by (apply existsb_exists; exists R0; auto).
    rewrite X. simpl. rewrite andb_false_r, orb_false_r.
    rewrite smem_filter. rewrite (smem_sdedup k (all_excl (concat Rs))), smem_all_excl, exl_concat, X.
    simpl. btauto.
  - (* nobody lists k *)
    assert (RHS : forallb (fun R => den w R k) Rs = forallb (fun R => has R k || has R w) Rs).
    { apply forallb_ext_in. intros R HR. unfold den. rewrite C.
      pose proof (proj1 (existsb_false_iff _ _) X R HR) as ER. simpl in ER. rewrite ER.
      destruct (has R w) eqn:W; simpl.
      - rewrite (wf_op_2 w R k (WF R HR) C W ER). btauto.
      - btauto. }
    rewrite RHS. unfold den. rewrite lu_inter_no, Hw, C.
    assert (EX : exl (lu_inter w Rs) k = false).
    { unfold lu_inter. rewrite exl_mk. destruct (filter _ _); auto.
      rewrite smem_sdedup, smem_all_excl, exl_concat. exact X. }
    rewrite EX, lu_inter_has, X. simpl. rewrite !andb_true_r.
    destruct (forallb (fun R => has R k || has R w) Rs) eqn:F.
    + destruct (existsb (fun R => has R k) Rs) eqn:A; simpl; auto.
      (* nobody found k explicitly: every operand found the wildcard *)
      apply forallb_forall. intros R HR.
      rewrite forallb_forall in F. specialize (F R HR).
      rewrite (proj1 (existsb_false_iff _ _) A R HR) in F. exact F.
    + rewrite andb_false_r. simpl.
      destruct (forallb (fun R => has R w) Rs) eqn:W; auto.
      rewrite forallb_forall in W.
      assert (forallb (fun R => has R k || has R w) Rs = true).
      { apply forallb_forall. intros R HR. rewrite (W R HR). btauto. }
      congruence.
Qed.

(* ---- expandExclusion ---------------------------------------------------------------------------- *)
Definition st_has (st : status) : bool := match st with Has => true | NoRel => false end.
Definition st_no (st : status) : bool := match st with Has => false | NoRel => true end.

Fixpoint uniq (m : smap) : bool :=
  match m with [] => true | p :: m' => negb (mmem m' (fst p)) && uniq m' end.
Definition all_has (m : smap) : bool := forallb (fun p : subject * status => st_has (snd p)) m.
Definition one_wild (w : subject) (m : smap) : bool :=
  forallb (fun p : subject * status => negb (is_wildcard (fst p)) || subject_eqb (fst p) w) m.

Lemma has_one a st ex k : has [mkf a st ex] k = subject_eqb a k && st_has st.
Proof. unfold has, is_has; simpl. destruct st; simpl; btauto. Qed.
Lemma no_one a st ex k : no [mkf a st ex] k = subject_eqb a k && st_no st.
Proof. unfold no, is_has; simpl. destruct st; simpl; btauto. Qed.
Lemma exl_one a st ex k : exl [mkf a st ex] k = smem k ex.
Proof. unfold exl; simpl. btauto. Qed.
Lemma has_nil k : has [] k = false. Proof. reflexivity. Qed.
Lemma no_nil k : no [] k = false. Proof. reflexivity. Qed.
Lemma exl_nil k : exl [] k = false. Proof. reflexivity. Qed.

Lemma has_flat_map {A} (f : A -> content) l k : has (flat_map f l) k = existsb (fun x => has (f x) k) l.
Proof. unfold has. apply existsb_flat_map. Qed.
Lemma no_flat_map {A} (f : A -> content) l k : no (flat_map f l) k = existsb (fun x => no (f x) k) l.
Proof. unfold no. apply existsb_flat_map. Qed.
Lemma exl_flat_map {A} (f : A -> content) l k : exl (flat_map f l) k = existsb (fun x => exl (f x) k) l.
Proof. unfold exl. apply existsb_flat_map. Qed.

Lemma mmem_cons p m k : mmem (p :: m) k = subject_eqb (fst p) k || mmem m k.
Proof. unfold mmem. destruct p as [a st]; simpl. destruct (subject_eqb a k); auto. Qed.

Lemma mmem_false_existsb (g : subject * status -> bool) m k :
  mmem m k = false -> existsb (fun p => subject_eqb (fst p) k && g p) m = false.
Proof.
  induction m as [|p m IH]; simpl; auto.
  rewrite mmem_cons. intros H. apply orb_false_iff in H. destruct H as [H1 H2].
  rewrite H1, IH by exact H2. reflexivity.
Qed.

(* a key-indexed test over a map: only the key's own entry can contribute *)
Lemma existsb_key (g : subject -> bool) m k :
  existsb (fun p : subject * status => subject_eqb (fst p) k && g (fst p)) m = mmem m k && g k.
Proof.
  induction m as [|p m IH]; simpl; auto.
  rewrite mmem_cons, IH. destruct (subject_eqb (fst p) k) eqn:E; simpl; auto.
  apply subject_eqb_eq in E. rewrite E. destruct (g k); simpl; auto. rewrite andb_false_r. reflexivity.
Qed.

(* with unique keys, the status test sees exactly the entry mget returns *)
Lemma existsb_lookup (g : status -> bool) m k :
  uniq m = true ->
  existsb (fun p : subject * status => subject_eqb (fst p) k && g (snd p)) m =
  match mget m k with Some st => g st | None => false end.
Proof.
  induction m as [|p m IH]; simpl; auto.
  intros U. apply andb_true_iff in U. destruct U as [U1 U2]. destruct p as [a st]. simpl in *.
  destruct (subject_eqb a k) eqn:E; simpl.
  - apply subject_eqb_eq in E. subst.
    rewrite (mmem_false_existsb (fun p => g (snd p))). btauto.
    destruct (mmem m k); auto; discriminate.
  - apply IH; exact U2.
Qed.

Lemma mmem_mget m k : mmem m k = match mget m k with Some _ => true | None => false end.
Proof. reflexivity. Qed.

(* the only typed wildcard among the keys is w *)
Lemma existsb_wild w m :
  is_wildcard w = true -> one_wild w m = true ->
  existsb (fun p : subject * status => is_wildcard (fst p)) m = mmem m w.
Proof.
  intros Ww. induction m as [|p m IH]; simpl; auto.
  intros H. apply andb_true_iff in H. destruct H as [H1 H2].
  rewrite mmem_cons, IH by exact H2.
  destruct (is_wildcard (fst p)) eqn:Wp; simpl in *.
  - rewrite H1. reflexivity.
  - destruct (subject_eqb (fst p) w) eqn:E; auto.
    apply subject_eqb_eq in E. rewrite E in Wp. congruence.
Qed.

Lemma of_map_has m k : uniq m = true -> has (of_map m) k = match mget m k with Some st => st_has st | None => false end.
Proof.
  intros U. unfold of_map, has. rewrite existsb_map. simpl.
  rewrite <- (existsb_lookup st_has m k U). apply existsb_ext_in. intros [a st] _; simpl.
  unfold is_has; simpl. destruct st; reflexivity.
Qed.
Lemma of_map_no m k : uniq m = true -> no (of_map m) k = match mget m k with Some st => st_no st | None => false end.
Proof.
  intros U. unfold of_map, no. rewrite existsb_map. simpl.
  rewrite <- (existsb_lookup st_no m k U). apply existsb_ext_in. intros [a st] _; simpl.
  unfold is_has; simpl. destruct st; reflexivity.
Qed.
Lemma of_map_exl m k : exl (of_map m) k = false.
Proof.
  unfold of_map, exl. rewrite existsb_map. simpl. apply existsb_false.
Qed.

Lemma all_has_has m k : all_has m = true -> has (of_map m) k = mmem m k.
Proof.
  intros A. unfold of_map, has. rewrite existsb_map. simpl.
  rewrite <- (andb_true_r (mmem m k)). rewrite <- (existsb_key (fun _ => true) m k).
  apply existsb_ext_in. intros [a st] Hp. simpl.
  unfold all_has in A. rewrite forallb_forall in A. specialize (A _ Hp). simpl in A.
  unfold is_has; simpl. destruct st; simpl in *; try discriminate. reflexivity.
Qed.
Lemma all_has_no m k : all_has m = true -> no (of_map m) k = false.
Proof.
  intros A. unfold of_map, no. rewrite existsb_map. simpl.
  rewrite <- (existsb_false m). apply existsb_ext_in. intros [a st] Hp. simpl.
  unfold all_has in A. rewrite forallb_forall in A. specialize (A _ Hp). simpl in A.
  unfold is_has; simpl. destruct st; simpl in *; try discriminate. btauto.
Qed.

Definition excl_inner (S : smap) (b : subject) (q : subject * status) : content :=
  if is_wildcard (fst q) then (if negb (mmem S b) then [mkf b NoRel []] else [])
  else match snd q with NoRel => [mkf (fst q) Has []] | Has => [mkf (fst q) NoRel [fst q]] end.
Definition excl_body_w (S : smap) (sw : bool) (b : subject) : content :=
  (if negb (mmem S b) && negb sw then [mkf b Has []] else []) ++ flat_map (excl_inner S b) S.
Definition excl_body_n (S : smap) (sw : bool) (b : subject) (st : status) : content :=
  if sw || mmem S b then match mget S b with Some NoRel => [mkf b Has []] | _ => [mkf b NoRel []] end
  else [mkf b st []].

Lemma lu_excl_unfold w B S :
  lu_excl w B S =
  flat_map (fun p => if mmem B w then excl_body_w S (mmem S w) (fst p)
                     else excl_body_n S (mmem S w) (fst p) (snd p)) B.
Proof.
  unfold lu_excl. apply flat_map_ext. intros [b st]. simpl.
  destruct (mmem B w); [|reflexivity].
  unfold excl_body_w. f_equal. apply flat_map_ext. intros [s sst]. reflexivity.
Qed.

Definition look (S : smap) (k : subject) (g : status -> bool) : bool :=
  match mget S k with Some st => g st | None => false end.

Lemma existsb_const_nonempty {A} (c : bool) (l : list A) : l <> [] -> existsb (fun _ => c) l = c.
Proof.
  destruct l as [|a l]; [congruence|]. intros _. simpl. destruct c; simpl; auto. apply existsb_false.
Qed.

Lemma mmem_nonempty m k : mmem m k = true -> m <> [].
Proof. destruct m; [discriminate | congruence]. Qed.

Section ExclInner.
  Variables (w : subject) (S : smap) (k : subject).
  Hypothesis Ww : is_wildcard w = true.
  Hypothesis US : uniq S = true.
  Hypothesis OS : one_wild w S = true.
  Hypothesis Kn : is_wildcard k = false.

  Lemma inner_has b :
    has (flat_map (excl_inner S b) S) k = look S k st_no.
  Proof.
    rewrite has_flat_map. unfold look. rewrite <- (existsb_lookup st_no S k US).
    apply existsb_ext_in. intros [s sst] _. unfold excl_inner. simpl.
    destruct (is_wildcard s) eqn:Ws.
    - assert (subject_eqb s k = false) as ->.
      { apply subject_eqb_neq. intros ->. congruence. }
      destruct (mmem S b); cbn [negb]; rewrite ?has_one, ?has_nil; cbn [st_has st_no smem existsb]; btauto.
    - destruct sst; rewrite has_one; cbn [st_has st_no]; btauto.
  Qed.

  Lemma inner_no b :
    no (flat_map (excl_inner S b) S) k = (mmem S w && negb (mmem S b) && subject_eqb b k) || look S k st_has.
  Proof.
    rewrite no_flat_map. unfold look. rewrite <- (existsb_lookup st_has S k US).
    rewrite <- (existsb_wild w S Ww OS).
    rewrite <- !existsb_andb_const_r.
    rewrite <- existsb_orb. apply existsb_ext_in. intros [s sst] _. unfold excl_inner. simpl.
    destruct (is_wildcard s) eqn:Ws.
    - assert (subject_eqb s k = false) as ->.
      { apply subject_eqb_neq. intros ->. congruence. }
      destruct (mmem S b); cbn [negb]; rewrite ?no_one, ?no_nil; cbn [st_has st_no smem existsb]; btauto.
    - destruct sst; rewrite no_one; cbn [st_has st_no]; btauto.
  Qed.

  Lemma inner_exl b :
    exl (flat_map (excl_inner S b) S) k = look S k st_has.
  Proof.
    rewrite exl_flat_map. unfold look. rewrite <- (existsb_lookup st_has S k US).
    apply existsb_ext_in. intros [s sst] _. unfold excl_inner. simpl.
    destruct (is_wildcard s) eqn:Ws.
    - assert (subject_eqb s k = false) as ->.
      { apply subject_eqb_neq. intros ->. congruence. }
      destruct (mmem S b); cbn [negb]; rewrite ?exl_one, ?exl_nil; cbn [st_has st_no smem existsb]; btauto.
    - destruct sst; rewrite exl_one; cbn [st_has st_no smem existsb]; rewrite ?orb_false_r, ?andb_true_r, ?andb_false_r; auto.
      apply subject_eqb_sym.
  Qed.

End ExclInner.

(* the wildcard is never produced by the inner loop *)
Lemma inner_has_w w S b : is_wildcard w = true -> has (flat_map (excl_inner S b) S) w = false.
Proof.
  intros Ww. rewrite has_flat_map. rewrite <- (existsb_false S).
  apply existsb_ext_in. intros [s sst] _. unfold excl_inner. simpl.
  destruct (is_wildcard s) eqn:Ws.
  - destruct (mmem S b); cbn [negb]; rewrite ?has_one, ?has_nil; cbn [st_has st_no smem existsb]; btauto.
  - assert (subject_eqb s w = false) as E.
    { apply subject_eqb_neq. intros Heq. rewrite Heq in Ws. rewrite Ww in Ws. discriminate. }
    destruct sst; rewrite has_one, E; cbn [st_has st_no]; btauto.
Qed.

(* the wildcard entry of the subtract map is never NoRelationship (no code path produces one) *)
Definition wild_has (w : subject) (S : smap) : bool :=
  match mget S w with Some NoRel => false | _ => true end.

Lemma covers_not_wild w k : covers w k = true -> is_wildcard k = false.
Proof. destruct w, k; simpl; try discriminate; auto. Qed.

Lemma covers_is_wild w k : covers w k = true -> is_wildcard w = true.
Proof. destruct w, k; simpl; try discriminate; auto. Qed.

Lemma covers_neq w k : covers w k = true -> subject_eqb k w = false.
Proof.
  intros C. apply subject_eqb_neq. intros ->. rewrite covers_wild in C. discriminate.
Qed.

Section Excl.
  Variables (w : subject) (B S : smap).
  Hypothesis US : uniq S = true.
  Hypothesis AB : all_has B = true.
  Hypothesis OS : one_wild w S = true.
  Hypothesis WS : wild_has w S = true.

  Lemma all_has_entry p : In p B -> snd p = Has.
  Proof.
    intros Hp. unfold all_has in AB. rewrite forallb_forall in AB. specialize (AB p Hp).
    destruct (snd p); auto; discriminate.
  Qed.

  (* base WITH the wildcard *)
  Section BW.
    Hypothesis BW : mmem B w = true.
    Variable k : subject.
    Hypothesis C : covers w k = true.

    Let Ww := covers_is_wild w k C.
    Let Kn := covers_not_wild w k C.

    Lemma excl_bw_out :
      lu_excl w B S = flat_map (fun p => excl_body_w S (mmem S w) (fst p)) B.
    Proof. rewrite lu_excl_unfold, BW. reflexivity. Qed.

    Lemma excl_bw_has :
      has (lu_excl w B S) k = (mmem B k && negb (mmem S k) && negb (mmem S w)) || look S k st_no.
    Proof.
      rewrite excl_bw_out, has_flat_map.
      rewrite (existsb_ext_in _ (fun p => (subject_eqb (fst p) k && (negb (mmem S (fst p)) && negb (mmem S w)))
                                          || look S k st_no)).
      2:{ intros p _. unfold excl_body_w. rewrite has_app, (inner_has S k US Kn).
          destruct (negb (mmem S (fst p)) && negb (mmem S w)); rewrite ?has_one, ?has_nil; cbn [st_has]; btauto. }
      rewrite existsb_orb, (existsb_key (fun b => negb (mmem S b) && negb (mmem S w))).
      rewrite (existsb_const_nonempty _ B (mmem_nonempty B w BW)). btauto.
    Qed.

    Lemma excl_bw_no :
      no (lu_excl w B S) k = (mmem S w && mmem B k && negb (mmem S k)) || look S k st_has.
    Proof.
      rewrite excl_bw_out, no_flat_map.
      rewrite (existsb_ext_in _ (fun p => (subject_eqb (fst p) k && (mmem S w && negb (mmem S (fst p))))
                                          || look S k st_has)).
      2:{ intros p _. unfold excl_body_w. rewrite no_app, (inner_no w S k Ww US OS Kn).
          destruct (negb (mmem S (fst p)) && negb (mmem S w)); rewrite ?no_one, ?no_nil; cbn [st_no]; btauto. }
      rewrite existsb_orb, (existsb_key (fun b => mmem S w && negb (mmem S b))).
      rewrite (existsb_const_nonempty _ B (mmem_nonempty B w BW)). btauto.
    Qed.

    Lemma excl_bw_exl :
      exl (lu_excl w B S) k = look S k st_has.
    Proof.
      rewrite excl_bw_out, exl_flat_map.
      rewrite (existsb_ext_in _ (fun p => look S k st_has)).
      2:{ intros p _. unfold excl_body_w. rewrite exl_app, (inner_exl S k US Kn).
          destruct (negb (mmem S (fst p)) && negb (mmem S w)); rewrite ?exl_one, ?exl_nil; cbn [smem existsb]; btauto. }
      apply (existsb_const_nonempty _ B (mmem_nonempty B w BW)).
    Qed.

    Lemma excl_bw_has_w :
      has (lu_excl w B S) w = negb (mmem S w).
    Proof.
      rewrite excl_bw_out, has_flat_map.
      rewrite (existsb_ext_in _ (fun p => subject_eqb (fst p) w && (negb (mmem S (fst p)) && negb (mmem S w)))).
      2:{ intros p _. unfold excl_body_w. rewrite has_app, inner_has_w by exact Ww.
          destruct (negb (mmem S (fst p)) && negb (mmem S w)); rewrite ?has_one, ?has_nil; cbn [st_has]; btauto. }
      rewrite (existsb_key (fun b => negb (mmem S b) && negb (mmem S w))), BW. btauto.
    Qed.
  End BW.

  (* base WITHOUT the wildcard *)
  Section BN.
    Hypothesis BN : mmem B w = false.
    Variable k : subject.

    Definition excl_h (b : subject) : bool :=
      if mmem S w || mmem S b then look S b st_no else true.

    Lemma excl_bn_has : has (lu_excl w B S) k = mmem B k && excl_h k.
    Proof.
      rewrite lu_excl_unfold, BN, has_flat_map.
      rewrite <- (existsb_key excl_h). apply existsb_ext_in. intros p Hp.
      rewrite (all_has_entry p Hp). unfold excl_body_n, excl_h, look.
      destruct (mmem S w || mmem S (fst p)).
      - destruct (mget S (fst p)) as [[|]|]; rewrite has_one; cbn [st_has st_no]; btauto.
      - rewrite has_one. cbn [st_has]. btauto.
    Qed.
  End BN.

  Lemma excl_bn_has_w : mmem B w = false -> has (lu_excl w B S) w = false.
  Proof. intros BN. rewrite (excl_bn_has BN w), BN. reflexivity. Qed.

  (* expandExclusion denotes "base and not subtract" when every base entry is HasRelationship
     (whatever the subtract branch carries: wildcard, found users, NoRelationship markers) *)
  Theorem lu_excl_den_covered k :
    covers w k = true ->
    den w (lu_excl w B S) k = den w (of_map B) k && negb (den w (of_map S) k).
  Proof.
    intros C.
    pose proof (covers_neq w k C) as Kw.
    assert (DS : den w (of_map S) k = look S k st_has || (mmem S w && negb (look S k st_no))).
    { unfold den. rewrite C, !of_map_has, of_map_no, of_map_exl by exact US. unfold look.
      unfold wild_has in WS. rewrite mmem_mget.
      destruct (mget S w) as [[|]|]; try discriminate; destruct (mget S k) as [[|]|]; reflexivity. }
    assert (DB : den w (of_map B) k = mmem B k || mmem B w).
    { unfold den. rewrite C, !all_has_has, all_has_no, of_map_exl by exact AB. btauto. }
    rewrite DS, DB.
    destruct (mmem B w) eqn:BW.
    - unfold den. rewrite C, (excl_bw_has BW k C), (excl_bw_no BW k C), (excl_bw_exl BW k C), (excl_bw_has_w BW k C).
      unfold look. rewrite !mmem_mget.
      destruct (mget S k) as [[|]|]; destruct (mget S w) as [[|]|]; destruct (mget B k) as [[|]|]; reflexivity.
    - unfold den. rewrite C, (excl_bn_has BW k), (excl_bn_has_w BW). unfold excl_h, look. rewrite !mmem_mget.
      destruct (mget S k) as [[|]|]; destruct (mget S w) as [[|]|]; destruct (mget B k) as [[|]|]; reflexivity.
  Qed.

  (* ... and the wildcard itself is sent iff it is in the base and not in the subtract *)
  Theorem lu_excl_den_wild :
    is_wildcard w = true ->
    den w (lu_excl w B S) w = den w (of_map B) w && negb (den w (of_map S) w).
  Proof.
    intros Ww. unfold den. rewrite covers_wild. simpl. rewrite !orb_false_r.
    rewrite all_has_has by exact AB. rewrite of_map_has by exact US.
    destruct (mmem B w) eqn:BW.
    - assert (H : has (lu_excl w B S) w = negb (mmem S w)).
      { rewrite lu_excl_unfold, BW, has_flat_map.
        rewrite (existsb_ext_in _ (fun p => subject_eqb (fst p) w && (negb (mmem S (fst p)) && negb (mmem S w)))).
        2:{ intros p _. unfold excl_body_w. rewrite has_app, inner_has_w by exact Ww.
            destruct (negb (mmem S (fst p)) && negb (mmem S w)); rewrite ?has_one, ?has_nil; cbn [st_has]; btauto. }
        rewrite (existsb_key (fun b => negb (mmem S b) && negb (mmem S w))), BW. btauto. }
      rewrite H. unfold wild_has in WS. rewrite mmem_mget.
      destruct (mget S w) as [[|]|]; try discriminate; reflexivity.
    - rewrite (excl_bn_has_w BW). reflexivity.
  Qed.
End Excl.

(* ---- de-duplication: foundUsersUnique ---------------------------------------------------------- *)
Lemma choices_keys R ks m : In m (choices R ks) -> map fst m = ks.
Proof.
  revert m. induction ks as [|k ks IH]; simpl; intros m H.
  - destruct H as [<-|[]]. reflexivity.
  - apply in_flat_map in H. destruct H as [st [_ H]].
    apply in_map_iff in H. destruct H as [m' [<- H]]. simpl. rewrite (IH m' H). reflexivity.
Qed.

Lemma resolve_keys R m : In m (resolve R) -> map fst m = sdedup (map f_user R).
Proof. apply choices_keys. Qed.

Lemma final_In m x : In x (final m) -> In x (map fst m).
Proof.
  unfold final. rewrite in_flat_map. intros [p [Hp Hx]].
  destruct (snd p); [|destruct Hx]. destruct Hx as [<-|[]]. apply in_map. exact Hp.
Qed.

Lemma final_NoDup m : NoDup (map fst m) -> NoDup (final m).
Proof.
  induction m as [|p m IH]; simpl; intros H; [constructor|].
  inversion H as [|a l Hn Hd]; subst.
  destruct (snd p); simpl; auto.
  constructor; auto. intros I. apply Hn. apply final_In. exact I.
Qed.

(* whatever arrives on the top-level channel, in whatever order: no entry is returned twice *)
Theorem lu_nodup R m : In m (resolve R) -> NoDup (final m).
Proof. intros H. apply final_NoDup. rewrite (resolve_keys R m H). apply sdedup_NoDup. Qed.

Lemma set_dedup_In l x : In x (set_dedup l) -> In x l.
Proof.
  induction l as [|a l IH]; simpl; auto.
  destruct (existsb _ l); simpl; intros H; auto. destruct H; auto.
Qed.

Theorem list_users_nodup m conds store ft fr limit pruned o r res :
  In res (lf_results (list_users m conds store ft fr limit pruned o r)) -> NoDup res.
Proof.
  unfold list_users. destruct (pruned && negb (N.eqb (otype o) ft && N.eqb r fr)); cbn [lf_results].
  - intros [<-|[]]. constructor.
  - intros H. apply set_dedup_In in H. apply in_flat_map in H. destruct H as [c [_ H]].
    apply in_map_iff in H. destruct H as [mp [<- H]]. apply (lu_nodup c mp H).
Qed.

(* ---- every entry matches the user filter ... as far as the code checks it --------------------- *)
(* What expand / expandDirect enforce: a userset entry has the filter's type AND relation; an object
   or typed wildcard entry has the filter's type -- the filter's relation is not looked at. *)
Definition key_ok (ft : tid) (fr : rid) (u : subject) : bool :=
  match u with
  | SSet o r => N.eqb (otype o) ft && N.eqb r fr
  | SObj o => N.eqb (otype o) ft
  | SWild t => N.eqb t ft
  end.

(* what the filter asks for *)
Definition filter_match (ft : tid) (fr : rid) (u : subject) : bool :=
  match u with
  | SSet o r => N.eqb (otype o) ft && N.eqb r fr && negb (N.eqb fr 0)
  | SObj o => N.eqb (otype o) ft && N.eqb fr 0
  | SWild t => N.eqb t ft && N.eqb fr 0
  end.

Definition keys_ok (ft : tid) (fr : rid) (c : content) : Prop := forall e, In e c -> key_ok ft fr (f_user e) = true.
Definition outs_ok (ft : tid) (fr : rid) (x : lres) : Prop := forall c, In c (l_outs x) -> keys_ok ft fr c.

Lemma cdedup_In l c : In c (cdedup l) -> In c l.
Proof.
  induction l as [|a l IH]; simpl; auto.
  destruct (existsb _ l); simpl; intros H; auto. destruct H; auto.
Qed.

Lemma cart_In {A} (ls : list (list A)) cs : In cs (cart ls) -> Forall2 (fun c l => In c l) cs ls.
Proof.
  revert cs. induction ls as [|l ls IH]; simpl; intros cs H.
  - destruct H as [<-|[]]. constructor.
  - apply in_flat_map in H. destruct H as [x [Hx H]]. apply in_map_iff in H. destruct H as [cs' [<- H]].
    constructor; auto.
Qed.

Lemma Forall2_In_l {A B} (P : A -> B -> Prop) la lb a : Forall2 P la lb -> In a la -> exists b, In b lb /\ P a b.
Proof.
  induction 1 as [|x y la lb Hxy H IH]; simpl; intros I; [destruct I|].
  destruct I as [<-|I]; [exists y; auto|]. destruct (IH I) as [b [Hb Pb]]. exists b; auto.
Qed.

Lemma has_key_In R k : has R k = true -> exists e, In e R /\ f_user e = k.
Proof.
  unfold has. rewrite existsb_exists. intros [e [He H]]. apply andb_true_iff in H. destruct H as [H _].
  apply subject_eqb_eq in H. exists e; auto.
Qed.

Lemma lu_union_keys Rs e : In e (lu_union Rs) -> exists R e', In R Rs /\ In e' R /\ f_user e' = f_user e.
Proof.
  unfold lu_union. rewrite in_map_iff. intros [k [<- Hk]]. simpl.
  apply (proj1 (sdedup_In _ _)) in Hk. apply (proj2 (smem_In _ _)) in Hk. rewrite smem_has_keys, has_concat in Hk.
  apply existsb_exists in Hk. destruct Hk as [R [HR Hk]]. apply has_key_In in Hk. destruct Hk as [e' [He' Hu]].
  exists R, e'. auto.
Qed.

Lemma lu_inter_keys w Rs e : In e (lu_inter w Rs) -> exists R e', In R Rs /\ In e' R /\ f_user e' = f_user e.
Proof.
  unfold lu_inter. rewrite in_map_iff. intros [k [<- Hk]]. simpl.
  apply filter_In in Hk. destruct Hk as [Hk _].
  apply (proj1 (sdedup_In _ _)) in Hk. apply (proj2 (smem_In _ _)) in Hk. rewrite smem_flat_map in Hk.
  apply existsb_exists in Hk. destruct Hk as [R [HR Hk]]. cbv beta in Hk. rewrite smem_has_keys in Hk.
  apply has_key_In in Hk. destruct Hk as [e' [He' Hu]]. exists R, e'. auto.
Qed.

Lemma lu_excl_keys w B S e : In e (lu_excl w B S) -> In (f_user e) (map fst B) \/ In (f_user e) (map fst S).
Proof.
  rewrite lu_excl_unfold. rewrite in_flat_map. intros [p [Hp H]].
  destruct (mmem B w).
  - unfold excl_body_w in H. apply in_app_or in H. destruct H as [H|H].
    + destruct (negb (mmem S (fst p)) && negb (mmem S w)); [|destruct H].
      destruct H as [<-|[]]. left. cbn [f_user mkf]; apply in_map. exact Hp.
    + apply in_flat_map in H. destruct H as [q [Hq H]]. unfold excl_inner in H.
      destruct (is_wildcard (fst q)).
      * destruct (negb (mmem S (fst p))); [|destruct H]. destruct H as [<-|[]]. left. cbn [f_user mkf]; apply in_map. exact Hp.
      * destruct (snd q); destruct H as [<-|[]]; right; cbn [f_user mkf]; apply in_map; exact Hq.
  - unfold excl_body_n in H. left.
    destruct (mmem S w || mmem S (fst p)).
    + destruct (mget S (fst p)) as [[|]|]; destruct H as [<-|[]]; cbn [f_user mkf]; apply in_map; exact Hp.
    + destruct H as [<-|[]]. cbn [f_user mkf]; apply in_map; exact Hp.
Qed.

Lemma resolve_keys_In R mp k : In mp (resolve R) -> In k (map fst mp) -> exists e, In e R /\ f_user e = k.
Proof.
  intros H I. rewrite (resolve_keys R mp H) in I. apply (proj1 (sdedup_In _ _)) in I. apply in_map_iff in I.
  destruct I as [e [<- He]]. exists e; auto.
Qed.

Section FilterTyped.
  Variables (m : model) (conds : list cid) (store : list tuple) (ft : tid) (fr : rid) (limit : nat).

  Lemma merge_ok here subs kc ce :
    keys_ok ft fr here -> (forall x, In x subs -> outs_ok ft fr x) ->
    outs_ok ft fr (merge ft here subs kc ce).
  Proof.
    intros Hh Hs c Hc. unfold merge in Hc. simpl in Hc. apply cdedup_In in Hc.
    apply in_map_iff in Hc. destruct Hc as [cs [<- Hcs]]. apply cart_In in Hcs.
    intros e He. apply in_app_or in He. destruct He as [He|He]; [apply Hh; exact He|].
    apply in_concat in He. destruct He as [c' [Hc' He]].
    destruct (Forall2_In_l _ _ _ _ Hcs Hc') as [l [Hl Hin]].
    apply in_map_iff in Hl. destruct Hl as [x [<- Hx]]. exact (Hs x Hx c' Hin e He).
  Qed.

  Lemma expand_rw_ok dispatch :
    (forall o r, outs_ok ft fr (dispatch o r)) ->
    forall rw o r, outs_ok ft fr (expand_rw m conds store ft dispatch o rw r).
  Proof.
    intros HD rw. induction rw as [|r'|ts c|l IH|l IH|b s IHb IHs] using rewrite_ind'; intros o r.
    - simpl. apply merge_ok.
      + intros e He. apply in_flat_map in He. destruct He as [t [_ He]].
        destruct (t_sub t) as [u|ty|o' r'].
        * destruct (N.eqb (otype u) ft) eqn:E; [|destruct He]. destruct He as [<-|[]]. simpl. exact E.
        * destruct (N.eqb ty ft) eqn:E; [|destruct He]. destruct He as [<-|[]]. simpl. exact E.
        * destruct He.
      + intros x Hx. apply in_flat_map in Hx. destruct Hx as [t [_ Hx]].
        destruct (t_sub t) as [u|ty|o' r'']; [destruct Hx | destruct Hx |]. destruct Hx as [<-|[]]. apply HD.
    - simpl. apply HD.
    - simpl. apply merge_ok.
      + intros e [].
      + intros x Hx. apply in_flat_map in Hx. destruct Hx as [t [_ Hx]].
        destruct (t_sub t) as [u|ty|o' r'']; [| destruct Hx | destruct Hx]. destruct Hx as [<-|[]]. apply HD.
    - simpl. intros c Hc. simpl in Hc. apply cdedup_In in Hc. apply in_map_iff in Hc.
      destruct Hc as [cs [<- Hcs]]. apply cart_In in Hcs.
      intros e He. apply lu_union_keys in He. destruct He as [R [e' [HR [He' Hu]]]]. rewrite <- Hu.
      destruct (Forall2_In_l _ _ _ _ Hcs HR) as [lo [Hlo Hin]].
      apply in_map_iff in Hlo. destruct Hlo as [x [<- Hx]].
      assert (Hx' : exists y, In y l /\ x = expand_rw m conds store ft dispatch o y r).
      { clear - Hx. induction l as [|y l IHl]; simpl in Hx; [destruct Hx|].
        destruct Hx as [<-|Hx]; [exists y; split; [left; reflexivity|reflexivity]|].
        destruct (IHl Hx) as [z [Hz ->]]. exists z; split; [right; exact Hz|reflexivity]. }
      destruct Hx' as [y [Hy ->]]. rewrite Forall_forall in IH. exact (IH y Hy o r R Hin e' He').
    - simpl. intros c Hc. simpl in Hc. apply cdedup_In in Hc. apply in_map_iff in Hc.
      destruct Hc as [cs [<- Hcs]]. apply cart_In in Hcs.
      intros e He. apply lu_inter_keys in He. destruct He as [R [e' [HR [He' Hu]]]]. rewrite <- Hu.
      destruct (Forall2_In_l _ _ _ _ Hcs HR) as [lo [Hlo Hin]].
      apply in_map_iff in Hlo. destruct Hlo as [x [<- Hx]].
      assert (Hx' : exists y, In y l /\ x = expand_rw m conds store ft dispatch o y r).
      { clear - Hx. induction l as [|y l IHl]; simpl in Hx; [destruct Hx|].
        destruct Hx as [<-|Hx]; [exists y; split; [left; reflexivity|reflexivity]|].
        destruct (IHl Hx) as [z [Hz ->]]. exists z; split; [right; exact Hz|reflexivity]. }
      destruct Hx' as [y [Hy ->]]. rewrite Forall_forall in IH. exact (IH y Hy o r R Hin e' He').
    - simpl. destruct (l_cyc (expand_rw m conds store ft dispatch o s r)).
      + intros c Hc. simpl in Hc. destruct Hc as [<-|[]]. intros e [].
      + intros c Hc. simpl in Hc. apply cdedup_In in Hc. apply in_flat_map in Hc.
        destruct Hc as [[bc sc] [Hp Hc]]. simpl in Hc.
        apply in_flat_map in Hp. destruct Hp as [bc' [Hbc Hp]]. apply in_map_iff in Hp.
        destruct Hp as [sc' [Heq Hsc]]. inversion Heq; subst bc' sc'.
        apply in_flat_map in Hc. destruct Hc as [Bm [HB Hc]]. apply in_map_iff in Hc.
        destruct Hc as [Sm [<- HS]].
        intros e He. apply lu_excl_keys in He. destruct He as [He|He].
        * destruct (resolve_keys_In _ _ _ HB He) as [e' [He' <-]]. exact (IHb o r bc Hbc e' He').
        * destruct (resolve_keys_In _ _ _ HS He) as [e' [He' <-]]. exact (IHs o r sc Hsc e' He').
  Qed.

  Lemma add_here_ok here x : keys_ok ft fr here -> outs_ok ft fr x -> outs_ok ft fr (add_here here x).
  Proof.
    intros Hh Hx c Hc. unfold add_here in Hc. simpl in Hc. apply in_map_iff in Hc.
    destruct Hc as [c' [<- Hc']]. intros e He. apply in_app_or in He. destruct He as [He|He]; auto.
    exact (Hx c' Hc' e He).
  Qed.

  Lemma single_empty_ok (x : lres) : l_outs x = [[]] -> outs_ok ft fr x.
  Proof. intros E c Hc. rewrite E in Hc. destruct Hc as [<-|[]]. intros e []. Qed.

  Lemma expand_ok fuel : forall depth visited o r, outs_ok ft fr (expand m conds store ft fr limit fuel depth visited o r).
  Proof.
    induction fuel as [|f IH]; intros depth visited o r; simpl.
    - apply single_empty_ok; reflexivity.
    - destruct (Nat.leb limit depth); [apply single_empty_ok; reflexivity|].
      destruct (existsb (atom_eqb (o, r)) visited); [apply single_empty_ok; reflexivity|].
      assert (Hh : keys_ok ft fr (if N.eqb (otype o) ft && N.eqb r fr then [mkf (SSet o r) Has []] else [])).
      { destruct (N.eqb (otype o) ft && N.eqb r fr) eqn:E; intros e He; [|destruct He].
        destruct He as [<-|[]]. simpl. exact E. }
      destruct (find_type m (otype o)) as [td|]; [|apply add_here_ok; [exact Hh | apply single_empty_ok; reflexivity]].
      destruct (find_rel (td_rels td) r) as [rd|]; [|apply add_here_ok; [exact Hh | apply single_empty_ok; reflexivity]].
      apply add_here_ok; [exact Hh|]. apply expand_rw_ok. intros o' r'. apply IH.
  Qed.

  (* AS CODED: every returned entry has the filter's type; a returned userset also has the filter's
     relation.  (The full statement -- objects and wildcards are returned only for filters without
     a relation -- is refuted below: lu_filter_typed_refuted.) *)
  Theorem lu_filter_typed_partial pruned o r res u :
    In res (lf_results (list_users m conds store ft fr limit pruned o r)) -> In u res ->
    key_ok ft fr u = true.
  Proof.
    unfold list_users. destruct (pruned && negb (N.eqb (otype o) ft && N.eqb r fr)); cbn [lf_results].
    - intros [<-|[]] [].
    - intros H Hu. apply set_dedup_In in H. apply in_flat_map in H. destruct H as [c [Hc H]].
      apply in_map_iff in H. destruct H as [mp [<- Hmp]].
      apply final_In in Hu. destruct (resolve_keys_In _ _ _ Hmp Hu) as [e [He <-]].
      exact (expand_ok _ _ _ _ _ c Hc e He).
  Qed.

End FilterTyped.

(* ================================================================================================ *)
(* Refutations: the denotational equations are FALSE of the code outside the hypotheses above.      *)
(* Every witness is replayed on the real ListUsers (corpus/C06-witnesses.jsonl).                    *)
(* ================================================================================================ *)
Definition tU : tid := 1.
Definition W1 : subject := SWild tU.
Definition ua : subject := SObj {| otype := tU; oid := 1 |}.
Definition ub : subject := SObj {| otype := tU; oid := 2 |}.
Definition uc : subject := SObj {| otype := tU; oid := 3 |}.

(* expandUnion keeps an exclusion only when EVERY operand lists it: `(all but not a) or nobody`
   denotes "all but a", the union's output denotes "all" *)
Theorem lu_union_den_refuted :
  exists w Rs k, covers w k = true /\ den w (lu_union Rs) k <> existsb (fun R => den w R k) Rs.
Proof.
  exists W1, [[mkf W1 Has []; mkf ua NoRel [ua]]; []], ua. split; [reflexivity|]. vm_compute. discriminate.
Qed.

(* ... and it counts occurrences, not operands: two entries of ONE operand listing b make b
   "excluded by both operands", although the other operand found b; the intersection above then
   drops b *)
Theorem lu_union_excl_found_refuted :
  exists Rs k, has (lu_union Rs) k = true /\ exl (lu_union Rs) k = true.
Proof.
  exists [[mkf W1 Has []; mkf ub NoRel [ub]; mkf uc Has []; mkf ub NoRel [ub]]; [mkf ub Has []]], ub.
  vm_compute. split; reflexivity.
Qed.

Theorem lu_inter_den_refuted :
  exists w Rs k, Rs <> [] /\ covers w k = true /\ den w (lu_inter w Rs) k <> forallb (fun R => den w R k) Rs.
Proof.
  exists W1, [[mkf W1 Has [ub]; mkf ub Has [ub]]; [mkf ub Has []]], ub.
  split; [discriminate|]. split; [reflexivity|]. vm_compute. discriminate.
Qed.

(* expandExclusion, base with the wildcard: the status of the base entries is not looked at *)
Theorem lu_excl_den_refuted :
  exists w B S k, uniq B = true /\ uniq S = true /\ covers w k = true /\
    den w (lu_excl w B S) k <> den w (of_map B) k && negb (den w (of_map S) k).
Proof.
  exists W1, [(W1, Has); (ua, NoRel)], [], ua. repeat split; try reflexivity. vm_compute. discriminate.
Qed.

(* expandExclusion, base without the wildcard: "not in base" and "not in subtract" give "in" *)
Theorem lu_excl_den_refuted_norel :
  exists w B S k, uniq B = true /\ uniq S = true /\ covers w k = true /\
    den w (lu_excl w B S) k <> den w (of_map B) k && negb (den w (of_map S) k).
Proof.
  exists W1, [(ua, NoRel)], [(ua, NoRel)], ua. repeat split; try reflexivity. vm_compute. discriminate.
Qed.

(* expandExclusion forgets the excludedUsers of its operands (an intersection below it) *)
Theorem lu_excl_drops_excluded_refuted :
  exists w Bc B k, In B (resolve Bc) /\ covers w k = true /\
    den w (lu_excl w B []) k <> den w Bc k && negb (den w [] k).
Proof.
  exists W1, [mkf W1 Has [ua]], [(W1, Has)], ua. split; [left; reflexivity|]. split; [reflexivity|].
  vm_compute. discriminate.
Qed.

(* several dispatches writing to one channel are an implicit union that nobody computes *)
Theorem merge_den_refuted :
  exists w R1 R2 k, covers w k = true /\ den w (R1 ++ R2) k <> den w R1 k || den w R2 k.
Proof.
  exists W1, [mkf W1 Has []; mkf ua NoRel [ua]], [mkf W1 Has []], ua. split; [reflexivity|]. vm_compute. discriminate.
Qed.

(* one key received with both statuses: the answer depends on the arrival order *)
Theorem resolve_race_refuted :
  exists R m1 m2, In m1 (resolve R) /\ In m2 (resolve R) /\ final m1 = [ua] /\ final m2 = [].
Proof.
  exists [mkf ua Has []; mkf ua NoRel []], [(ua, Has)], [(ua, NoRel)].
  vm_compute. repeat split; auto.
Qed.

(* ---- whole requests: model + tuples + reference semantics ------------------------------------- *)
Definition mk_obj (t i : N) : obj := {| otype := t; oid := i |}.
Definition mk_t (o : obj) (r : rid) (s : subject) : tuple := {| t_obj := o; t_rel := r; t_sub := s; t_cond := 0; t_ceval := T |}.
Definition rU : restriction := {| r_type := tU; r_kind := RObj; r_cond := 0 |}.
Definition rW : restriction := {| r_type := tU; r_kind := RWild; r_cond := 0 |}.
Definition tDoc : tid := 2.
Definition doc1 : obj := mk_obj tDoc 1.

(* doc: base [user, user:*], blocked [user], banned [user],
        viewer: (base but not blocked) but not banned
   doc:1#base@user:*, doc:1#blocked@user:a *)
Definition m_nested : model :=
  [ {| td_type := tU; td_rels := [] |};
    {| td_type := tDoc; td_rels :=
         [ {| rd_rel := 1; rd_rw := This; rd_restr := [rU; rW] |};
           {| rd_rel := 2; rd_rw := This; rd_restr := [rU] |};
           {| rd_rel := 3; rd_rw := This; rd_restr := [rU] |};
           {| rd_rel := 4; rd_rw := Diff (Diff (Computed 1) (Computed 2)) (Computed 3); rd_restr := [] |} ] |} ].
Definition s_nested : list tuple := [ mk_t doc1 1 W1; mk_t doc1 2 ua ].
Definition a_nested : list atom := [ (doc1, 1); (doc1, 2); (doc1, 3); (doc1, 4) ].

(* SOUNDNESS is refuted: ListUsers(doc:1, viewer, user) = {user:*, user:a}, user:a is blocked *)
Theorem list_users_sound_refuted :
  exists m conds store atoms ft fr limit o r res u,
    stratified m = true /\ converged m conds store u atoms = true /\
    lf_errs (list_users m conds store ft fr limit false o r) = [] /\
    In res (lf_results (list_users m conds store ft fr limit false o r)) /\ In u res /\
    holds3 m conds store u atoms o r = F.
Proof.
  exists m_nested, [], s_nested, a_nested, tU, 0, 25%nat, doc1, 4, [W1; ua], ua.
  vm_compute. repeat split; auto.
Qed.

(* doc: base [user, user:*], blocked [user], editor [user], owner [user],
        viewer: ((base but not blocked) or editor) and owner
   base@user:*, base@user:c, blocked@user:b, editor@user:b, owner@user:b *)
Definition m_omit : model :=
  [ {| td_type := tU; td_rels := [] |};
    {| td_type := tDoc; td_rels :=
         [ {| rd_rel := 1; rd_rw := This; rd_restr := [rU; rW] |};
           {| rd_rel := 2; rd_rw := This; rd_restr := [rU] |};
           {| rd_rel := 3; rd_rw := This; rd_restr := [rU] |};
           {| rd_rel := 4; rd_rw := This; rd_restr := [rU] |};
           {| rd_rel := 5; rd_rw := Inter [Union [Diff (Computed 1) (Computed 2); Computed 3]; Computed 4]; rd_restr := [] |} ] |} ].
Definition s_omit : list tuple := [ mk_t doc1 1 W1; mk_t doc1 1 uc; mk_t doc1 2 ub; mk_t doc1 3 ub; mk_t doc1 4 ub ].
Definition a_omit : list atom := [ (doc1, 1); (doc1, 2); (doc1, 3); (doc1, 4); (doc1, 5) ].

(* COMPLETENESS is refuted: user:b is editor and owner, ListUsers(doc:1, viewer, user) = {} *)
Theorem list_users_complete_refuted :
  exists m conds store atoms ft fr limit o r u,
    stratified m = true /\ converged m conds store u atoms = true /\
    lf_errs (list_users m conds store ft fr limit false o r) = [] /\
    lf_results (list_users m conds store ft fr limit false o r) = [[]] /\
    covers (SWild ft) u = true /\
    holds3 m conds store u atoms o r = T.
Proof.
  exists m_omit, [], s_omit, a_omit, tU, 0, 25%nat, doc1, 5, ub.
  vm_compute. repeat split; auto.
Qed.

(* the filter's relation is ignored for objects: filter group#member, tuple doc:1#viewer@group:1 *)
Definition tGroup : tid := 3.
Definition m_filter : model :=
  [ {| td_type := tU; td_rels := [] |};
    {| td_type := tGroup; td_rels := [ {| rd_rel := 1; rd_rw := This; rd_restr := [rU] |} ] |};
    {| td_type := tDoc; td_rels :=
         [ {| rd_rel := 2; rd_rw := This;
              rd_restr := [ {| r_type := tGroup; r_kind := RObj; r_cond := 0 |};
                            {| r_type := tGroup; r_kind := RSet 1; r_cond := 0 |} ] |} ] |} ].
Definition s_filter : list tuple := [ mk_t doc1 2 (SObj (mk_obj tGroup 1)) ].

Theorem lu_filter_typed_refuted :
  exists m conds store ft fr limit o r res u,
    validate m ft fr o r = None /\
    In res (lf_results (list_users m conds store ft fr limit false o r)) /\ In u res /\
    filter_match ft fr u = false.
Proof.
  exists m_filter, [], s_filter, tGroup, 1, 25%nat, doc1, 2, [SObj (mk_obj tGroup 1)], (SObj (mk_obj tGroup 1)).
  vm_compute. repeat split; auto.
Qed.

(* ---- non-vacuity of the hypotheses ------------------------------------------------------------- *)
(* union: three positive operands, wildcards in two of them *)
Example lu_union_den_ex :
  let Rs := [[mkf W1 Has []; mkf ua Has []]; [mkf ub Has []]; [mkf W1 Has []]] in
  forallb clean Rs = true /\ den W1 (lu_union Rs) uc = true /\ has (lu_union Rs) uc = false.
Proof. vm_compute. repeat split. Qed.

(* intersection: `(all but not a)`, `{a, b, c}`, `all`: operands of an exclusion's shape *)
Example lu_inter_den_ex :
  let Rs := [[mkf W1 Has []; mkf ua NoRel [ua]]; [mkf ua Has []; mkf ub Has []; mkf uc Has []]; [mkf W1 Has []]] in
  forallb (wf_op W1) Rs = true /\ Rs <> [] /\
  den W1 (lu_inter W1 Rs) ua = false /\ den W1 (lu_inter W1 Rs) ub = true /\ has (lu_inter W1 Rs) W1 = false.
Proof. vm_compute. repeat split; discriminate. Qed.

(* exclusion: base {*, a}, subtract {* except b, plus c}: the answer is "b" *)
Example lu_excl_den_ex :
  let B := [(W1, Has); (ua, Has)] in
  let S := [(W1, Has); (ub, NoRel); (uc, Has)] in
  uniq S = true /\ all_has B = true /\ one_wild W1 S = true /\ wild_has W1 S = true /\
  den W1 (lu_excl W1 B S) ub = true /\ den W1 (lu_excl W1 B S) ua = false /\ den W1 (lu_excl W1 B S) uc = false.
Proof. vm_compute. repeat split. Qed.

Example lu_nodup_ex :
  let R := [mkf ua Has []; mkf ub NoRel []; mkf ua Has []; mkf W1 Has []] in
  resolve R = [[(ub, NoRel); (ua, Has); (W1, Has)]] /\ final [(ub, NoRel); (ua, Has); (W1, Has)] = [ua; W1].
Proof. vm_compute. split; reflexivity. Qed.

Example lu_filter_typed_ex :
  lf_results (list_users m_nested [] s_nested tU 0 25%nat false doc1 1) = [[W1]] /\ key_ok tU 0 W1 = true.
Proof. vm_compute. split; reflexivity. Qed.

(* ---- the keys of a traversal that is cut short -------------------------------------------------- *)
(* list_users_may (every key any source can send, set operators ignored) contains every key of every
   complete answer: the over-approximation used for answers returned although the traversal failed
   (result limit reached before the error surfaced). *)
Section MayKeys.
  Variables (m : model) (conds : list cid) (store : list tuple) (ft : tid) (fr : rid) (limit : nat).

  Lemma merge_entries' here subs kc ce c e :
    In c (l_outs (merge ft here subs kc ce)) -> In e c ->
    In e here \/ exists x c', In x subs /\ In c' (l_outs x) /\ In e c'.
  Proof.
    intros Hc He. unfold merge in Hc. cbn [l_outs] in Hc. apply cdedup_In in Hc.
    apply in_map_iff in Hc. destruct Hc as [cs [<- Hcs]]. apply cart_In in Hcs.
    apply in_app_or in He. destruct He as [He|He]; [left; exact He|right].
    apply in_concat in He. destruct He as [c' [Hc' He]].
    destruct (Forall2_In_l _ _ _ _ Hcs Hc') as [lo [Hlo Hin]].
    apply in_map_iff in Hlo. destruct Hlo as [x [<- Hx]]. exists x, c'. auto.
  Qed.

  Lemma go_keys_In (kd : obj -> rid -> list subject) o r l y k :
    In y l -> In k (keys_rw m conds store ft kd o y r) ->
    In k ((fix go (l : list rewrite) : list subject :=
             match l with [] => [] | x :: l' => keys_rw m conds store ft kd o x r ++ go l' end) l).
  Proof.
    induction l as [|x l IH]; intros Hy Hk; [destruct Hy|].
    apply in_or_app. destruct Hy as [->|Hy]; [left; exact Hk | right; apply IH; assumption].
  Qed.

  Lemma go_lres_In (dispatch : obj -> rid -> lres) o r l x :
    In x ((fix go (l : list rewrite) : list lres :=
             match l with [] => [] | y :: l' => expand_rw m conds store ft dispatch o y r :: go l' end) l) ->
    exists y, In y l /\ x = expand_rw m conds store ft dispatch o y r.
  Proof.
    induction l as [|y l IHl]; intros Hx; [destruct Hx|].
    destruct Hx as [<-|Hx]; [exists y; split; [left; reflexivity|reflexivity]|].
    destruct (IHl Hx) as [z [Hz ->]]. exists z; split; [right; exact Hz|reflexivity].
  Qed.

  Section Step.
    Variable dispatch : obj -> rid -> lres.
    Variable kd : obj -> rid -> list subject.
    Hypothesis HD : forall o r c e, In c (l_outs (dispatch o r)) -> In e c -> In (f_user e) (kd o r).

    Lemma expand_rw_keys rw : forall o r c e,
      In c (l_outs (expand_rw m conds store ft dispatch o rw r)) -> In e c ->
      In (f_user e) (keys_rw m conds store ft kd o rw r).
    Proof.
      induction rw as [|r'|ts cc|l IH|l IH|b s IHb IHs] using rewrite_ind'; intros o r c e Hc He.
      - cbn [expand_rw] in Hc. cbn [keys_rw]. apply in_flat_map.
        destruct (merge_entries' _ _ _ _ _ _ Hc He) as [Hh | [x [c' [Hx [Hc' He']]]]].
        + apply in_flat_map in Hh. destruct Hh as [t [Ht Hh]]. exists t. split; [exact Ht|].
          destruct (t_sub t) as [u|ty|o' r''].
          * destruct (N.eqb (otype u) ft); [|destruct Hh]. destruct Hh as [<-|[]]. left; reflexivity.
          * destruct (N.eqb ty ft); [|destruct Hh]. destruct Hh as [<-|[]]. left; reflexivity.
          * destruct Hh.
        + apply in_flat_map in Hx. destruct Hx as [t [Ht Hx]]. exists t. split; [exact Ht|].
          destruct (t_sub t) as [u|ty|o' r'']; [destruct Hx | destruct Hx |].
          destruct Hx as [<-|[]]. exact (HD o' r'' c' e Hc' He').
      - cbn [expand_rw] in Hc. cbn [keys_rw]. exact (HD o r' c e Hc He).
      - cbn [expand_rw] in Hc. cbn [keys_rw]. apply in_flat_map.
        destruct (merge_entries' _ _ _ _ _ _ Hc He) as [[] | [x [c' [Hx [Hc' He']]]]].
        apply in_flat_map in Hx. destruct Hx as [t [Ht Hx]]. exists t. split; [exact Ht|].
        destruct (t_sub t) as [o'|ty|o' r'']; [| destruct Hx | destruct Hx].
        destruct Hx as [<-|[]]. exact (HD o' cc c' e Hc' He').
      - cbn [expand_rw l_outs] in Hc. cbn [keys_rw]. apply cdedup_In in Hc. apply in_map_iff in Hc.
        destruct Hc as [cs [<- Hcs]]. apply cart_In in Hcs.
        apply lu_union_keys in He. destruct He as [R [e' [HR [He' Hu]]]]. rewrite <- Hu.
        destruct (Forall2_In_l _ _ _ _ Hcs HR) as [lo [Hlo Hin]].
        apply in_map_iff in Hlo. destruct Hlo as [x [<- Hx]].
        destruct (go_lres_In _ _ _ _ _ Hx) as [y [Hy ->]]. rewrite Forall_forall in IH.
        apply (go_keys_In kd o r l y); [exact Hy | exact (IH y Hy o r R e' Hin He')].
      - cbn [expand_rw l_outs] in Hc. cbn [keys_rw]. apply cdedup_In in Hc. apply in_map_iff in Hc.
        destruct Hc as [cs [<- Hcs]]. apply cart_In in Hcs.
        apply lu_inter_keys in He. destruct He as [R [e' [HR [He' Hu]]]]. rewrite <- Hu.
        destruct (Forall2_In_l _ _ _ _ Hcs HR) as [lo [Hlo Hin]].
        apply in_map_iff in Hlo. destruct Hlo as [x [<- Hx]].
        destruct (go_lres_In _ _ _ _ _ Hx) as [y [Hy ->]]. rewrite Forall_forall in IH.
        apply (go_keys_In kd o r l y); [exact Hy | exact (IH y Hy o r R e' Hin He')].
      - cbn [expand_rw] in Hc. cbn [keys_rw]. apply in_or_app.
        destruct (l_cyc (expand_rw m conds store ft dispatch o s r)).
        + cbn [l_outs] in Hc. destruct Hc as [<-|[]]. destruct He.
        + cbn [l_outs] in Hc. apply cdedup_In in Hc. apply in_flat_map in Hc.
          destruct Hc as [[bc sc] [Hp Hc]]. cbn [fst snd] in Hc.
          apply in_flat_map in Hp. destruct Hp as [bc' [Hbc Hp]]. apply in_map_iff in Hp.
          destruct Hp as [sc' [Heq Hsc]]. inversion Heq; subst bc' sc'.
          apply in_flat_map in Hc. destruct Hc as [Bm [HB Hc]]. apply in_map_iff in Hc.
          destruct Hc as [Sm [<- HS]].
          apply lu_excl_keys in He. destruct He as [He|He].
          * destruct (resolve_keys_In _ _ _ HB He) as [e' [He' <-]]. left. exact (IHb o r bc e' Hbc He').
          * destruct (resolve_keys_In _ _ _ HS He) as [e' [He' <-]]. right. exact (IHs o r sc e' Hsc He').
    Qed.
  End Step.

  Lemma expand_keys fuel : forall depth visited o r c e,
    In c (l_outs (expand m conds store ft fr limit fuel depth visited o r)) -> In e c ->
    In (f_user e) (keys_expand m conds store ft fr limit fuel depth visited o r).
  Proof.
    induction fuel as [|f IH]; intros depth visited o r c e; cbn [expand keys_expand].
    - intros [<-|[]] [].
    - destruct (Nat.leb limit depth); [intros [<-|[]] []|].
      destruct (existsb (atom_eqb (o, r)) visited); [intros [<-|[]] []|].
      intros Hc He. apply in_or_app.
      assert (G : forall (x : lres) K,
                 (forall c' e', In c' (l_outs x) -> In e' c' -> In (f_user e') K) ->
                 In c (l_outs (add_here (if N.eqb (otype o) ft && N.eqb r fr then [mkf (SSet o r) Has []] else []) x)) ->
                 In (f_user e) (if N.eqb (otype o) ft && N.eqb r fr then [SSet o r] else []) \/ In (f_user e) K).
      { intros x K HK Hc'. unfold add_here in Hc'. cbn [l_outs] in Hc'. apply in_map_iff in Hc'.
        destruct Hc' as [c' [<- Hc'']]. apply in_app_or in He. destruct He as [He|He].
        - left. destruct (N.eqb (otype o) ft && N.eqb r fr); [|destruct He]. destruct He as [<-|[]]. left; reflexivity.
        - right. exact (HK c' e Hc'' He). }
      destruct (find_type m (otype o)) as [td|].
      2:{ apply (G (lres_err LOther) []); [intros c' e' [<-|[]] [] | exact Hc]. }
      destruct (find_rel (td_rels td) r) as [rd|].
      2:{ apply (G lres_empty []); [intros c' e' [<-|[]] [] | exact Hc]. }
      apply (G _ _ (fun c' e' => expand_rw_keys _ _ (fun o' r' c'' e'' => IH (S depth) ((o, r) :: visited) o' r' c'' e'') (rd_rw rd) o r c' e')).
      exact Hc.
  Qed.

  Theorem list_users_may_covers pruned o r res u :
    In res (lf_results (list_users m conds store ft fr limit pruned o r)) -> In u res ->
    In u (list_users_may m conds store ft fr limit pruned o r).
  Proof.
    unfold list_users, list_users_may.
    destruct (pruned && negb (N.eqb (otype o) ft && N.eqb r fr)); cbn [lf_results].
    - intros [<-|[]] [].
    - intros H Hu. apply set_dedup_In in H. apply in_flat_map in H. destruct H as [c [Hc H]].
      apply in_map_iff in H. destruct H as [mp [<- Hmp]].
      apply final_In in Hu. destruct (resolve_keys_In _ _ _ Hmp Hu) as [e [He <-]].
      apply sdedup_In. exact (expand_keys _ _ _ _ _ c e Hc He).
  Qed.
End MayKeys.
