(* C20 — Expand (Query/Expand.v, pkg/server/commands/expand.go) needs no fuel at all: resolveUserset
   recurses on the REWRITE of the requested relation only and never follows a tuple, a computed
   userset or a tuple-to-userset into another (object, relation).  Cyclic tuples therefore cannot
   make it loop; the model is a structural Fixpoint over the rewrite, and the tree it returns has
   exactly as many nodes as the rewrite has constructors, whatever the tuples are
   (expand_tree_size), i.e. one Expand performs at most rw_nodes rw datastore reads (one per
   `this` / tuple-to-userset leaf: rw_reads). *)
From Coq Require Import List Bool Arith NArith Lia.
From OFGA Require Import Query.Expand Query.ExpandProofs.
Import ListNotations.
Open Scope N_scope.

Fixpoint rw_nodes (rw : rewrite) : nat :=
  match rw with
  | This | Computed _ | TTU _ _ => 1%nat
  | Union l | Inter l =>
      S ((fix go (l : list rewrite) : nat := match l with [] => O | x :: l' => (rw_nodes x + go l')%nat end) l)
  | Diff b s => S (rw_nodes b + rw_nodes s)
  end.

(* leaves that read the datastore *)
Fixpoint rw_reads (rw : rewrite) : nat :=
  match rw with
  | This | TTU _ _ => 1%nat
  | Computed _ => O
  | Union l | Inter l =>
      (fix go (l : list rewrite) : nat := match l with [] => O | x :: l' => (rw_reads x + go l')%nat end) l
  | Diff b s => (rw_reads b + rw_reads s)%nat
  end.

Fixpoint tree_nodes (t : tree) : nat :=
  match t with
  | TUsers _ _ | TComputed _ _ | TTupleToUserset _ _ _ => 1%nat
  | TUnion _ ts | TInter _ ts =>
      S ((fix go (l : list tree) : nat := match l with [] => O | x :: l' => (tree_nodes x + go l')%nat end) ts)
  | TDiff _ b s => S (tree_nodes b + tree_nodes s)
  end.

Fixpoint tree_reads (t : tree) : nat :=
  match t with
  | TUsers _ _ | TTupleToUserset _ _ _ => 1%nat
  | TComputed _ _ => O
  | TUnion _ ts | TInter _ ts =>
      (fix go (l : list tree) : nat := match l with [] => O | x :: l' => (tree_reads x + go l')%nat end) ts
  | TDiff _ b s => (tree_reads b + tree_reads s)%nat
  end.

Definition sum_by {A : Type} (f : A -> nat) (l : list A) : nat := fold_right (fun x n => (f x + n)%nat) O l.

Lemma rw_nodes_Union : forall l, rw_nodes (Union l) = S (sum_by rw_nodes l).
Proof. reflexivity. Qed.
Lemma rw_nodes_Inter : forall l, rw_nodes (Inter l) = S (sum_by rw_nodes l).
Proof. reflexivity. Qed.
Lemma rw_reads_Union : forall l, rw_reads (Union l) = sum_by rw_reads l.
Proof. reflexivity. Qed.
Lemma rw_reads_Inter : forall l, rw_reads (Inter l) = sum_by rw_reads l.
Proof. reflexivity. Qed.
Lemma tree_nodes_Union : forall n ts, tree_nodes (TUnion n ts) = S (sum_by tree_nodes ts).
Proof. reflexivity. Qed.
Lemma tree_nodes_Inter : forall n ts, tree_nodes (TInter n ts) = S (sum_by tree_nodes ts).
Proof. reflexivity. Qed.
Lemma tree_reads_Union : forall n ts, tree_reads (TUnion n ts) = sum_by tree_reads ts.
Proof. reflexivity. Qed.
Lemma tree_reads_Inter : forall n ts, tree_reads (TInter n ts) = sum_by tree_reads ts.
Proof. reflexivity. Qed.

Lemma kids_of_sum : forall (f : rewrite -> xres) (g : rewrite -> nat) (h : tree -> nat) l ts,
  Forall (fun x => forall t, f x = XTree t -> h t = g x) l ->
  kids_of f l = inr ts -> sum_by h ts = sum_by g l.
Proof.
  intros f g h l. induction l as [|x l IH]; intros ts HF Hk; simpl in Hk.
  - inversion Hk. reflexivity.
  - inversion HF as [|x' l' Hx Hl]; subst.
    destruct (f x) as [t|e] eqn:Hfx; [|discriminate Hk].
    destruct (kids_of f l) as [e|ts'] eqn:Hkl; [discriminate Hk|].
    inversion Hk; subst ts. simpl. rewrite (Hx t eq_refl). rewrite (IH ts' Hl eq_refl). reflexivity.
Qed.

Section ExpandTermination.
  Variable leb : subject -> subject -> bool.
  Variable m : model.
  Variable conds : list cid.

  Theorem expand_tree_size : forall all o r rw t,
    expand_rw leb m conds all o r rw = XTree t ->
    tree_nodes t = rw_nodes rw /\ tree_reads t = rw_reads rw.
  Proof.
    intros all o r rw. induction rw as [|r'|ts c|l IH|l IH|b s IHb IHs] using rewrite_ind'; intros t H.
    - cbn [expand_rw] in H. inversion H. split; reflexivity.
    - cbn [expand_rw] in H. inversion H. split; reflexivity.
    - cbn [expand_rw] in H. destruct (rel_defined m (otype o) ts); [|discriminate H].
      inversion H. split; reflexivity.
    - cbn [expand_rw] in H.
      destruct (kids_of (expand_rw leb m conds all o r) l) as [e|kids] eqn:Hk; [discriminate H|].
      inversion H; subst t. rewrite tree_nodes_Union, rw_nodes_Union, tree_reads_Union, rw_reads_Union.
      split; [f_equal|]; (eapply kids_of_sum; [|exact Hk]);
        (eapply Forall_impl; [|exact IH]); intros x Hx t' Ht'; destruct (Hx t' Ht'); assumption.
    - cbn [expand_rw] in H.
      destruct (kids_of (expand_rw leb m conds all o r) l) as [e|kids] eqn:Hk; [discriminate H|].
      inversion H; subst t. rewrite tree_nodes_Inter, rw_nodes_Inter, tree_reads_Inter, rw_reads_Inter.
      split; [f_equal|]; (eapply kids_of_sum; [|exact Hk]);
        (eapply Forall_impl; [|exact IH]); intros x Hx t' Ht'; destruct (Hx t' Ht'); assumption.
    - cbn [expand_rw] in H.
      destruct (expand_rw leb m conds all o r b) as [tb|e]; [|discriminate H].
      destruct (expand_rw leb m conds all o r s) as [tsb|e]; [|discriminate H].
      inversion H; subst t. destruct (IHb tb eq_refl) as [Hb1 Hb2]. destruct (IHs tsb eq_refl) as [Hs1 Hs2].
      simpl. rewrite Hb1, Hs1, Hb2, Hs2. split; reflexivity.
  Qed.

  (* the work of one Expand is bounded by the model alone: same size for any two tuple lists *)
  Corollary expand_size_data_independent : forall all all' o r rw t t',
    expand_rw leb m conds all o r rw = XTree t -> expand_rw leb m conds all' o r rw = XTree t' ->
    tree_nodes t = tree_nodes t' /\ tree_reads t = tree_reads t'.
  Proof.
    intros all all' o r rw t t' H H'.
    destruct (expand_tree_size all o r rw t H) as [H1 H2].
    destruct (expand_tree_size all' o r rw t' H') as [H1' H2'].
    split; congruence.
  Qed.

  Lemma rw_reads_le_nodes : forall rw, (rw_reads rw <= rw_nodes rw)%nat.
  Proof.
    intro rw. induction rw as [|r'|ts c|l IH|l IH|b s IHb IHs] using rewrite_ind'; try (simpl; lia).
    - rewrite rw_reads_Union, rw_nodes_Union.
      induction IH as [|x l Hx Hl IHl]; simpl; [lia|]. lia.
    - rewrite rw_reads_Inter, rw_nodes_Inter.
      induction IH as [|x l Hx Hl IHl]; simpl; [lia|]. lia.
  Qed.
End ExpandTermination.
