(* C30 — algorithm model of Expand, transcribed from pkg/server/commands/expand.go
   (ExpandQuery.Execute, resolveUserset, resolveThis, resolveComputedUserset,
   resolveTupleToUserset, resolveUnionUserset / Intersection / Difference, resolveUsersets) over
   the vocabulary of Sem/Vocab.v.  Definitions only; proofs are in Query/ExpandProofs.v.

   What is modelled
   * the rewrite-directed construction of the UsersetTree, every node named object#relation;
   * the reads: storagewrappers.CombinedTupleReader.Read = the contextual tuples on
     (object, relation) followed by the stored ones (NewCombinedIterator(iter1, iter2)); both are
     filtered by validation.FilterInvalidTuples = ValidateTupleForRead (Sem/Valid.v);
   * resolveThis: the distinct users (a Go map keyed by the user string) sorted with slices.Sort;
     the order of Go strings is external: section variable [leb] (the oracle instantiates it with
     the byte order of the rendered user strings);
   * resolveTupleToUserset: one computed entry per distinct `object#relation` string in
     first-seen order, relation = the user's own relation if it has one, else the TTU's computed
     relation;
   * CONDITIONS ARE NOT EVALUATED by Expand: a conditioned tuple's user is listed whatever the
     outcome of its condition ([t_ceval] is never read; theorem expand_ignores_ceval);
   * request validation of Execute, in the order coded: empty object/relation, then every
     contextual tuple through ValidateTupleForWrite (first failing tuple decides the error
     class), then ValidateObject / ValidateRelation of the request.

   Not modelled: the errgroup concurrency of resolveUsersets (children are independent reads of
   an immutable snapshot; results are stored by index), datastore errors, tracing.
   slices.SortFunc in NewCombinedTupleReader sorts the contextual tuples by object only and is
   not stable above 12 elements: tuples of one object keep their relative order only for
   <= 12 contextual tuples (the driver stays below); this matters for nothing but the order of
   the computed entries of a tuple-to-userset leaf. *)
From OFGA Require Export Sem.Valid.
Open Scope N_scope.

Definition nodename := (obj * rid)%type.

(* the `object` part of a tuple-to-userset computed entry: an object or a typed wildcard *)
Inductive ubase := UObj (o : obj) | UWild (t : tid).
Definition cref := (ubase * rid)%type.

Definition ubase_eqb (a b : ubase) : bool :=
  match a, b with
  | UObj x, UObj y => obj_eqb x y
  | UWild x, UWild y => N.eqb x y
  | _, _ => false
  end.
Definition cref_eqb (a b : cref) : bool := ubase_eqb (fst a) (fst b) && N.eqb (snd a) (snd b).

(* tupleUtils.SplitObjectRelation(user), empty relation replaced by the computed relation *)
Definition ttu_ref (c : rid) (s : subject) : cref :=
  match s with
  | SObj o => (UObj o, c)
  | SWild t => (UWild t, c)
  | SSet o r => (UObj o, r)
  end.

Inductive tree :=
| TUsers (name : nodename) (users : list subject)
| TComputed (name : nodename) (userset : nodename)
| TTupleToUserset (name : nodename) (tupleset : nodename) (computed : list cref)
| TUnion (name : nodename) (kids : list tree)
| TInter (name : nodename) (kids : list tree)
| TDiff (name : nodename) (base sub : tree).

Inductive xerr := EInvalidInput | EInvalidTuple | EValidation | ERelationNotFound.
Inductive xres := XTree (t : tree) | XErr (e : xerr).

(* the request as the command sees it; XMalformed: object that is not `type:id`, typed-wildcard
   object, or malformed relation (all answered by ValidateObject / ValidateRelation) *)
Inductive xreq := XReq (o : obj) (r : rid) | XEmpty | XMalformed.

(* the map[string]bool + append idiom: keep the first occurrence *)
Fixpoint dedup_first {A : Type} (eqb : A -> A -> bool) (seen : list A) (l : list A) : list A :=
  match l with
  | [] => []
  | x :: l' => if existsb (eqb x) seen then dedup_first eqb seen l'
               else x :: dedup_first eqb (x :: seen) l'
  end.

(* resolveUsersets: every child is resolved; any error fails the node (all children of one node
   can only fail with the same class) *)
Section KidsOf.
  Variable f : rewrite -> xres.
  Fixpoint kids_of (l : list rewrite) : xerr + list tree :=
    match l with
    | [] => inr []
    | x :: l' => match f x, kids_of l' with
                 | XErr e, _ => inl e
                 | XTree _, inl e => inl e
                 | XTree t, inr ts => inr (t :: ts)
                 end
    end.
End KidsOf.

Section KidsCheck.
  Variable f : rewrite -> tree -> bool.
  Fixpoint kids_check (l : list rewrite) (ts : list tree) : bool :=
    match l, ts with
    | [], [] => true
    | x :: l', t :: ts' => f x t && kids_check l' ts'
    | _, _ => false
    end.
End KidsCheck.

Section Expand.
  Variable leb : subject -> subject -> bool.     (* order of the user strings (slices.Sort) *)
  Variable m : model.
  Variable conds : list cid.

  Fixpoint insert (x : subject) (l : list subject) : list subject :=
    match l with
    | [] => [x]
    | y :: l' => if leb x y then x :: l else y :: insert x l'
    end.
  Fixpoint isort (l : list subject) : list subject :=
    match l with [] => [] | x :: l' => insert x (isort l') end.

  Definition on_atom (o : obj) (r : rid) (t : tuple) : bool :=
    obj_eqb (t_obj t) o && N.eqb (t_rel t) r.

  (* Read(object, relation) through the combined reader, then FilterInvalidTuples;
     [all] = contextual tuples ++ stored tuples *)
  Definition read_valid (all : list tuple) (o : obj) (r : rid) : list tuple :=
    filter (valid_for_read m conds) (filter (on_atom o r) all).

  Definition this_users (all : list tuple) (o : obj) (r : rid) : list subject :=
    isort (dedup_first subject_eqb [] (map t_sub (read_valid all o r))).

  Definition ttu_computed (all : list tuple) (o : obj) (ts c : rid) : list cref :=
    dedup_first cref_eqb [] (map (fun t => ttu_ref c (t_sub t)) (read_valid all o ts)).

  Section Node.
    Variable all : list tuple.
    Variable o : obj.
    Variable r : rid.

    Fixpoint expand_rw (rw : rewrite) : xres :=
      match rw with
      | This => XTree (TUsers (o, r) (this_users all o r))
      | Computed r' => XTree (TComputed (o, r) (o, r'))
      | TTU ts c =>
          if rel_defined m (otype o) ts
          then XTree (TTupleToUserset (o, r) (o, ts) (ttu_computed all o ts c))
          else XErr ERelationNotFound
      | Union l => match kids_of expand_rw l with inr ts => XTree (TUnion (o, r) ts) | inl e => XErr e end
      | Inter l => match kids_of expand_rw l with inr ts => XTree (TInter (o, r) ts) | inl e => XErr e end
      | Diff b s => match expand_rw b, expand_rw s with
                    | XErr e, _ => XErr e
                    | XTree _, XErr e => XErr e
                    | XTree tb, XTree tsb => XTree (TDiff (o, r) tb tsb)
                    end
      end.
  End Node.

  (* ---- request validation ---- *)
  Definition type_defined (t : tid) : bool :=
    match find_type m t with Some _ => true | None => false end.

  (* ValidateUserObjectRelation: user type (and userset relation) defined, object type and
     relation defined *)
  Definition wf_for_write (t : tuple) : bool :=
    type_defined (subject_type (t_sub t)) &&
    match t_sub t with SSet o' r' => rel_defined m (otype o') r' | _ => true end &&
    type_defined (otype (t_obj t)) &&
    rel_defined m (otype (t_obj t)) (t_rel t).

  (* ValidateTupleForWrite + serverErrors.HandleTupleValidateError: error class of a contextual
     tuple (None = accepted).  InvalidTupleError -> invalid_tuple, InvalidConditionalTupleError
     -> validation_error. *)
  Definition ctx_tuple_err (t : tuple) : option xerr :=
    if negb (wf_for_write t) then Some EInvalidTuple else
    let ot := otype (t_obj t) in
    match get_relation m ot (t_rel t) with
    | None => Some EInvalidTuple
    | Some rd =>
        if negb (if is_tupleset m ot (t_rel t)
                 then is_this (rd_rw rd) && match t_sub t with SObj _ => true | _ => false end
                 else true) then Some EInvalidTuple
        else if negb (type_restr_ok (rd_restr rd) (t_sub t)) then Some EInvalidTuple
        else if negb (if N.eqb (t_cond t) 0 then nocond_ok (rd_restr rd) (t_sub t)
                      else cond_ok conds (rd_restr rd) (t_sub t) (t_cond t)) then Some EValidation
        else None
    end.

  Fixpoint first_ctx_err (ctx : list tuple) : option xerr :=
    match ctx with
    | [] => None
    | t :: ctx' => match ctx_tuple_err t with Some e => Some e | None => first_ctx_err ctx' end
    end.

  (* ExpandQuery.Execute *)
  Definition expand_top (ctx stored : list tuple) (q : xreq) : xres :=
    match q with
    | XEmpty => XErr EInvalidInput
    | _ =>
      match first_ctx_err ctx with
      | Some e => XErr e
      | None =>
        match q with
        | XReq o r =>
            if negb (type_defined (otype o)) then XErr EValidation
            else match get_relation m (otype o) r with
                 | None => XErr EValidation
                 | Some rd => expand_rw (ctx ++ stored) o r (rd_rw rd)
                 end
        | _ => XErr EValidation
        end
      end
    end.

  (* ---- the property's predicate as an executable check of ANY tree against the rewrite ----
     (used by the oracle on the tree returned by the real ExpandQuery; proved sound w.r.t. the
     relation [mirrors] of ExpandProofs.v) *)
  Fixpoint sorted_b (l : list subject) : bool :=
    match l with
    | [] => true
    | x :: l' => match l' with [] => true | y :: _ => leb x y && sorted_b l' end
    end.

  Fixpoint nodup_b {A : Type} (eqb : A -> A -> bool) (l : list A) : bool :=
    match l with
    | [] => true
    | x :: l' => negb (existsb (eqb x) l') && nodup_b eqb l'
    end.

  Definition nodename_eqb (a b : nodename) : bool := obj_eqb (fst a) (fst b) && N.eqb (snd a) (snd b).

  Definition users_ok (all : list tuple) (o : obj) (r : rid) (us : list subject) : bool :=
    sorted_b us && nodup_b subject_eqb us &&
    forallb (fun u => existsb (fun t => subject_eqb (t_sub t) u) (read_valid all o r)) us &&
    forallb (fun t => existsb (subject_eqb (t_sub t)) us) (read_valid all o r).

  Definition computed_ok (all : list tuple) (o : obj) (ts c : rid) (cs : list cref) : bool :=
    nodup_b cref_eqb cs &&
    forallb (fun e => existsb (fun t => cref_eqb (ttu_ref c (t_sub t)) e) (read_valid all o ts)) cs &&
    forallb (fun t => existsb (cref_eqb (ttu_ref c (t_sub t))) cs) (read_valid all o ts).

  Section CheckTree.
    Variable all : list tuple.
    Variable o : obj.
    Variable r : rid.

    Fixpoint check_tree (rw : rewrite) (t : tree) : bool :=
      match rw, t with
      | This, TUsers n us => nodename_eqb n (o, r) && users_ok all o r us
      | Computed r', TComputed n u => nodename_eqb n (o, r) && nodename_eqb u (o, r')
      | TTU ts c, TTupleToUserset n u cs =>
          nodename_eqb n (o, r) && nodename_eqb u (o, ts) && computed_ok all o ts c cs
      | Union l, TUnion n ts => nodename_eqb n (o, r) && kids_check check_tree l ts
      | Inter l, TInter n ts => nodename_eqb n (o, r) && kids_check check_tree l ts
      | Diff b s, TDiff n tb tsb => nodename_eqb n (o, r) && check_tree b tb && check_tree s tsb
      | _, _ => false
      end.
  End CheckTree.
End Expand.

(* ---- shape: the rewrite's skeleton as seen in a tree ---- *)
Inductive skel :=
| KThis
| KComputed (r : rid)
| KTTU (tupleset : rid)
| KUnion (l : list skel)
| KInter (l : list skel)
| KDiff (b s : skel).

Fixpoint skeleton (rw : rewrite) : skel :=
  match rw with
  | This => KThis
  | Computed r => KComputed r
  | TTU ts _ => KTTU ts
  | Union l => KUnion ((fix go (l : list rewrite) := match l with [] => [] | x :: l' => skeleton x :: go l' end) l)
  | Inter l => KInter ((fix go (l : list rewrite) := match l with [] => [] | x :: l' => skeleton x :: go l' end) l)
  | Diff b s => KDiff (skeleton b) (skeleton s)
  end.

Fixpoint shape (t : tree) : skel :=
  match t with
  | TUsers _ _ => KThis
  | TComputed _ u => KComputed (snd u)
  | TTupleToUserset _ u _ => KTTU (snd u)
  | TUnion _ ts => KUnion ((fix go (l : list tree) := match l with [] => [] | x :: l' => shape x :: go l' end) ts)
  | TInter _ ts => KInter ((fix go (l : list tree) := match l with [] => [] | x :: l' => shape x :: go l' end) ts)
  | TDiff _ b s => KDiff (shape b) (shape s)
  end.

Definition node_name (t : tree) : nodename :=
  match t with
  | TUsers n _ | TComputed n _ | TTupleToUserset n _ _ | TUnion n _ | TInter n _ | TDiff n _ _ => n
  end.

(* every node is named n, computed / tupleset references are on n's object *)
Fixpoint named (n : nodename) (t : tree) : Prop :=
  match t with
  | TUsers n' _ => n' = n
  | TComputed n' u => n' = n /\ fst u = fst n
  | TTupleToUserset n' u _ => n' = n /\ fst u = fst n
  | TUnion n' ts | TInter n' ts =>
      n' = n /\ (fix go (l : list tree) : Prop := match l with [] => True | x :: l' => named n x /\ go l' end) ts
  | TDiff n' b s => n' = n /\ named n b /\ named n s
  end.

(* all TTU tuplesets of a rewrite are relations of the type: the exact condition under which
   expand_rw returns a tree *)
Fixpoint tuplesets_defined (m : model) (t : tid) (rw : rewrite) : bool :=
  match rw with
  | This | Computed _ => true
  | TTU ts _ => rel_defined m t ts
  | Union l | Inter l => (fix go (l : list rewrite) := match l with [] => true | x :: l' => tuplesets_defined m t x && go l' end) l
  | Diff b s => tuplesets_defined m t b && tuplesets_defined m t s
  end.

(* a concrete total order for the examples and for the oracle's rendering: lexicographic order
   of byte strings (Go's string order) *)
Fixpoint lex_leb (a b : list N) : bool :=
  match a, b with
  | [], _ => true
  | _ :: _, [] => false
  | x :: a', y :: b' => if N.ltb x y then true else if N.eqb x y then lex_leb a' b' else false
  end.

Definition leb_of_render (render : subject -> list N) (a b : subject) : bool :=
  lex_leb (render a) (render b).
