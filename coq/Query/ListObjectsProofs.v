(* C05 — proofs about Query/ListObjects.v (evaluate / limit layer of ListObjects).
   Every statement is for ALL candidate lists (with repetitions, any statuses), ALL check oracles,
   ALL limits and ALL arrival parameters; arrange_surjective shows that the arrival parameter
   reaches every permutation of the trySendObject calls. *)
From Coq Require Import List Bool Arith Lia Permutation.
From OFGA Require Import Query.ListObjects.
Import ListNotations.

Section Proofs.
  Variable A : Type.
  Variable eqb : A -> A -> bool.
  Hypothesis eqb_spec : forall a b, eqb a b = true <-> a = b.

  Notation cand := (cand A).
  Notation mem := (mem A eqb).
  Notation dedup_cands := (dedup_cands A eqb).
  Notation distinct_objs := (distinct_objs A eqb).
  Notation confirmed := (confirmed A).
  Notation attempts := (attempts A eqb).
  Notation insert_at := (insert_at A).
  Notation arrange := (arrange A).
  Notation cut := (cut A).
  Notation evaluate := (evaluate A eqb).
  Notation run_prefix := (run_prefix A eqb).
  Notation execute := (execute A eqb).
  Notation execute_streamed := (execute_streamed A eqb).
  Notation execute_k := (execute_k A eqb).
  Notation pipeline_recv := (pipeline_recv A eqb).
  Notation evaluate_racy := (evaluate_racy A eqb).
  Notation nofurther_sound := (nofurther_sound A).
  Notation complete := (complete A eqb).
  Notation nodupb := (nodupb A eqb).
  Notation permitted_cands := (permitted_cands A eqb).

  (* ---------------------------------------------------------------- membership *)
  Lemma mem_In : forall x l, mem x l = true <-> In x l.
  Proof.
    intros x l. unfold ListObjects.mem. rewrite existsb_exists. split.
    - intros [y [Hy He]]. apply eqb_spec in He. subst. exact Hy.
    - intros Hx. exists x. split; [exact Hx | apply eqb_spec; reflexivity].
  Qed.

  Lemma mem_false_not_In : forall x l, mem x l = false <-> ~ In x l.
  Proof.
    intros x l. rewrite <- mem_In. destruct (mem x l); split; intro H.
    - discriminate.
    - exfalso. apply H. reflexivity.
    - intro H'. discriminate.
    - reflexivity.
  Qed.

  Lemma nodupb_NoDup : forall l, nodupb l = true <-> NoDup l.
  Proof.
    induction l as [|x l IH]; simpl.
    - split; intros _; [constructor | reflexivity].
    - rewrite andb_true_iff, negb_true_iff, mem_false_not_In, IH. split.
      + intros [Hn Hd]. constructor; assumption.
      + intros Hnd. inversion Hnd; subst. split; assumption.
  Qed.

  (* ---------------------------------------------------------------- de-duplication *)
  Lemma dedup_cands_incl : forall cs seen c, In c (dedup_cands seen cs) -> In c cs.
  Proof.
    induction cs as [|c0 cs IH]; intros seen c Hin; simpl in *.
    - exact Hin.
    - destruct (mem (fst c0) seen).
      + right. eapply IH. exact Hin.
      + destruct Hin as [He | Hin]; [left; exact He | right; eapply IH; exact Hin].
  Qed.

  Lemma dedup_cands_not_seen : forall cs seen o,
    In o (map fst (dedup_cands seen cs)) -> ~ In o seen.
  Proof.
    induction cs as [|c0 cs IH]; intros seen o Hin; simpl in *.
    - contradiction.
    - destruct (mem (fst c0) seen) eqn:Hm.
      + eapply IH. exact Hin.
      + simpl in Hin. destruct Hin as [He | Hin].
        * subst o. apply mem_false_not_In. exact Hm.
        * apply IH in Hin. intro Hs. apply Hin. right. exact Hs.
  Qed.

  Lemma dedup_cands_NoDup : forall cs seen, NoDup (map fst (dedup_cands seen cs)).
  Proof.
    induction cs as [|c0 cs IH]; intros seen; simpl.
    - constructor.
    - destruct (mem (fst c0) seen) eqn:Hm.
      + apply IH.
      + simpl. constructor.
        * intro Hin. apply dedup_cands_not_seen in Hin. apply Hin. left. reflexivity.
        * apply IH.
  Qed.

  Lemma dedup_cands_keeps : forall cs seen o,
    In o (map fst cs) -> ~ In o seen -> In o (map fst (dedup_cands seen cs)).
  Proof.
    induction cs as [|c0 cs IH]; intros seen o Hin Hns; simpl in *.
    - contradiction.
    - destruct (mem (fst c0) seen) eqn:Hm.
      + destruct Hin as [He | Hin].
        * subst o. apply mem_In in Hm. contradiction.
        * apply IH; assumption.
      + simpl. destruct Hin as [He | Hin].
        * left. exact He.
        * destruct (eqb (fst c0) o) eqn:Heq.
          -- apply eqb_spec in Heq. left. exact Heq.
          -- right. apply IH; [exact Hin|].
             intros [He | Hs]; [|contradiction].
             subst o. assert (Ht : eqb (fst c0) (fst c0) = true) by (apply eqb_spec; reflexivity).
             rewrite Ht in Heq. discriminate.
  Qed.

  Lemma distinct_objs_NoDup : forall cs, NoDup (distinct_objs cs).
  Proof. intros cs. apply dedup_cands_NoDup. Qed.

  Lemma distinct_objs_iff : forall cs o, In o (distinct_objs cs) <-> In o (map fst cs).
  Proof.
    intros cs o. unfold ListObjects.distinct_objs. split.
    - intros Hin. apply in_map_iff in Hin. destruct Hin as [c [Hf Hc]].
      apply dedup_cands_incl in Hc. apply in_map_iff. exists c. split; assumption.
    - intros Hin. apply dedup_cands_keeps; [exact Hin | intros []].
  Qed.

  (* filtering a list of pairs keeps the first components duplicate-free *)
  Lemma NoDup_map_fst_filter : forall (f : cand -> bool) (l : list cand),
    NoDup (map fst l) -> NoDup (map fst (filter f l)).
  Proof.
    intros f l. induction l as [|c l IH]; simpl; intros Hnd.
    - constructor.
    - inversion Hnd as [|x xs Hni Hnd']; subst.
      destruct (f c); simpl.
      + constructor.
        * intro Hin. apply Hni. apply in_map_iff in Hin. destruct Hin as [c' [Hf Hc']].
          apply filter_In in Hc'. apply in_map_iff. exists c'. split; [exact Hf | apply Hc'].
        * apply IH. exact Hnd'.
      + apply IH. exact Hnd'.
  Qed.

  Lemma attempts_NoDup : forall check cs, NoDup (attempts check cs).
  Proof.
    intros check cs. unfold ListObjects.attempts. apply NoDup_map_fst_filter. apply dedup_cands_NoDup.
  Qed.

  (* an attempt is a candidate that is NoFurtherEval, or RequiresFurtherEval and confirmed by Check *)
  Lemma attempts_In : forall check cs o,
    In o (attempts check cs) ->
    In (o, NoFurtherEval) cs \/ (In (o, RequiresFurtherEval) cs /\ check o = true).
  Proof.
    intros check cs o Hin. unfold ListObjects.attempts in Hin.
    apply in_map_iff in Hin. destruct Hin as [[o' s] [Hf Hc]]. simpl in Hf. subst o'.
    apply filter_In in Hc. destruct Hc as [Hc Hconf].
    apply dedup_cands_incl in Hc. unfold ListObjects.confirmed in Hconf. simpl in Hconf.
    destruct s; simpl in Hconf.
    - right. split; assumption.
    - left. exact Hc.
  Qed.

  (* ---------------------------------------------------------------- interleaving *)
  Lemma insert_at_perm : forall p x l, Permutation (insert_at p x l) (x :: l).
  Proof.
    induction p as [|p IH]; intros x l; simpl.
    - destruct l; apply Permutation_refl.
    - destruct l as [|y l].
      + apply Permutation_refl.
      + eapply Permutation_trans; [apply perm_skip; apply IH | apply perm_swap].
  Qed.

  Lemma arrange_perm : forall l arrival, Permutation (arrange arrival l) l.
  Proof.
    induction l as [|x l IH]; intros arrival; simpl.
    - constructor.
    - eapply Permutation_trans; [apply insert_at_perm | apply perm_skip; apply IH].
  Qed.

  Lemma insert_at_app : forall l1 l2 x, insert_at (length l1) x (l1 ++ l2) = l1 ++ x :: l2.
  Proof.
    induction l1 as [|y l1 IH]; intros l2 x; simpl.
    - destruct l2; reflexivity.
    - rewrite IH. reflexivity.
  Qed.

  (* the arrival parameter reaches EVERY ordering of the attempts *)
  Lemma arrange_surjective : forall l l', Permutation l l' -> exists arrival, arrange arrival l = l'.
  Proof.
    induction l as [|x l IH]; intros l' Hp.
    - apply Permutation_nil in Hp. subst. exists []. reflexivity.
    - assert (Hin : In x l') by (eapply Permutation_in; [exact Hp | left; reflexivity]).
      apply in_split in Hin. destruct Hin as [l1 [l2 He]]. subst l'.
      apply Permutation_cons_app_inv in Hp.
      destruct (IH _ Hp) as [a Ha].
      exists (length l1 :: a). simpl. rewrite Ha. apply insert_at_app.
  Qed.

  Lemma arrange_In : forall l arrival o, In o (arrange arrival l) <-> In o l.
  Proof.
    intros l arrival o. split; intro H.
    - eapply Permutation_in; [apply arrange_perm | exact H].
    - eapply Permutation_in; [apply Permutation_sym; apply arrange_perm | exact H].
  Qed.

  Lemma arrange_NoDup : forall l arrival, NoDup l -> NoDup (arrange arrival l).
  Proof.
    intros l arrival H. eapply Permutation_NoDup; [apply Permutation_sym; apply arrange_perm | exact H].
  Qed.

  Lemma arrange_length : forall l arrival, length (arrange arrival l) = length l.
  Proof. intros. apply Permutation_length. apply arrange_perm. Qed.

  (* ---------------------------------------------------------------- limit *)
  Lemma firstn_In : forall (l : list A) n o, In o (firstn n l) -> In o l.
  Proof.
    induction l as [|x l IH]; intros n o Hin; destruct n; simpl in *; try contradiction.
    destruct Hin as [He | Hin]; [left; exact He | right; eapply IH; exact Hin].
  Qed.

  Lemma firstn_NoDup : forall (l : list A) n, NoDup l -> NoDup (firstn n l).
  Proof.
    induction l as [|x l IH]; intros n Hnd; destruct n; simpl; try constructor.
    - inversion Hnd; subst. intro Hin. apply firstn_In in Hin. contradiction.
    - inversion Hnd; subst. apply IH. assumption.
  Qed.

  Lemma cut_In : forall limit l o, In o (cut limit l) -> In o l.
  Proof.
    intros limit l o Hin. unfold ListObjects.cut in Hin. destruct limit; [exact Hin|].
    eapply firstn_In. exact Hin.
  Qed.

  Lemma cut_NoDup : forall limit l, NoDup l -> NoDup (cut limit l).
  Proof.
    intros limit l Hnd. unfold ListObjects.cut. destruct limit; [exact Hnd|].
    apply firstn_NoDup. exact Hnd.
  Qed.

  Lemma cut_length : forall limit l,
    length (cut limit l) = match limit with O => length l | S _ => Nat.min limit (length l) end.
  Proof.
    intros limit l. unfold ListObjects.cut. destruct limit; [reflexivity|]. apply firstn_length.
  Qed.

  (* ---------------------------------------------------------------- evaluate *)
  Lemma evaluate_In_attempts : forall cands check limit arrival o,
    In o (evaluate cands check limit arrival) -> In o (attempts check cands).
  Proof.
    intros cands check limit arrival o Hin. unfold ListObjects.evaluate in Hin.
    apply cut_In in Hin. apply arrange_In in Hin. exact Hin.
  Qed.

  Lemma evaluate_nolimit_In : forall cands check arrival o,
    In o (evaluate cands check 0 arrival) <-> In o (attempts check cands).
  Proof.
    intros cands check arrival o. unfold ListObjects.evaluate. simpl. apply arrange_In.
  Qed.

  Lemma evaluate_length : forall cands check limit arrival,
    length (evaluate cands check limit arrival) =
    match limit with O => length (attempts check cands) | S _ => Nat.min limit (length (attempts check cands)) end.
  Proof.
    intros. unfold ListObjects.evaluate. rewrite cut_length, arrange_length. reflexivity.
  Qed.

  Lemma nofurther_sound_spec : forall P cands,
    nofurther_sound P cands = true <-> (forall o, In (o, NoFurtherEval) cands -> P o = true).
  Proof.
    intros P cands. unfold ListObjects.nofurther_sound. rewrite forallb_forall. split.
    - intros H o Hin. specialize (H _ Hin). simpl in H. exact H.
    - intros H [o s] Hin. simpl. destruct s; simpl; [reflexivity | apply H; exact Hin].
  Qed.

  Lemma complete_spec : forall P univ cands,
    complete P univ cands = true <-> (forall o, In o univ -> P o = true -> In o (map fst cands)).
  Proof.
    intros P univ cands. unfold ListObjects.complete. rewrite forallb_forall. split.
    - intros H o Hu HP. specialize (H _ Hu). rewrite HP in H. apply mem_In. exact H.
    - intros H o Hu. destruct (P o) eqn:HP; [apply mem_In; apply H; assumption | reflexivity].
  Qed.

  (* ---- soundness: only permitted objects are returned ---- *)
  Theorem lo_sound : forall (P check : A -> bool) cands limit arrival,
    (forall o, check o = true -> P o = true) ->
    nofurther_sound P cands = true ->
    forall o, In o (evaluate cands check limit arrival) -> P o = true.
  Proof.
    intros P check cands limit arrival Hchk Hnf o Hin.
    apply evaluate_In_attempts in Hin. apply attempts_In in Hin.
    destruct Hin as [Hnfe | [_ Hc]].
    - rewrite nofurther_sound_spec in Hnf. apply Hnf. exact Hnfe.
    - apply Hchk. exact Hc.
  Qed.

  (* ---- completeness without limit ---- *)
  Lemma attempts_complete : forall (P check : A -> bool) cands o,
    (forall o, P o = true -> check o = true) ->
    In o (map fst cands) -> P o = true -> In o (attempts check cands).
  Proof.
    intros P check cands o Hchk Hin HP.
    apply distinct_objs_iff in Hin. unfold ListObjects.distinct_objs in Hin.
    apply in_map_iff in Hin. destruct Hin as [c [Hf Hc]].
    unfold ListObjects.attempts. apply in_map_iff. exists c. split; [exact Hf|].
    apply filter_In. split; [exact Hc|].
    unfold ListObjects.confirmed. destruct (is_nofurther (snd c)); [reflexivity|].
    rewrite Hf. apply Hchk. exact HP.
  Qed.

  Theorem lo_complete : forall (P check : A -> bool) univ cands arrival,
    (forall o, P o = true -> check o = true) ->
    complete P univ cands = true ->
    forall o, In o univ -> P o = true -> In o (evaluate cands check 0 arrival).
  Proof.
    intros P check univ cands arrival Hchk Hc o Hu HP.
    apply evaluate_nolimit_In. eapply attempts_complete; [exact Hchk | | exact HP].
    rewrite complete_spec in Hc. apply Hc; assumption.
  Qed.

  (* ---- no object twice ---- *)
  Theorem lo_nodup : forall (check : A -> bool) cands limit arrival,
    NoDup (evaluate cands check limit arrival).
  Proof.
    intros. unfold ListObjects.evaluate. apply cut_NoDup. apply arrange_NoDup. apply attempts_NoDup.
  Qed.

  (* ---- exactness without limit ---- *)
  Theorem lo_exact : forall (P check : A -> bool) univ cands arrival,
    (forall o, check o = P o) ->
    nofurther_sound P cands = true ->
    complete P univ cands = true ->
    forall o, In o univ -> (In o (evaluate cands check 0 arrival) <-> P o = true).
  Proof.
    intros P check univ cands arrival Hchk Hnf Hc o Hu. split.
    - apply lo_sound; [intros o' H; rewrite <- Hchk; exact H | exact Hnf].
    - apply lo_complete with (univ := univ); try assumption.
      intros o' H. rewrite Hchk. exact H.
  Qed.

  (* ---- the limit ---- *)
  Lemma filter_ext_In_fst : forall (f g : cand -> bool) (l : list cand),
    (forall c, In c l -> f c = g c) -> filter f l = filter g l.
  Proof.
    intros f g l. induction l as [|c l IH]; intros H; simpl.
    - reflexivity.
    - rewrite (H c (or_introl eq_refl)). rewrite IH; [reflexivity|].
      intros c' Hc'. apply H. right. exact Hc'.
  Qed.

  Lemma map_fst_filter_fst : forall (P : A -> bool) (l : list cand),
    map fst (filter (fun c => P (fst c)) l) = filter P (map fst l).
  Proof.
    intros P l. induction l as [|c l IH]; simpl.
    - reflexivity.
    - destruct (P (fst c)); simpl; rewrite IH; reflexivity.
  Qed.

  (* under the contract the trySendObject calls are exactly the distinct permitted candidates *)
  Lemma attempts_permitted : forall (P check : A -> bool) cands,
    (forall o, check o = P o) ->
    nofurther_sound P cands = true ->
    attempts check cands = permitted_cands P cands.
  Proof.
    intros P check cands Hchk Hnf.
    unfold ListObjects.attempts, ListObjects.permitted_cands, ListObjects.distinct_objs.
    rewrite <- map_fst_filter_fst. f_equal.
    apply filter_ext_In_fst. intros [o s] Hc. unfold ListObjects.confirmed. simpl.
    destruct s; simpl.
    - apply Hchk.
    - symmetry. rewrite nofurther_sound_spec in Hnf. apply Hnf.
      apply dedup_cands_incl in Hc. exact Hc.
  Qed.

  Theorem lo_limit : forall (P check : A -> bool) cands limit arrival,
    (forall o, check o = P o) ->
    nofurther_sound P cands = true ->
    0 < limit ->
    limit <= length (permitted_cands P cands) ->
    length (evaluate cands check limit arrival) = limit /\
    NoDup (evaluate cands check limit arrival) /\
    (forall o, In o (evaluate cands check limit arrival) -> P o = true).
  Proof.
    intros P check cands limit arrival Hchk Hnf Hpos Hle. split; [|split].
    - rewrite evaluate_length. destruct limit; [lia|].
      rewrite (attempts_permitted P check cands Hchk Hnf). lia.
    - apply lo_nodup.
    - apply lo_sound; [intros o H; rewrite <- Hchk; exact H | exact Hnf].
  Qed.

  (* fewer permitted candidates than the limit: all of them *)
  Theorem lo_limit_short : forall (P check : A -> bool) cands limit arrival,
    (forall o, check o = P o) ->
    nofurther_sound P cands = true ->
    length (permitted_cands P cands) <= limit ->
    forall o, In o (evaluate cands check limit arrival) <-> In o (permitted_cands P cands).
  Proof.
    intros P check cands limit arrival Hchk Hnf Hle o.
    unfold ListObjects.evaluate. rewrite (attempts_permitted P check cands Hchk Hnf).
    unfold ListObjects.cut. destruct limit.
    - apply arrange_In.
    - rewrite firstn_all2; [apply arrange_In | rewrite arrange_length; exact Hle].
  Qed.

  (* ---- deadline / cancellation / error: whatever was sent so far is sound and duplicate-free ---- *)
  Theorem lo_deadline_prefix_sound : forall (P check : A -> bool) k cands limit arrival,
    (forall o, check o = true -> P o = true) ->
    nofurther_sound P cands = true ->
    NoDup (run_prefix k cands check limit arrival) /\
    forall o, In o (run_prefix k cands check limit arrival) -> P o = true.
  Proof.
    intros P check k cands limit arrival Hchk Hnf. unfold ListObjects.run_prefix. split.
    - apply firstn_NoDup. apply lo_nodup.
    - intros o Hin. apply firstn_In in Hin. eapply lo_sound; eassumption.
  Qed.

  (* ---- Execute (unary) with its error handling ---- *)
  Theorem execute_sound : forall (P check : A -> bool) cands limit arrival err_after l,
    (forall o, check o = true -> P o = true) ->
    nofurther_sound P cands = true ->
    execute cands check limit arrival err_after = ListObjects.Objects A l ->
    NoDup l /\ forall o, In o l -> P o = true.
  Proof.
    intros P check cands limit arrival err_after l Hchk Hnf He.
    unfold ListObjects.execute in He. destruct err_after as [k|].
    - destruct (Nat.ltb _ limit); [discriminate|]. inversion He; subst.
      apply lo_deadline_prefix_sound; assumption.
    - inversion He; subst. split; [apply lo_nodup | apply lo_sound; assumption].
  Qed.

  (* completeness of a successful unary response that the limit did not cut — holds when no
     evaluation error occurred or a limit is configured (the _partial statement: the hypothesis
     [err_after = None \/ 0 < limit] excludes exactly the trigger of limit0_error_swallowed) *)
  Theorem execute_complete_partial : forall (P check : A -> bool) univ cands limit arrival err_after l,
    err_after = None \/ 0 < limit ->
    (forall o, P o = true -> check o = true) ->
    complete P univ cands = true ->
    execute cands check limit arrival err_after = ListObjects.Objects A l ->
    limit = 0 \/ length l < limit ->
    forall o, In o univ -> P o = true -> In o l.
  Proof.
    intros P check univ cands limit arrival err_after l Htrig Hchk Hc He Hcut o Hu HP.
    unfold ListObjects.execute in He. destruct err_after as [k|].
    - destruct Htrig as [Hn | Hpos]; [discriminate|].
      destruct (Nat.ltb (length (run_prefix k cands check limit arrival)) limit) eqn:Hlt; [discriminate|].
      inversion He; subst l. apply Nat.ltb_ge in Hlt. lia.
    - inversion He; subst l.
      assert (Hatt : In o (attempts check cands)).
      { eapply attempts_complete; [exact Hchk | | exact HP].
        rewrite complete_spec in Hc. apply Hc; assumption. }
      unfold ListObjects.evaluate in *. unfold ListObjects.cut in *. destruct limit as [|n].
      + apply arrange_In. exact Hatt.
      + destruct Hcut as [H0 | Hlen]; [discriminate|].
        rewrite firstn_length, arrange_length in Hlen.
        rewrite firstn_all2; [apply arrange_In; exact Hatt | rewrite arrange_length; lia].
  Qed.

  (* a failure that is not a condition-evaluation error (datastore fault, depth) never yields a
     list: the response is the error *)
  Theorem execute_k_other_fails : forall (check : A -> bool) cands limit arrival k,
    execute_k cands check limit arrival (Some (k, OtherError)) = ListObjects.Failed A.
  Proof. reflexivity. Qed.

  (* hence: a SUCCESSFUL, uncut unary response is the complete permitted set whenever the only
     error that may have occurred is not (a condition error with maxResults = 0) *)
  Theorem execute_k_complete_partial : forall (P check : A -> bool) univ cands limit arrival err l,
    (forall k, err <> Some (k, CondError)) \/ 0 < limit ->
    (forall o, P o = true -> check o = true) ->
    complete P univ cands = true ->
    execute_k cands check limit arrival err = ListObjects.Objects A l ->
    limit = 0 \/ length l < limit ->
    forall o, In o univ -> P o = true -> In o l.
  Proof.
    intros P check univ cands limit arrival err l Htrig Hchk Hc He Hcut o Hu HP.
    unfold ListObjects.execute_k in He. destruct err as [[k kind]|].
    - destruct kind; [|discriminate].
      eapply (execute_complete_partial P check univ cands limit arrival (Some k) l); try eassumption.
      destruct Htrig as [Hn | Hpos]; [exfalso; apply (Hn k); reflexivity | right; exact Hpos].
    - eapply (execute_complete_partial P check univ cands limit arrival None l); try eassumption.
      left. reflexivity.
  Qed.

  Theorem execute_k_sound : forall (P check : A -> bool) cands limit arrival err l,
    (forall o, check o = true -> P o = true) ->
    nofurther_sound P cands = true ->
    execute_k cands check limit arrival err = ListObjects.Objects A l ->
    NoDup l /\ forall o, In o l -> P o = true.
  Proof.
    intros P check cands limit arrival err l Hchk Hnf He. unfold ListObjects.execute_k in He.
    destruct err as [[k kind]|]; [destruct kind; [|discriminate]|]; eapply execute_sound; eassumption.
  Qed.

  Theorem execute_streamed_sound : forall (P check : A -> bool) cands arrival err_after,
    (forall o, check o = true -> P o = true) ->
    nofurther_sound P cands = true ->
    NoDup (fst (execute_streamed cands check arrival err_after)) /\
    forall o, In o (fst (execute_streamed cands check arrival err_after)) -> P o = true.
  Proof.
    intros P check cands arrival err_after Hchk Hnf. unfold ListObjects.execute_streamed.
    destruct err_after as [k|]; cbn [fst].
    - apply lo_deadline_prefix_sound; assumption.
    - split; [apply (lo_nodup check cands 0 arrival) | apply (lo_sound P check cands 0 arrival); assumption].
  Qed.

  (* a streamed call that did not fail is complete: the streamed variant reports every error *)
  Theorem execute_streamed_complete : forall (P check : A -> bool) univ cands arrival err_after,
    (forall o, P o = true -> check o = true) ->
    complete P univ cands = true ->
    snd (execute_streamed cands check arrival err_after) = false ->
    forall o, In o univ -> P o = true -> In o (fst (execute_streamed cands check arrival err_after)).
  Proof.
    intros P check univ cands arrival err_after Hchk Hc Hok o Hu HP.
    unfold ListObjects.execute_streamed in *. destruct err_after as [k|]; cbn [fst snd] in *; [discriminate|].
    eapply lo_complete; eassumption.
  Qed.

  (* ---- the select/cancel race only removes objects: soundness and duplicate-freedom survive ---- *)
  Lemma NoDup_filter : forall (f : A -> bool) (l : list A), NoDup l -> NoDup (filter f l).
  Proof.
    intros f l. induction l as [|x l IH]; simpl; intros Hnd.
    - constructor.
    - inversion Hnd; subst. destruct (f x).
      + constructor; [intro Hin; apply filter_In in Hin; tauto | apply IH; assumption].
      + apply IH; assumption.
  Qed.

  Theorem evaluate_racy_incl : forall (check : A -> bool) cands limit arrival drop o,
    In o (evaluate_racy cands check limit arrival drop) -> In o (evaluate cands check limit arrival).
  Proof.
    intros check cands limit arrival drop o Hin. unfold ListObjects.evaluate_racy in Hin.
    destruct limit; [exact Hin|].
    destruct (Nat.ltb _ _); [apply filter_In in Hin; apply Hin | exact Hin].
  Qed.

  Theorem evaluate_racy_sound_nodup : forall (P check : A -> bool) cands limit arrival drop,
    (forall o, check o = true -> P o = true) ->
    nofurther_sound P cands = true ->
    NoDup (evaluate_racy cands check limit arrival drop) /\
    forall o, In o (evaluate_racy cands check limit arrival drop) -> P o = true.
  Proof.
    intros P check cands limit arrival drop Hchk Hnf. split.
    - unfold ListObjects.evaluate_racy. destruct limit; [apply lo_nodup|].
      destruct (Nat.ltb _ _); [apply NoDup_filter|]; apply lo_nodup.
    - intros o Hin. apply evaluate_racy_incl in Hin. eapply lo_sound; eassumption.
  Qed.

  Theorem evaluate_racy_no_drop : forall (check : A -> bool) cands limit arrival,
    evaluate_racy cands check limit arrival (fun _ => false) = evaluate cands check limit arrival.
  Proof.
    intros. unfold ListObjects.evaluate_racy. destruct limit; [reflexivity|].
    destruct (Nat.ltb _ _); [|reflexivity].
    generalize (evaluate cands check (S limit) arrival). intros l.
    induction l as [|x l IH]; [reflexivity|].
    simpl. f_equal. exact IH.
  Qed.

  (* ---- the pipeline's output stage: DeduplicatingReceiver + the Recv loop of Execute ---- *)
  Lemma map_fst_nofurther : forall (values : list A), map fst (map (fun v => (v, NoFurtherEval)) values) = values.
  Proof. induction values as [|v l IH]; simpl; [reflexivity | rewrite IH; reflexivity]. Qed.

  Theorem pipeline_recv_spec : forall (P : A -> bool) values limit,
    NoDup (pipeline_recv values limit) /\
    (forall o, In o (pipeline_recv values limit) -> In o values) /\
    ((forall o, In o values -> P o = true) -> forall o, In o (pipeline_recv values limit) -> P o = true) /\
    (limit = 0 -> forall o, In o values -> In o (pipeline_recv values limit)) /\
    length (pipeline_recv values limit) =
      match limit with
      | O => length (distinct_objs (map (fun v => (v, NoFurtherEval)) values))
      | S _ => Nat.min limit (length (distinct_objs (map (fun v => (v, NoFurtherEval)) values)))
      end.
  Proof.
    intros P values limit. unfold ListObjects.pipeline_recv.
    assert (Hsub : forall o, In o (cut limit (distinct_objs (map (fun v => (v, NoFurtherEval)) values))) -> In o values).
    { intros o Hin. apply cut_In in Hin.
      apply (proj1 (distinct_objs_iff (map (fun v => (v, NoFurtherEval)) values) o)) in Hin.
      rewrite map_map in Hin. simpl in Hin. rewrite map_id in Hin. exact Hin. }
    split; [|split; [|split; [|split]]].
    - apply cut_NoDup. apply distinct_objs_NoDup.
    - exact Hsub.
    - intros HP o Hin. apply HP. apply Hsub. exact Hin.
    - intros Hl o Hin. subst limit. simpl.
      apply (proj2 (distinct_objs_iff (map (fun v => (v, NoFurtherEval)) values) o)).
      rewrite map_map. simpl. rewrite map_id. exact Hin.
    - apply cut_length.
  Qed.

  (* the stream-level duplicate test used by the oracle is exact *)
  Theorem nodupb_spec : forall l, nodupb l = true <-> NoDup l.
  Proof. exact nodupb_NoDup. Qed.
End Proofs.

(* the instance run by the oracle *)
Lemma nat_eqb_spec : forall a b : nat, Nat.eqb a b = true <-> a = b.
Proof. exact Nat.eqb_eq. Qed.
