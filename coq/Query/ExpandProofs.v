(* C30 — proofs about the Expand model (Query/Expand.v). *)
From Coq Require Import Sorting.Sorted Sorting.Permutation Lia.
From OFGA Require Import Query.Expand.
Open Scope N_scope.

(* ---------------------------------------------------------------------------------------- *)
(* boolean equalities *)

Lemma obj_eqb_eq : forall a b, obj_eqb a b = true <-> a = b.
Proof.
  intros [ta ia] [tb ib]. unfold obj_eqb. simpl.
  rewrite andb_true_iff, !N.eqb_eq. split.
  - intros [H1 H2]. subst. reflexivity.
  - intros H. inversion H. auto.
Qed.

Lemma obj_eqb_refl : forall a, obj_eqb a a = true.
Proof. intros a. apply obj_eqb_eq. reflexivity. Qed.

Lemma subject_eqb_eq : forall a b, subject_eqb a b = true <-> a = b.
Proof.
  intros a b. destruct a as [x | x | x r], b as [y | y | y s]; simpl;
    try (split; [discriminate | intros H; inversion H]).
  - rewrite obj_eqb_eq. split; [intros H; subst; reflexivity | intros H; inversion H; reflexivity].
  - rewrite N.eqb_eq. split; [intros H; subst; reflexivity | intros H; inversion H; reflexivity].
  - rewrite andb_true_iff, obj_eqb_eq, N.eqb_eq.
    split; [intros [H1 H2]; subst; reflexivity | intros H; inversion H; auto].
Qed.

Lemma ubase_eqb_eq : forall a b, ubase_eqb a b = true <-> a = b.
Proof.
  intros a b. destruct a as [x | x], b as [y | y]; simpl;
    try (split; [discriminate | intros H; inversion H]).
  - rewrite obj_eqb_eq. split; [intros H; subst; reflexivity | intros H; inversion H; reflexivity].
  - rewrite N.eqb_eq. split; [intros H; subst; reflexivity | intros H; inversion H; reflexivity].
Qed.

Lemma cref_eqb_eq : forall a b, cref_eqb a b = true <-> a = b.
Proof.
  intros [a1 a2] [b1 b2]. unfold cref_eqb. simpl.
  rewrite andb_true_iff, ubase_eqb_eq, N.eqb_eq.
  split; [intros [H1 H2]; subst; reflexivity | intros H; inversion H; auto].
Qed.

Lemma nodename_eqb_eq : forall a b, nodename_eqb a b = true <-> a = b.
Proof.
  intros [a1 a2] [b1 b2]. unfold nodename_eqb. simpl.
  rewrite andb_true_iff, obj_eqb_eq, N.eqb_eq.
  split; [intros [H1 H2]; subst; reflexivity | intros H; inversion H; auto].
Qed.

(* ---------------------------------------------------------------------------------------- *)
(* induction on rewrites (nested through lists) *)

Section RewriteInd.
  Variable P : rewrite -> Prop.
  Hypothesis HThis : P This.
  Hypothesis HComp : forall r, P (Computed r).
  Hypothesis HTTU : forall ts c, P (TTU ts c).
  Hypothesis HUnion : forall l, Forall P l -> P (Union l).
  Hypothesis HInter : forall l, Forall P l -> P (Inter l).
  Hypothesis HDiff : forall b s, P b -> P s -> P (Diff b s).

  Fixpoint rewrite_ind' (rw : rewrite) : P rw :=
    match rw with
    | This => HThis
    | Computed r => HComp r
    | TTU ts c => HTTU ts c
    | Union l => HUnion l ((fix go (l : list rewrite) : Forall P l :=
                              match l with
                              | [] => Forall_nil P
                              | x :: l' => Forall_cons x (rewrite_ind' x) (go l')
                              end) l)
    | Inter l => HInter l ((fix go (l : list rewrite) : Forall P l :=
                              match l with
                              | [] => Forall_nil P
                              | x :: l' => Forall_cons x (rewrite_ind' x) (go l')
                              end) l)
    | Diff b s => HDiff b s (rewrite_ind' b) (rewrite_ind' s)
    end.
End RewriteInd.

(* ---------------------------------------------------------------------------------------- *)
(* dedup_first *)

Section Dedup.
  Variable A : Type.
  Variable eqb : A -> A -> bool.
  Hypothesis eqb_eq : forall a b, eqb a b = true <-> a = b.

  Lemma existsb_eqb_In : forall x l, existsb (eqb x) l = true <-> In x l.
  Proof.
    intros x l. rewrite existsb_exists. split.
    - intros [y [Hin He]]. apply eqb_eq in He. subst. exact Hin.
    - intros Hin. exists x. split; [exact Hin | apply eqb_eq; reflexivity].
  Qed.

  Lemma existsb_eqb_In' : forall x l, existsb (fun y => eqb y x) l = true <-> In x l.
  Proof.
    intros x l. rewrite existsb_exists. split.
    - intros [y [Hin He]]. apply eqb_eq in He. subst. exact Hin.
    - intros Hin. exists x. split; [exact Hin | apply eqb_eq; reflexivity].
  Qed.

  Lemma dedup_first_In : forall l seen x,
    In x (dedup_first eqb seen l) <-> In x l /\ ~ In x seen.
  Proof.
    induction l as [| y l IH]; intros seen x; simpl.
    - tauto.
    - destruct (existsb (eqb y) seen) eqn:He.
      + apply existsb_eqb_In in He. rewrite IH. split.
        * intros [H1 H2]. tauto.
        * intros [[H1 | H1] H2]; [subst; contradiction | tauto].
      + assert (Hn : ~ In y seen).
        { intros Hin. apply existsb_eqb_In in Hin. congruence. }
        simpl. rewrite IH. simpl. split.
        * intros [H1 | [H1 H2]]; [subst; tauto | tauto].
        * intros [[H1 | H1] H2]; [tauto |].
          destruct (eqb y x) eqn:Hyx.
          -- apply eqb_eq in Hyx. tauto.
          -- right. split; [exact H1 |]. intros [H3 | H3]; [| tauto].
             subst. assert (eqb x x = true) by (apply eqb_eq; reflexivity). congruence.
  Qed.

  Lemma dedup_first_NoDup : forall l seen, NoDup (dedup_first eqb seen l).
  Proof.
    induction l as [| y l IH]; intros seen; simpl.
    - constructor.
    - destruct (existsb (eqb y) seen) eqn:He.
      + apply IH.
      + constructor; [| apply IH].
        intros Hin. apply dedup_first_In in Hin. simpl in Hin. tauto.
  Qed.

  Lemma nodup_b_NoDup : forall l, nodup_b eqb l = true <-> NoDup l.
  Proof.
    induction l as [| x l IH]; simpl.
    - split; [constructor | reflexivity].
    - rewrite andb_true_iff, negb_true_iff, IH. split.
      + intros [H1 H2]. constructor; [| exact H2].
        intros Hin. apply existsb_eqb_In in Hin. congruence.
      + intros H. inversion H as [| ? ? Hn Hd]; subst. split; [| exact Hd].
        destruct (existsb (eqb x) l) eqn:He; [| reflexivity].
        apply existsb_eqb_In in He. contradiction.
  Qed.
End Dedup.

(* ---------------------------------------------------------------------------------------- *)
(* helpers naming the local fixpoints of the model *)

Lemma skeleton_union : forall l, skeleton (Union l) = KUnion (map skeleton l).
Proof. reflexivity. Qed.
Lemma skeleton_inter : forall l, skeleton (Inter l) = KInter (map skeleton l).
Proof. reflexivity. Qed.
Lemma shape_union : forall n ts, shape (TUnion n ts) = KUnion (map shape ts).
Proof. reflexivity. Qed.
Lemma shape_inter : forall n ts, shape (TInter n ts) = KInter (map shape ts).
Proof. reflexivity. Qed.

Lemma named_union : forall n n' ts, named n (TUnion n' ts) <-> n' = n /\ Forall (named n) ts.
Proof.
  intros n n' ts. simpl.
  assert (H : (fix go (l : list tree) : Prop := match l with [] => True | x :: l' => named n x /\ go l' end) ts
              <-> Forall (named n) ts).
  { induction ts as [| x l IH].
    - split; [constructor | trivial].
    - split.
      + intros [H1 H2]. constructor; [exact H1 | apply IH; exact H2].
      + intros H. inversion H as [| ? ? H1 H2]; subst. split; [exact H1 | apply IH; exact H2]. }
  rewrite H. tauto.
Qed.

Lemma named_inter : forall n n' ts, named n (TInter n' ts) <-> n' = n /\ Forall (named n) ts.
Proof. intros n n' ts. exact (named_union n n' ts). Qed.

Lemma tuplesets_defined_union : forall m t l,
  tuplesets_defined m t (Union l) = forallb (tuplesets_defined m t) l.
Proof. intros m t l. simpl. induction l as [| x l IH]; simpl; [reflexivity | rewrite IH; reflexivity]. Qed.
Lemma tuplesets_defined_inter : forall m t l,
  tuplesets_defined m t (Inter l) = forallb (tuplesets_defined m t) l.
Proof. intros m t l. simpl. induction l as [| x l IH]; simpl; [reflexivity | rewrite IH; reflexivity]. Qed.

(* ---------------------------------------------------------------------------------------- *)
(* Forall2 helpers *)

Lemma Forall2_map_rel : forall (A B : Type) (P P' : A -> B -> Prop) l,
  Forall (fun x => forall t, P x t -> P' x t) l ->
  forall ts, Forall2 P l ts -> Forall2 P' l ts.
Proof.
  intros A B P P'. induction l as [| x l IH]; intros HF ts H2; inversion H2; subst.
  - constructor.
  - inversion HF; subst. constructor; [auto | apply IH; assumption].
Qed.

Lemma Forall2_unique_rel : forall (A B : Type) (P : A -> B -> Prop) (Q : B -> B -> Prop) l,
  Forall (fun x => forall t1 t2, P x t1 -> P x t2 -> Q t1 t2) l ->
  forall a b, Forall2 P l a -> Forall2 P l b -> Forall2 Q a b.
Proof.
  intros A B P Q. induction l as [| x l IH]; intros HF a b Ha Hb; inversion Ha; subst; inversion Hb; subst.
  - constructor.
  - inversion HF; subst. constructor; [eauto | apply IH; assumption].
Qed.

(* ---------------------------------------------------------------------------------------- *)
(* lexicographic order: total and transitive (so the hypotheses on [leb] are satisfiable) *)

Lemma lex_leb_total : forall a b, lex_leb a b = true \/ lex_leb b a = true.
Proof.
  induction a as [| x a IH]; intros b.
  - left. reflexivity.
  - destruct b as [| y b]; [right; reflexivity |]. simpl.
    destruct (N.ltb x y) eqn:Hxy; [left; reflexivity |].
    destruct (N.ltb y x) eqn:Hyx; [right; reflexivity |].
    apply N.ltb_ge in Hxy. apply N.ltb_ge in Hyx.
    assert (Heq : x = y) by lia. subst. rewrite N.eqb_refl. apply IH.
Qed.

Lemma lex_leb_trans : forall a b c, lex_leb a b = true -> lex_leb b c = true -> lex_leb a c = true.
Proof.
  induction a as [| x a IH]; intros b c Hab Hbc.
  - reflexivity.
  - destruct b as [| y b]; [discriminate |]. destruct c as [| z c]; [discriminate |].
    simpl in *.
    destruct (N.ltb x y) eqn:Hxy.
    + apply N.ltb_lt in Hxy. destruct (N.ltb y z) eqn:Hyz.
      * apply N.ltb_lt in Hyz. assert (Hxz : N.ltb x z = true) by (apply N.ltb_lt; lia).
        rewrite Hxz. reflexivity.
      * destruct (N.eqb y z) eqn:Heyz; [| discriminate]. apply N.eqb_eq in Heyz. subst.
        assert (Hxz : N.ltb x z = true) by (apply N.ltb_lt; lia). rewrite Hxz. reflexivity.
    + destruct (N.eqb x y) eqn:Hexy; [| discriminate]. apply N.eqb_eq in Hexy. subst.
      destruct (N.ltb y z) eqn:Hyz; [reflexivity |].
      destruct (N.eqb y z) eqn:Heyz; [| discriminate].
      eapply IH; eassumption.
Qed.

Lemma lex_leb_antisym : forall a b, lex_leb a b = true -> lex_leb b a = true -> a = b.
Proof.
  induction a as [| x a IH]; intros b Hab Hba.
  - destruct b; [reflexivity | discriminate].
  - destruct b as [| y b]; [discriminate |]. simpl in *.
    destruct (N.ltb x y) eqn:Hxy.
    + apply N.ltb_lt in Hxy. destruct (N.ltb y x) eqn:Hyx.
      * apply N.ltb_lt in Hyx. lia.
      * destruct (N.eqb y x) eqn:He; [| discriminate]. apply N.eqb_eq in He. lia.
    + destruct (N.eqb x y) eqn:He; [| discriminate]. apply N.eqb_eq in He. subst.
      rewrite N.ltb_irrefl, N.eqb_refl in Hba. f_equal. apply IH; assumption.
Qed.

(* ---------------------------------------------------------------------------------------- *)
(* the specification relation and the main theorems *)

Inductive tree_equiv : tree -> tree -> Prop :=
| EqUsers : forall n us, tree_equiv (TUsers n us) (TUsers n us)
| EqComputed : forall n u, tree_equiv (TComputed n u) (TComputed n u)
| EqTTU : forall n u cs cs', Permutation cs cs' ->
    tree_equiv (TTupleToUserset n u cs) (TTupleToUserset n u cs')
| EqUnion : forall n ts ts', Forall2 tree_equiv ts ts' -> tree_equiv (TUnion n ts) (TUnion n ts')
| EqInter : forall n ts ts', Forall2 tree_equiv ts ts' -> tree_equiv (TInter n ts) (TInter n ts')
| EqDiff : forall n b b' s s', tree_equiv b b' -> tree_equiv s s' ->
    tree_equiv (TDiff n b s) (TDiff n b' s').

Section Spec.
  Variable leb : subject -> subject -> bool.
  Variable m : model.
  Variable conds : list cid.

  Definition le (a b : subject) : Prop := leb a b = true.

  Hypothesis leb_total : forall a b, leb a b = true \/ leb b a = true.

  (* ---- insertion sort ---- *)
  Lemma insert_perm : forall x l, Permutation (insert leb x l) (x :: l).
  Proof.
    intros x l. induction l as [| y l IH]; simpl.
    - apply Permutation_refl.
    - destruct (leb x y).
      + apply Permutation_refl.
      + eapply Permutation_trans; [apply perm_skip; exact IH | apply perm_swap].
  Qed.

  Lemma isort_perm : forall l, Permutation (isort leb l) l.
  Proof.
    induction l as [| x l IH]; simpl.
    - apply Permutation_refl.
    - eapply Permutation_trans; [apply insert_perm | apply perm_skip; exact IH].
  Qed.

  Lemma insert_sorted : forall x l, Sorted le l -> Sorted le (insert leb x l).
  Proof.
    intros x l Hs. induction l as [| y l IH]; simpl.
    - constructor; constructor.
    - destruct (leb x y) eqn:Hxy.
      + constructor; [exact Hs | constructor; exact Hxy].
      + inversion Hs as [| ? ? Hs' Hhd]; subst.
        constructor; [apply IH; exact Hs' |].
        assert (Hyx : le y x).
        { destruct (leb_total x y) as [H | H]; [congruence | exact H]. }
        destruct l as [| z l]; simpl.
        * constructor. exact Hyx.
        * destruct (leb x z); constructor; [exact Hyx |].
          inversion Hhd; subst. assumption.
  Qed.

  Lemma isort_sorted : forall l, Sorted le (isort leb l).
  Proof.
    induction l as [| x l IH]; simpl; [constructor | apply insert_sorted; exact IH].
  Qed.

  Lemma sorted_b_Sorted : forall l, sorted_b leb l = true <-> Sorted le l.
  Proof.
    induction l as [| x l IH].
    - simpl. split; [constructor | reflexivity].
    - destruct l as [| y l].
      + simpl. split; [intros _; constructor; constructor | reflexivity].
      + change (sorted_b leb (x :: y :: l)) with (leb x y && sorted_b leb (y :: l)).
        rewrite andb_true_iff, IH. split.
        * intros [H1 H2]. constructor; [exact H2 | constructor; exact H1].
        * intros H. inversion H as [| ? ? H1 H2]; subst. inversion H2; subst. split; assumption.
  Qed.

  (* ---- reads ---- *)
  Definition on_spec (all : list tuple) (o : obj) (r : rid) (t : tuple) : Prop :=
    In t all /\ valid_for_read m conds t = true /\ t_obj t = o /\ t_rel t = r.

  Lemma read_valid_In : forall all o r t,
    In t (read_valid m conds all o r) <-> on_spec all o r t.
  Proof.
    intros all o r t. unfold read_valid, on_spec, on_atom.
    rewrite !filter_In, andb_true_iff, obj_eqb_eq, N.eqb_eq. tauto.
  Qed.

  Definition users_spec (all : list tuple) (o : obj) (r : rid) (us : list subject) : Prop :=
    Sorted le us /\ NoDup us /\
    forall u, In u us <-> exists t, on_spec all o r t /\ t_sub t = u.

  Definition computed_spec (all : list tuple) (o : obj) (ts c : rid) (cs : list cref) : Prop :=
    NoDup cs /\
    forall e, In e cs <-> exists t, on_spec all o ts t /\ ttu_ref c (t_sub t) = e.

  Lemma this_users_spec : forall all o r, users_spec all o r (this_users leb m conds all o r).
  Proof.
    intros all o r. unfold users_spec, this_users. split; [apply isort_sorted |]. split.
    - eapply Permutation_NoDup; [apply Permutation_sym; apply isort_perm |].
      apply dedup_first_NoDup. exact subject_eqb_eq.
    - intros u. split.
      + intros Hin. eapply Permutation_in in Hin; [| apply isort_perm].
        apply (dedup_first_In _ _ subject_eqb_eq) in Hin. destruct Hin as [Hin _].
        apply in_map_iff in Hin. destruct Hin as [t [Hs Hin]].
        exists t. split; [apply read_valid_In; exact Hin | exact Hs].
      + intros [t [Hon Hs]]. eapply Permutation_in; [apply Permutation_sym; apply isort_perm |].
        apply (dedup_first_In _ _ subject_eqb_eq). split; [| intros []].
        apply in_map_iff. exists t. split; [exact Hs | apply read_valid_In; exact Hon].
  Qed.

  Lemma ttu_computed_spec : forall all o ts c, computed_spec all o ts c (ttu_computed m conds all o ts c).
  Proof.
    intros all o ts c. unfold computed_spec, ttu_computed. split.
    - apply dedup_first_NoDup. exact cref_eqb_eq.
    - intros e. rewrite (dedup_first_In _ _ cref_eqb_eq). rewrite in_map_iff. split.
      + intros [[t [He Hin]] _]. exists t. split; [apply read_valid_In; exact Hin | exact He].
      + intros [t [Hon He]]. split; [| intros []]. exists t. split; [exact He | apply read_valid_In; exact Hon].
  Qed.

  Lemma users_ok_spec : forall all o r us, users_ok leb m conds all o r us = true <-> users_spec all o r us.
  Proof.
    intros all o r us. unfold users_ok, users_spec.
    rewrite !andb_true_iff, sorted_b_Sorted, (nodup_b_NoDup _ _ subject_eqb_eq), !forallb_forall.
    split.
    - intros [[[Hs Hn] H1] H2]. split; [exact Hs |]. split; [exact Hn |]. intros u. split.
      + intros Hin. specialize (H1 u Hin). apply existsb_exists in H1.
        destruct H1 as [t [Hin' He]]. apply subject_eqb_eq in He.
        exists t. split; [apply read_valid_In; exact Hin' | exact He].
      + intros [t [Hon Hsu]]. apply read_valid_In in Hon. specialize (H2 t Hon).
        apply (existsb_eqb_In _ _ subject_eqb_eq) in H2. subst. exact H2.
    - intros [Hs [Hn H]]. repeat split; try assumption.
      + intros u Hin. apply H in Hin. destruct Hin as [t [Hon Hsu]].
        apply existsb_exists. exists t. split; [apply read_valid_In; exact Hon | apply subject_eqb_eq; exact Hsu].
      + intros t Hin. apply (existsb_eqb_In _ _ subject_eqb_eq). apply H.
        exists t. split; [apply read_valid_In; exact Hin | reflexivity].
  Qed.

  Lemma computed_ok_spec : forall all o ts c cs,
    computed_ok m conds all o ts c cs = true <-> computed_spec all o ts c cs.
  Proof.
    intros all o ts c cs. unfold computed_ok, computed_spec.
    rewrite !andb_true_iff, (nodup_b_NoDup _ _ cref_eqb_eq), !forallb_forall.
    split.
    - intros [[Hn H1] H2]. split; [exact Hn |]. intros e. split.
      + intros Hin. specialize (H1 e Hin). apply existsb_exists in H1.
        destruct H1 as [t [Hin' He]]. apply cref_eqb_eq in He.
        exists t. split; [apply read_valid_In; exact Hin' | exact He].
      + intros [t [Hon He]]. apply read_valid_In in Hon. specialize (H2 t Hon).
        apply (existsb_eqb_In _ _ cref_eqb_eq) in H2. subst. exact H2.
    - intros [Hn H]. repeat split; try assumption.
      + intros e Hin. apply H in Hin. destruct Hin as [t [Hon He]].
        apply existsb_exists. exists t. split; [apply read_valid_In; exact Hon | apply cref_eqb_eq; exact He].
      + intros t Hin. apply (existsb_eqb_In _ _ cref_eqb_eq). apply H.
        exists t. split; [apply read_valid_In; exact Hin | reflexivity].
  Qed.

  (* ---- the specification: what a tree for (o, r) over the tuples [all] must look like ---- *)
  Section Mirrors.
    Variable all : list tuple.
    Variable o : obj.
    Variable r : rid.

    Inductive mirrors : rewrite -> tree -> Prop :=
    | MThis : forall us, users_spec all o r us -> mirrors This (TUsers (o, r) us)
    | MComputed : forall r', mirrors (Computed r') (TComputed (o, r) (o, r'))
    | MTTU : forall ts c cs, computed_spec all o ts c cs ->
        mirrors (TTU ts c) (TTupleToUserset (o, r) (o, ts) cs)
    | MUnion : forall l ts, Forall2 mirrors l ts -> mirrors (Union l) (TUnion (o, r) ts)
    | MInter : forall l ts, Forall2 mirrors l ts -> mirrors (Inter l) (TInter (o, r) ts)
    | MDiff : forall b s tb tsb, mirrors b tb -> mirrors s tsb ->
        mirrors (Diff b s) (TDiff (o, r) tb tsb).

    Lemma expand_union_eq : forall l,
      expand_rw leb m conds all o r (Union l) =
      match kids_of (expand_rw leb m conds all o r) l with
      | inr ts => XTree (TUnion (o, r) ts) | inl e => XErr e end.
    Proof. reflexivity. Qed.

    Lemma expand_inter_eq : forall l,
      expand_rw leb m conds all o r (Inter l) =
      match kids_of (expand_rw leb m conds all o r) l with
      | inr ts => XTree (TInter (o, r) ts) | inl e => XErr e end.
    Proof. reflexivity. Qed.

    Lemma check_union_eq : forall l n ts,
      check_tree leb m conds all o r (Union l) (TUnion n ts) =
      nodename_eqb n (o, r) && kids_check (check_tree leb m conds all o r) l ts.
    Proof. reflexivity. Qed.

    Lemma check_inter_eq : forall l n ts,
      check_tree leb m conds all o r (Inter l) (TInter n ts) =
      nodename_eqb n (o, r) && kids_check (check_tree leb m conds all o r) l ts.
    Proof. reflexivity. Qed.

    Lemma kids_of_mirrors : forall l,
      Forall (fun rw => forall t, expand_rw leb m conds all o r rw = XTree t -> mirrors rw t) l ->
      forall ts, kids_of (expand_rw leb m conds all o r) l = inr ts -> Forall2 mirrors l ts.
    Proof.
      induction l as [| x l IH]; intros HF ts Hk; simpl in Hk.
      - inversion Hk. constructor.
      - inversion HF as [| ? ? Hx HF']; subst.
        destruct (expand_rw leb m conds all o r x) as [t | e] eqn:Hex; [| discriminate].
        destruct (kids_of (expand_rw leb m conds all o r) l) as [e | ts'] eqn:Hkl; [discriminate |].
        inversion Hk; subst. constructor; [apply Hx; reflexivity | apply IH; [exact HF' | reflexivity]].
    Qed.

    (* the model's tree satisfies the specification, for every rewrite *)
    Theorem expand_mirrors : forall rw t,
      expand_rw leb m conds all o r rw = XTree t -> mirrors rw t.
    Proof.
      induction rw as [| r' | ts c | l IH | l IH | b s IHb IHs] using rewrite_ind'; intros t He.
      - simpl in He. inversion He; subst. constructor. apply this_users_spec.
      - simpl in He. inversion He; subst. constructor.
      - simpl in He. destruct (rel_defined m (otype o) ts); [| discriminate].
        inversion He; subst. constructor. apply ttu_computed_spec.
      - rewrite expand_union_eq in He.
        destruct (kids_of (expand_rw leb m conds all o r) l) as [e | ts] eqn:Hk; [discriminate |].
        inversion He; subst. constructor. apply kids_of_mirrors; assumption.
      - rewrite expand_inter_eq in He.
        destruct (kids_of (expand_rw leb m conds all o r) l) as [e | ts] eqn:Hk; [discriminate |].
        inversion He; subst. constructor. apply kids_of_mirrors; assumption.
      - simpl in He.
        destruct (expand_rw leb m conds all o r b) as [tb | e] eqn:Hb; [| discriminate].
        destruct (expand_rw leb m conds all o r s) as [tsb | e] eqn:Hs; [| discriminate].
        inversion He; subst. constructor; [apply IHb | apply IHs]; reflexivity.
    Qed.

    (* the executable predicate used on the real tree decides the specification *)
    Lemma kids_check_mirrors : forall l,
      Forall (fun rw => forall t, check_tree leb m conds all o r rw t = true <-> mirrors rw t) l ->
      forall ts, kids_check (check_tree leb m conds all o r) l ts = true <-> Forall2 mirrors l ts.
    Proof.
      induction l as [| x l IH]; intros HF ts.
      - destruct ts as [| t ts]; simpl.
        + split; [constructor | reflexivity].
        + split; [discriminate | intros H; inversion H].
      - inversion HF as [| ? ? Hx HF']; subst. destruct ts as [| t ts]; simpl.
        + split; [discriminate | intros H; inversion H].
        + rewrite andb_true_iff, Hx, (IH HF'). split.
          * intros [H1 H2]. constructor; assumption.
          * intros H. inversion H; subst. split; assumption.
    Qed.

    Theorem check_tree_mirrors : forall rw t,
      check_tree leb m conds all o r rw t = true <-> mirrors rw t.
    Proof.
      induction rw as [| r' | ts c | l IH | l IH | b s IHb IHs] using rewrite_ind'; intros t.
      - destruct t; simpl; try (split; [discriminate | intros H; inversion H]).
        rewrite andb_true_iff, nodename_eqb_eq, users_ok_spec. split.
        + intros [H1 H2]. subst. constructor. exact H2.
        + intros H. inversion H; subst. split; [reflexivity | assumption].
      - destruct t; simpl; try (split; [discriminate | intros H; inversion H]).
        rewrite andb_true_iff, !nodename_eqb_eq. split.
        + intros [H1 H2]. subst. constructor.
        + intros H. inversion H; subst. split; reflexivity.
      - destruct t; simpl; try (split; [discriminate | intros H; inversion H]).
        rewrite !andb_true_iff, !nodename_eqb_eq, computed_ok_spec. split.
        + intros [[H1 H2] H3]. subst. constructor. exact H3.
        + intros H. inversion H; subst. split; [split; reflexivity | assumption].
      - destruct t; try (simpl; split; [discriminate | intros H; inversion H]).
        rewrite check_union_eq, andb_true_iff, nodename_eqb_eq, (kids_check_mirrors l IH). split.
        + intros [H1 H2]. subst. constructor. exact H2.
        + intros H. inversion H; subst. split; [reflexivity | assumption].
      - destruct t; try (simpl; split; [discriminate | intros H; inversion H]).
        rewrite check_inter_eq, andb_true_iff, nodename_eqb_eq, (kids_check_mirrors l IH). split.
        + intros [H1 H2]. subst. constructor. exact H2.
        + intros H. inversion H; subst. split; [reflexivity | assumption].
      - destruct t; simpl; try (split; [discriminate | intros H; inversion H]).
        rewrite !andb_true_iff, nodename_eqb_eq, IHb, IHs. split.
        + intros [[H1 H2] H3]. subst. constructor; assumption.
        + intros H. inversion H; subst. repeat split; try reflexivity; assumption.
    Qed.

    (* ---- shape ---- *)
    Lemma mirrors_shape_kids : forall l,
      Forall (fun rw => forall t, mirrors rw t -> shape t = skeleton rw /\ named (o, r) t) l ->
      forall ts, Forall2 mirrors l ts -> map shape ts = map skeleton l /\ Forall (named (o, r)) ts.
    Proof.
      induction l as [| x l IH]; intros HF ts H2; inversion H2; subst.
      - split; [reflexivity | constructor].
      - inversion HF as [| ? ? Hx HF']; subst.
        match goal with Hm : mirrors x ?y, Hr : Forall2 mirrors l ?l' |- _ =>
          destruct (Hx _ Hm) as [Hs Hn]; destruct (IH HF' _ Hr) as [Hs' Hn'] end.
        split; [simpl; rewrite Hs, Hs'; reflexivity | constructor; assumption].
    Qed.

    Theorem mirrors_shape : forall rw t, mirrors rw t -> shape t = skeleton rw /\ named (o, r) t.
    Proof.
      induction rw as [| r' | ts c | l IH | l IH | b s IHb IHs] using rewrite_ind'; intros t Hm;
        inversion Hm; subst.
      - split; reflexivity.
      - split; [reflexivity | split; reflexivity].
      - split; [reflexivity | split; reflexivity].
      - match goal with H : Forall2 mirrors l _ |- _ => destruct (mirrors_shape_kids l IH _ H) as [Hs Hn] end.
        split.
        + rewrite shape_union, skeleton_union, Hs. reflexivity.
        + apply named_union. split; [reflexivity | exact Hn].
      - match goal with H : Forall2 mirrors l _ |- _ => destruct (mirrors_shape_kids l IH _ H) as [Hs Hn] end.
        split.
        + rewrite shape_inter, skeleton_inter, Hs. reflexivity.
        + apply named_inter. split; [reflexivity | exact Hn].
      - match goal with H1 : mirrors b _, H2 : mirrors s _ |- _ =>
          destruct (IHb _ H1) as [Hsb Hnb]; destruct (IHs _ H2) as [Hss Hns] end.
        split; [simpl; rewrite Hsb, Hss; reflexivity | simpl; auto].
    Qed.

    (* ---- totality: a tree is produced exactly when every tupleset is a relation of the type ---- *)
    Lemma kids_of_total : forall l,
      Forall (fun rw => (tuplesets_defined m (otype o) rw = true -> exists t, expand_rw leb m conds all o r rw = XTree t) /\
                        (tuplesets_defined m (otype o) rw = false -> expand_rw leb m conds all o r rw = XErr ERelationNotFound)) l ->
      (forallb (tuplesets_defined m (otype o)) l = true -> exists ts, kids_of (expand_rw leb m conds all o r) l = inr ts) /\
      (forallb (tuplesets_defined m (otype o)) l = false -> kids_of (expand_rw leb m conds all o r) l = inl ERelationNotFound).
    Proof.
      induction l as [| x l IH]; intros HF; simpl.
      - split; [intros _; eexists; reflexivity | discriminate].
      - inversion HF as [| ? ? [Hx1 Hx2] HF']; subst. destruct (IH HF') as [IH1 IH2].
        destruct (tuplesets_defined m (otype o) x) eqn:Hd; simpl.
        + destruct (Hx1 eq_refl) as [t Ht]. rewrite Ht. split.
          * intros Hl. destruct (IH1 Hl) as [ts Hts]. rewrite Hts. eexists; reflexivity.
          * intros Hl. rewrite (IH2 Hl). reflexivity.
        + rewrite (Hx2 eq_refl). split; [discriminate | reflexivity].
    Qed.

    Theorem expand_total : forall rw,
      (tuplesets_defined m (otype o) rw = true -> exists t, expand_rw leb m conds all o r rw = XTree t) /\
      (tuplesets_defined m (otype o) rw = false -> expand_rw leb m conds all o r rw = XErr ERelationNotFound).
    Proof.
      induction rw as [| r' | ts c | l IH | l IH | b s IHb IHs] using rewrite_ind'.
      - simpl. split; [intros _; eexists; reflexivity | discriminate].
      - simpl. split; [intros _; eexists; reflexivity | discriminate].
      - simpl. destruct (rel_defined m (otype o) ts); split; try discriminate; try reflexivity.
        intros _. eexists; reflexivity.
      - rewrite tuplesets_defined_union, expand_union_eq. destruct (kids_of_total l IH) as [H1 H2]. split.
        + intros Hl. destruct (H1 Hl) as [ts Hts]. rewrite Hts. eexists; reflexivity.
        + intros Hl. rewrite (H2 Hl). reflexivity.
      - rewrite tuplesets_defined_inter, expand_inter_eq. destruct (kids_of_total l IH) as [H1 H2]. split.
        + intros Hl. destruct (H1 Hl) as [ts Hts]. rewrite Hts. eexists; reflexivity.
        + intros Hl. rewrite (H2 Hl). reflexivity.
      - destruct IHb as [Hb1 Hb2], IHs as [Hs1 Hs2]. simpl.
        destruct (tuplesets_defined m (otype o) b) eqn:Hdb; simpl.
        + destruct (Hb1 eq_refl) as [tb Htb]. rewrite Htb.
          destruct (tuplesets_defined m (otype o) s) eqn:Hds.
          * destruct (Hs1 eq_refl) as [tsb Htsb]. rewrite Htsb. split; [intros _; eexists; reflexivity | discriminate].
          * rewrite (Hs2 eq_refl). split; [discriminate | reflexivity].
        + rewrite (Hb2 eq_refl). split; [discriminate | reflexivity].
    Qed.
  End Mirrors.

  (* ---- the specification depends only on the SET of tuples ---- *)
  Lemma on_spec_ext : forall all all' o r t,
    (forall x, In x all <-> In x all') -> on_spec all o r t -> on_spec all' o r t.
  Proof. intros all all' o r t Hx [H1 H2]. split; [apply Hx; exact H1 | exact H2]. Qed.

  Lemma mirrors_ext : forall all all' o r,
    (forall x, In x all <-> In x all') ->
    forall rw t, mirrors all o r rw t -> mirrors all' o r rw t.
  Proof.
    intros all all' o r Hx.
    assert (Hx' : forall x, In x all' <-> In x all) by (intros x; symmetry; apply Hx).
    induction rw as [| r' | ts c | l IH | l IH | b s IHb IHs] using rewrite_ind'; intros t Hm;
      inversion Hm; subst.
    - constructor.
      match goal with H : users_spec _ _ _ _ |- _ => destruct H as [Hs [Hn Hu]] end.
      split; [exact Hs |]. split; [exact Hn |]. intros u. rewrite Hu.
      split; intros [t [Hon He]]; exists t; (split; [| exact He]); eapply on_spec_ext; eauto.
    - constructor.
    - constructor.
      match goal with H : computed_spec _ _ _ _ _ |- _ => destruct H as [Hn Hu] end.
      split; [exact Hn |]. intros e. rewrite Hu.
      split; intros [t [Hon He]]; exists t; (split; [| exact He]); eapply on_spec_ext; eauto.
    - constructor. eapply Forall2_map_rel; [exact IH | assumption].
    - constructor. eapply Forall2_map_rel; [exact IH | assumption].
    - constructor; auto.
  Qed.

  (* ---- the specification determines the tree (up to the order of TTU computed entries) ---- *)
  Hypothesis leb_trans : forall a b c, leb a b = true -> leb b c = true -> leb a c = true.
  Hypothesis leb_antisym : forall a b, leb a b = true -> leb b a = true -> a = b.

  Lemma sorted_unique : forall l1 l2,
    Sorted le l1 -> Sorted le l2 -> NoDup l1 -> NoDup l2 ->
    (forall x, In x l1 <-> In x l2) -> l1 = l2.
  Proof.
    assert (Htr : Relations_1.Transitive le).
    { intros a b c Hab Hbc. unfold le in *. eapply leb_trans; eassumption. }
    intros l1 l2 H1 H2. apply Sorted_StronglySorted in H1; [| exact Htr].
    apply Sorted_StronglySorted in H2; [| exact Htr].
    revert l2 H2. induction H1 as [| x1 l1 Hs1 IH Hall1]; intros l2 H2 Hn1 Hn2 Hx.
    - destruct l2 as [| y l2]; [reflexivity |]. exfalso. apply (Hx y). left. reflexivity.
    - destruct H2 as [| x2 l2 Hs2 Hall2].
      + exfalso. apply (Hx x1). left. reflexivity.
      + inversion Hn1 as [| ? ? Hni1 Hn1']; subst. inversion Hn2 as [| ? ? Hni2 Hn2']; subst.
        assert (Heq : x1 = x2).
        { assert (Hi1 : In x1 (x2 :: l2)) by (apply Hx; left; reflexivity).
          assert (Hi2 : In x2 (x1 :: l1)) by (apply Hx; left; reflexivity).
          destruct Hi1 as [Hi1 | Hi1]; [symmetry; exact Hi1 |].
          destruct Hi2 as [Hi2 | Hi2]; [exact Hi2 |].
          rewrite Forall_forall in Hall1, Hall2.
          apply leb_antisym; [apply Hall1; exact Hi2 | apply Hall2; exact Hi1]. }
        subst x2. f_equal. apply IH; try assumption.
        intros x. split; intros Hin.
        * assert (Hi : In x (x1 :: l2)) by (apply Hx; right; exact Hin).
          destruct Hi as [Hi | Hi]; [subst; contradiction | exact Hi].
        * assert (Hi : In x (x1 :: l1)) by (apply Hx; right; exact Hin).
          destruct Hi as [Hi | Hi]; [subst; contradiction | exact Hi].
  Qed.

  Theorem mirrors_unique : forall all o r rw t1 t2,
    mirrors all o r rw t1 -> mirrors all o r rw t2 -> tree_equiv t1 t2.
  Proof.
    intros all o r.
    induction rw as [| r' | ts c | l IH | l IH | b s IHb IHs] using rewrite_ind'; intros t1 t2 H1 H2;
      inversion H1; subst; inversion H2; subst.
    - match goal with Ha : users_spec _ _ _ ?a, Hb : users_spec _ _ _ ?b |- _ =>
        destruct Ha as [Hsa [Hna Hua]]; destruct Hb as [Hsb [Hnb Hub]];
        assert (Heq : a = b) by (apply sorted_unique; try assumption; intros x; rewrite Hua, Hub; tauto) end.
      subst. constructor.
    - constructor.
    - constructor.
      match goal with Ha : computed_spec _ _ _ _ ?a, Hb : computed_spec _ _ _ _ ?b |- _ =>
        destruct Ha as [Hna Hua]; destruct Hb as [Hnb Hub] end.
      apply NoDup_Permutation; try assumption. intros x. rewrite Hua, Hub. tauto.
    - constructor. eapply Forall2_unique_rel; [exact IH | eassumption | eassumption].
    - constructor. eapply Forall2_unique_rel; [exact IH | eassumption | eassumption].
    - constructor; auto.
  Qed.

  (* contextual = stored: the answer depends only on the set contextual ∪ stored *)
  Theorem expand_rw_set_equiv : forall all all' o r rw t t',
    (forall x, In x all <-> In x all') ->
    expand_rw leb m conds all o r rw = XTree t ->
    expand_rw leb m conds all' o r rw = XTree t' ->
    tree_equiv t t'.
  Proof.
    intros all all' o r rw t t' Hx He He'.
    apply expand_mirrors in He. apply expand_mirrors in He'.
    eapply mirrors_unique; [eapply mirrors_ext; [exact Hx | exact He] | exact He'].
  Qed.
End Spec.

(* ---------------------------------------------------------------------------------------- *)
(* corollaries in the form quoted by Props/C30.v *)

Section Corollaries.
  Variable leb : subject -> subject -> bool.
  Variable m : model.
  Variable conds : list cid.
  Hypothesis leb_total : forall a b, leb a b = true \/ leb b a = true.

  Theorem expand_shape_lemma : forall all o r rw t,
    expand_rw leb m conds all o r rw = XTree t ->
    shape t = skeleton rw /\ named (o, r) t.
  Proof.
    intros all o r rw t He. eapply mirrors_shape. eapply expand_mirrors; eassumption.
  Qed.

  Theorem expand_leaf_users_lemma : forall all o r,
    exists us, expand_rw leb m conds all o r This = XTree (TUsers (o, r) us) /\
      Sorted (fun a b => leb a b = true) us /\ NoDup us /\
      forall u, In u us <->
        exists t, In t all /\ valid_for_read m conds t = true /\ t_obj t = o /\ t_rel t = r /\ t_sub t = u.
  Proof.
    intros all o r. exists (this_users leb m conds all o r). split; [reflexivity |].
    destruct (this_users_spec leb m conds leb_total all o r) as [Hs [Hn Hu]].
    split; [exact Hs |]. split; [exact Hn |]. intros u. rewrite Hu. unfold on_spec.
    split; intros [t H]; exists t; tauto.
  Qed.

  Theorem expand_leaf_refs_lemma : forall all o r,
    (forall r', expand_rw leb m conds all o r (Computed r') = XTree (TComputed (o, r) (o, r'))) /\
    (forall ts c, rel_defined m (otype o) ts = true ->
       exists cs, expand_rw leb m conds all o r (TTU ts c) = XTree (TTupleToUserset (o, r) (o, ts) cs) /\
         NoDup cs /\
         forall e, In e cs <->
           exists t, In t all /\ valid_for_read m conds t = true /\ t_obj t = o /\ t_rel t = ts /\
                     ttu_ref c (t_sub t) = e).
  Proof.
    intros all o r. split; [reflexivity |]. intros ts c Hd.
    exists (ttu_computed m conds all o ts c). simpl. rewrite Hd. split; [reflexivity |].
    destruct (ttu_computed_spec m conds all o ts c) as [Hn Hu].
    split; [exact Hn |]. intros e. rewrite Hu. unfold on_spec.
    split; intros [t H]; exists t; tauto.
  Qed.
End Corollaries.

(* ---- conditions are not evaluated ---- *)
Definition with_ceval (t : tuple) (b : b3) : tuple :=
  {| t_obj := t_obj t; t_rel := t_rel t; t_sub := t_sub t; t_cond := t_cond t; t_ceval := b |}.

Lemma filter_map_comm : forall (A : Type) (g : A -> A) (p : A -> bool) l,
  (forall x, p (g x) = p x) -> filter p (map g l) = map g (filter p l).
Proof.
  intros A g p l Hp. induction l as [| x l IH]; simpl; [reflexivity |].
  rewrite Hp. destruct (p x); simpl; rewrite IH; reflexivity.
Qed.

Section Ceval.
  Variable leb : subject -> subject -> bool.
  Variable m : model.
  Variable conds : list cid.
  Variable f : tuple -> b3.

  Let g (t : tuple) : tuple := with_ceval t (f t).

  Lemma read_valid_ceval : forall all o r,
    read_valid m conds (map g all) o r = map g (read_valid m conds all o r).
  Proof.
    intros all o r. unfold read_valid.
    rewrite (filter_map_comm _ g (on_atom o r)); [| intros x; reflexivity].
    rewrite (filter_map_comm _ g (valid_for_read m conds)); [reflexivity |].
    intros x. reflexivity.
  Qed.

  Lemma kids_of_ext : forall (f1 f2 : rewrite -> xres) l,
    Forall (fun x => f1 x = f2 x) l -> kids_of f1 l = kids_of f2 l.
  Proof.
    intros f1 f2 l HF. induction HF as [| x l Hx HF IH]; simpl; [reflexivity |].
    rewrite Hx, IH. reflexivity.
  Qed.

  Theorem expand_ignores_ceval_lemma : forall all o r rw,
    expand_rw leb m conds (map g all) o r rw = expand_rw leb m conds all o r rw.
  Proof.
    intros all o r.
    induction rw as [| r' | ts c | l IH | l IH | b s IHb IHs] using rewrite_ind'; simpl.
    - unfold this_users. rewrite read_valid_ceval, map_map. reflexivity.
    - reflexivity.
    - unfold ttu_computed. rewrite read_valid_ceval, map_map. reflexivity.
    - rewrite (kids_of_ext _ _ l IH). reflexivity.
    - rewrite (kids_of_ext _ _ l IH). reflexivity.
    - rewrite IHb, IHs. reflexivity.
  Qed.
End Ceval.

(* ---- top level: contextual tuples ---- *)
Section Top.
  Variable leb : subject -> subject -> bool.
  Variable m : model.
  Variable conds : list cid.

  (* an accepted contextual tuple passes the read filter: it is never silently dropped *)
  Lemma ctx_ok_valid : forall t, ctx_tuple_err m conds t = None -> valid_for_read m conds t = true.
  Proof.
    intros t H. unfold ctx_tuple_err in H. unfold valid_for_read.
    destruct (negb (wf_for_write m t)); [discriminate |].
    destruct (get_relation m (otype (t_obj t)) (t_rel t)) as [rd |]; [| discriminate].
    destruct (if is_tupleset m (otype (t_obj t)) (t_rel t)
              then is_this (rd_rw rd) && match t_sub t with SObj _ => true | _ => false end
              else true); simpl in *; [| discriminate].
    destruct (type_restr_ok (rd_restr rd) (t_sub t)); simpl in *; [| discriminate].
    destruct (if N.eqb (t_cond t) 0 then nocond_ok (rd_restr rd) (t_sub t)
              else cond_ok conds (rd_restr rd) (t_sub t) (t_cond t)); simpl in *; [reflexivity | discriminate].
  Qed.

  Lemma first_ctx_err_none : forall ctx, first_ctx_err m conds ctx = None ->
    forall t, In t ctx -> ctx_tuple_err m conds t = None.
  Proof.
    induction ctx as [| x ctx IH]; simpl; intros H t Hin; [contradiction |].
    destruct (ctx_tuple_err m conds x) eqn:Hx; [discriminate |].
    destruct Hin as [Hin | Hin]; [subst; exact Hx | apply IH; assumption].
  Qed.

  (* passing tuples as contextual tuples = having them stored first *)
  Theorem expand_ctx_eq_stored_lemma : forall ctx stored q,
    first_ctx_err m conds ctx = None ->
    expand_top leb m conds ctx stored q = expand_top leb m conds [] (ctx ++ stored) q.
  Proof.
    intros ctx stored q H. unfold expand_top. rewrite H. simpl. reflexivity.
  Qed.

  Hypothesis leb_total : forall a b, leb a b = true \/ leb b a = true.
  Hypothesis leb_trans : forall a b c, leb a b = true -> leb b c = true -> leb a c = true.
  Hypothesis leb_antisym : forall a b, leb a b = true -> leb b a = true -> a = b.

  (* any two splits of the same set of tuples into contextual and stored give the same tree
     (same nodes, same names, identical user lists; computed lists up to order) *)
  Theorem expand_split_irrelevant_lemma : forall ctx stored ctx' stored' o r t t',
    (forall x, In x (ctx ++ stored) <-> In x (ctx' ++ stored')) ->
    expand_top leb m conds ctx stored (XReq o r) = XTree t ->
    expand_top leb m conds ctx' stored' (XReq o r) = XTree t' ->
    tree_equiv t t'.
  Proof.
    intros ctx stored ctx' stored' o r t t' Hx H1 H2. unfold expand_top in H1, H2.
    destruct (first_ctx_err m conds ctx); [discriminate |].
    destruct (first_ctx_err m conds ctx'); [discriminate |].
    destruct (negb (type_defined m (otype o))); [discriminate |].
    destruct (get_relation m (otype o) r) as [rd |]; [| discriminate].
    eapply expand_rw_set_equiv; eassumption.
  Qed.

  (* what the tree of an accepted request looks like *)
  Theorem expand_top_mirrors_lemma : forall ctx stored o r t,
    expand_top leb m conds ctx stored (XReq o r) = XTree t ->
    exists rd, get_relation m (otype o) r = Some rd /\
               mirrors leb m conds (ctx ++ stored) o r (rd_rw rd) t /\
               forall x, In x ctx -> valid_for_read m conds x = true.
  Proof.
    intros ctx stored o r t H. unfold expand_top in H.
    destruct (first_ctx_err m conds ctx) eqn:Hc; [discriminate |].
    destruct (negb (type_defined m (otype o))); [discriminate |].
    destruct (get_relation m (otype o) r) as [rd |]; [| discriminate].
    exists rd. split; [reflexivity |]. split.
    - apply expand_mirrors; assumption.
    - intros x Hin. apply ctx_ok_valid. eapply first_ctx_err_none; eassumption.
  Qed.
End Top.

(* ---------------------------------------------------------------------------------------- *)
(* a concrete order on subjects and a concrete scenario (non-vacuity of the hypotheses) *)

Definition render_num (s : subject) : list N :=
  match s with
  | SObj o => [0; otype o; oid o]
  | SWild t => [1; t]
  | SSet o r => [2; otype o; oid o; r]
  end.

Definition leb_num : subject -> subject -> bool := leb_of_render render_num.

Lemma render_num_inj : forall a b, render_num a = render_num b -> a = b.
Proof.
  intros [[ta ia] | ta | [ta ia] ra] [[tb ib] | tb | [tb ib] rb] H; simpl in H; inversion H; reflexivity.
Qed.

Lemma leb_num_total : forall a b, leb_num a b = true \/ leb_num b a = true.
Proof. intros a b. apply lex_leb_total. Qed.
Lemma leb_num_trans : forall a b c, leb_num a b = true -> leb_num b c = true -> leb_num a c = true.
Proof. intros a b c. apply lex_leb_trans. Qed.
Lemma leb_num_antisym : forall a b, leb_num a b = true -> leb_num b a = true -> a = b.
Proof. intros a b H1 H2. apply render_num_inj. apply lex_leb_antisym; assumption. Qed.

(* types: 1 user, 2 group, 3 folder, 4 doc; relations: 1 member, 2 viewer, 3 parent, 4 editor,
   5 blocked; condition 1.
     group.member : [user, group#member]
     folder.viewer: [user, user:*]
     doc.parent   : [folder]
     doc.editor   : [user, user with c1]
     doc.blocked  : [user]
     doc.viewer   : [user, group#member] or viewer from parent or (editor but not (this and blocked)) *)
Definition ex_model : model :=
  [ {| td_type := 1; td_rels := [] |};
    {| td_type := 2; td_rels := [ {| rd_rel := 1; rd_rw := This;
          rd_restr := [ {| r_type := 1; r_kind := RObj; r_cond := 0 |}; {| r_type := 2; r_kind := RSet 1; r_cond := 0 |} ] |} ] |};
    {| td_type := 3; td_rels := [ {| rd_rel := 2; rd_rw := This;
          rd_restr := [ {| r_type := 1; r_kind := RObj; r_cond := 0 |}; {| r_type := 1; r_kind := RWild; r_cond := 0 |} ] |} ] |};
    {| td_type := 4; td_rels := [
        {| rd_rel := 3; rd_rw := This; rd_restr := [ {| r_type := 3; r_kind := RObj; r_cond := 0 |} ] |};
        {| rd_rel := 4; rd_rw := This; rd_restr := [ {| r_type := 1; r_kind := RObj; r_cond := 0 |}; {| r_type := 1; r_kind := RObj; r_cond := 1 |} ] |};
        {| rd_rel := 5; rd_rw := This; rd_restr := [ {| r_type := 1; r_kind := RObj; r_cond := 0 |} ] |};
        {| rd_rel := 2; rd_rw := Union [This; TTU 3 2; Diff (Computed 4) (Inter [This; Computed 5])];
           rd_restr := [ {| r_type := 1; r_kind := RObj; r_cond := 0 |}; {| r_type := 2; r_kind := RSet 1; r_cond := 0 |} ] |} ] |} ].

Definition ex_o (t i : N) : obj := {| otype := t; oid := i |}.
Definition ex_t (o : obj) (r : rid) (s : subject) (c : cid) (e : b3) : tuple :=
  {| t_obj := o; t_rel := r; t_sub := s; t_cond := c; t_ceval := e |}.

(* stored: two users and a userset on doc:1#viewer, one tuple of a type that viewer does not
   allow (folder:1, dropped by the read filter), two parents, a conditioned editor whose
   condition is false *)
Definition ex_stored : list tuple :=
  [ ex_t (ex_o 4 1) 2 (SObj (ex_o 1 2)) 0 T;
    ex_t (ex_o 4 1) 2 (SSet (ex_o 2 1) 1) 0 T;
    ex_t (ex_o 4 1) 2 (SObj (ex_o 3 1)) 0 T;
    ex_t (ex_o 4 1) 2 (SObj (ex_o 1 1)) 0 T;
    ex_t (ex_o 4 1) 3 (SObj (ex_o 3 2)) 0 T;
    ex_t (ex_o 4 1) 3 (SObj (ex_o 3 1)) 0 T;
    ex_t (ex_o 4 1) 4 (SObj (ex_o 1 3)) 1 F;
    ex_t (ex_o 4 2) 2 (SObj (ex_o 1 3)) 0 T ].

(* contextual: a duplicate of a stored tuple and a new user *)
Definition ex_ctx : list tuple :=
  [ ex_t (ex_o 4 1) 2 (SObj (ex_o 1 2)) 0 T;
    ex_t (ex_o 4 1) 2 (SObj (ex_o 1 3)) 0 T ].

Definition ex_tree : tree :=
  TUnion (ex_o 4 1, 2)
    [ TUsers (ex_o 4 1, 2) [SObj (ex_o 1 1); SObj (ex_o 1 2); SObj (ex_o 1 3); SSet (ex_o 2 1) 1];
      TTupleToUserset (ex_o 4 1, 2) (ex_o 4 1, 3) [(UObj (ex_o 3 2), 2); (UObj (ex_o 3 1), 2)];
      TDiff (ex_o 4 1, 2)
        (TComputed (ex_o 4 1, 2) (ex_o 4 1, 4))
        (TInter (ex_o 4 1, 2)
           [ TUsers (ex_o 4 1, 2) [SObj (ex_o 1 1); SObj (ex_o 1 2); SObj (ex_o 1 3); SSet (ex_o 2 1) 1];
             TComputed (ex_o 4 1, 2) (ex_o 4 1, 5) ]) ].

Lemma ex_expand : expand_top leb_num ex_model [1] ex_ctx ex_stored (XReq (ex_o 4 1) 2) = XTree ex_tree.
Proof. vm_compute. reflexivity. Qed.

(* the conditioned tuple (condition false) is listed by Expand *)
Lemma ex_expand_cond :
  expand_top leb_num ex_model [1] [] ex_stored (XReq (ex_o 4 1) 4) = XTree (TUsers (ex_o 4 1, 4) [SObj (ex_o 1 3)]).
Proof. vm_compute. reflexivity. Qed.

(* error classes *)
Lemma ex_expand_errors :
  expand_top leb_num ex_model [1] [] ex_stored XEmpty = XErr EInvalidInput /\
  expand_top leb_num ex_model [1] [] ex_stored (XReq (ex_o 4 1) 9) = XErr EValidation /\
  expand_top leb_num ex_model [1] [ex_t (ex_o 4 1) 2 (SObj (ex_o 3 1)) 0 T] ex_stored (XReq (ex_o 4 1) 2) = XErr EInvalidTuple /\
  expand_top leb_num ex_model [1] [ex_t (ex_o 4 1) 5 (SObj (ex_o 1 1)) 1 T] ex_stored (XReq (ex_o 4 1) 2) = XErr EValidation /\
  expand_rw leb_num ex_model [1] ex_stored (ex_o 4 1) 2 (Union [This; TTU 9 2]) = XErr ERelationNotFound.
Proof. vm_compute. repeat split. Qed.
