(* Composition for the positive fragment (models without `but not`): every object or typed
   wildcard that the ListUsers algorithm model returns holds the relation in the reference
   semantics (Sem.holds3 = T), for every store (conditions in all three states), every filter,
   depth limit, fuel and arrival order.

   The intersection's counting trick lets a found wildcard stand for a concrete user; its
   soundness needs "if user:* holds then every user holds", proved here from the least-fixpoint
   property of the reference semantics (V_wild_le). *)
From OFGA Require Import Sem.B3Proofs Sem.SemProofs Query.ListUsers Query.ListUsersProofs.
From Coq Require Import Lia Arith Btauto.
Open Scope N_scope.

Definition plain (u : subject) : bool := match u with SSet _ _ => false | _ => true end.

Section Sound.
  Variables (m : model) (conds : list cid) (store : list tuple) (atoms : list atom).
  Variables (ft : tid) (fr : rid) (limit : nat).
  Hypothesis Hpos : positive_model m = true.
  Hypothesis Hne : no_empty_inter_model m = true.
  Hypothesis Hu : universe_ok m conds store (SWild ft) atoms = true.

  Definition V (u : subject) : valuation := fst (lfp m conds store u atoms).
  Let W : subject := SWild ft.

  Lemma universe_plain u : plain u = true -> universe_ok m conds store u atoms = true.
  Proof.
    intros P. unfold universe_ok in *. destruct u as [x|t|x r]; try discriminate; exact Hu.
  Qed.

  Lemma Vfix u a : plain u = true -> eval_atom m conds store u (V u) a = vget (V u) a.
  Proof.
    intros P. unfold V. apply positive_lfp_fixpoint_all; auto. apply universe_plain; exact P.
  Qed.

  (* ---- a typed wildcard is below every object of its type ---- *)
  Lemma direct1_subj v t x : otype x = ft -> le3 (direct1 W v t) (direct1 (SObj x) v t) = true.
  Proof.
    intros Hx. unfold direct1, W. destruct (t_sub t) as [y|ty|o' r']; simpl.
    - first [reflexivity | apply le3_F_l].
    - destruct (N.eqb ty ft) eqn:E.
      + apply N.eqb_eq in E. subst ty. rewrite Hx, N.eqb_refl. apply le3_refl.
      + first [reflexivity | apply le3_F_l].
    - apply le3_refl.
  Qed.

  Lemma ttu1_subj v c t x : le3 (ttu1 m W v c t) (ttu1 m (SObj x) v c t) = true.
  Proof. unfold ttu1, W. destruct (t_sub t); simpl; first [reflexivity | apply le3_refl]. Qed.

  Lemma eval_rw_subj v o r x rw :
    otype x = ft -> positive_rw rw = true ->
    le3 (eval_rw m conds store W v o r rw) (eval_rw m conds store (SObj x) v o r rw) = true.
  Proof.
    intros Hx. induction rw as [|r'|ts c|l IH|l IH|b s IHb IHs] using rewrite_ind'; intro Hp.
    - simpl. apply or3_list_map_mono. intros t _. apply direct1_subj; exact Hx.
    - simpl. apply le3_refl.
    - simpl. apply or3_list_map_mono. intros t _. apply ttu1_subj.
    - rewrite !eval_rw_Union. rewrite positive_Union, forallb_forall in Hp.
      apply or3_list_mono. apply Forall2_map_le. rewrite Forall_forall in *.
      intros y Hy. apply IH; [exact Hy | apply Hp; exact Hy].
    - rewrite !eval_rw_Inter. rewrite positive_Inter, forallb_forall in Hp.
      apply and3_list_mono. apply Forall2_map_le. rewrite Forall_forall in *.
      intros y Hy. apply IH; [exact Hy | apply Hp; exact Hy].
    - discriminate Hp.
  Qed.

  Lemma eval_atom_subj v a x :
    otype x = ft -> le3 (eval_atom m conds store W v a) (eval_atom m conds store (SObj x) v a) = true.
  Proof.
    intros Hx. unfold eval_atom.
    destruct (get_relation m (otype (fst a)) (snd a)) as [rd|] eqn:Hr; [|reflexivity].
    apply eval_rw_subj; [exact Hx | eapply positive_model_rel; eassumption].
  Qed.

  Lemma V_wild_le x : otype x = ft -> vle (V W) (V (SObj x)).
  Proof.
    intros Hx. unfold V at 1. apply lfp_least; [exact Hpos|].
    intros a _. eapply le3_trans; [apply eval_atom_subj; exact Hx|].
    rewrite Vfix by reflexivity. apply le3_refl.
  Qed.

  (* a rewrite that holds for the wildcard holds for every object of the type *)
  Lemma wild_covers o r rw x :
    otype x = ft -> positive_rw rw = true ->
    eval_rw m conds store W (V W) o r rw = T ->
    eval_rw m conds store (SObj x) (V (SObj x)) o r rw = T.
  Proof.
    intros Hx Hp HT. apply le3_T_l. rewrite <- HT.
    eapply le3_trans.
    - apply (eval_rw_mono m conds W store store (V W) (V (SObj x))); [apply store_incl_refl | apply V_wild_le; exact Hx | exact Hp].
    - apply eval_rw_subj; assumption.
  Qed.

  (* ---- the invariant ---- *)
  Definition good_rw (o : obj) (r : rid) (rw : rewrite) (e : found) : Prop :=
    is_has e = true /\ f_excl e = [] /\
    (plain (f_user e) = true -> eval_rw m conds store (f_user e) (V (f_user e)) o r rw = T).
  Definition good_at (o : obj) (r : rid) (e : found) : Prop :=
    is_has e = true /\ f_excl e = [] /\
    (plain (f_user e) = true -> atomval (f_user e) (V (f_user e)) o r = T).

  Definition outs_good (o : obj) (r : rid) (x : lres) : Prop :=
    forall c, In c (l_outs x) -> forall e, In e c -> good_at o r e.

  Lemma raw_tuples_of t o r :
    In t (lu_raw_of m conds store o r) -> In t (tuples_of m conds store o r).
  Proof.
    unfold lu_raw_of, tuples_of, vtuples. rewrite !filter_In. intros [H1 H2].
    apply andb_true_iff in H2. destruct H2 as [H2 H3]. auto.
  Qed.

  Lemma passing_In t ts : In t (lu_passing ts) -> In t ts /\ t_ceval t = T.
  Proof.
    unfold lu_passing. rewrite filter_In. intros [H1 H2]. split; auto. destruct (t_ceval t); auto; discriminate.
  Qed.

  Lemma plain_not_set k o r : plain k = true -> subject_eqb k (SSet o r) = false.
  Proof. destruct k; simpl; try discriminate; auto. Qed.
  Lemma set_not_plain k o r : plain k = true -> subject_eqb (SSet o r) k = false.
  Proof. destruct k; simpl; try discriminate; auto. Qed.

  Lemma all_excl_nil (cs : list content) :
    (forall c, In c cs -> forall e, In e c -> f_excl e = []) -> all_excl (concat cs) = [].
  Proof.
    intros H. unfold all_excl. induction cs as [|c cs IH]; simpl; auto.
    rewrite flat_map_app. rewrite IH by (intros c' Hc'; apply H; right; exact Hc').
    rewrite app_nil_r. assert (Hc : forall e, In e c -> f_excl e = []) by (apply H; left; reflexivity).
    clear - Hc. induction c as [|e c IHc]; simpl; auto.
    rewrite (Hc e) by (left; reflexivity). simpl. apply IHc. intros e' He'. apply Hc. right; exact He'.
  Qed.

  Lemma go_map (dispatch : obj -> rid -> lres) o r l :
    (fix go (l : list rewrite) : list lres :=
       match l with [] => [] | x :: l' => expand_rw m conds store ft dispatch o x r :: go l' end) l
    = map (fun x => expand_rw m conds store ft dispatch o x r) l.
  Proof. induction l as [|x l IH]; [reflexivity|]. cbn [map]. rewrite <- IH. reflexivity. Qed.

  Lemma Forall2_map_r {A B C} (P : A -> C -> Prop) (f : B -> C) la lb :
    Forall2 P la (map f lb) -> Forall2 (fun a b => P a (f b)) la lb.
  Proof.
    revert la. induction lb as [|b lb IH]; simpl; intros la H; inversion H; subst; constructor; auto.
  Qed.

  Lemma Forall2_In_r {A B} (P : A -> B -> Prop) la lb b : Forall2 P la lb -> In b lb -> exists a, In a la /\ P a b.
  Proof.
    induction 1 as [|x y la lb Hxy H IH]; simpl; intros I; [destruct I|].
    destruct I as [<-|I]; [exists x; auto|]. destruct (IH I) as [a [Ha Pa]]. exists a; auto.
  Qed.

  Section Step.
    Variable dispatch : obj -> rid -> lres.
    Hypothesis HD : forall o r, outs_good o r (dispatch o r).
    Hypothesis HK : forall o r, outs_ok ft fr (dispatch o r).

    Lemma merge_entries here subs kc ce c e :
      In c (l_outs (merge ft here subs kc ce)) -> In e c ->
      In e here \/ exists x c', In x subs /\ In c' (l_outs x) /\ In e c'.
    Proof.
      intros Hc He. unfold merge in Hc. simpl in Hc. apply cdedup_In in Hc.
      apply in_map_iff in Hc. destruct Hc as [cs [<- Hcs]]. apply cart_In in Hcs.
      apply in_app_or in He. destruct He as [He|He]; [left; exact He|right].
      apply in_concat in He. destruct He as [c' [Hc' He]].
      destruct (Forall2_In_l _ _ _ _ Hcs Hc') as [lo [Hlo Hin]].
      apply in_map_iff in Hlo. destruct Hlo as [x [<- Hx]]. exists x, c'. auto.
    Qed.

    Lemma expand_rw_good rw :
      positive_rw rw = true ->
      forall o r c, In c (l_outs (expand_rw m conds store ft dispatch o rw r)) ->
      forall e, In e c -> good_rw o r rw e.
    Proof.
      induction rw as [|r'|ts cc|l IH|l IH|b s IHb IHs] using rewrite_ind'; intros Hp o r c Hc e He.
      - (* This *)
        cbn [expand_rw] in Hc. destruct (merge_entries _ _ _ _ _ _ Hc He) as [Hh | [x [c' [Hx [Hc' He']]]]].
        + apply in_flat_map in Hh. destruct Hh as [t [Ht Hh]].
          apply passing_In in Ht. destruct Ht as [Ht HT]. apply raw_tuples_of in Ht.
          assert (G : forall u, t_sub t = u -> e = mkf u Has [] -> good_rw o r This e).
          { intros u Hs ->. split; [reflexivity|]. split; [reflexivity|]. intros _. simpl.
            apply or3_list_T_iff. apply in_map_iff. exists t. split; [|exact Ht].
            unfold direct1. rewrite Hs, subject_eqb_refl. exact HT. }
          destruct (t_sub t) as [u|ty|o' r''] eqn:Hs.
          * destruct (N.eqb (otype u) ft); [|destruct Hh]. destruct Hh as [<-|[]]. apply (G (SObj u)); reflexivity.
          * destruct (N.eqb ty ft); [|destruct Hh]. destruct Hh as [<-|[]]. apply (G (SWild ty)); reflexivity.
          * destruct Hh.
        + apply in_flat_map in Hx. destruct Hx as [t [Ht Hx]].
          apply passing_In in Ht. destruct Ht as [Ht HT]. apply raw_tuples_of in Ht.
          destruct (t_sub t) as [u|ty|o' r''] eqn:Hs; [destruct Hx | destruct Hx |].
          destruct Hx as [<-|[]]. destruct (HD o' r'' c' Hc' e He') as [G1 [G2 G3]].
          split; [exact G1|]. split; [exact G2|]. intros P. simpl.
          apply or3_list_T_iff. apply in_map_iff. exists t. split; [|exact Ht].
          unfold direct1. rewrite Hs, (set_not_plain _ _ _ P), HT, (G3 P). reflexivity.
      - (* Computed *)
        cbn [expand_rw] in Hc. destruct (HD o r' c Hc e He) as [G1 [G2 G3]].
        split; [exact G1|]. split; [exact G2|]. intros P. simpl. apply G3; exact P.
      - (* TTU *)
        cbn [expand_rw] in Hc. destruct (merge_entries _ _ _ _ _ _ Hc He) as [[] | [x [c' [Hx [Hc' He']]]]].
        apply in_flat_map in Hx. destruct Hx as [t [Ht Hx]].
        apply passing_In in Ht. destruct Ht as [Ht HT]. apply raw_tuples_of in Ht.
        destruct (t_sub t) as [o'|ty|o' r''] eqn:Hs; [| destruct Hx | destruct Hx].
        destruct Hx as [<-|[]]. destruct (HD o' cc c' Hc' e He') as [G1 [G2 G3]].
        split; [exact G1|]. split; [exact G2|]. intros P. simpl.
        apply or3_list_T_iff. apply in_map_iff. exists t. split; [|exact Ht].
        unfold ttu1. rewrite Hs.
        assert (D : rel_defined m (otype o') cc = true).
        { specialize (G3 P). unfold atomval in G3. rewrite (plain_not_set _ _ _ P) in G3.
          rewrite <- (Vfix _ (o', cc) P) in G3. unfold eval_atom in G3. simpl in G3.
          unfold rel_defined. destruct (get_relation m (otype o') cc); [reflexivity | discriminate]. }
        rewrite D, HT, (G3 P). reflexivity.
      - (* Union *)
        cbn [expand_rw l_outs] in Hc. rewrite go_map in Hc. apply cdedup_In in Hc. apply in_map_iff in Hc.
        destruct Hc as [cs [<- Hcs]]. apply cart_In in Hcs. rewrite map_map in Hcs. apply Forall2_map_r in Hcs.
        rewrite positive_Union, forallb_forall in Hp. rewrite Forall_forall in IH.
        assert (CL : forall c', In c' cs -> forall e', In e' c' -> f_excl e' = []).
        { intros c' Hc' e' He'. destruct (Forall2_In_l _ _ _ _ Hcs Hc') as [y [Hy Hin]].
          destruct (IH y Hy (Hp y Hy) o r c' Hin e' He') as [_ [G2 _]]. exact G2. }
        unfold lu_union in He. rewrite (all_excl_nil cs CL) in He. simpl in He.
        apply in_map_iff in He. destruct He as [k [<- Hk]].
        split; [reflexivity|]. split; [reflexivity|]. cbn [f_user mkf]. intros P.
        apply (proj1 (sdedup_In _ _)) in Hk. apply (proj2 (smem_In _ _)) in Hk.
        rewrite smem_has_keys, has_concat in Hk. apply existsb_exists in Hk. destruct Hk as [R [HR Hk]].
        apply has_key_In in Hk. destruct Hk as [e' [He' Hu']].
        destruct (Forall2_In_l _ _ _ _ Hcs HR) as [y [Hy Hin]].
        destruct (IH y Hy (Hp y Hy) o r R Hin e' He') as [_ [_ G3]]. rewrite Hu' in G3.
        rewrite eval_rw_Union. apply or3_list_T_iff. apply in_map_iff. exists y. split; [apply G3; exact P | exact Hy].
      - (* Inter *)
        cbn [expand_rw l_outs] in Hc. rewrite go_map in Hc. apply cdedup_In in Hc. apply in_map_iff in Hc.
        destruct Hc as [cs [<- Hcs]]. apply cart_In in Hcs. rewrite map_map in Hcs. apply Forall2_map_r in Hcs.
        rewrite positive_Inter, forallb_forall in Hp. rewrite Forall_forall in IH.
        assert (CL : forall c', In c' cs -> forall e', In e' c' -> f_excl e' = []).
        { intros c' Hc' e' He'. destruct (Forall2_In_l _ _ _ _ Hcs Hc') as [y [Hy Hin]].
          destruct (IH y Hy (Hp y Hy) o r c' Hin e' He') as [_ [G2 _]]. exact G2. }
        assert (Hhas : has (lu_inter (wkey ft) cs) (f_user e) = true).
        { unfold has. apply existsb_exists. exists e. split; [exact He|].
          rewrite subject_eqb_refl. unfold lu_inter in He. apply in_map_iff in He. destruct He as [k [<- _]]. reflexivity. }
        assert (Hk : key_ok ft fr (f_user e) = true).
        { apply lu_inter_keys in He. destruct He as [R [e' [HR [He' Hu']]]]. rewrite <- Hu'.
          destruct (Forall2_In_l _ _ _ _ Hcs HR) as [y [Hy Hin]].
          exact (expand_rw_ok m conds store ft fr dispatch HK y o r R Hin e' He'). }
        unfold lu_inter in He. rewrite (all_excl_nil cs CL) in He. simpl in He.
        apply in_map_iff in He. destruct He as [k [<- _]]. cbn [f_user mkf] in *.
        split; [reflexivity|]. split; [reflexivity|]. intros P.
        rewrite lu_inter_has in Hhas. apply andb_true_iff in Hhas. destruct Hhas as [_ Hall].
        rewrite forallb_forall in Hall.
        rewrite eval_rw_Inter. apply and3_list_T_iff. intros v Hv. apply in_map_iff in Hv.
        destruct Hv as [y [<- Hy]].
        destruct (Forall2_In_r _ _ _ _ Hcs Hy) as [R [HR Hin]].
        specialize (Hall R HR). apply orb_true_iff in Hall. destruct Hall as [Hk'|Hw].
        + apply has_key_In in Hk'. destruct Hk' as [e' [He' Hu']].
          destruct (IH y Hy (Hp y Hy) o r R Hin e' He') as [_ [_ G3]]. rewrite Hu' in G3. apply G3; exact P.
        + apply has_key_In in Hw. destruct Hw as [e' [He' Hu']].
          destruct (IH y Hy (Hp y Hy) o r R Hin e' He') as [_ [_ G3]]. rewrite Hu' in G3.
          specialize (G3 eq_refl). fold W in G3.
          destruct k as [x|t|x rr]; [| |discriminate P].
          * simpl in Hk. apply N.eqb_eq in Hk. apply wild_covers; [exact Hk | apply Hp; exact Hy | exact G3].
          * simpl in Hk. apply N.eqb_eq in Hk. subst t. exact G3.
      - discriminate Hp.
    Qed.
  End Step.

  Lemma single_empty_good (x : lres) o r : l_outs x = [[]] -> outs_good o r x.
  Proof. intros E c Hc. rewrite E in Hc. destruct Hc as [<-|[]]. intros e []. Qed.

  Lemma add_here_good o r (x : lres) :
    (forall c, In c (l_outs x) -> forall e, In e c -> good_at o r e) ->
    outs_good o r (add_here (if N.eqb (otype o) ft && N.eqb r fr then [mkf (SSet o r) Has []] else []) x).
  Proof.
    intros Hx c Hc. unfold add_here in Hc. simpl in Hc. apply in_map_iff in Hc.
    destruct Hc as [c' [<- Hc']]. intros e He. apply in_app_or in He. destruct He as [He|He].
    - destruct (N.eqb (otype o) ft && N.eqb r fr); [|destruct He]. destruct He as [<-|[]].
      split; [reflexivity|]. split; [reflexivity|]. simpl. discriminate.
    - exact (Hx c' Hc' e He).
  Qed.

  Lemma expand_good fuel : forall depth visited o r,
    outs_good o r (expand m conds store ft fr limit fuel depth visited o r).
  Proof.
    induction fuel as [|f IH]; intros depth visited o r; simpl.
    - apply single_empty_good; reflexivity.
    - destruct (Nat.leb limit depth); [apply single_empty_good; reflexivity|].
      destruct (existsb (atom_eqb (o, r)) visited); [apply single_empty_good; reflexivity|].
      destruct (find_type m (otype o)) as [td|] eqn:Ft;
        [|apply add_here_good; intros c Hc; simpl in Hc; destruct Hc as [<-|[]]; intros e []].
      destruct (find_rel (td_rels td) r) as [rd|] eqn:Fr;
        [|apply add_here_good; intros c Hc; simpl in Hc; destruct Hc as [<-|[]]; intros e []].
      apply add_here_good. intros c Hc e He.
      assert (GR : get_relation m (otype o) r = Some rd) by (unfold get_relation; rewrite Ft; exact Fr).
      pose proof (expand_rw_good _ (fun o' r' => IH (S depth) ((o, r) :: visited) o' r')
                    (fun o' r' => expand_ok m conds store ft fr limit f (S depth) ((o, r) :: visited) o' r')
                    (rd_rw rd) (positive_model_rel m _ _ _ Hpos GR) o r c Hc e He) as [G1 [G2 G3]].
      split; [exact G1|]. split; [exact G2|]. intros P.
      unfold atomval. rewrite (plain_not_set _ _ _ P). rewrite <- (Vfix _ (o, r) P).
      unfold eval_atom. simpl. rewrite GR. apply G3; exact P.
  Qed.

  (* Soundness of ListUsers on the positive fragment.
     The FULL theorem (DESIGN.md C06, list_users_exact) would add, for stratified models with
     differences and sufficient depth:
       forall u of the filter type occurring in the data,
         holds3 m conds store u atoms o r = T <-> In u res \/ In (SWild ft) res
     Its soundness half is refuted in general (list_users_sound_refuted: nested exclusions), its
     completeness half as well (list_users_complete_refuted); completeness of the positive
     fragment (the path-based cycle cut loses nothing) is not proved here. *)
  Theorem list_users_exact_partial pruned o r res u :
    In res (lf_results (list_users m conds store ft fr limit pruned o r)) -> In u res ->
    plain u = true ->
    holds3 m conds store u atoms o r = T.
  Proof.
    unfold list_users. destruct (pruned && negb (N.eqb (otype o) ft && N.eqb r fr)); cbn [lf_results].
    - intros [<-|[]] [].
    - intros H Hu' P. apply set_dedup_In in H. apply in_flat_map in H. destruct H as [c [Hc H]].
      apply in_map_iff in H. destruct H as [mp [<- Hmp]].
      apply final_In in Hu'. destruct (resolve_keys_In _ _ _ Hmp Hu') as [e [He <-]].
      destruct (expand_good _ _ _ _ _ c Hc e He) as [_ [_ G3]].
      unfold holds3. apply G3; exact P.
  Qed.
End Sound.

(* non-vacuity: a positive model whose intersection answers through a found wildcard *)
(* doc: editor [user, user:*], allowed [user], viewer: editor and allowed;
   editor@user:*, allowed@user:a, allowed@user:b  ->  {a, b}, both through the wildcard *)
Definition m_pos : model :=
  [ {| td_type := tU; td_rels := [] |};
    {| td_type := tDoc; td_rels :=
         [ {| rd_rel := 1; rd_rw := This; rd_restr := [rU; rW] |};
           {| rd_rel := 2; rd_rw := This; rd_restr := [rU] |};
           {| rd_rel := 3; rd_rw := Inter [Computed 1; Computed 2]; rd_restr := [] |} ] |} ].
Definition s_pos : list tuple := [ mk_t doc1 1 W1; mk_t doc1 2 ua; mk_t doc1 2 ub ].
Definition a_pos : list atom := [ (doc1, 1); (doc1, 2); (doc1, 3) ].
Example list_users_exact_partial_ex :
  positive_model m_pos = true /\ no_empty_inter_model m_pos = true /\
  universe_ok m_pos [] s_pos (SWild tU) a_pos = true /\
  lf_results (list_users m_pos [] s_pos tU 0 25%nat false doc1 3) = [[ua; ub]] /\
  holds3 m_pos [] s_pos ua a_pos doc1 3 = T /\ holds3 m_pos [] s_pos uc a_pos doc1 3 = F.
Proof. vm_compute. repeat split; reflexivity. Qed.
