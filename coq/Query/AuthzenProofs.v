(* C32 — proofs about the AuthZEN model (Query/Authzen.v). *)
From Coq Require Import List NArith Bool Lia.
From OFGA Require Import Base.Bytes Query.Authzen.
Import ListNotations.
Open Scope N_scope.

(* ---------------------------------------------------------------------------------------- *)
(* prefixes *)

Lemma strip_prefix_app : forall p k, strip_prefix p (p ++ k) = Some k.
Proof.
  induction p as [| a p IH]; intros k; simpl; [reflexivity |].
  rewrite N.eqb_refl. apply IH.
Qed.

Lemma strip_prefix_some : forall p k k', strip_prefix p k = Some k' -> k = p ++ k'.
Proof.
  induction p as [| a p IH]; intros k k' H; simpl in *.
  - inversion H. reflexivity.
  - destruct k as [| b k]; [discriminate |].
    destruct (N.eqb a b) eqn:Hab; [| discriminate].
    apply N.eqb_eq in Hab. subst. f_equal. apply IH. exact H.
Qed.

Lemma beqb_app_prefix : forall p a k,
  beqb (p ++ a) k = match strip_prefix p k with Some k' => beqb a k' | None => false end.
Proof.
  induction p as [| x p IH]; intros a k; simpl; [reflexivity |].
  destruct k as [| y k]; [reflexivity |]. simpl.
  destruct (N.eqb x y); [apply IH | reflexivity].
Qed.

(* the three prefixes start with different bytes: at most one of them strips *)
Lemma prefixes_exclusive : forall k,
  (strip_prefix p_action k <> None -> strip_prefix p_resource k = None /\ strip_prefix p_subject k = None) /\
  (strip_prefix p_resource k <> None -> strip_prefix p_action k = None /\ strip_prefix p_subject k = None) /\
  (strip_prefix p_subject k <> None -> strip_prefix p_action k = None /\ strip_prefix p_resource k = None).
Proof.
  intros k. destruct k as [| c k].
  - simpl. split; [| split]; intros Hne; exfalso; apply Hne; reflexivity.
  - unfold p_action, p_resource, p_subject.
    cbn [strip_prefix].
    destruct (N.eqb 97 c) eqn:H1; destruct (N.eqb 114 c) eqn:H2; destruct (N.eqb 115 c) eqn:H3;
      try (apply N.eqb_eq in H1); try (apply N.eqb_eq in H2); try (apply N.eqb_eq in H3);
      try lia;
      (split; [| split]); intros Hne; try (exfalso; apply Hne; reflexivity); split; reflexivity.
Qed.

Section Proofs.
  Variable V : Type.

  Definition mlookup (k : bytes) (o : option (pstruct V)) : option V :=
    match o with Some s => lookup V k s | None => None end.

  Lemma lookup_app : forall k a b,
    lookup V k (a ++ b) = match lookup V k a with Some v => Some v | None => lookup V k b end.
  Proof.
    intros k a b. induction a as [| [k' v] a IH]; simpl; [reflexivity |].
    destruct (beqb k' k); [reflexivity | exact IH].
  Qed.

  Lemma lookup_pfx : forall p k s,
    lookup V k (pfx V p s) = match strip_prefix p k with Some k' => lookup V k' s | None => None end.
  Proof.
    intros p k s. induction s as [| [k0 v] s IH]; simpl.
    - destruct (strip_prefix p k); reflexivity.
    - rewrite beqb_app_prefix, IH. destruct (strip_prefix p k) as [k' |]; reflexivity.
  Qed.

  Lemma mlookup_opt_struct : forall k o, lookup V k (opt_struct V o) = mlookup k o.
  Proof. intros k [s |]; reflexivity. Qed.

  Definition via (p k : bytes) (o : option (pstruct V)) : option V :=
    match strip_prefix p k with Some k' => mlookup k' o | None => None end.

  Definition first_some (a b : option V) : option V := match a with Some v => Some v | None => b end.

  (* merge_precedence, as coded: the request context wins for every key it defines; otherwise the
     key is looked up through its prefix in the action, resource, subject properties *)
  Theorem merge_lookup : forall ctx subj res act k,
    mlookup k (merge_properties_to_context V ctx subj res act) =
    first_some (mlookup k ctx)
      (first_some (via p_action k act) (first_some (via p_resource k res) (via p_subject k subj))).
  Proof.
    intros ctx subj res act k. unfold merge_properties_to_context.
    set (merged := opt_struct V ctx ++ pfx V p_action (opt_struct V act) ++
                   pfx V p_resource (opt_struct V res) ++ pfx V p_subject (opt_struct V subj)).
    assert (H : lookup V k merged =
                first_some (mlookup k ctx)
                  (first_some (via p_action k act) (first_some (via p_resource k res) (via p_subject k subj)))).
    { unfold merged. rewrite !lookup_app, !lookup_pfx, mlookup_opt_struct. unfold via, first_some.
      destruct (mlookup k ctx); [reflexivity |].
      destruct (strip_prefix p_action k); destruct (strip_prefix p_resource k); destruct (strip_prefix p_subject k);
        rewrite ?mlookup_opt_struct; reflexivity. }
    destruct merged as [| x l] eqn:Hm.
    - simpl. simpl in H. exact H.
    - simpl. exact H.
  Qed.

  (* a property is visible under its prefixed name unless the request context defines that name *)
  Corollary merge_precedence_lemma : forall ctx subj res act k v,
    (mlookup k ctx = Some v -> mlookup k (merge_properties_to_context V ctx subj res act) = Some v) /\
    (mlookup (p_subject ++ k) ctx = None -> mlookup k subj = Some v ->
       mlookup (p_subject ++ k) (merge_properties_to_context V ctx subj res act) = Some v) /\
    (mlookup (p_resource ++ k) ctx = None -> mlookup k res = Some v ->
       mlookup (p_resource ++ k) (merge_properties_to_context V ctx subj res act) = Some v) /\
    (mlookup (p_action ++ k) ctx = None -> mlookup k act = Some v ->
       mlookup (p_action ++ k) (merge_properties_to_context V ctx subj res act) = Some v).
  Proof.
    intros ctx subj res act k v. repeat split.
    - intros H. rewrite merge_lookup, H. reflexivity.
    - intros Hc Hs. rewrite merge_lookup, Hc. unfold first_some, via.
      destruct (prefixes_exclusive (p_subject ++ k)) as [_ [_ H3]].
      rewrite strip_prefix_app in *. destruct H3 as [Ha Hr]; [discriminate |].
      rewrite Ha, Hr, Hs. reflexivity.
    - intros Hc Hs. rewrite merge_lookup, Hc. unfold first_some, via.
      destruct (prefixes_exclusive (p_resource ++ k)) as [_ [H2 _]].
      rewrite strip_prefix_app in *. destruct H2 as [Ha Hr]; [discriminate |].
      rewrite Ha, Hs. reflexivity.
    - intros Hc Hs. rewrite merge_lookup, Hc. unfold first_some, via.
      rewrite strip_prefix_app, Hs. reflexivity.
  Qed.

  (* nil is returned exactly when nothing at all was written *)
  Lemma merge_none_iff : forall ctx subj res act,
    merge_properties_to_context V ctx subj res act = None <->
    opt_struct V ctx = [] /\ opt_struct V subj = [] /\ opt_struct V res = [] /\ opt_struct V act = [].
  Proof.
    intros ctx subj res act. unfold merge_properties_to_context, pfx.
    destruct (opt_struct V ctx) as [| x1 l1]; destruct (opt_struct V act) as [| x2 l2];
      destruct (opt_struct V res) as [| x3 l3]; destruct (opt_struct V subj) as [| x4 l4]; simpl;
      split; intros H; try discriminate; try tauto;
      destruct H as [H1 [H2 [H3 H4]]]; discriminate.
  Qed.

  (* ---------------------------------------------------------------------------------------- *)
  (* the mapping to the native request *)

  Lemma join_colon_inj : forall t1 i1 t2 i2,
    mem c_colon t1 = false -> mem c_colon t2 = false ->
    join_colon t1 i1 = join_colon t2 i2 -> t1 = t2 /\ i1 = i2.
  Proof.
    intros t1 i1 t2 i2 H1 H2 He. unfold join_colon in He.
    pose proof (cut_app c_colon t1 i1 H1) as C1. pose proof (cut_app c_colon t2 i2 H2) as C2.
    rewrite He in C1. rewrite C1 in C2. inversion C2. split; reflexivity.
  Qed.

  (* AuthZEN validation: type, id and action name match ^[^:#@\s]{1,n}$; only "no colon in the
     type" is needed for injectivity *)
  Definition valid_entity (e : entity V) : bool := negb (mem c_colon (e_type V e)).

  Theorem map_inj_identity : forall st1 m1 s1 r1 a1 c1 st2 m2 s2 r2 a2 c2 q,
    valid_entity s1 = true -> valid_entity r1 = true -> valid_entity s2 = true -> valid_entity r2 = true ->
    build_check_request V st1 m1 (Some s1) (Some r1) (Some a1) c1 = inr q ->
    build_check_request V st2 m2 (Some s2) (Some r2) (Some a2) c2 = inr q ->
    st1 = st2 /\ m1 = m2 /\
    e_type V s1 = e_type V s2 /\ e_id V s1 = e_id V s2 /\
    e_type V r1 = e_type V r2 /\ e_id V r1 = e_id V r2 /\
    a_name V a1 = a_name V a2 /\
    merge_properties_to_context V c1 (e_props V s1) (e_props V r1) (a_props V a1) =
    merge_properties_to_context V c2 (e_props V s2) (e_props V r2) (a_props V a2).
  Proof.
    intros st1 m1 s1 r1 a1 c1 st2 m2 s2 r2 a2 c2 q Hs1 Hr1 Hs2 Hr2 H1 H2.
    unfold valid_entity in *. apply negb_true_iff in Hs1, Hr1, Hs2, Hr2.
    simpl in H1, H2. inversion H1 as [Hq1]. rewrite <- Hq1 in H2. inversion H2 as [[Ha Hb Hc Hd He Hf]].
    destruct (join_colon_inj _ _ _ _ Hs2 Hs1 Hc) as [Ht Hi].
    destruct (join_colon_inj _ _ _ _ Hr2 Hr1 He) as [Ht' Hi'].
    repeat split; try congruence.
  Qed.

  (* with no properties at all and contexts that are absent or non-empty, the mapping is injective
     on the context too *)
  Theorem map_inj_partial : forall c1 c2,
    c1 <> Some [] -> c2 <> Some [] ->
    merge_properties_to_context V c1 None None None = merge_properties_to_context V c2 None None None ->
    c1 = c2.
  Proof.
    intros c1 c2 H1 H2. unfold merge_properties_to_context. simpl. rewrite !app_nil_r.
    destruct c1 as [[| x1 l1] |]; destruct c2 as [[| x2 l2] |]; simpl; try congruence.
  Qed.

  (* the full statement "distinct valid AuthZEN requests map to distinct native requests" is
     refuted: a subject property x and a context entry subject_x are the same native context, and
     an empty context object is the same as no context *)
  Theorem map_inj_refuted : forall (v : V) st m st_ si rt ri an,
    let r := {| e_type := rt; e_id := ri; e_props := None |} in
    let a := {| a_name := an; a_props := None |} in
    (exists c1 p1 c2 p2,
       (c1, p1) <> (c2, p2) /\
       build_check_request V st m (Some {| e_type := st_; e_id := si; e_props := p1 |}) (Some r) (Some a) c1 =
       build_check_request V st m (Some {| e_type := st_; e_id := si; e_props := p2 |}) (Some r) (Some a) c2) /\
    build_check_request V st m (Some {| e_type := st_; e_id := si; e_props := None |}) (Some r) (Some a) (Some []) =
    build_check_request V st m (Some {| e_type := st_; e_id := si; e_props := None |}) (Some r) (Some a) None.
  Proof.
    intros v st m st_ si rt ri an r a. split.
    - exists None, (Some [([120], v)]), (Some [(p_subject ++ [120], v)]), None.
      split; [intros H; inversion H |]. reflexivity.
    - reflexivity.
  Qed.

  (* ---------------------------------------------------------------------------------------- *)
  (* endpoints *)
  Variable E : Type.
  Variable check : check_req V -> cres E.
  Variable batch_check : list (check_req V) -> E + list (cres E).
  Variable status_direct status_batch : E -> N.

  Notation evaluation := (evaluation V E check).
  Notation evaluations := (evaluations V E check batch_check status_direct status_batch).

  (* the decision of an Evaluation is Check of the mapped request, for any Check *)
  Theorem evaluation_eq_check_lemma : forall st h s r a c,
    evaluation {| ev_store := st; ev_header := h; ev_subject := Some s; ev_resource := Some r;
                  ev_action := Some a; ev_context := c |} =
    match check {| q_store := st; q_model := model_id_from_header h;
                   q_user := join_colon (e_type V s) (e_id V s);
                   q_relation := a_name V a;
                   q_object := join_colon (e_type V r) (e_id V r);
                   q_context := merge_properties_to_context V c (e_props V s) (e_props V r) (a_props V a) |} with
    | CAllow _ b => EvDecision E b
    | CErr _ e => EvError E e
    end.
  Proof. reflexivity. Qed.

  Theorem evaluation_invalid_iff : forall r,
    evaluation r = EvInvalidArg E <->
    ev_subject V r = None \/ ev_resource V r = None \/ ev_action V r = None.
  Proof.
    intros r. unfold Authzen.evaluation, build_check_request.
    destruct (ev_subject V r); destruct (ev_resource V r); destruct (ev_action V r); simpl;
      try (split; [intros _; tauto | reflexivity]).
    match goal with |- context [check ?q] => destruct (check q) end;
      (split; [discriminate | intros [H | [H | H]]; discriminate]).
  Qed.

  (* the single evaluation an item stands for: item fields, defaults from the top level *)
  Definition single_of_item (top : evals_req V) (it : item V) : eval_req V :=
    let it' := resolve V top it in
    {| ev_store := es_store V top; ev_header := es_header V top;
       ev_subject := i_subject V it'; ev_resource := i_resource V it';
       ev_action := i_action V it'; ev_context := i_context V it' |}.

  (* how a single evaluation's outcome is shown inside a batch response *)
  Definition eresp_of_eval (st : E -> N) (r : eval_res E) : eresp :=
    match r with
    | EvDecision _ b => RDecision b
    | EvInvalidArg _ => RDenyErr 400
    | EvError _ e => RDenyErr (st e)
    end.

  Lemma resp_of_item_single : forall top it,
    resp_of_item V E check status_direct top it =
    eresp_of_eval status_direct (evaluation (single_of_item top it)).
  Proof.
    intros top it. unfold resp_of_item, Authzen.evaluation, single_of_item, build_item. simpl.
    destruct (build_check_request V (es_store V top) (model_id_from_header (es_header V top))
                (or_top (i_subject V it) (es_subject V top)) (or_top (i_resource V it) (es_resource V top))
                (or_top (i_action V it) (es_action V top)) (or_top (i_context V it) (es_context V top))) as [e | q];
      [reflexivity |].
    destruct (check q); reflexivity.
  Qed.

  (* empty evaluations list: exactly the single Evaluation of the top-level fields *)
  Theorem evaluations_empty_lemma : forall top,
    es_items V top = [] ->
    evaluations top =
    match evaluation {| ev_store := es_store V top; ev_header := es_header V top;
                        ev_subject := es_subject V top; ev_resource := es_resource V top;
                        ev_action := es_action V top; ev_context := es_context V top |} with
    | EvDecision _ b => EsOk E [RDecision b]
    | EvInvalidArg _ => EsInvalidArg E
    | EvError _ e => EsError E e
    end.
  Proof. intros top H. unfold Authzen.evaluations. rewrite H. reflexivity. Qed.

  (* which branch is taken *)
  Theorem evaluations_dispatch_lemma : forall top it rest,
    es_items V top = it :: rest ->
    let sem := match es_options V top with None => 0 | Some n => n end in
    (sem = 0 -> evaluations top = evaluate_all V E batch_check status_batch top) /\
    (sem = 1 \/ sem = 2 -> evaluations top = EsOk E (short_circuit V E check status_direct top sem (it :: rest))) /\
    (sem <> 0 -> sem <> 1 -> sem <> 2 -> evaluations top = EsInvalidArg E).
  Proof.
    intros top it rest H sem. unfold Authzen.evaluations. rewrite H. fold sem. repeat split.
    - intros Hs. rewrite Hs. reflexivity.
    - intros [Hs | Hs]; rewrite Hs; reflexivity.
    - intros H0 H1 H2.
      assert (N.eqb sem 0 = false) by (apply N.eqb_neq; exact H0).
      assert (N.eqb sem 1 = false) by (apply N.eqb_neq; exact H1).
      assert (N.eqb sem 2 = false) by (apply N.eqb_neq; exact H2).
      rewrite H3, H4, H5. reflexivity.
  Qed.

  (* short-circuit semantics: the responses are the independent single evaluations of the items,
     in order, cut right after the first response that stops the loop *)
  Fixpoint stop_len (sem : N) (rs : list eresp) : nat :=
    match rs with
    | [] => O
    | r :: rs' => S (if stops sem r then O else stop_len sem rs')
    end.

  Theorem short_circuit_spec_lemma : forall top sem items,
    let all := map (fun it => eresp_of_eval status_direct (evaluation (single_of_item top it))) items in
    short_circuit V E check status_direct top sem items = firstn (stop_len sem all) all.
  Proof.
    intros top sem items. induction items as [| it rest IH]; simpl; [reflexivity |].
    rewrite resp_of_item_single. f_equal.
    destruct (stops sem (eresp_of_eval status_direct (evaluation (single_of_item top it)))); [reflexivity |].
    exact IH.
  Qed.

  Lemma stop_len_le : forall sem rs, (stop_len sem rs <= length rs)%nat.
  Proof.
    intros sem rs. induction rs as [| r rs IH]; simpl; [lia |].
    destruct (stops sem r); lia.
  Qed.

  (* nothing before the cut stops; if the list was cut, the last response stops *)
  Lemma stop_len_prefix : forall sem rs i r,
    (S i < stop_len sem rs)%nat -> nth_error rs i = Some r -> stops sem r = false.
  Proof.
    intros sem rs. induction rs as [| x rs IH]; intros i r Hlt Hn; simpl in *; [lia |].
    destruct (stops sem x) eqn:Hx; [lia |].
    destruct i as [| i]; simpl in Hn.
    - inversion Hn. subst. exact Hx.
    - eapply IH; [| exact Hn]. lia.
  Qed.

  Lemma stop_len_cut : forall sem rs,
    (stop_len sem rs < length rs)%nat ->
    exists r, nth_error rs (pred (stop_len sem rs)) = Some r /\ stops sem r = true.
  Proof.
    intros sem rs. induction rs as [| x rs IH]; intros Hlt; simpl in *; [lia |].
    destruct (stops sem x) eqn:Hx.
    - exists x. split; [reflexivity | exact Hx].
    - destruct IH as [r [Hn Hs]]; [lia |].
      exists r. split; [| exact Hs].
      destruct (stop_len sem rs) as [| n] eqn:Hl.
      + destruct rs; simpl in *; [lia | destruct (stops sem e); discriminate].
      + simpl in *. exact Hn.
  Qed.

  (* execute_all: under the assumption that BatchCheck answers item by item with Check, every
     response is the single evaluation of its item (errors shown as decision=false + status) *)
  Hypothesis batch_pointwise : forall qs l, batch_check qs = inr l -> l = map check qs.

  Lemma build_all_some : forall top items qs,
    build_all V top items = Some qs ->
    Forall2 (fun it q => build_item V top it = inr q) items qs.
  Proof.
    intros top items. induction items as [| it rest IH]; intros qs H; simpl in H.
    - inversion H. constructor.
    - destruct (build_item V top it) as [e | q] eqn:Hb; [discriminate |].
      destruct (build_all V top rest) as [qs' |]; [| discriminate].
      inversion H. subst. constructor; [exact Hb | apply IH; reflexivity].
  Qed.

  Lemma build_item_eval : forall top it q,
    build_item V top it = inr q ->
    resp_of_batch E status_batch (check q) =
    eresp_of_eval status_batch (evaluation (single_of_item top it)).
  Proof.
    intros top it q Hb. unfold Authzen.evaluation, single_of_item. unfold build_item in Hb. simpl in *.
    rewrite Hb. destruct (check q); reflexivity.
  Qed.

  Theorem evaluate_all_spec_lemma : forall top l,
    evaluate_all V E batch_check status_batch top = EsOk E l ->
    l = map (fun it => eresp_of_eval status_batch (evaluation (single_of_item top it))) (es_items V top).
  Proof.
    intros top l H. unfold evaluate_all in H.
    destruct (build_all V top (es_items V top)) as [qs |] eqn:Hb; [| discriminate].
    destruct (batch_check qs) as [e | rs] eqn:Hq; [discriminate |].
    inversion H. subst l. apply batch_pointwise in Hq. subst rs.
    apply build_all_some in Hb. clear H.
    induction Hb as [| it q items qs Hit HF IH]; simpl; [reflexivity |].
    rewrite (build_item_eval _ _ _ Hit). f_equal. exact IH.
  Qed.

  (* execute_all refuses the whole request iff some item lacks a subject, resource or action
     (after defaults) *)
  Theorem evaluate_all_invalid_iff : forall top,
    evaluate_all V E batch_check status_batch top = EsInvalidArg E <->
    exists it, In it (es_items V top) /\ evaluation (single_of_item top it) = EvInvalidArg E.
  Proof.
    intros top. unfold evaluate_all.
    assert (Hgen : forall items,
      build_all V top items = None <->
      exists it, In it items /\ evaluation (single_of_item top it) = EvInvalidArg E).
    { induction items as [| it rest IH]; simpl.
      - split; [discriminate | intros [it [[] _]]].
      - assert (Hev : forall x, (exists e, build_item V top x = inl e) <-> evaluation (single_of_item top x) = EvInvalidArg E).
        { intros x. unfold Authzen.evaluation, single_of_item, build_item. simpl.
          destruct (build_check_request V (es_store V top) (model_id_from_header (es_header V top))
                      (or_top (i_subject V x) (es_subject V top)) (or_top (i_resource V x) (es_resource V top))
                      (or_top (i_action V x) (es_action V top)) (or_top (i_context V x) (es_context V top))) as [e | q].
          - split; [reflexivity | intros _; exists e; reflexivity].
          - split; [intros [e He]; discriminate | destruct (check q); discriminate]. }
        destruct (build_item V top it) as [e | q] eqn:Hb.
        + split; [| reflexivity]. intros _. exists it. split; [left; reflexivity |].
          apply Hev. exists e. exact Hb.
        + destruct (build_all V top rest) as [qs |] eqn:Hr.
          * split; [discriminate |]. intros [x [[Hx | Hx] He]].
            -- subst x. apply Hev in He. destruct He as [e He]. congruence.
            -- assert (Hn : @None (list (check_req V)) = None) by reflexivity.
               destruct IH as [_ IH2]. assert (Some qs = None) by (apply IH2; exists x; tauto). discriminate.
          * split; [| reflexivity]. intros _. destruct IH as [IH1 _].
            destruct (IH1 eq_refl) as [x [Hx He]]. exists x. split; [right; exact Hx | exact He]. }
    destruct (build_all V top (es_items V top)) as [qs |] eqn:Hb.
    - split.
      + destruct (batch_check qs); discriminate.
      + intros Hex. apply Hgen in Hex. congruence.
    - split; [| reflexivity]. intros _. apply Hgen. exact Hb.
  Qed.

  (* ---------------------------------------------------------------------------------------- *)
  (* searches *)
  Variable list_users : list_users_req V -> E + list user_res.
  Variable list_objects : list_objects_req V -> E + list bytes.

  Theorem subject_search_spec_lemma : forall r,
    subject_search V E list_users r =
    match list_users (subject_search_map V r) with
    | inl e => inl e
    | inr l => inr (subjects_of_users l)
    end.
  Proof. reflexivity. Qed.

  Lemma subjects_of_users_In : forall l t i,
    In (t, i) (subjects_of_users l) <->
    In (UObject t i) l \/ (i = [c_star] /\ In (UWildcard t) l).
  Proof.
    intros l t i. unfold subjects_of_users. rewrite in_flat_map. split.
    - intros [u [Hin Hu]]. destruct u as [t' i' | t' | t' i' r']; simpl in Hu.
      + destruct Hu as [Hu | []]. inversion Hu. subst. left. exact Hin.
      + destruct Hu as [Hu | []]. inversion Hu. subst. right. split; [reflexivity | exact Hin].
      + contradiction.
    - intros [H | [Hi H]].
      + exists (UObject t i). split; [exact H | left; reflexivity].
      + subst. exists (UWildcard t). split; [exact H | left; reflexivity].
  Qed.

  Theorem resource_search_spec_lemma : forall r,
    resource_search V E list_objects r =
    match list_objects (resource_search_map V r) with
    | inl e => inl e
    | inr l => inr (resources_of_objects l)
    end.
  Proof. reflexivity. Qed.

  (* object strings type:id (no colon in the type) come back as exactly (type, id), in order *)
  Lemma resources_of_objects_roundtrip : forall (l : list (bytes * bytes)),
    Forall (fun p => mem c_colon (fst p) = false) l ->
    resources_of_objects (map (fun p => join_colon (fst p) (snd p)) l) = l.
  Proof.
    intros l HF. induction HF as [| [t i] l Hp HF IH]; [reflexivity |].
    simpl in Hp. unfold resources_of_objects in *. simpl map. simpl flat_map.
    unfold join_colon at 1. rewrite (cut_app c_colon t i Hp). simpl. rewrite IH. reflexivity.
  Qed.

  (* ActionSearch: relation rel is returned iff its check (subject, rel, resource, merged context
     without action properties) is allowed *)
  Theorem action_search_spec_lemma : forall r rels l,
    action_search V E batch_check r rels = inr l ->
    forall rel, In rel l ->
      In rel rels /\
      check {| q_store := as_store V r; q_model := as_model V r;
               q_user := join_colon (e_type V (as_subject V r)) (e_id V (as_subject V r));
               q_relation := rel;
               q_object := join_colon (e_type V (as_resource V r)) (e_id V (as_resource V r));
               q_context := merge_properties_to_context V (as_context V r) (e_props V (as_subject V r))
                              (e_props V (as_resource V r)) None |} = CAllow E true.
  Proof.
    intros r rels l H rel Hin. unfold action_search in H.
    destruct (batch_check (action_search_checks V r rels)) as [e | cs] eqn:Hb; [discriminate |].
    inversion H. subst l. apply batch_pointwise in Hb. subst cs. clear H.
    unfold action_search_checks in Hin. rewrite map_map in Hin.
    induction rels as [| x rels IH]; simpl in Hin; [contradiction |].
    match type of Hin with In _ (match ?c with _ => _ end) => destruct c as [[|] | e] eqn:Hc end.
    - destruct Hin as [Hin | Hin].
      + subst x. split; [left; reflexivity | exact Hc].
      + destruct (IH Hin) as [H1 H2]. split; [right; exact H1 | exact H2].
    - destruct (IH Hin) as [H1 H2]. split; [right; exact H1 | exact H2].
    - destruct (IH Hin) as [H1 H2]. split; [right; exact H1 | exact H2].
  Qed.
End Proofs.

(* ---------------------------------------------------------------------------------------- *)
(* concrete values for the examples *)

(* "user", "doc", "viewer", "a", "1", "x" *)
Definition s_user : bytes := [117; 115; 101; 114].
Definition s_doc : bytes := [100; 111; 99].
Definition s_viewer : bytes := [118; 105; 101; 119; 101; 114].
Definition s_a : bytes := [97].
Definition s_1 : bytes := [49].
Definition s_x : bytes := [120].

Definition ex_subject (props : option (pstruct N)) : entity N := {| e_type := s_user; e_id := s_a; e_props := props |}.
Definition ex_resource (props : option (pstruct N)) : entity N := {| e_type := s_doc; e_id := s_1; e_props := props |}.
Definition ex_action (props : option (pstruct N)) : action N := {| a_name := s_viewer; a_props := props |}.

(* subject.x = 1, resource.x = 2, action.x = 3, context x = 4 and context subject_x = 5 *)
Definition ex_merged : option (pstruct N) :=
  merge_properties_to_context N (Some [(s_x, 4); (p_subject ++ s_x, 5)])
    (Some [(s_x, 1)]) (Some [(s_x, 2)]) (Some [(s_x, 3)]).

Lemma ex_merged_lookups :
  mlookup N s_x ex_merged = Some 4 /\
  mlookup N (p_subject ++ s_x) ex_merged = Some 5 /\
  mlookup N (p_resource ++ s_x) ex_merged = Some 2 /\
  mlookup N (p_action ++ s_x) ex_merged = Some 3 /\
  mlookup N (p_action ++ s_1) ex_merged = None.
Proof. vm_compute. repeat split. Qed.

(* a Check that allows exactly context x = 4 on doc:1#viewer@user:a, errs on anything else of doc:1,
   denies the rest *)
Definition ex_check (q : check_req N) : cres N :=
  if beqb (q_object N q) (s_doc ++ [58] ++ s_1) then
    match mlookup N s_x (q_context N q) with
    | Some 4 => CAllow N true
    | Some _ => CAllow N false
    | None => CErr N 7
    end
  else CAllow N false.

Definition ex_batch (qs : list (check_req N)) : N + list (cres N) := inr (map ex_check qs).

Definition ex_item (ctx : option (pstruct N)) (res : option (entity N)) : item N :=
  {| i_subject := None; i_resource := res; i_action := None; i_context := ctx |}.

Definition ex_top (sem : option N) : evals_req N :=
  {| es_store := []; es_header := None;
     es_subject := Some (ex_subject None); es_resource := Some (ex_resource None);
     es_action := Some (ex_action None); es_context := Some [(s_x, 4)];
     es_items := [ ex_item None None;                                   (* defaults: allowed *)
                   ex_item (Some [(s_x, 9)]) None;                      (* own context: denied *)
                   ex_item (Some [(s_1, 9)]) None;                      (* own context without x: error *)
                   ex_item None (Some {| e_type := s_user; e_id := s_a; e_props := None |}); (* other resource: denied *)
                   ex_item None None ];
     es_options := sem |}.

Lemma ex_batches :
  evaluations N N ex_check ex_batch (fun e => 400 + e) (fun e => 500 + e) (ex_top None) =
    EsOk N [RDecision true; RDecision false; RDenyErr 507; RDecision false; RDecision true] /\
  evaluations N N ex_check ex_batch (fun e => 400 + e) (fun e => 500 + e) (ex_top (Some 0)) =
    EsOk N [RDecision true; RDecision false; RDenyErr 507; RDecision false; RDecision true] /\
  evaluations N N ex_check ex_batch (fun e => 400 + e) (fun e => 500 + e) (ex_top (Some 1)) =
    EsOk N [RDecision true; RDecision false] /\
  evaluations N N ex_check ex_batch (fun e => 400 + e) (fun e => 500 + e) (ex_top (Some 2)) =
    EsOk N [RDecision true] /\
  evaluations N N ex_check ex_batch (fun e => 400 + e) (fun e => 500 + e) (ex_top (Some 3)) = EsInvalidArg N.
Proof. vm_compute. repeat split. Qed.

(* header: a padded ULID is trimmed and used; lower case, wrong length and empty are ignored *)
Definition ex_ulid : bytes := [48;49;72;48;48;48;48;48;48;48;48;48;48;48;48;48;48;48;48;48;48;48;48;48;48;90].
Lemma ex_headers :
  model_id_from_header (Some ([32] ++ ex_ulid ++ [9; 32])) = ex_ulid /\
  model_id_from_header (Some (map (fun c => if N.eqb c 72 then 104 else c) ex_ulid)) = [] /\
  model_id_from_header (Some (ex_ulid ++ [48])) = [] /\
  model_id_from_header (Some []) = [] /\
  model_id_from_header None = [].
Proof. vm_compute. repeat split. Qed.
