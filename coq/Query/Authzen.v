(* C32 — model of the AuthZEN endpoints, transcribed from pkg/server/authzen.go:
   mergePropertiesToContext, getAuthorizationModelIDFromHeader, buildCheckRequest, Evaluation,
   Evaluations (resolveEvalFields, evaluateAll, evaluateWithShortCircuit), SubjectSearch,
   ResourceSearch, ActionSearch.  Definitions only; proofs in Query/AuthzenProofs.v.

   The native API is external: Check, BatchCheck, ListUsers, ListObjects (streamed) are section
   variables; so are the two error -> HTTP status maps (grpcErrorToHTTPStatus for errors returned
   by Check, the CheckError -> EncodedError map for errors inside a BatchCheck result).
   Strings are byte lists; a protobuf Struct is an association list read with [lookup] (first
   match), a structpb.Value is opaque ([V]).

   Go maps: `merged[k] = v` overwrites; here a later write is put IN FRONT of the earlier ones and
   [lookup] returns the first match.  `len(merged) == 0` = the list is empty (nothing is ever
   deleted). *)
From Coq Require Import List NArith Bool.
From OFGA Require Import Base.Bytes.
Import ListNotations.
Open Scope N_scope.

(* "subject_", "resource_", "action_" *)
Definition p_subject : bytes := [115; 117; 98; 106; 101; 99; 116; 95].
Definition p_resource : bytes := [114; 101; 115; 111; 117; 114; 99; 101; 95].
Definition p_action : bytes := [97; 99; 116; 105; 111; 110; 95].

(* strip_prefix p k = Some k' iff k = p ++ k' *)
Fixpoint strip_prefix (p k : bytes) : option bytes :=
  match p, k with
  | [], _ => Some k
  | _ :: _, [] => None
  | a :: p', b :: k' => if N.eqb a b then strip_prefix p' k' else None
  end.

(* ---- getAuthorizationModelIDFromHeader ---- *)
Definition is_space (c : N) : bool :=
  N.eqb c 32 || N.eqb c 9 || N.eqb c 10 || N.eqb c 11 || N.eqb c 12 || N.eqb c 13.
Fixpoint trim_left (s : bytes) : bytes :=
  match s with [] => [] | c :: s' => if is_space c then trim_left s' else s end.
Definition trim (s : bytes) : bytes := rev (trim_left (rev (trim_left s))).

(* [ABCDEFGHJKMNPQRSTVWXYZ0-9] *)
Definition is_ulid_char (c : N) : bool :=
  (N.leb 48 c && N.leb c 57) ||
  (N.leb 65 c && N.leb c 90 && negb (N.eqb c 73) && negb (N.eqb c 76) && negb (N.eqb c 79) && negb (N.eqb c 85)).
Definition is_ulid (s : bytes) : bool := Nat.eqb (length s) 26 && forallb is_ulid_char s.

(* header absent = None; only the first value is looked at *)
Definition model_id_from_header (h : option bytes) : bytes :=
  match h with
  | None => []
  | Some v => match v with
              | [] => []
              | _ => let t := trim v in if is_ulid t then t else []
              end
  end.

Section Authzen.
  Variable V : Type.
  Definition pstruct := list (bytes * V).

  Fixpoint lookup (k : bytes) (s : pstruct) : option V :=
    match s with
    | [] => None
    | (k', v) :: s' => if beqb k' k then Some v else lookup k s'
    end.

  Record entity := { e_type : bytes; e_id : bytes; e_props : option pstruct }.   (* Subject, Resource *)
  Record efilter := { f_type : bytes; f_props : option pstruct }.                (* SubjectFilter, ResourceFilter *)
  Record action := { a_name : bytes; a_props : option pstruct }.

  Definition opt_struct (o : option pstruct) : pstruct := match o with Some s => s | None => [] end.
  Definition pfx (p : bytes) (s : pstruct) : pstruct := map (fun kv => (p ++ fst kv, snd kv)) s.

  (* mergePropertiesToContext(requestContext, subject, resource, action): the arguments are the
     Properties of the three providers (None when the provider or its properties are nil).
     Writes in the order subject, resource, action, request context. *)
  Definition merge_properties_to_context (ctx subj res act : option pstruct) : option pstruct :=
    let merged := opt_struct ctx ++ pfx p_action (opt_struct act) ++
                  pfx p_resource (opt_struct res) ++ pfx p_subject (opt_struct subj) in
    match merged with [] => None | _ => Some merged end.

  (* ---- native requests ---- *)
  Record check_req := { q_store : bytes; q_model : bytes; q_user : bytes; q_relation : bytes;
                        q_object : bytes; q_context : option pstruct }.
  Record list_users_req := { lu_store : bytes; lu_model : bytes; lu_obj_type : bytes; lu_obj_id : bytes;
                             lu_relation : bytes; lu_filter_type : bytes; lu_context : option pstruct }.
  Record list_objects_req := { lo_store : bytes; lo_model : bytes; lo_user : bytes; lo_relation : bytes;
                               lo_type : bytes; lo_context : option pstruct }.

  Definition join_colon (t id : bytes) : bytes := t ++ c_colon :: id.       (* fmt.Sprintf("%s:%s") *)

  Inductive berr := MissingSubject | MissingResource | MissingAction.

  Definition build_check_request (store model : bytes) (s r : option entity) (a : option action)
             (ctx : option pstruct) : berr + check_req :=
    match s with
    | None => inl MissingSubject
    | Some s =>
      match r with
      | None => inl MissingResource
      | Some r =>
        match a with
        | None => inl MissingAction
        | Some a =>
          inr {| q_store := store; q_model := model;
                 q_user := join_colon (e_type s) (e_id s);
                 q_relation := a_name a;
                 q_object := join_colon (e_type r) (e_id r);
                 q_context := merge_properties_to_context ctx (e_props s) (e_props r) (a_props a) |}
        end
      end
    end.

  (* ---- the native API ---- *)
  Variable E : Type.                               (* a native error *)
  Inductive cres := CAllow (b : bool) | CErr (e : E).
  Variable check : check_req -> cres.
  Variable batch_check : list check_req -> E + list cres.
  Variable status_direct : E -> N.                 (* grpcErrorToHTTPStatus *)
  Variable status_batch : E -> N.                  (* CheckError code -> EncodedError.HTTPStatus *)

  (* ---- Evaluation ---- *)
  Record eval_req := { ev_store : bytes; ev_header : option bytes;
                       ev_subject : option entity; ev_resource : option entity;
                       ev_action : option action; ev_context : option pstruct }.

  Inductive eval_res := EvDecision (b : bool) | EvInvalidArg | EvError (e : E).

  Definition evaluation (r : eval_req) : eval_res :=
    match build_check_request (ev_store r) (model_id_from_header (ev_header r))
            (ev_subject r) (ev_resource r) (ev_action r) (ev_context r) with
    | inl _ => EvInvalidArg
    | inr q => match check q with CAllow b => EvDecision b | CErr e => EvError e end
    end.

  (* ---- Evaluations ---- *)
  Record item := { i_subject : option entity; i_resource : option entity;
                   i_action : option action; i_context : option pstruct }.
  Record evals_req := { es_store : bytes; es_header : option bytes;
                        es_subject : option entity; es_resource : option entity;
                        es_action : option action; es_context : option pstruct;
                        es_items : list item;
                        es_options : option N }.   (* None: no options; Some n: evaluations_semantic = n *)

  (* one response of the list: a plain decision, or decision=false with an error context *)
  Inductive eresp := RDecision (b : bool) | RDenyErr (status : N).
  Inductive evals_res := EsOk (l : list eresp) | EsInvalidArg | EsError (e : E).

  Definition or_top {A : Type} (x top : option A) : option A := match x with Some _ => x | None => top end.

  (* resolveEvalFields: each of the four fields is taken from the item when present, else from the
     top level (whole fields, nothing is merged) *)
  Definition resolve (top : evals_req) (it : item) : item :=
    {| i_subject := or_top (i_subject it) (es_subject top);
       i_resource := or_top (i_resource it) (es_resource top);
       i_action := or_top (i_action it) (es_action top);
       i_context := or_top (i_context it) (es_context top) |}.

  Definition build_item (top : evals_req) (it : item) : berr + check_req :=
    let it' := resolve top it in
    build_check_request (es_store top) (model_id_from_header (es_header top))
      (i_subject it') (i_resource it') (i_action it') (i_context it').

  (* evaluateAll: the first item that cannot be built fails the request *)
  Fixpoint build_all (top : evals_req) (items : list item) : option (list check_req) :=
    match items with
    | [] => Some []
    | it :: rest => match build_item top it with
                    | inl _ => None
                    | inr q => match build_all top rest with Some qs => Some (q :: qs) | None => None end
                    end
    end.

  Definition resp_of_batch (c : cres) : eresp :=
    match c with CAllow b => RDecision b | CErr e => RDenyErr (status_batch e) end.

  Definition evaluate_all (top : evals_req) : evals_res :=
    match build_all top (es_items top) with
    | None => EsInvalidArg
    | Some qs => match batch_check qs with
                 | inl e => EsError e
                 | inr l => EsOk (map resp_of_batch l)
                 end
    end.

  (* the response of one item evaluated on its own (short-circuit path): 400 when it cannot be
     built, the direct HTTP status when Check fails *)
  Definition resp_of_item (top : evals_req) (it : item) : eresp :=
    match build_item top it with
    | inl _ => RDenyErr 400
    | inr q => match check q with CAllow b => RDecision b | CErr e => RDenyErr (status_direct e) end
    end.

  (* does the loop stop after this response?  sem 1 = deny_on_first_deny, 2 = permit_on_first_permit *)
  Definition stops (sem : N) (r : eresp) : bool :=
    match r with
    | RDecision true => N.eqb sem 2
    | RDecision false => N.eqb sem 1
    | RDenyErr _ => N.eqb sem 1
    end.

  Fixpoint short_circuit (top : evals_req) (sem : N) (items : list item) : list eresp :=
    match items with
    | [] => []
    | it :: rest => let r := resp_of_item top it in
                    r :: (if stops sem r then [] else short_circuit top sem rest)
    end.

  Definition evaluations (top : evals_req) : evals_res :=
    match es_items top with
    | [] =>
        match evaluation {| ev_store := es_store top; ev_header := es_header top;
                            ev_subject := es_subject top; ev_resource := es_resource top;
                            ev_action := es_action top; ev_context := es_context top |} with
        | EvDecision b => EsOk [RDecision b]
        | EvInvalidArg => EsInvalidArg
        | EvError e => EsError e
        end
    | _ =>
        let sem := match es_options top with None => 0 | Some n => n end in
        if negb (N.eqb sem 0 || N.eqb sem 1 || N.eqb sem 2) then EsInvalidArg
        else if N.eqb sem 1 || N.eqb sem 2 then EsOk (short_circuit top sem (es_items top))
        else evaluate_all top
    end.

  (* ---- searches ---- *)
  Inductive user_res := UObject (t id : bytes) | UWildcard (t : bytes) | UUserset (t id r : bytes).

  Variable list_users : list_users_req -> E + list user_res.
  Variable list_objects : list_objects_req -> E + list bytes.     (* StreamedListObjects, collected *)

  Record subject_search_req := { ss_store : bytes; ss_header : option bytes; ss_resource : entity;
                                 ss_action : action; ss_subject : efilter; ss_context : option pstruct }.
  Record resource_search_req := { rs_store : bytes; rs_header : option bytes; rs_subject : entity;
                                  rs_action : action; rs_resource : efilter; rs_context : option pstruct }.

  Definition subject_search_map (r : subject_search_req) : list_users_req :=
    {| lu_store := ss_store r; lu_model := model_id_from_header (ss_header r);
       lu_obj_type := e_type (ss_resource r); lu_obj_id := e_id (ss_resource r);
       lu_relation := a_name (ss_action r); lu_filter_type := f_type (ss_subject r);
       lu_context := merge_properties_to_context (ss_context r) (f_props (ss_subject r))
                       (e_props (ss_resource r)) (a_props (ss_action r)) |}.

  (* objects as they are, wildcards with id "*", usersets dropped *)
  Definition subjects_of_users (l : list user_res) : list (bytes * bytes) :=
    flat_map (fun u => match u with
                       | UObject t i => [(t, i)]
                       | UWildcard t => [(t, [c_star])]
                       | UUserset _ _ _ => []
                       end) l.

  Definition subject_search (r : subject_search_req) : E + list (bytes * bytes) :=
    match list_users (subject_search_map r) with
    | inl e => inl e
    | inr l => inr (subjects_of_users l)
    end.

  Definition resource_search_map (r : resource_search_req) : list_objects_req :=
    {| lo_store := rs_store r; lo_model := model_id_from_header (rs_header r);
       lo_user := join_colon (e_type (rs_subject r)) (e_id (rs_subject r));
       lo_relation := a_name (rs_action r); lo_type := f_type (rs_resource r);
       lo_context := merge_properties_to_context (rs_context r) (e_props (rs_subject r))
                       (f_props (rs_resource r)) (a_props (rs_action r)) |}.

  (* strings.Cut(objID, ":"): split at the first colon; ids without a colon are dropped *)
  Definition resources_of_objects (l : list bytes) : list (bytes * bytes) :=
    flat_map (fun o => match cut c_colon o with Some p => [p] | None => [] end) l.

  Definition resource_search (r : resource_search_req) : E + list (bytes * bytes) :=
    match list_objects (resource_search_map r) with
    | inl e => inl e
    | inr l => inr (resources_of_objects l)
    end.

  (* ActionSearch: one BatchCheck item per relation of the resource type (no action properties:
     mergePropertiesToContext is called with a nil action); relations whose check errs are
     skipped; the allowed ones are returned (sorted by name by the handler: order not modelled,
     the result is a set) *)
  Record action_search_req := { as_store : bytes; as_model : bytes (* resolved model id *);
                                as_subject : entity; as_resource : entity; as_context : option pstruct }.

  Definition action_search_checks (r : action_search_req) (relations : list bytes) : list check_req :=
    map (fun rel => {| q_store := as_store r; q_model := as_model r;
                       q_user := join_colon (e_type (as_subject r)) (e_id (as_subject r));
                       q_relation := rel;
                       q_object := join_colon (e_type (as_resource r)) (e_id (as_resource r));
                       q_context := merge_properties_to_context (as_context r) (e_props (as_subject r))
                                      (e_props (as_resource r)) None |}) relations.

  Fixpoint allowed_relations (relations : list bytes) (results : list cres) : list bytes :=
    match relations, results with
    | rel :: rs, CAllow true :: cs => rel :: allowed_relations rs cs
    | _ :: rs, _ :: cs => allowed_relations rs cs
    | _, _ => []
    end.

  Definition action_search (r : action_search_req) (relations : list bytes) : E + list bytes :=
    match batch_check (action_search_checks r relations) with
    | inl e => inl e
    | inr l => inr (allowed_relations relations l)
    end.
End Authzen.
