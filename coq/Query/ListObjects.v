(* C05 — model of the evaluate / limit layer of ListObjects
   (pkg/server/commands/list_objects.go: evaluate, trySendObject, Execute, ExecuteStreamed;
    pkg/server/commands/reverseexpand/reverse_expand.go: trySendCandidate;
    internal/listobjects/pipeline: DeduplicatingReceiver + the Recv loop of Execute).

   Definitions only.  The candidate generator (reverse expansion) is NOT modelled: it is an
   arbitrary list of (object, status) in arrival order; its contract (nofurther_sound, complete)
   is stated here as boolean predicates and CHECKED on the real candidate stream on every run
   (harness/cmd/c05, ocaml/c05_oracle.ml).

   What the Go code does, step by step:
     1. trySendCandidate: candidateObjectsMap.LoadOrStore(object) — only the first arrival of an
        object is sent, with the status of THAT arrival            -> dedup_cands
     2. evaluate's consumer: NoFurtherEval -> trySendObject;  RequiresFurtherEval -> Check in a
        pool goroutine, trySendObject when Allowed                 -> confirmed / attempts
     3. the trySendObject calls of the consumer and of the Check goroutines interleave in an
        arbitrary order                                            -> arrange (parameter arrival)
     4. trySendObject: objectsFound.Add(1) > maxResults => dropped (maxResults = 0: no limit);
        the pipeline loop of Execute stops after maxResults values -> cut
     5. deadline / error: processing stops after some number of sends -> run_prefix
   The pipeline engine delivers confirmed objects only (every candidate NoFurtherEval), de-duplicated
   by DeduplicatingReceiver (= dedup_cands), cut by the Recv loop (= cut). *)
From Coq Require Import List Bool Arith.
Import ListNotations.

Inductive status := RequiresFurtherEval | NoFurtherEval.

Definition is_nofurther (s : status) : bool :=
  match s with NoFurtherEval => true | RequiresFurtherEval => false end.

Section ListObjects.
  Variable A : Type.                       (* objects *)
  Variable eqb : A -> A -> bool.           (* string equality of object ids *)

  Definition cand := (A * status)%type.

  Definition mem (x : A) (l : list A) : bool := existsb (eqb x) l.

  (* 1. trySendCandidate / DeduplicatingReceiver: first arrival wins *)
  Fixpoint dedup_cands (seen : list A) (cs : list cand) : list cand :=
    match cs with
    | [] => []
    | c :: cs' =>
        if mem (fst c) seen then dedup_cands seen cs'
        else c :: dedup_cands (fst c :: seen) cs'
    end.

  Definition distinct_objs (cs : list cand) : list A := map fst (dedup_cands [] cs).

  (* 2. which candidates lead to a trySendObject call *)
  Definition confirmed (check : A -> bool) (c : cand) : bool :=
    if is_nofurther (snd c) then true else check (fst c).

  Definition attempts (check : A -> bool) (cs : list cand) : list A :=
    map fst (filter (confirmed check) (dedup_cands [] cs)).

  (* 3. arbitrary interleaving of the trySendObject calls: the i-th attempt (in candidate order,
        processed from the last to the first) is inserted at position (i-th element of arrival)
        of the global order built so far; every permutation arises (arrange_surjective) *)
  Fixpoint insert_at (p : nat) (x : A) (l : list A) : list A :=
    match p, l with
    | O, _ => x :: l
    | S _, [] => [x]
    | S p', y :: l' => y :: insert_at p' x l'
    end.

  Fixpoint arrange (arrival : list nat) (l : list A) : list A :=
    match l with
    | [] => []
    | x :: l' => insert_at (hd O arrival) x (arrange (tl arrival) l')
    end.

  (* 4. the limit counter: 0 = no limit *)
  Definition cut (limit : nat) (l : list A) : list A :=
    match limit with O => l | S _ => firstn limit l end.

  Definition evaluate (cands : list cand) (check : A -> bool) (limit : nat) (arrival : list nat) : list A :=
    cut limit (arrange arrival (attempts check cands)).

  (* 5. a run interrupted (deadline, cancellation, error) after k successful sends *)
  Definition run_prefix (k : nat) (cands : list cand) (check : A -> bool) (limit : nat) (arrival : list nat) : list A :=
    firstn k (evaluate cands check limit arrival).

  (* 6. ListObjectsQuery.Execute (unary): condition-evaluation errors (of the reverse expansion or of
        a Check) are collected while the sends go on; the pool cancels the remaining work, so only
        a prefix of the sends happens (err_after = Some k: the error struck after k sends).  Then
            if len(objects) < int(maxResults) && errs != nil { return nil, errs }
        AS CODED: with maxResults = 0 ("all results can be returned") the test is never true, the
        error is dropped and the partial list is returned as if it were complete (finding
        limit0_error_swallowed).  ExecuteStreamed reports every error (after the prefix was sent). *)
  Inductive response := Objects (l : list A) | Failed.

  Definition execute (cands : list cand) (check : A -> bool) (limit : nat) (arrival : list nat)
             (err_after : option nat) : response :=
    match err_after with
    | None => Objects (evaluate cands check limit arrival)
    | Some k =>
        let sent := run_prefix k cands check limit arrival in
        if Nat.ltb (length sent) limit then Failed else Objects sent
    end.

  (* 6a. Execute distinguishes the errors it receives on the results channel:
            if errors.Is(result.Err, condition.ErrEvaluationFailed) { errs = errors.Join(errs, result.Err); continue }
            return nil, serverErrors.HandleError("", result.Err)        (depth: ...TooComplex)
        only condition-evaluation errors are collected (and then dropped or reported as in 6);
        every other error — a datastore read failure during reverse expansion or during a confirming
        Check — fails the request whatever was sent before. *)
  Inductive errkind := CondError | OtherError.

  Definition execute_k (cands : list cand) (check : A -> bool) (limit : nat) (arrival : list nat)
             (err : option (nat * errkind)) : response :=
    match err with
    | None => execute cands check limit arrival None
    | Some (k, CondError) => execute cands check limit arrival (Some k)
    | Some (_, OtherError) => Failed
    end.

  Definition execute_streamed (cands : list cand) (check : A -> bool) (arrival : list nat)
             (err_after : option nat) : list A * bool (* sent, failed *) :=
    match err_after with
    | None => (evaluate cands check 0 arrival, false)
    | Some k => (run_prefix k cands check 0 arrival, true)
    end.

  (* 6b. finer granularity of trySendObject: the counter increment (objectsFound.Add(1) <= maxResults:
        a slot is reserved) and the channel send are two steps, and the send is
            select { case <-ctx.Done(): return false; case channel <- msg: return true }
        When the consumer loop meanwhile reads one more candidate, sees objectsFound >= maxResults
        and calls cancel(), a Check goroutine between the two steps may take the ctx.Done() branch:
        the reserved slot stays empty.  Only sends of RequiresFurtherEval candidates run under the
        cancellable context, and cancel() needs a candidate beyond the limit-th reservation.
        [drop] = the reserved sends that lose the select (finding limit_cancel_race). *)
  Definition status_of (cs : list cand) (o : A) : status :=
    match find (fun c => eqb (fst c) o) (dedup_cands [] cs) with
    | Some c => snd c
    | None => NoFurtherEval
    end.

  Definition evaluate_racy (cands : list cand) (check : A -> bool) (limit : nat) (arrival : list nat)
             (drop : A -> bool) : list A :=
    let reserved := evaluate cands check limit arrival in
    match limit with
    | O => reserved
    | S _ =>
        if Nat.ltb limit (length (distinct_objs cands))
        then filter (fun o => negb (drop o && negb (is_nofurther (status_of cands o)))) reserved
        else reserved
    end.

  (* 7. the pipeline engine as seen by Execute: the object worker's DeduplicatingReceiver lets each
        value through once (outputBuffer.LoadOrStore), and the loop
            for { value, ok := p.Recv(ctx); ...; res.Objects = append(res.Objects, value);
                  if maxResults > 0 && len(res.Objects) >= maxResults { break } }
        keeps the first maxResults of them.  [values] = the values the workers deliver, in delivery
        order, with repetitions. *)
  Definition pipeline_recv (values : list A) (limit : nat) : list A :=
    cut limit (distinct_objs (map (fun v => (v, NoFurtherEval)) values)).

  (* ---- the reverse-expansion contract, as boolean predicates (checked on the real stream) ---- *)
  (* every candidate sent with NoFurtherEval is permitted *)
  Definition nofurther_sound (permitted : A -> bool) (cands : list cand) : bool :=
    forallb (fun c => if is_nofurther (snd c) then permitted (fst c) else true) cands.

  (* every permitted object of the universe is among the candidates *)
  Definition complete (permitted : A -> bool) (univ : list A) (cands : list cand) : bool :=
    forallb (fun o => if permitted o then mem o (map fst cands) else true) univ.

  (* the stream itself carries no object twice (doc comment of ReverseExpandQuery.Execute:
     "It MUST guarantee no duplicate objects sent") *)
  Fixpoint nodupb (l : list A) : bool :=
    match l with
    | [] => true
    | x :: l' => negb (mem x l') && nodupb l'
    end.

  Definition permitted_cands (permitted : A -> bool) (cands : list cand) : list A :=
    filter permitted (distinct_objs cands).

  (* set comparison used by the oracle *)
  Definition subsetb (a b : list A) : bool := forallb (fun x => mem x b) a.
  Definition same_set (a b : list A) : bool := subsetb a b && subsetb b a.
End ListObjects.

(* instance used by the oracle: objects are interned numbers *)
Definition evaluate_nat := evaluate nat Nat.eqb.
Definition nofurther_sound_nat := nofurther_sound nat.
Definition complete_nat := complete nat Nat.eqb.
Definition nodupb_nat := nodupb nat Nat.eqb.
Definition same_set_nat := same_set nat Nat.eqb.
Definition attempts_nat := attempts nat Nat.eqb.
Definition distinct_objs_nat := distinct_objs nat Nat.eqb.
Definition execute_nat := execute nat Nat.eqb.
Definition pipeline_recv_nat := pipeline_recv nat Nat.eqb.
