(* C07 — proofs about Query/Batch.v.  Everything is for all item lists, all schedules, all keys
   and all checkers (section variables); hypotheses are named and explicit. *)
From Coq Require Import Permutation Lia.
From OFGA Require Import Query.Batch.
Open Scope nat_scope.

(* ------------------------------------------------------------------ generic list facts *)
Lemma bmem_In x l : bmem x l = true <-> In x l.
Proof.
  unfold bmem. rewrite existsb_exists. split.
  - intros [y [Hy He]]. apply beqb_eq in He. subst. exact Hy.
  - intro H. exists x. split; [exact H | apply beqb_refl].
Qed.

Lemma bmem_false x l : bmem x l = false <-> ~ In x l.
Proof.
  rewrite <- bmem_In. destruct (bmem x l); split; intro H.
  - discriminate H.
  - exfalso. apply H. reflexivity.
  - intro H'. discriminate H'.
  - reflexivity.
Qed.

Lemma NoDup_fst_inj {A B : Type} (l : list (A * B)) a b1 b2 :
  NoDup (map fst l) -> In (a, b1) l -> In (a, b2) l -> b1 = b2.
Proof.
  induction l as [|[x y] l IH]; simpl; intros Hnd H1 H2; [contradiction|].
  inversion Hnd as [|? ? Hni Hnd']; subst.
  destruct H1 as [H1|H1], H2 as [H2|H2].
  - congruence.
  - inversion H1; subst. exfalso. apply Hni. apply in_map_iff. exists (a, b2). auto.
  - inversion H2; subst. exfalso. apply Hni. apply in_map_iff. exists (a, b1). auto.
  - apply IH; assumption.
Qed.

Lemma lookup_id_in (l : list (bytes * outcome)) id o :
  NoDup (map fst l) -> In (id, o) l -> lookup_id id l = Some o.
Proof.
  induction l as [|[x y] l IH]; simpl; intros Hnd Hin; [contradiction|].
  inversion Hnd as [|? ? Hni Hnd']; subst.
  destruct (beqb x id) eqn:E.
  - apply beqb_eq in E. subst x. destruct Hin as [Hin|Hin]; [congruence|].
    exfalso. apply Hni. apply in_map_iff. exists (id, o). auto.
  - destruct Hin as [Hin|Hin].
    + inversion Hin; subst. rewrite beqb_refl in E. discriminate.
    + apply IH; assumption.
Qed.

Lemma lookup_id_some (l : list (bytes * outcome)) id o :
  lookup_id id l = Some o -> In (id, o) l.
Proof.
  induction l as [|[x y] l IH]; simpl; intro H; [discriminate|].
  destruct (beqb x id) eqn:E.
  - apply beqb_eq in E. inversion H; subst. auto.
  - right. apply IH. exact H.
Qed.

(* ------------------------------------------------------------------ schedules are exactly the permutations *)
Lemma extract_perm {A : Type} n (l : list A) x r :
  extract n l = Some (x, r) -> Permutation l (x :: r).
Proof.
  revert n x r. induction l as [|y l IH]; intros n x r H; simpl in H; [discriminate|].
  destruct n as [|n].
  - inversion H; subst. apply Permutation_refl.
  - destruct (extract n l) as [[z r']|] eqn:E; [|discriminate].
    inversion H; subst. apply IH in E.
    apply Permutation_trans with (y :: x :: r'); [apply perm_skip; exact E | apply perm_swap].
Qed.

Lemma extract_length {A : Type} n (l : list A) x r :
  extract n l = Some (x, r) -> length l = S (length r).
Proof. intro H. apply extract_perm in H. apply Permutation_length in H. exact H. Qed.

Lemma extract_lt {A : Type} n (l : list A) :
  n < length l -> exists x r, extract n l = Some (x, r).
Proof.
  revert n. induction l as [|y l IH]; intros n Hn; simpl in *; [lia|].
  destruct n as [|n]; [eauto|].
  destruct (IH n) as [x [r E]]; [lia|]. rewrite E. eauto.
Qed.

Lemma in_extract {A : Type} (x : A) l :
  In x l -> exists n r, n < length l /\ extract n l = Some (x, r).
Proof.
  induction l as [|y l IH]; simpl; intro H; [contradiction|].
  destruct H as [H|H].
  - subst. exists 0, l. split; [lia | reflexivity].
  - destruct (IH H) as [n [r [Hn E]]]. exists (S n), (y :: r). split; [lia|].
    simpl. rewrite E. reflexivity.
Qed.

Lemma schedule_aux_perm {A : Type} fuel sched (l : list A) :
  Permutation l (schedule_aux fuel sched l).
Proof.
  revert sched l. induction fuel as [|f IH]; intros sched l; simpl; [apply Permutation_refl|].
  destruct l as [|a l]; [apply Permutation_refl|].
  set (n := match sched with [] => 0 | n :: _ => Nat.modulo n (length (a :: l)) end).
  destruct (extract n (a :: l)) as [[x r]|] eqn:E; [|apply Permutation_refl].
  apply extract_perm in E.
  apply Permutation_trans with (x :: r); [exact E|]. apply perm_skip. apply IH.
Qed.

Lemma schedule_perm {A : Type} sched (l : list A) : Permutation l (schedule sched l).
Proof. apply schedule_aux_perm. Qed.

Lemma schedule_aux_cons {A : Type} f n s (l : list A) :
  l <> [] ->
  schedule_aux (S f) (n :: s) l =
  match extract (Nat.modulo n (length l)) l with
  | Some (x, r) => x :: schedule_aux f s r
  | None => l
  end.
Proof. destruct l; [congruence | reflexivity]. Qed.

Lemma schedule_complete {A : Type} (l l' : list A) :
  Permutation l l' -> exists sched, schedule sched l = l'.
Proof.
  revert l. induction l' as [|x l' IH]; intros l Hp.
  - apply Permutation_sym, Permutation_nil in Hp. subst. exists []. reflexivity.
  - assert (Hin : In x l) by (apply Permutation_in with (x :: l'); [apply Permutation_sym; exact Hp | left; reflexivity]).
    destruct (in_extract x l Hin) as [n [r [Hn E]]].
    assert (Hr : Permutation r l').
    { apply Permutation_cons_inv with x.
      apply Permutation_trans with l; [apply Permutation_sym, (extract_perm _ _ _ _ E) | exact Hp]. }
    destruct (IH r Hr) as [s Hs].
    exists (n :: s). unfold schedule.
    pose proof (extract_length _ _ _ _ E) as Hl.
    rewrite Hl. rewrite schedule_aux_cons by (intro Hc; subst l; simpl in Hn; lia).
    rewrite Nat.mod_small by exact Hn. rewrite E.
    unfold schedule in Hs. rewrite Hs. reflexivity.
Qed.

(* ------------------------------------------------------------------ the batch *)
Section Proofs.
  Context {P K St : Type}.
  Variable key : P -> K.
  Variable keqb : K -> K -> bool.
  Variable eval : St -> P -> outcome * St.
  Variable maxn : N.
  Hypothesis keqb_spec : forall a b, keqb a b = true <-> a = b.

  Notation item := (@item P).
  Notation group := (@group P K).

  Lemma keqb_refl k : keqb k k = true.
  Proof. apply keqb_spec. reflexivity. Qed.

  (* ---------------------------------------------------------------- validation *)
  Definition ids (items : list item) : list bytes := map fst items.

  Lemma validate_ids_none seen idx (items : list item) :
    validate_ids seen idx items = None <->
    Forall (fun it => fst it <> []) items /\ NoDup (ids items) /\
    (forall id, In id (ids items) -> ~ In id seen).
  Proof.
    revert seen idx. induction items as [|[id p] items IH]; intros seen idx; simpl.
    - split; [intros _; repeat split; [constructor | constructor | intros ? []] | reflexivity].
    - destruct id as [|c id'].
      + split; [discriminate|]. intros [Hf _]. inversion Hf as [|? ? Hne]; subst. exfalso. apply Hne. reflexivity.
      + set (i := c :: id'). destruct (bmem i seen) eqn:Eb.
        * split; [discriminate|]. intros [_ [_ Hs]]. apply bmem_In in Eb.
          exfalso. apply (Hs i); [left; reflexivity | exact Eb].
        * apply bmem_false in Eb. rewrite IH. split.
          -- intros [Hf [Hnd Hs]]. split; [|split].
             ++ constructor; [discriminate | exact Hf].
             ++ constructor; [|exact Hnd]. intro Hin. apply (Hs i Hin). left. reflexivity.
             ++ intros id0 [Hid|Hid].
                ** subst id0. exact Eb.
                ** intro Hseen. apply (Hs id0 Hid). right. exact Hseen.
          -- intros [Hf [Hnd Hs]]. inversion Hf; subst. inversion Hnd as [|? ? Hni Hnd']; subst.
             split; [assumption|]. split; [assumption|].
             intros id0 Hid [Hs0|Hs0].
             ++ subst id0. apply Hni. exact Hid.
             ++ apply (Hs id0); [right; exact Hid | exact Hs0].
  Qed.

  (* a batch is accepted iff it is non-empty, within the limit, has no empty id and no duplicate id *)
  Lemma validate_none_iff (items : list item) :
    validate maxn items = None <->
    items <> [] /\ (N.of_nat (length items) <= maxn)%N /\
    Forall (fun it => fst it <> []) items /\ NoDup (ids items).
  Proof.
    unfold validate. destruct (N.ltb maxn (N.of_nat (length items))) eqn:El.
    - apply N.ltb_lt in El. split; [discriminate|]. intros [_ [Hle _]]. lia.
    - apply N.ltb_ge in El. destruct items as [|it items].
      + split; [discriminate|]. intros [Hne _]. exfalso. apply Hne. reflexivity.
      + rewrite validate_ids_none. split.
        * intros [Hf [Hnd _]]. repeat split; try assumption. discriminate.
        * intros [_ [_ [Hf Hnd]]]. repeat split; try assumption. intros ? _ [].
  Qed.

  Lemma validate_too_many (items : list item) :
    validate maxn items = Some RTooMany <-> (maxn < N.of_nat (length items))%N.
  Proof.
    unfold validate. destruct (N.ltb maxn (N.of_nat (length items))) eqn:El.
    - apply N.ltb_lt in El. tauto.
    - apply N.ltb_ge in El. split; [|lia]. destruct items as [|[id p] items]; [discriminate|].
      intro H. exfalso. clear El.
      assert (G : forall seen idx (l : list item), validate_ids seen idx l <> Some RTooMany).
      { intros seen idx l. revert seen idx. induction l as [|[i q] l IHl]; intros seen idx; simpl; [discriminate|].
        destruct i; [discriminate|]. destruct (bmem _ seen); [discriminate | apply IHl]. }
      exact (G _ _ _ H).
  Qed.

  Lemma validate_empty_batch (items : list item) :
    validate maxn items = Some REmptyBatch <-> items = [].
  Proof.
    unfold validate. split.
    - destruct (N.ltb maxn (N.of_nat (length items))); [discriminate|].
      destruct items as [|[id p] items]; [reflexivity|]. intro H. exfalso.
      assert (G : forall seen idx (l : list item), validate_ids seen idx l <> Some REmptyBatch).
      { intros seen idx l. revert seen idx. induction l as [|[i q] l IHl]; intros seen idx; simpl; [discriminate|].
        destruct i; [discriminate|]. destruct (bmem _ seen); [discriminate | apply IHl]. }
      exact (G _ _ _ H).
    - intros ->. simpl. destruct (N.ltb maxn 0) eqn:E; [apply N.ltb_lt in E; lia | reflexivity].
  Qed.

  (* which id error is reported: the FIRST offending item in request order *)
  Lemma validate_ids_first_offender seen idx (items : list item) r :
    validate_ids seen idx items = Some r ->
    exists pre id p post,
      items = pre ++ (id, p) :: post /\ validate_ids seen idx pre = None /\
      ((id = [] /\ r = REmptyId (idx + length pre)) \/
       (id <> [] /\ r = RDupId id /\ (In id seen \/ In id (ids pre)))).
  Proof.
    revert seen idx. induction items as [|[id p] items IH]; intros seen idx H; simpl in H; [discriminate|].
    destruct id as [|c id'].
    - inversion H; subst. exists [], [], p, items. simpl. repeat split. left. split; [reflexivity|]. f_equal. lia.
    - set (i := c :: id') in *. destruct (bmem i seen) eqn:Eb.
      + inversion H; subst. apply bmem_In in Eb. exists [], i, p, items. simpl. repeat split.
        right. split; [discriminate|]. split; [reflexivity|]. left. exact Eb.
      + destruct (IH _ _ H) as [pre [id0 [p0 [post [He [Hv Hc]]]]]].
        exists ((i, p) :: pre), id0, p0, post. split; [simpl; rewrite He; reflexivity|].
        split; [simpl; fold i; rewrite Eb; exact Hv|].
        destruct Hc as [[Hi Hr]|[Hi [Hr Hs]]].
        * left. split; [exact Hi|]. rewrite Hr. f_equal. simpl. lia.
        * right. split; [exact Hi|]. split; [exact Hr|].
          destruct Hs as [[Hs|Hs]|Hs].
          -- right. left. exact Hs.
          -- left. exact Hs.
          -- right. right. exact Hs.
  Qed.

  (* rejected before any evaluation: no check is executed and the shared state is untouched *)
  Lemma batch_rejected sched st (items : list item) r :
    validate maxn items = Some r ->
    batch key keqb eval maxn sched st items = (Rejected r, [], st).
  Proof. intro H. unfold batch. rewrite H. reflexivity. Qed.

  (* ---------------------------------------------------------------- grouping *)
  Notation add_item := (add_item key keqb).
  Notation groups := (groups key keqb).

  Definition wf_group (items : list item) (g : group) : Prop :=
    key (g_rep g) = g_key g /\
    (exists id0, In (id0, g_rep g) items) /\
    g_ids g <> [] /\
    (forall id, In id (g_ids g) -> exists p, In (id, p) items /\ key p = g_key g).

  Definition covers (gs : list group) (items : list item) : Prop :=
    forall id p, In (id, p) items -> exists g, In g gs /\ g_key g = key p /\ In id (g_ids g).

  Definition Inv (gs : list group) (items : list item) : Prop :=
    NoDup (map g_key gs) /\ Forall (wf_group items) gs /\ covers gs items /\
    Permutation (flat_map g_ids gs) (ids items).

  Lemma add_item_in gs it g' :
    In g' (add_item gs it) ->
    In g' gs \/
    (exists g, In g gs /\ g_key g = key (snd it) /\ g' = mk_group (g_key g) (g_rep g) (g_ids g ++ [fst it])) \/
    g' = mk_group (key (snd it)) (snd it) [fst it].
  Proof.
    induction gs as [|g gs IH]; simpl; intro H.
    - destruct H as [H|[]]. right. right. symmetry. exact H.
    - destruct (keqb (g_key g) (key (snd it))) eqn:E.
      + apply keqb_spec in E. destruct H as [H|H].
        * right. left. exists g. split; [left; reflexivity|]. split; [exact E | symmetry; exact H].
        * left. right. exact H.
      + destruct H as [H|H]; [left; left; exact H|].
        destruct (IH H) as [H1|[[g0 [Hg0 [Hk He]]]|H3]].
        * left. right. exact H1.
        * right. left. exists g0. split; [right; exact Hg0|]. split; assumption.
        * right. right. exact H3.
  Qed.

  Lemma add_item_keys gs it k :
    In k (map g_key (add_item gs it)) -> In k (map g_key gs) \/ k = key (snd it).
  Proof.
    intro H. apply in_map_iff in H as [g' [Hk Hin]]. subst k.
    destruct (add_item_in _ _ _ Hin) as [H1|[[g0 [Hg0 [Hk He]]]|H3]].
    - left. apply in_map. exact H1.
    - subst g'. simpl. left. apply in_map. exact Hg0.
    - subst g'. simpl. right. reflexivity.
  Qed.

  Lemma add_item_nodup gs it :
    NoDup (map g_key gs) -> NoDup (map g_key (add_item gs it)).
  Proof.
    induction gs as [|g gs IH]; simpl; intro Hnd.
    - constructor; [intros [] | constructor].
    - inversion Hnd as [|? ? Hni Hnd']; subst.
      destruct (keqb (g_key g) (key (snd it))) eqn:E; simpl.
      + constructor; assumption.
      + constructor; [|apply IH; exact Hnd'].
        intro Hin. apply add_item_keys in Hin as [Hin|Hin]; [exact (Hni Hin)|].
        rewrite Hin in E. rewrite keqb_refl in E. discriminate.
  Qed.

  Lemma add_item_ids gs it :
    Permutation (flat_map g_ids (add_item gs it)) (flat_map g_ids gs ++ [fst it]).
  Proof.
    induction gs as [|g gs IH]; simpl; [apply Permutation_refl|].
    destruct (keqb (g_key g) (key (snd it))); simpl.
    - rewrite <- !app_assoc. apply Permutation_app_head. apply Permutation_app_comm.
    - rewrite <- app_assoc. apply Permutation_app_head. exact IH.
  Qed.

  Lemma add_item_preserves gs it g :
    In g gs -> exists g', In g' (add_item gs it) /\ g_key g' = g_key g /\ g_rep g' = g_rep g /\
                          incl (g_ids g) (g_ids g').
  Proof.
    induction gs as [|g0 gs IH]; simpl; intro H; [contradiction|].
    destruct (keqb (g_key g0) (key (snd it))) eqn:E.
    - destruct H as [H|H].
      + subst g0. eexists. split; [left; reflexivity|]. simpl. repeat split; try reflexivity.
        intros x Hx. apply in_or_app. left. exact Hx.
      + exists g. split; [right; exact H|]. repeat split; try reflexivity. apply incl_refl.
    - destruct H as [H|H].
      + subst g0. exists g. split; [left; reflexivity|]. repeat split; try reflexivity. apply incl_refl.
      + destruct (IH H) as [g' [Hin Hrest]]. exists g'. split; [right; exact Hin | exact Hrest].
  Qed.

  Lemma add_item_covers_new gs it :
    exists g', In g' (add_item gs it) /\ g_key g' = key (snd it) /\ In (fst it) (g_ids g').
  Proof.
    induction gs as [|g gs IH]; simpl.
    - eexists. split; [left; reflexivity|]. simpl. split; [reflexivity | left; reflexivity].
    - destruct (keqb (g_key g) (key (snd it))) eqn:E.
      + apply keqb_spec in E. eexists. split; [left; reflexivity|]. simpl. split; [exact E|].
        apply in_or_app. right. left. reflexivity.
      + destruct IH as [g' [Hin Hrest]]. exists g'. split; [right; exact Hin | exact Hrest].
  Qed.

  Lemma wf_group_mono items items' g :
    incl items items' -> wf_group items g -> wf_group items' g.
  Proof.
    intros Hi [H1 [[id0 H2] [H3 H4]]]. split; [exact H1|]. split; [exists id0; apply Hi; exact H2|].
    split; [exact H3|]. intros id Hid. destruct (H4 id Hid) as [p [Hp Hk]]. exists p. split; [apply Hi; exact Hp | exact Hk].
  Qed.

  Lemma Inv_step gs items it : Inv gs items -> Inv (add_item gs it) (items ++ [it]).
  Proof.
    intros [Hnd [Hwf [Hcov Hperm]]].
    assert (Hincl : incl items (items ++ [it])) by (intros x Hx; apply in_or_app; left; exact Hx).
    assert (Hit : In (fst it, snd it) (items ++ [it])).
    { apply in_or_app. right. left. destruct it; reflexivity. }
    split; [apply add_item_nodup; exact Hnd|]. split; [|split].
    - apply Forall_forall. intros g' Hg'. rewrite Forall_forall in Hwf.
      destruct (add_item_in _ _ _ Hg') as [H1|[[g0 [Hg0 [Hk He]]]|H3]].
      + apply wf_group_mono with items; [exact Hincl | apply Hwf; exact H1].
      + subst g'. destruct (Hwf g0 Hg0) as [W1 [[id0 W2] [W3 W4]]].
        split; [exact W1|]. split; [exists id0; apply Hincl; exact W2|]. simpl.
        split; [intro Hc; apply app_eq_nil in Hc as [_ Hc]; discriminate|].
        intros id Hid. apply in_app_or in Hid as [Hid|[Hid|[]]].
        * destruct (W4 id Hid) as [p [Hp Hkp]]. exists p. split; [apply Hincl; exact Hp | exact Hkp].
        * subst id. exists (snd it). split; [exact Hit | symmetry; exact Hk].
      + subst g'. split; [reflexivity|]. split; [exists (fst it); exact Hit|]. simpl.
        split; [discriminate|]. intros id [Hid|[]]. subst id. exists (snd it). split; [exact Hit | reflexivity].
    - intros id p Hin. apply in_app_or in Hin as [Hin|[Hin|[]]].
      + destruct (Hcov id p Hin) as [g [Hg [Hk Hid]]].
        destruct (add_item_preserves gs it g Hg) as [g' [Hg' [Hk' [_ Hinc]]]].
        exists g'. split; [exact Hg'|]. split; [congruence | apply Hinc; exact Hid].
      + subst it. exact (add_item_covers_new gs (id, p)).
    - unfold ids. rewrite map_app. simpl.
      apply Permutation_trans with (flat_map g_ids gs ++ [fst it]); [apply add_item_ids|].
      apply Permutation_app_tail. exact Hperm.
  Qed.

  Lemma Inv_fold l : forall gs items, Inv gs items -> Inv (fold_left add_item l gs) (items ++ l).
  Proof.
    induction l as [|it l IH]; intros gs items H; simpl.
    - rewrite app_nil_r. exact H.
    - replace (items ++ it :: l) with ((items ++ [it]) ++ l) by (rewrite <- app_assoc; reflexivity).
      apply IH. apply Inv_step. exact H.
  Qed.

  Lemma Inv_groups items : Inv (groups items) items.
  Proof.
    unfold Batch.groups. change items with ([] ++ items) at 2. apply Inv_fold.
    split; [constructor|]. split; [constructor|]. split; [intros ? ? []|]. apply Permutation_refl.
  Qed.

  Lemma groups_length_le items : length (groups items) <= length items.
  Proof.
    destruct (Inv_groups items) as [_ [Hwf [_ Hperm]]].
    apply Permutation_length in Hperm. unfold ids in Hperm. rewrite map_length in Hperm.
    enough (Hle : length (groups items) <= length (flat_map g_ids (groups items))).
    { eapply Nat.le_trans; [exact Hle|]. apply Nat.eq_le_incl. exact Hperm. }
    clear Hperm. induction Hwf as [|g gs Hg _ IH]; simpl; [lia|].
    rewrite app_length. destruct Hg as [_ [_ [Hne _]]]. destruct (g_ids g); [congruence | simpl; lia].
  Qed.

  (* ---------------------------------------------------------------- evaluation, any checker *)
  Lemma run_keys st (gs : list group) : map fst (fst (fst (run eval st gs))) = map g_key gs.
  Proof.
    revert st. induction gs as [|g gs IH]; intro st; simpl; [reflexivity|].
    destruct (eval st (g_rep g)) as [o st1]. specialize (IH st1).
    destruct (run eval st1 gs) as [[rs tr] st2]. simpl in *. rewrite IH. reflexivity.
  Qed.

  Lemma run_trace st (gs : list group) : snd (fst (run eval st gs)) = map g_rep gs.
  Proof.
    revert st. induction gs as [|g gs IH]; intro st; simpl; [reflexivity|].
    destruct (eval st (g_rep g)) as [o st1]. specialize (IH st1).
    destruct (run eval st1 gs) as [[rs tr] st2]. simpl in *. rewrite IH. reflexivity.
  Qed.

  Lemma lookup_key_some k (rs : list (K * outcome)) :
    In k (map fst rs) -> exists o, lookup_key keqb k rs = Some o.
  Proof.
    induction rs as [|[k' o] rs IH]; simpl; intro H; [contradiction|].
    destruct (keqb k' k) eqn:E; [eauto|]. destruct H as [H|H]; [|apply IH; exact H].
    subst. rewrite keqb_refl in E. discriminate.
  Qed.

  Lemma fan_out_total (gs : list group) rs :
    (forall g, In g gs -> exists o, lookup_key keqb (g_key g) rs = Some o) ->
    exists out, fan_out keqb gs rs = Some out /\ map fst out = flat_map g_ids gs.
  Proof.
    induction gs as [|g gs IH]; simpl; intro H; [exists []; auto|].
    destruct (H g (or_introl eq_refl)) as [o Ho]. rewrite Ho.
    destruct IH as [rest [Hr Hm]]; [intros g' Hg'; apply H; right; exact Hg'|].
    rewrite Hr. eexists. split; [reflexivity|]. rewrite map_app, Hm. f_equal.
    rewrite map_map. simpl. apply map_id.
  Qed.

  Lemma fan_out_exact (gs : list group) rs (h : group -> outcome) :
    (forall g, In g gs -> lookup_key keqb (g_key g) rs = Some (h g)) ->
    fan_out keqb gs rs = Some (flat_map (fun g => map (fun id => (id, h g)) (g_ids g)) gs).
  Proof.
    induction gs as [|g gs IH]; simpl; intro H; [reflexivity|].
    rewrite (H g (or_introl eq_refl)). rewrite IH; [reflexivity|].
    intros g' Hg'. apply H. right. exact Hg'.
  Qed.

  (* shape of an accepted batch, for every checker and every schedule *)
  Lemma batch_accepted_shape sched st (items : list item) :
    validate maxn items = None ->
    exists out st',
      batch key keqb eval maxn sched st items =
        (Results out (length items - length (groups items)),
         map g_rep (schedule sched (groups items)), st') /\
      map fst out = flat_map g_ids (groups items).
  Proof.
    intro Hv. unfold batch. rewrite Hv.
    pose proof (run_keys st (schedule sched (groups items))) as Hk.
    pose proof (run_trace st (schedule sched (groups items))) as Ht.
    destruct (run eval st (schedule sched (groups items))) as [[rs tr] st'] eqn:Er. simpl in Hk, Ht.
    destruct (fan_out_total (groups items) rs) as [out [Ho Hm]].
    { intros g Hg. apply lookup_key_some. rewrite Hk. apply in_map.
      apply Permutation_in with (groups items); [apply schedule_perm | exact Hg]. }
    cbv zeta. rewrite Ho. subst tr. exists out, st'. split; [reflexivity | exact Hm].
  Qed.

  (* C07, first half: every correlation id of an accepted batch receives exactly one outcome, and
     nothing else is in the response; a rejected batch evaluates nothing *)
  Theorem batch_total_unique_lemma sched st (items : list item) :
    match validate maxn items with
    | Some r => batch key keqb eval maxn sched st items = (Rejected r, [], st)
    | None =>
        exists out dups,
          resp_of (batch key keqb eval maxn sched st items) = Results out dups /\
          Permutation (map fst out) (ids items) /\ NoDup (ids items) /\
          (forall id, In id (ids items) -> exists! o, In (id, o) out) /\
          (forall id o, In (id, o) out -> In id (ids items))
    end.
  Proof.
    destruct (validate maxn items) as [r|] eqn:Hv; [apply batch_rejected; exact Hv|].
    destruct (batch_accepted_shape sched st items Hv) as [out [st' [Hb Hm]]].
    destruct (Inv_groups items) as [_ [_ [_ Hperm]]].
    apply validate_none_iff in Hv as [_ [_ [_ Hnd]]].
    assert (Hp : Permutation (map fst out) (ids items)) by (rewrite Hm; exact Hperm).
    assert (Hnd' : NoDup (map fst out)).
    { apply Permutation_NoDup with (ids items); [apply Permutation_sym; exact Hp | exact Hnd]. }
    exists out, (length items - length (groups items)). rewrite Hb. split; [reflexivity|].
    split; [exact Hp|]. split; [exact Hnd|]. split.
    - intros id Hid. apply (Permutation_in _ (Permutation_sym Hp)) in Hid.
      apply in_map_iff in Hid as [[id' o] [He Hin]]. simpl in He. subst id'.
      exists o. split; [exact Hin|]. intros o' Hin'. exact (NoDup_fst_inj out id o o' Hnd' Hin Hin').
    - intros id o Hin. apply (Permutation_in _ Hp). apply in_map_iff. exists (id, o). auto.
  Qed.

  (* ONE evaluation per key: the executed checks are the group representatives, one per distinct
     key of the batch, each of them an item of the batch; DuplicateCheckCount is what was saved *)
  Theorem batch_one_eval_per_key_lemma sched st (items : list item) :
    validate maxn items = None ->
    let r := batch key keqb eval maxn sched st items in
    NoDup (map key (trace_of r)) /\
    (forall id p, In (id, p) items -> In (key p) (map key (trace_of r))) /\
    (forall q, In q (trace_of r) -> exists id, In (id, q) items) /\
    length (trace_of r) <= length items /\
    (exists out, resp_of r = Results out (length items - length (trace_of r))).
  Proof.
    intros Hv r. subst r.
    destruct (batch_accepted_shape sched st items Hv) as [out [st' [Hb _]]]. rewrite Hb.
    unfold trace_of, resp_of. simpl.
    destruct (Inv_groups items) as [Hnd [Hwf [Hcov _]]]. rewrite Forall_forall in Hwf.
    pose proof (schedule_perm sched (groups items)) as Hs.
    assert (Hkeys : map key (map g_rep (schedule sched (groups items))) = map g_key (schedule sched (groups items))).
    { rewrite map_map. apply map_ext_in. intros g Hg. apply (Permutation_in _ (Permutation_sym Hs)) in Hg.
      destruct (Hwf g Hg) as [H1 _]. exact H1. }
    rewrite Hkeys. split; [|split; [|split; [|split]]].
    - apply Permutation_NoDup with (map g_key (groups items)); [apply Permutation_map; exact Hs | exact Hnd].
    - intros id p Hin. destruct (Hcov id p Hin) as [g [Hg [Hk _]]]. rewrite <- Hk.
      apply in_map. apply (Permutation_in _ Hs). exact Hg.
    - intros q Hq. apply in_map_iff in Hq as [g [Hq Hg]]. subst q.
      apply (Permutation_in _ (Permutation_sym Hs)) in Hg. destruct (Hwf g Hg) as [_ [H2 _]]. exact H2.
    - rewrite map_length. rewrite <- (Permutation_length Hs). apply groups_length_le.
    - exists out. rewrite map_length. rewrite <- (Permutation_length Hs). reflexivity.
  Qed.

  Theorem batch_no_panic_lemma sched st (items : list item) :
    resp_of (batch key keqb eval maxn sched st items) <> Panic.
  Proof.
    destruct (validate maxn items) as [r|] eqn:Hv.
    - rewrite (batch_rejected sched st items r Hv). discriminate.
    - destruct (batch_accepted_shape sched st items Hv) as [out [st' [Hb _]]]. rewrite Hb. discriminate.
  Qed.

  (* ---------------------------------------------------------------- evaluation, transparent shared state *)
  Section Transparent.
    Variable check : P -> outcome.           (* the standalone Check *)
    Variable good : St -> Prop.              (* invariant of the shared state (C08: every cache entry is correct) *)
    Hypothesis good_step : forall st p, good st -> good (snd (eval st p)).
    Hypothesis good_ans : forall st p, good st -> fst (eval st p) = check p.

    Lemma run_good st (gs : list group) :
      good st ->
      fst (fst (run eval st gs)) = map (fun g => (g_key g, check (g_rep g))) gs /\
      good (snd (run eval st gs)).
    Proof.
      revert st. induction gs as [|g gs IH]; intros st Hg; simpl; [auto|].
      pose proof (good_ans st (g_rep g) Hg) as Ha. pose proof (good_step st (g_rep g) Hg) as Hs.
      destruct (eval st (g_rep g)) as [o st1]. simpl in Ha, Hs. subst o.
      destruct (IH st1 Hs) as [I1 I2]. destruct (run eval st1 gs) as [[rs tr] st2]. simpl in *.
      rewrite I1. auto.
    Qed.

    Lemma lookup_key_map (l : list group) g :
      NoDup (map g_key l) -> In g l ->
      lookup_key keqb (g_key g) (map (fun g => (g_key g, check (g_rep g))) l) = Some (check (g_rep g)).
    Proof.
      induction l as [|g0 l IH]; simpl; intros Hnd Hin; [contradiction|].
      inversion Hnd as [|? ? Hni Hnd']; subst.
      destruct (keqb (g_key g0) (g_key g)) eqn:E.
      - apply keqb_spec in E. destruct Hin as [Hin|Hin]; [subst; reflexivity|].
        exfalso. apply Hni. rewrite E. apply in_map. exact Hin.
      - destruct Hin as [Hin|Hin]; [subst; rewrite keqb_refl in E; discriminate|].
        apply IH; assumption.
    Qed.

    (* the response of an accepted batch, in closed form: independent of the schedule *)
    Definition expected_out (items : list item) : list (bytes * outcome) :=
      flat_map (fun g => map (fun id => (id, check (g_rep g))) (g_ids g)) (groups items).

    Lemma expected_ids (gs : list group) :
      map fst (flat_map (fun g => map (fun id => (id, check (g_rep g))) (g_ids g)) gs) = flat_map g_ids gs.
    Proof.
      induction gs as [|g0 l IHl]; simpl; [reflexivity|].
      rewrite map_app, IHl. f_equal. rewrite map_map. simpl. apply map_id.
    Qed.

    Lemma batch_closed_form sched st (items : list item) :
      validate maxn items = None -> good st ->
      resp_of (batch key keqb eval maxn sched st items) =
        Results (expected_out items) (length items - length (groups items)) /\
      good (state_of (batch key keqb eval maxn sched st items)).
    Proof.
      intros Hv Hg. unfold batch. rewrite Hv.
      destruct (run_good st (schedule sched (groups items)) Hg) as [R1 R2].
      destruct (run eval st (schedule sched (groups items))) as [[rs tr] st'] eqn:Er. simpl in R1, R2.
      cbv zeta.
      destruct (Inv_groups items) as [Hnd _].
      pose proof (schedule_perm sched (groups items)) as Hs.
      rewrite (fan_out_exact (groups items) rs (fun g => check (g_rep g))).
      - split; [reflexivity | exact R2].
      - intros g Hin. rewrite R1. apply lookup_key_map.
        + apply Permutation_NoDup with (map g_key (groups items)); [apply Permutation_map; exact Hs | exact Hnd].
        + apply (Permutation_in _ Hs). exact Hin.
    Qed.

    (* C07, third part: the evaluation order is irrelevant *)
    Theorem batch_order_irrelevant_lemma s1 s2 st (items : list item) :
      good st ->
      resp_of (batch key keqb eval maxn s1 st items) = resp_of (batch key keqb eval maxn s2 st items).
    Proof.
      intro Hg. destruct (validate maxn items) as [r|] eqn:Hv.
      - rewrite !(batch_rejected _ st items r Hv). reflexivity.
      - destruct (batch_closed_form s1 st items Hv Hg) as [-> _].
        destruct (batch_closed_form s2 st items Hv Hg) as [-> _]. reflexivity.
    Qed.

    (* C07, second part: outcome(id) = check(item id) when equal keys imply equivalent requests *)
    Variable sem_eqb : P -> P -> bool.
    Hypothesis check_respects : forall a b, sem_eqb a b = true -> check a = check b.

    Theorem batch_eq_individual_lemma sched st (items : list item) :
      validate maxn items = None ->
      no_key_collision key keqb sem_eqb items = true ->
      good st ->
      forall id p, In (id, p) items ->
        outcome_at id (resp_of (batch key keqb eval maxn sched st items)) = Some (check p).
    Proof.
      intros Hv Hnc Hg id p Hin.
      destruct (batch_closed_form sched st items Hv Hg) as [-> _]. simpl.
      destruct (Inv_groups items) as [_ [Hwf [Hcov Hperm]]]. rewrite Forall_forall in Hwf.
      destruct (Hcov id p Hin) as [g [Hgin [Hk Hid]]].
      destruct (Hwf g Hgin) as [W1 [[id0 W2] _]].
      assert (Hc : check (g_rep g) = check p).
      { apply check_respects. unfold no_key_collision in Hnc. rewrite forallb_forall in Hnc.
        specialize (Hnc _ W2). rewrite forallb_forall in Hnc. specialize (Hnc _ Hin). simpl in Hnc.
        replace (keqb (key (g_rep g)) (key p)) with true in Hnc; [exact Hnc|].
        symmetry. apply keqb_spec. congruence. }
      apply lookup_id_in.
      - unfold expected_out. rewrite expected_ids. apply Permutation_NoDup with (ids items); [apply Permutation_sym; exact Hperm|].
        apply validate_none_iff in Hv as [_ [_ [_ Hnd]]]. exact Hnd.
      - unfold expected_out. apply in_flat_map. exists g. split; [exact Hgin|].
        rewrite <- Hc. apply in_map_iff. exists id. auto.
    Qed.
  End Transparent.
End Proofs.

(* ------------------------------------------------------------------ API layer *)
Section ApiProofs.
  Context {P K St : Type}.
  Variable key : P -> K.
  Variable keqb : K -> K -> bool.
  Variable eval : St -> P -> outcome * St.
  Variable maxn : N.
  Hypothesis keqb_spec : forall a b, keqb a b = true <-> a = b.

  (* what the proto rules reject never reaches the command: nothing is evaluated *)
  Lemma api_batch_invalid_argument sched st (items : list (bytes * P)) :
    items = [] \/ forallb (fun it => id_pattern_ok (fst it)) items = false ->
    api_batch key keqb eval maxn sched st items = (ApiInvalidArgument, [], st).
  Proof.
    intros [->|H]; [reflexivity|]. unfold api_batch. destruct items; [reflexivity|]. rewrite H. reflexivity.
  Qed.

  (* an id that matches the pattern is not empty: the command's empty-id error is unreachable
     through the API *)
  Lemma id_pattern_nonempty id : id_pattern_ok id = true -> id <> [].
  Proof. destruct id; [discriminate | discriminate]. Qed.

  Lemma api_batch_never_empty_id sched st (items : list (bytes * P)) idx :
    fst (fst (api_batch key keqb eval maxn sched st items)) <> ApiValidationError (REmptyId idx).
  Proof.
    unfold api_batch. destruct items as [|it items]; [discriminate|].
    destruct (forallb (fun it0 => id_pattern_ok (fst it0)) (it :: items)) eqn:Ef; simpl; [|discriminate].
    destruct (validate maxn (it :: items)) as [r|] eqn:Hv.
    - rewrite (batch_rejected key keqb eval maxn sched st _ r Hv). simpl.
      intro Hc. inversion Hc; subst r. clear Hc.
      unfold validate in Hv. destruct (N.ltb maxn _); [discriminate|].
      destruct (validate_ids_first_offender [] 0 (it :: items) _ Hv) as [pre [id [p [post [He [_ Hc]]]]]].
      rewrite forallb_forall in Ef. specialize (Ef (id, p)). rewrite He in Ef.
      assert (Hin : In (id, p) (pre ++ (id, p) :: post)) by (apply in_or_app; right; left; reflexivity).
      specialize (Ef Hin). simpl in Ef. apply id_pattern_nonempty in Ef.
      destruct Hc as [[Hi _]|[_ [Hr _]]]; [contradiction | discriminate].
    - destruct (batch_accepted_shape key keqb eval maxn keqb_spec sched st _ Hv) as [out [st' [Hb _]]].
      rewrite Hb. discriminate.
  Qed.

  Section ApiTransparent.
    Variable check : P -> outcome.
    Variable good : St -> Prop.
    Hypothesis good_step : forall st p, good st -> good (snd (eval st p)).
    Hypothesis good_ans : forall st p, good st -> fst (eval st p) = check p.
    Variable sem_eqb : P -> P -> bool.
    Hypothesis check_respects : forall a b, sem_eqb a b = true -> check a = check b.

    (* the API answer of an accepted batch is the image, under the error-code mapping, of the
       standalone outcomes *)
    Theorem api_batch_results_lemma sched st (items : list (bytes * P)) :
      items <> [] ->
      forallb (fun it => id_pattern_ok (fst it)) items = true ->
      validate maxn items = None ->
      no_key_collision key keqb sem_eqb items = true ->
      good st ->
      exists out,
        fst (fst (api_batch key keqb eval maxn sched st items)) =
          ApiResults (map (fun q => (fst q, api_item_of (snd q))) out) /\
        Permutation (map fst out) (map fst items) /\
        forall id p, In (id, p) items -> lookup_id id out = Some (check p).
    Proof.
      intros Hne Hpat Hv Hnc Hg. unfold api_batch. destruct items as [|it items]; [congruence|].
      rewrite Hpat. simpl negb. cbv iota.
      destruct (batch_closed_form key keqb eval maxn keqb_spec check good good_step good_ans sched st _ Hv Hg) as [Hr _].
      pose proof (batch_total_unique_lemma key keqb eval maxn keqb_spec sched st (it :: items)) as Ht.
      rewrite Hv in Ht. destruct Ht as [out [dups [Ho [Hp _]]]].
      pose proof (batch_eq_individual_lemma key keqb eval maxn keqb_spec check good good_step good_ans
                    sem_eqb check_respects sched st _ Hv Hnc Hg) as He.
      destruct (batch key keqb eval maxn sched st (it :: items)) as [[r tr] st'] eqn:Eb.
      unfold resp_of in Ho, He. simpl in Ho, He. subst r.
      exists out. split; [reflexivity|]. split; [exact Hp|].
      intros id p Hin. exact (He id p Hin).
    Qed.
  End ApiTransparent.
End ApiProofs.

(* ------------------------------------------------------------------ refutations (hypotheses are needed) *)
Definition pair_sem_eqb (a b : N * N) : bool := N.eqb (fst a) (fst b) && N.eqb (snd a) (snd b).

(* two requests that differ only in their context, under a key that forgets the context: the
   second is answered from the first *)
Definition collide_items : list (bytes * (N * N)) := [([97%N], (7%N, 1%N)); ([98%N], (7%N, 0%N))].

Lemma batch_eq_individual_refuted_lemma :
  exists (items : list (bytes * (N * N))) id p,
    In (id, p) items /\ validate 50 items = None /\
    no_key_collision forget_key N.eqb pair_sem_eqb items = false /\
    (forall sched,
       outcome_at id (resp_of (batch forget_key N.eqb (pure_eval ctx_check) 50 sched tt items)) = Some (Allowed true)) /\
    ctx_check p = Allowed false.
Proof.
  exists collide_items, [98%N], (7%N, 0%N).
  split; [right; left; reflexivity|]. split; [reflexivity|]. split; [reflexivity|].
  split; [|reflexivity]. intro sched.
  (* one group only: every schedule evaluates the same single representative *)
  unfold batch. change (validate 50 collide_items) with (@None reject).
  change (groups forget_key N.eqb collide_items) with [mk_group 7%N (7%N, 1%N) [[97%N]; [98%N]]].
  assert (Hs : schedule sched [mk_group 7%N (7%N, 1%N) [[97%N]; [98%N]]] = [mk_group 7%N (7%N, 1%N) [[97%N]; [98%N]]]).
  { pose proof (schedule_perm sched [mk_group 7%N (7%N, 1%N) [[97%N]; [98%N]]]) as Hp.
    apply Permutation_length_1_inv in Hp. exact Hp. }
  rewrite Hs. reflexivity.
Qed.

(* a checker whose answers depend on the shared state in an order-sensitive way *)
Lemma batch_order_irrelevant_refuted_lemma :
  exists (items : list (bytes * N)) s1 s2,
    validate 50 items = None /\
    resp_of (batch (fun p : N => p) N.eqb counting_eval 50 s1 O items) <>
    resp_of (batch (fun p : N => p) N.eqb counting_eval 50 s2 O items).
Proof.
  exists [([97%N], 1%N); ([98%N], 2%N)], [0], [1].
  split; [reflexivity|]. vm_compute. discriminate.
Qed.

(* ------------------------------------------------------------------ statements of Props/C07.v assembled from the lemmas above *)
Lemma batch_validation_lemma :
  forall (P : Type) (maxn : N) (items : list (bytes * P)),
    (validate maxn items = None <->
       items <> [] /\ (N.of_nat (length items) <= maxn)%N /\
       Forall (fun it => fst it <> []) items /\ NoDup (map fst items)) /\
    (validate maxn items = Some RTooMany <-> (maxn < N.of_nat (length items))%N) /\
    (validate maxn items = Some REmptyBatch <-> items = []).
Proof.
  intros P maxn items. split; [exact (validate_none_iff maxn items)|].
  split; [exact (validate_too_many maxn items) | exact (validate_empty_batch maxn items)].
Qed.

Lemma schedule_exhaustive_lemma :
  forall (A : Type) (l : list A),
    (forall sched, Permutation l (schedule sched l)) /\
    (forall l', Permutation l l' -> exists sched, schedule sched l = l').
Proof. intros A l. split; [intro s; apply schedule_perm | apply schedule_complete]. Qed.

Lemma api_batch_eq_individual_lemma :
  forall (P K St : Type) (key : P -> K) (keqb : K -> K -> bool) (eval : St -> P -> outcome * St) (maxn : N),
    (forall a b, keqb a b = true <-> a = b) ->
    (forall sched st (items : list (bytes * P)),
       items = [] \/ forallb (fun it => id_pattern_ok (fst it)) items = false ->
       api_batch key keqb eval maxn sched st items = (ApiInvalidArgument, [], st)) /\
    (forall sched st (items : list (bytes * P)) idx,
       fst (fst (api_batch key keqb eval maxn sched st items)) <> ApiValidationError (REmptyId idx)) /\
    (forall (check : P -> outcome) (good : St -> Prop),
       (forall st p, good st -> good (snd (eval st p))) ->
       (forall st p, good st -> fst (eval st p) = check p) ->
       forall (sem_eqb : P -> P -> bool),
         (forall a b, sem_eqb a b = true -> check a = check b) ->
         forall sched st (items : list (bytes * P)),
           items <> [] ->
           forallb (fun it => id_pattern_ok (fst it)) items = true ->
           validate maxn items = None ->
           no_key_collision key keqb sem_eqb items = true ->
           good st ->
           exists out,
             fst (fst (api_batch key keqb eval maxn sched st items)) =
               ApiResults (map (fun q => (fst q, api_item_of (snd q))) out) /\
             Permutation (map fst out) (map fst items) /\
             forall id p, In (id, p) items -> lookup_id id out = Some (check p)).
Proof.
  intros P K St key keqb eval maxn Hk. split; [|split].
  - intros sched st items H. apply api_batch_invalid_argument. exact H.
  - intros sched st items idx. apply api_batch_never_empty_id. exact Hk.
  - intros check good Hs Ha sem_eqb Hr sched st items. apply (api_batch_results_lemma key keqb eval maxn Hk check good Hs Ha sem_eqb Hr).
Qed.
