(* A variant of the cycle-group model (Conc/CycleGroup.v) in which the queue of a cyclical edge is
   BOUNDED: a Send parks while the queue holds [cap] messages (what mpmc.Queue does once its
   extensions are used up).  The real code builds these queues with unlimited extensions
   (worker.NewQueueMedium: mpmc.MustQueue(capacity, -1)), which is the hypothesis
   "cyclic_send_never_blocks" under which absence of deadlock is proved; this file exists to show
   that the hypothesis is necessary.  Definitions only. *)
From OFGA Require Export Conc.CycleGroup.

Definition edge_len (s : state) (a b : nat) : nat :=
  length (filter (fun q => (q_src q =? a) && (q_dst q =? b)) (st_flight s)).

(* goroutine k is at Send towards a queue that is open, full, and the request is not cancelled *)
Definition send_parks (cap : nat) (s : state) (k : nat) : bool :=
  match nth_error (st_proc s) k with
  | Some pr =>
    match p_pc pr with
    | PSend (Msg d _) _ =>
      let d' := d mod st_n s in
      negb (st_cancel s || edge_closed s (p_owner pr) d') && (cap <=? edge_len s (p_owner pr) d')
    | _ => false
    end
  | None => false
  end.

Definition step_bounded (cap : nat) (s : state) (t : tid) : option state :=
  match t with
  | TP k => if send_parks cap s k then None else step s t
  | _ => step s t
  end.

Fixpoint run_bounded (cap : nat) (s : state) (sched : list tid) : state :=
  match sched with
  | [] => s
  | t :: r => match step_bounded cap s t with
              | Some s' => run_bounded cap s' r
              | None => run_bounded cap s r
              end
  end.

(* no goroutine can take a step *)
Definition stuck_bounded (cap : nat) (s : state) : bool :=
  forallb (fun t => match step_bounded cap s t with None => true | Some _ => false end) (all_tids s).
