(* C22 — the media of internal/listobjects/pipeline/internal/worker/medium.go at METHOD
   granularity: a small wrapper state machine over a closable FIFO channel (Conc/FifoSpec.v; the
   queues underneath are proved to be linearisable w.r.t. that specification in
   MpmcProofs / MpscProofs, and every medium is single-consumer by contract, so the wrapper's
   plain [closed] field is consumer-private).

     QueueMedium        mpmc.Queue with unlimited extensions (Send never parks) + [closed] latch
     AccumulatorMedium  mpsc.Accumulator + [closed] latch
     ChannelMedium      buffered Go channel of the given capacity, no latch; its two selects
                        choose at random when both cases are ready ([choice] = the channel case
                        wins); Send after Close is a Go panic (out of contract)

   Recv as coded (Queue/Accumulator media):
       if m.closed { return nil, false }
       msg, more := m.queue.Recv(ctx)          -- returns a buffered item even if ctx is cancelled;
                                                  empty: (zero,false) if closed or ctx cancelled,
                                                  otherwise parks
       if !more && ctx.Err() == nil { m.closed = true }
   Send as coded: if ctx.Err() != nil { return false }; return m.queue.Send(ctx, value). *)
From OFGA Require Export Conc.FifoSpec.

Inductive mkind := MQueue | MAcc | MChan (c : nat).

(* [live] = the context passed to the call is not cancelled *)
Inductive mop := MSend (live : bool) (v : N) | MRecv (live : bool) (choice : bool) | MClose.

Inductive mresult :=
| MRSend (ok : bool)
| MRRecv (v : option N)
| MRBlock            (* the call parks (live context, nothing to do) *)
| MRClose
| MRPanic.

Record medium := mkMedium {
  mk : mkind;
  mch : chan;
  latch : bool;          (* QueueMedium.closed / AccumulatorMedium.closed *)
  mev : list event       (* ghost: linearisation events *)
}.

Definition minit_medium (k : mkind) : medium := mkMedium k chan0 false [].

Definition has_latch (k : mkind) : bool := match k with MChan _ => false | _ => true end.

Definition med_step (s : medium) (o : mop) : medium * mresult :=
  let ch := mch s in
  let set c l e := mkMedium (mk s) c l (mev s ++ e) in
  match o with
  | MClose => (set (mkChan (c_buf ch) true) (latch s) [EClose 0], MRClose)
  | MSend live v =>
      match mk s with
      | MChan c =>
          if c_closed ch then (s, MRPanic)
          else if length (c_buf ch) <? c
          then if live then (set (mkChan (c_buf ch ++ [v]) false) (latch s) [EEnq 0 v], MRSend true)
               else (s, MRSend false)   (* both cases ready: see med_step_alt *)
          else if live then (s, MRBlock) else (s, MRSend false)
      | _ =>
          if negb live then (s, MRSend false)
          else if c_closed ch then (set ch (latch s) [EEnqFail 0], MRSend false)
          else (set (mkChan (c_buf ch ++ [v]) false) (latch s) [EEnq 0 v], MRSend true)
      end
  | MRecv live choice =>
      if has_latch (mk s) && latch s then (s, MRRecv None)
      else
        match c_buf ch with
        | v :: rest =>
            if live || has_latch (mk s) || choice
            then (set (mkChan rest (c_closed ch)) (latch s) [EDeq 0 v], MRRecv (Some v))
            else (s, MRRecv None)         (* ChannelMedium: ctx.Done() won the select *)
        | [] =>
            if c_closed ch
            then (set ch (if has_latch (mk s) then live else false) [EDeqFail 0], MRRecv None)
            else if live then (s, MRBlock) else (s, MRRecv None)
        end
  end.

(* ChannelMedium.Send with a cancelled context and room in the buffer may also succeed *)
Definition med_step_alt (s : medium) (o : mop) : option (medium * mresult) :=
  match o, mk s with
  | MSend false v, MChan c =>
      if negb (c_closed (mch s)) && (length (c_buf (mch s)) <? c)
      then Some (mkMedium (mk s) (mkChan (c_buf (mch s) ++ [v]) false) (latch s) (mev s ++ [EEnq 0 v]),
                 MRSend true)
      else None
  | _, _ => None
  end.

(* [alts]: for each op, whether the alternative outcome is taken when it exists *)
Fixpoint med_run (s : medium) (ops : list (mop * bool)) : medium :=
  match ops with
  | [] => s
  | (o, alt) :: r =>
      match (if alt then med_step_alt s o else None) with
      | Some (s', _) => med_run s' r
      | None => med_run (fst (med_step s o)) r
      end
  end.

(* ---- when does a cancellation that lands DURING a call still count? ----
   A context that becomes cancelled after its n-th consultation (Err() or Done()) is, for the
   call, "live" iff n is at least the number of consultations the call makes before its point of
   no return.  Counted from the source:
     mpmc.Queue.Send        2   (`p.done.Load() || ctx.Err() != nil`, loop condition); after the
                                successful head CAS the context is not consulted any more
     QueueMedium.Send       3   (its own pre-check + the two above)
     AccumulatorMedium.Send 1   (pre-check; mpsc.Send takes no context)
     ChannelMedium.Send     1   (ctx.Done() evaluated on entry to the select)
     Recv on an empty, open medium parks after: mpmc.Queue / QueueMedium 2 (ctx.Err() in the empty
       branch, ctx.Done() in the select), AccumulatorMedium 1, ChannelMedium 1 (ctx.Done())
     Recv on a closed, drained Queue/Accumulator medium consults once: `!more && ctx.Err() == nil`
       decides the latch. *)
Definition queue_send_consults : nat := 2.
Definition send_consults (k : mkind) : nat :=
  match k with MQueue => S queue_send_consults | MAcc => 1 | MChan _ => 1 end.
Definition send_live (k : mkind) (n : nat) : bool := send_consults k <=? n.
Definition queue_send_live (n : nat) : bool := queue_send_consults <=? n.
Definition recv_park_consults (k : mkind) : nat :=
  match k with MQueue => 2 | MAcc => 1 | MChan _ => 1 end.
(* [closed_empty]: the medium is closed and drained (only the latch decision consults the context) *)
Definition recv_live (k : mkind) (closed_empty : bool) (n : nat) : bool :=
  if closed_empty then 1 <=? n else recv_park_consults k <=? n.
