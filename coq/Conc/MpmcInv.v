(* C22 — the inductive invariant of the MPMC model (definitions + the generic preservation
   skeleton).  The per-step proofs are in MpmcProofs.v. *)
From OFGA Require Import Conc.FifoSpec Conc.Mpmc Conc.MpmcLemmas.
From Coq Require Import Lia.

Definition s_own (p : pc) : bool := match p with S_write | S_pub => true | _ => false end.
Definition r_own (p : pc) : bool := match p with R_read | R_recycle => true | _ => false end.

(* Slot i is in one of two phases, decided by its sequence number sq:
     phase 0 (writable / claimed by a sender): sq = c, c mod cap = i   -- c is the position it serves
     phase 1 (readable / claimed by a receiver): sq = c+1, c mod cap = i
   with head - cap <= c < tail + cap.  A readable, not yet claimed slot (tail <= c) holds the
   (c+base)-th enqueued item. *)
Definition slot_ok (G : glob) (i : nat) : Prop :=
  let sq := fst (slot_at G i) in
  (sq mod cap G = i /\ head G <= sq + cap G /\ sq < tail G + cap G)
  \/ (exists c, sq = S c /\ c mod cap G = i /\ c < head G /\ head G <= c + cap G
        /\ c < tail G + cap G
        /\ (tail G <= c -> nth_error (enqs (events G)) (c + base G) = Some (snd (slot_at G i)))).

Record ginv (G : glob) : Prop := {
  gi_cap : 2 <= cap G;
  gi_len : length (slots G) = cap G;
  gi_th : tail G <= head G;
  gi_slots : forall i, i < cap G -> slot_ok G i;
  gi_nenq : length (enqs (events G)) = head G + base G;
  gi_spec : run_spec chan0 (events G)
            = Some (mkChan (skipn (tail G + base G) (enqs (events G))) (done G));
  gi_ecl : eclosed G = true -> done G = true;
  gi_fcl : fclosed G = true -> eclosed G = true;
  gi_nopanic : panicked G = false
}.

Definition tinv (G : glob) (th : thread) : Prop :=
  match tpc th with
  | S_loop | S_snap => r_pos th <= head G
  | S_loadseq => r_pos th <= head G /\ done G = false
  | S_cas => r_pos th <= head G /\ done G = false
             /\ (head G = r_pos th -> seq_at G (r_pos th) = r_pos th)
  | S_write => r_pos th < head G /\ tail G <= r_pos th /\ done G = false
               /\ seq_at G (r_pos th) = r_pos th
               /\ nth_error (enqs (events G)) (r_pos th + base G) = Some (r_val th)
  | S_pub => r_pos th < head G /\ tail G <= r_pos th /\ done G = false
             /\ seq_at G (r_pos th) = r_pos th
             /\ nth_error (enqs (events G)) (r_pos th + base G) = Some (r_val th)
             /\ data_at G (r_pos th) = r_val th
  | S_sig => done G = false
  | R_loadseq => r_pos th <= tail G
  | R_cas => r_pos th <= tail G /\ (tail G = r_pos th -> seq_at G (r_pos th) = r_pos th + 1)
  | R_read => r_pos th < tail G /\ seq_at G (r_pos th) = r_pos th + 1
              /\ data_at G (r_pos th) = r_val th
  | R_recycle => r_pos th < tail G /\ seq_at G (r_pos th) = r_pos th + 1
  | R_sig => done G = false
  | R_empty => r_pos th <= tail G /\ (done G = true -> head G <= r_pos th)
  | C_close_empty => done G = true /\ eclosed G = false /\ fclosed G = false
  | C_close_full => done G = true /\ eclosed G = true /\ fclosed G = false
  | _ => True
  end.

(* results <-> linearisation events of one thread *)
Definition res_event (t : nat) (r : result) : list event :=
  match r with
  | RSend v true => [EEnq t v]
  | RSend _ false => [EEnqFail t]
  | RRecv (Some v) => [EDeq t v]
  | RRecv None => [EDeqFail t]
  | RClose => [EClose t]
  | RGrow _ => []
  end.

Definition inflight (t : nat) (th : thread) : list event :=
  match tpc th with
  | S_write | S_pub | S_sig | S_rett => [EEnq t (r_val th)]
  | S_retf => [EEnqFail t]
  | R_read | R_recycle | R_chkdone | R_sig | R_rett => [EDeq t (r_val th)]
  | R_retf => [EDeqFail t]
  | C_close_empty | C_close_full | C_unlock => [EClose t]
  | _ => []
  end.

Definition op_of (r : result) : op :=
  match r with
  | RSend v _ => OSend v
  | RRecv _ => ORecv
  | RClose => OClose
  | RGrow n => OGrow n
  end.

(* the call in progress is the head of the remaining program *)
Definition pc_op (th : thread) : Prop :=
  match tpc th with
  | Idle => True
  | S_chk0 | S_loadhead | S_loop | S_loadseq | S_cas | S_write | S_pub | S_sig | S_rett | S_retf
  | S_snap | S_lock | S_ext | S_unlock | S_park | S_relock =>
      exists rest, prog th = OSend (r_val th) :: rest
  | R_loadtail | R_loadseq | R_cas | R_read | R_recycle | R_chkdone | R_sig | R_rett | R_empty
  | R_retf | R_unl | R_park | R_relock => exists rest, prog th = ORecv :: rest
  | C_swap | C_close_empty | C_close_full | C_unlock => exists rest, prog th = OClose :: rest
  | G_ext | G_unlock => exists n rest, prog th = OGrow n :: rest
  end.

Definition owners_ok (G : glob) (T : list thread) : Prop :=
  forall i, i < cap G ->
    (fst (slot_at G i) mod cap G = i -> fst (slot_at G i) < head G ->
       exists t th, nth_error T t = Some th /\ s_own (tpc th) = true
                    /\ r_pos th = fst (slot_at G i))
    /\ (forall c, fst (slot_at G i) = S c -> c mod cap G = i -> c < tail G ->
       exists t th, nth_error T t = Some th /\ r_own (tpc th) = true /\ r_pos th = c).

Record Inv (progs : list (list op)) (s : state) : Prop := {
  i_g : ginv (g s);
  i_t : forall t th, nth_error (thr s) t = Some th -> tinv (g s) th;
  i_ev : forall t th, nth_error (thr s) t = Some th ->
         proj t (events (g s)) = flat_map (res_event t) (res th) ++ inflight t th;
  i_prog : forall t th, nth_error (thr s) t = Some th ->
         pc_op th /\ nth_error progs t = Some (map op_of (res th) ++ prog th);
  i_mutex : forall t u th1 th2, t <> u ->
         nth_error (thr s) t = Some th1 -> nth_error (thr s) u = Some th2 ->
         write_pc (tpc th1) = true -> read_pc (tpc th2) = false /\ write_pc (tpc th2) = false;
  i_sdist : forall t u th1 th2, t <> u ->
         nth_error (thr s) t = Some th1 -> nth_error (thr s) u = Some th2 ->
         s_own (tpc th1) = true -> s_own (tpc th2) = true -> r_pos th1 <> r_pos th2;
  i_rdist : forall t u th1 th2, t <> u ->
         nth_error (thr s) t = Some th1 -> nth_error (thr s) u = Some th2 ->
         r_own (tpc th1) = true -> r_own (tpc th2) = true -> r_pos th1 <> r_pos th2;
  i_own : owners_ok (g s) (thr s)
}.

(* ---- facts about the lock abstraction ---- *)
Lemma no_writer_spec T : no_writer T = true ->
  forall u th, nth_error T u = Some th -> write_pc (tpc th) = false.
Proof.
  unfold no_writer. intros H u th Hn. rewrite forallb_forall in H.
  apply nth_error_In in Hn. apply H in Hn. destruct (write_pc (tpc th)); auto; discriminate.
Qed.

Lemma no_holder_spec T : no_holder T = true ->
  forall u th, nth_error T u = Some th -> read_pc (tpc th) = false /\ write_pc (tpc th) = false.
Proof.
  unfold no_holder. intros H u th Hn. rewrite forallb_forall in H.
  apply nth_error_In in Hn. apply H in Hn.
  destruct (read_pc (tpc th)), (write_pc (tpc th)); auto; discriminate.
Qed.

(* ---- generic preservation skeleton ----
   A step of thread t from (G, th) to (G', th') preserves Inv if:
     the global invariant holds of G';
     every other thread's local invariant survives the global change (frame) -- the frame may use
       the exclusion facts the locks and the slot ownership give;
     th' satisfies its local invariant in G';
     the appended events are t's and match the change of t's result log / in-flight event;
     the program bookkeeping is consistent;
     lock acquisitions respect the lock (nw / nh);
     ownership changes keep positions distinct and every claimed slot owned. *)
Section Generic.
  Variable progs : list (list op).
  Variables (G : glob) (T : list thread) (t : nat) (th : thread) (G' : glob) (th' : thread).
  Hypothesis HI : Inv progs (mkState G T).
  Hypothesis Ht : nth_error T t = Some th.
  Hypothesis Hg : ginv G'.
  Hypothesis Hframe : forall u thu, u <> t -> nth_error T u = Some thu -> tinv G thu ->
      (write_pc (tpc th) = true -> read_pc (tpc thu) = false /\ write_pc (tpc thu) = false) ->
      (read_pc (tpc th) = true -> write_pc (tpc thu) = false) ->
      (s_own (tpc th) = true -> s_own (tpc thu) = true -> r_pos th <> r_pos thu) ->
      (r_own (tpc th) = true -> r_own (tpc thu) = true -> r_pos th <> r_pos thu) ->
      tinv G' thu.
  Hypothesis Hself : tinv G' th'.
  Hypothesis Hev : exists evs, events G' = events G ++ evs
      /\ (forall e, In e evs -> ev_tid e = t)
      /\ flat_map (res_event t) (res th') ++ inflight t th'
         = (flat_map (res_event t) (res th) ++ inflight t th) ++ evs.
  Hypothesis Hprog : pc_op th' /\ map op_of (res th') ++ prog th' = map op_of (res th) ++ prog th.
  Hypothesis Hw : write_pc (tpc th') = true -> write_pc (tpc th) = true \/ no_holder T = true.
  Hypothesis Hr : read_pc (tpc th') = true -> read_pc (tpc th) = true \/ no_writer T = true.
  Hypothesis Hsd : s_own (tpc th') = true ->
      (s_own (tpc th) = true /\ r_pos th' = r_pos th)
      \/ (forall u thu, u <> t -> nth_error T u = Some thu -> s_own (tpc thu) = true ->
            r_pos thu <> r_pos th').
  Hypothesis Hrd : r_own (tpc th') = true ->
      (r_own (tpc th) = true /\ r_pos th' = r_pos th)
      \/ (forall u thu, u <> t -> nth_error T u = Some thu -> r_own (tpc thu) = true ->
            r_pos thu <> r_pos th').
  Hypothesis Hown : owners_ok G' (upd t th' T).

  Lemma nth_upd_cases u thu : nth_error (upd t th' T) u = Some thu ->
    (u = t /\ thu = th') \/ (u <> t /\ nth_error T u = Some thu).
  Proof.
    intro H. destruct (Nat.eq_dec u t) as [->|Hne].
    - left. rewrite nth_error_upd_eq in H by (eapply nth_error_lt; eauto). split; congruence.
    - right. rewrite nth_error_upd_ne in H by auto. auto.
  Qed.

  Lemma step_generic : Inv progs (mkState G' (upd t th' T)).
  Proof.
    destruct HI as [Ig It Iev Ip Im Isd Ird Io]; simpl in *.
    constructor; simpl.
    - exact Hg.
    - intros u thu Hu. apply nth_upd_cases in Hu as [[-> ->]|[Hne Hu]]; auto.
      apply (Hframe u thu Hne Hu (It _ _ Hu)).
      + intro W. apply (Im t u th thu); auto.
      + intro R. destruct (write_pc (tpc thu)) eqn:E; auto.
        destruct (Im u t thu th Hne Hu Ht E) as [R' _]. congruence.
      + intros A B. apply (Isd t u th thu); auto.
      + intros A B. apply (Ird t u th thu); auto.
    - intros u thu Hu. destruct Hev as (evs & E1 & E2 & E3). rewrite E1, proj_app.
      apply nth_upd_cases in Hu as [[-> ->]|[Hne Hu]].
      + rewrite (Iev _ _ Ht). rewrite E3.
        f_equal. unfold proj. clear -E2. induction evs as [|e evs IH]; simpl; auto.
        rewrite (E2 e (or_introl eq_refl)), Nat.eqb_refl. f_equal. apply IH.
        intros e' H'. apply E2. right; auto.
      + rewrite (Iev _ _ Hu).
        replace (proj u evs) with (@nil event). { rewrite app_nil_r. reflexivity. }
        unfold proj. clear -E2 Hne. induction evs as [|e evs IH]; simpl; auto.
        rewrite (E2 e (or_introl eq_refl)).
        destruct (Nat.eqb t u) eqn:E; [apply Nat.eqb_eq in E; congruence|].
        apply IH. intros e' H'. apply E2. right; auto.
    - intros u thu Hu. apply nth_upd_cases in Hu as [[-> ->]|[Hne Hu]]; auto.
      destruct Hprog as [P1 P2]. split; auto. rewrite P2. apply (Ip _ _ Ht).
    - intros a b tha thb Hab Ha Hb W.
      apply nth_upd_cases in Ha as [[-> ->]|[Hna Ha]];
      apply nth_upd_cases in Hb as [[-> ->]|[Hnb Hb]]; try congruence.
      + destruct (Hw W) as [W'|NH].
        * apply (Im t b th thb); auto.
        * apply (no_holder_spec _ NH _ _ Hb).
      + destruct (Im a t tha th Hna Ha Ht W) as [R1 W1].
        split.
        * destruct (Bool.bool_dec (read_pc (tpc th')) true) as [E|E];
            [|apply Bool.not_true_is_false; exact E].
          destruct (Hr E) as [R'|NW]; [congruence|].
          rewrite (no_writer_spec _ NW _ _ Ha) in W. discriminate.
        * destruct (Bool.bool_dec (write_pc (tpc th')) true) as [E|E];
            [|apply Bool.not_true_is_false; exact E].
          destruct (Hw E) as [W'|NH]; [congruence|].
          destruct (no_holder_spec _ NH _ _ Ha) as [_ X]. congruence.
      + apply (Im a b tha thb); auto.
    - intros a b tha thb Hab Ha Hb Oa Ob.
      apply nth_upd_cases in Ha as [[-> ->]|[Hna Ha]];
      apply nth_upd_cases in Hb as [[-> ->]|[Hnb Hb]]; try congruence.
      + destruct (Hsd Oa) as [[O' P']|F].
        * rewrite P'. apply (Isd t b th thb); auto.
        * intro E. apply (F b thb Hnb Hb Ob). auto.
      + destruct (Hsd Ob) as [[O' P']|F].
        * rewrite P'. apply (Isd a t tha th); auto.
        * apply (F a tha Hna Ha Oa).
      + apply (Isd a b tha thb); auto.
    - intros a b tha thb Hab Ha Hb Oa Ob.
      apply nth_upd_cases in Ha as [[-> ->]|[Hna Ha]];
      apply nth_upd_cases in Hb as [[-> ->]|[Hnb Hb]]; try congruence.
      + destruct (Hrd Oa) as [[O' P']|F].
        * rewrite P'. apply (Ird t b th thb); auto.
        * intro E. apply (F b thb Hnb Hb Ob). auto.
      + destruct (Hrd Ob) as [[O' P']|F].
        * rewrite P'. apply (Ird a t tha th); auto.
        * apply (F a tha Hna Ha Oa).
      + apply (Ird a b tha thb); auto.
    - exact Hown.
  Qed.
End Generic.
