(* Lemmas about the list helpers and the StatusPool operations (Conc/StatusPool.v). *)
From OFGA Require Import Conc.StatusPool.
From Coq Require Import ZifyBool.

(* ---- upd / nth / nth_error ------------------------------------------------------------ *)

Lemma upd_length {A} i (x : A) l : length (upd i x l) = length l.
Proof. revert i; induction l as [|y l IH]; intros [|i]; simpl; auto. Qed.

Lemma nth_error_upd_eq {A} i (x : A) l : i < length l -> nth_error (upd i x l) i = Some x.
Proof.
  revert i; induction l as [|y l IH]; intros [|i] H; simpl in *; try lia; auto.
  apply IH. lia.
Qed.

Lemma nth_error_upd_neq {A} i j (x : A) l : i <> j -> nth_error (upd i x l) j = nth_error l j.
Proof.
  revert i j; induction l as [|y l IH]; intros [|i] [|j] H; simpl; auto; try congruence.
Qed.

Lemma nth_error_upd {A} i j (x : A) l :
  nth_error (upd i x l) j = if (j =? i) && (i <? length l) then Some x else nth_error l j.
Proof.
  destruct (Nat.eqb_spec j i) as [->|Hne]; simpl.
  - destruct (Nat.ltb_spec i (length l)) as [Hlt|Hge].
    + apply nth_error_upd_eq; auto.
    + revert i Hge; induction l as [|y l IH]; intros [|i] Hge; simpl in *; auto; try lia.
      apply IH. lia.
  - apply nth_error_upd_neq. congruence.
Qed.

Lemma nth_upd {A} i j (x d : A) l :
  nth j (upd i x l) d = if (j =? i) && (i <? length l) then x else nth j l d.
Proof.
  revert i j; induction l as [|y l IH]; intros i j.
  - simpl. rewrite Bool.andb_false_r. destruct i; reflexivity.
  - destruct i as [|i], j as [|j]; simpl; auto. rewrite IH. reflexivity.
Qed.

Lemma nth_of_nth_error {A} (l : list A) i x d : nth_error l i = Some x -> nth i l d = x.
Proof. revert i; induction l as [|y l IH]; intros [|i] H; simpl in *; try discriminate; auto. congruence. Qed.

Lemma nth_error_lt {A} (l : list A) i x : nth_error l i = Some x -> i < length l.
Proof. intro H. apply nth_error_Some. congruence. Qed.

Lemma nth_error_ex {A} (l : list A) i : i < length l -> exists x, nth_error l i = Some x.
Proof. intro H. destruct (nth_error l i) eqn:E; eauto. apply nth_error_None in E. lia. Qed.

Lemma upd_same {A} i (x : A) l : nth_error l i = Some x -> upd i x l = l.
Proof. revert i; induction l as [|y l IH]; intros [|i] H; simpl in *; try discriminate; auto.
  - congruence. - f_equal; auto. Qed.

Lemma ne_repeat {A} (x : A) n i : i < n -> nth_error (repeat x n) i = Some x.
Proof. revert i; induction n; intros [|i] H; simpl; try lia; auto. apply IHn. lia. Qed.

Lemma ne_repeat_inv {A} (x y : A) n i : nth_error (repeat x n) i = Some y -> y = x /\ i < n.
Proof. revert i; induction n; intros [|i] H; simpl in *; try discriminate.
  - split; [congruence|lia]. - apply IHn in H. split; [tauto|lia]. Qed.

(* ---- sums over lists -------------------------------------------------------------------- *)

Fixpoint sumn {A} (f : A -> nat) (l : list A) : nat :=
  match l with [] => 0 | x :: r => f x + sumn f r end.

Lemma sumn_upd {A} (f : A -> nat) i x y l :
  nth_error l i = Some y -> sumn f (upd i x l) + f y = sumn f l + f x.
Proof.
  revert i; induction l as [|z l IH]; intros [|i] H; simpl in *; try discriminate.
  - inversion H; subst. lia.
  - specialize (IH _ H). lia.
Qed.

Lemma sumn_app {A} (f : A -> nat) l1 l2 : sumn f (l1 ++ l2) = sumn f l1 + sumn f l2.
Proof. induction l1; simpl; lia. Qed.

Lemma sumn_ge {A} (f : A -> nat) l i x : nth_error l i = Some x -> f x <= sumn f l.
Proof.
  revert i; induction l as [|z l IH]; intros [|i] H; simpl in *; try discriminate.
  - inversion H; subst. lia.
  - specialize (IH _ H). lia.
Qed.

Lemma sumn_zero {A} (f : A -> nat) l i x : sumn f l = 0 -> nth_error l i = Some x -> f x = 0.
Proof. intros H0 H. pose proof (sumn_ge f l i x H). lia. Qed.

Lemma sumn_pos_ex {A} (f : A -> nat) l : 0 < sumn f l -> exists i x, nth_error l i = Some x /\ 0 < f x.
Proof.
  induction l as [|z l IH]; simpl; intro H; [lia|].
  destruct (f z) eqn:E.
  - destruct IH as (i & x & Hn & Hp); [lia|]. exists (S i), x. auto.
  - exists 0, z. simpl. split; auto. lia.
Qed.

Lemma sumn_all_zero {A} (f : A -> nat) l : (forall i x, nth_error l i = Some x -> f x = 0) -> sumn f l = 0.
Proof.
  induction l as [|z l IH]; simpl; intro H; auto.
  rewrite (H 0 z eq_refl). rewrite IH; auto. intros i x Hx. apply (H (S i) x Hx).
Qed.

Lemma sumn_repeat {A} (f : A -> nat) x n : sumn f (repeat x n) = n * f x.
Proof. induction n; simpl; lia. Qed.

Lemma sumn_ext {A} (f g : A -> nat) l : (forall x, In x l -> f x = g x) -> sumn f l = sumn g l.
Proof.
  induction l as [|z l IH]; simpl; intro H; [reflexivity|].
  rewrite (H z (or_introl eq_refl)), IH; auto.
Qed.

(* ---- all_false ---------------------------------------------------------------------------- *)

Lemma all_false_nth l i : nth i l false = true -> all_false l = false.
Proof.
  unfold all_false. revert i; induction l as [|b l IH]; intros [|i] H; simpl in *; try discriminate.
  - subst. reflexivity.
  - destruct b; simpl; auto. apply IH in H. auto.
Qed.

Lemma all_false_intro l : (forall i, i < length l -> nth i l false = false) -> all_false l = true.
Proof.
  unfold all_false. induction l as [|b l IH]; simpl; intro H; auto.
  pose proof (H 0 ltac:(lia)) as H0. simpl in H0. subst. simpl.
  apply IH. intros i Hi. apply (H (S i)). lia.
Qed.

Lemma all_false_elim l i : all_false l = true -> nth i l false = false.
Proof.
  intro H. destruct (nth i l false) eqn:E; auto. apply all_false_nth in E. congruence.
Qed.

(* ---- the pool operations -------------------------------------------------------------------- *)

(* the latch is one-shot: no operation ever re-opens a closed channel *)
Lemma latch_monotone_ops p :
  sp_quiet p = true ->
  sp_quiet (a_total_add p) = true /\ (forall d, sp_quiet (fst (a_inflight_add d p)) = true) /\
  sp_quiet (fst (a_zero_swap p)) = true /\ sp_quiet (a_close_quiet p) = true /\
  sp_quiet (a_close_ready p) = true /\ sp_quiet (a_unlock p) = true /\
  (forall i, sp_quiet (fst (a_set_body i p)) = true) /\
  (forall t p', a_lock t p = Some p' -> sp_quiet p' = true).
Proof.
  intro H. repeat split; simpl; auto.
  - unfold a_close_quiet. rewrite H. simpl. auto.
  - unfold a_close_ready. destruct (sp_ready p); simpl; auto.
  - intro i. unfold a_set_body. destruct (nth i (sp_pool p) false); simpl; auto.
  - intros t p'. unfold a_lock. destruct (sp_mu p); intro E; inversion E; subst; simpl; auto.
Qed.

(* inc and dec at method granularity *)
Lemma m_inc_spec p :
  sp_inflight (m_inc p) = (sp_inflight p + 1)%Z /\ sp_total (m_inc p) = (sp_total p + 1)%Z /\
  sp_quiet (m_inc p) = sp_quiet p /\ sp_zero (m_inc p) = sp_zero p.
Proof. unfold m_inc; simpl. auto. Qed.

Lemma m_dec_spec p :
  sp_inflight (m_dec p) = (sp_inflight p - 1)%Z /\
  (sp_quiet (m_dec p) = true <->
   sp_quiet p = true \/ (sp_inflight p = 1%Z /\ sp_zero p = false)).
Proof.
  unfold m_dec, a_inflight_add, dec_tail; simpl.
  destruct (Z.eqb_spec (sp_inflight p + -1) 0) as [E|E]; simpl.
  - destruct (sp_zero p) eqn:Z0; simpl.
    + split; [lia|]. split; [auto|]. intros [H|[_ H]]; auto; discriminate.
    + unfold a_close_quiet; simpl. destruct (sp_quiet p) eqn:Q; simpl.
      * split; [lia|]. tauto.
      * split; [lia|]. split; auto. intros _. right. split; auto; lia.
  - split; [lia|]. split; auto. intros [H|[H _]]; auto; lia.
Qed.

(* n joins produce the pool the concurrent model starts from *)
Lemma joined_pool_step n : m_inc (fst (m_register (joined_pool n))) = joined_pool (S n).
Proof.
  unfold joined_pool, m_register, m_inc, a_total_add, a_inflight_add, set_bits; simpl.
  f_equal.
  - clear. induction n; simpl; auto. f_equal. auto.
  - lia.
  - lia.
Qed.

Lemma joined_pool_index n : snd (m_register (joined_pool n)) = n.
Proof. simpl. apply repeat_length. Qed.

(* Wait returns exactly when both channels it has to receive from are closed *)
Lemma m_wait_returned p :
  m_wait p = WReturned <->
  (length (sp_pool p) = 0 \/ sp_ready p = true) /\ ((sp_total p <= 0)%Z \/ sp_quiet p = true).
Proof.
  unfold m_wait.
  destruct (Nat.eqb_spec (length (sp_pool p)) 0) as [E|E]; destruct (sp_ready p);
    destruct (Z.ltb_spec 0 (sp_total p)) as [T|T]; destruct (sp_quiet p); simpl;
    (split; [intro W; try discriminate W; split; auto
            | intros [[R|R] [Q|Q]]; try reflexivity; try lia; try discriminate R; try discriminate Q]).
Qed.
