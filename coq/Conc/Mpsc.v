(* C22 — model of /repo/internal/containers/mpsc/accumulator.go at atomic-operation granularity.

   The accumulator is a singly linked list: producers swing [head] to their new node with a CAS
   and *then* store the predecessor's Next pointer (CAS-then-link); Close swaps [head] to nil and
   links an [end] sentinel; the single consumer follows Next pointers from its private [tail].

   Representation.  A node becomes reachable by other threads only through the successful CAS
   (or Swap) that publishes its address in [head]; Go's garbage collector never reuses the
   address of a reachable node, so pointer equality on published nodes is identity of the
   publication (no ABA).  The model therefore names a published node by its index in [chain],
   the list of nodes in the order of their publication (chain[0] is the dummy of
   NewAccumulator).  [head] is nil ([hnil]) or points at the last element of the chain;
   "predecessor.Next == &node" is the [m_linked] bit of the node.  Unpublished nodes are
   thread-private (value in a register).

   Steps (each one atomic operation of the source):
     Send:   P_load  currentHead := a.head.Load()            (nil -> return false)
             P_cas   a.head.CompareAndSwap(currentHead, &head)
             P_link  currentHead.Next.Store(&head)
             P_sig   select { case a.signal <- struct{}{}: default: } ; return true
     Close:  K_flag  a.closed.Swap(true)                     (already true -> return)
             K_swap  oldHead := a.head.Swap(nil)             (the sentinel is allocated here)
             K_link  oldHead.Next.Store(&n)                  (nil oldHead -> Go panic)
             K_done  close(a.done)                           (double close -> Go panic)
     Recv:   V_load  nextNode := currentTail.Next.Load(); nil -> park; end -> return false;
                     else value, a.tail = nextNode (a.tail, Kind, Value are consumer-private /
                     immutable after publication: same step)
             V_park  select { case <-a.signal: case <-a.done: }   (ctx never cancelled)
     TryRecv: one step (the Next load).
   Go's select chooses among ready cases at random: the consumer has two thread ids, 0 = takes
   the signal token when both are ready, 1 = takes the closed done channel when both are ready.
   Producer k is thread id k+2.

   Ghost: [mevents] (EEnq at the successful CAS, EClose at head.Swap(nil), EEnqFail at the nil
   load, EDeq / EDeqFail / ETryFail at the consumer's load) and [closer] (the thread that won
   closed.Swap).  A Close that finds closed == true returns without any effect and without an
   event (result RCloseNoop): it may return while the winning Close has not yet swapped head, so
   it does not by itself guarantee that later Sends fail (outside the documented contract, which
   forbids Send after Close has been called). *)
From OFGA Require Export Conc.FifoSpec.

Record mnode := mkNode { m_val : N; m_end : bool; m_linked : bool }.

Inductive pop := PSend (v : N) | PClose.
Inductive cop := CRecv | CTryRecv.

Inductive presult := PRSend (v : N) (ok : bool) | PRClose | PRCloseNoop.
Inductive cresult := CRRecv (v : option N) | CRTry (v : option N).

Inductive ppc := P_idle | P_load | P_cas | P_link | P_sig | K_flag | K_swap | K_link | K_done.
Inductive cpc := V_idle | V_load | V_park | T_load.

Record pthread := mkP {
  pprog : list pop; p_pc : ppc; p_cur : nat; p_val : N; pres : list presult
}.
Record cthread := mkC { cprog : list cop; c_pc : cpc; cres : list cresult }.

Record mstate := mkM {
  chain : list mnode;
  hnil : bool;               (* a.head == nil *)
  ctail : nat;               (* index of the node a.tail points at *)
  sig : bool;                (* a token is buffered in a.signal *)
  dclosed : bool;            (* a.done is closed *)
  cflag : bool;              (* a.closed *)
  mpanicked : bool;
  closer : option nat;       (* ghost *)
  mevents : list event;      (* ghost *)
  cons : cthread;
  prods : list pthread
}.

Definition set_linked (i : nat) (ch : list mnode) : list mnode :=
  match nth_error ch i with
  | Some nd => upd i (mkNode (m_val nd) (m_end nd) true) ch
  | None => ch
  end.

(* state updates *)
Definition with_cons (s : mstate) (ch : list mnode) (tl : nat) (sg : bool) (ev : list event)
           (c : cthread) : mstate :=
  mkM ch (hnil s) tl sg (dclosed s) (cflag s) (mpanicked s) (closer s) (mevents s ++ ev) c (prods s).

Definition with_prod (s : mstate) (ch : list mnode) (hn : bool) (sg dc cf pn : bool)
           (cl : option nat) (ev : list event) (k : nat) (p : pthread) : mstate :=
  mkM ch hn (ctail s) sg dc cf pn cl (mevents s ++ ev) (cons s) (upd k p (prods s)).

Definition pgoto (p : pthread) (pc : ppc) : pthread :=
  mkP (pprog p) pc (p_cur p) (p_val p) (pres p).
Definition pgoto_cur (p : pthread) (pc : ppc) (c : nat) : pthread :=
  mkP (pprog p) pc c (p_val p) (pres p).
Definition pgoto_val (p : pthread) (pc : ppc) (v : N) : pthread :=
  mkP (pprog p) pc (p_cur p) v (pres p).
Definition pfinish (p : pthread) (r : presult) : pthread :=
  mkP (tl (pprog p)) P_idle (p_cur p) (p_val p) (pres p ++ [r]).

Definition cgoto (c : cthread) (pc : cpc) : cthread := mkC (cprog c) pc (cres c).
Definition cfinish (c : cthread) (r : cresult) : cthread :=
  mkC (tl (cprog c)) V_idle (cres c ++ [r]).

Definition last_idx (s : mstate) : nat := length (chain s) - 1.

(* producer k (thread id k+2) *)
Definition pstep (s : mstate) (k : nat) (p : pthread) : option mstate :=
  let t := k + 2 in
  let same ev p' := Some (with_prod s (chain s) (hnil s) (sig s) (dclosed s) (cflag s)
                                    (mpanicked s) (closer s) ev k p') in
  match p_pc p with
  | P_idle =>
      match pprog p with
      | [] => None
      | PSend v :: _ => same [] (pgoto_val p P_load v)
      | PClose :: _ => same [] (pgoto p K_flag)
      end
  | P_load =>
      if hnil s then same [EEnqFail t] (pfinish p (PRSend (p_val p) false))
      else same [] (pgoto_cur p P_cas (last_idx s))
  | P_cas =>
      if negb (hnil s) && (p_cur p =? last_idx s)
      then Some (with_prod s (chain s ++ [mkNode (p_val p) false false]) false (sig s) (dclosed s)
                           (cflag s) (mpanicked s) (closer s) [EEnq t (p_val p)] k (pgoto p P_link))
      else same [] (pgoto p P_load)
  | P_link =>
      Some (with_prod s (set_linked (S (p_cur p)) (chain s)) (hnil s) (sig s) (dclosed s) (cflag s)
                      (mpanicked s) (closer s) [] k (pgoto p P_sig))
  | P_sig =>
      Some (with_prod s (chain s) (hnil s) true (dclosed s) (cflag s) (mpanicked s) (closer s) [] k
                      (pfinish p (PRSend (p_val p) true)))
  | K_flag =>
      if cflag s then same [] (pfinish p PRCloseNoop)
      else Some (with_prod s (chain s) (hnil s) (sig s) (dclosed s) true (mpanicked s) (Some t) [] k
                           (pgoto p K_swap))
  | K_swap =>
      if hnil s
      then (* oldHead == nil: the following oldHead.Next.Store dereferences nil *)
           Some (with_prod s (chain s) true (sig s) (dclosed s) (cflag s) true (closer s) [] k p)
      else Some (with_prod s (chain s ++ [mkNode 0%N true false]) true (sig s) (dclosed s) (cflag s)
                           (mpanicked s) (closer s) [EClose t] k (pgoto_cur p K_link (last_idx s)))
  | K_link =>
      Some (with_prod s (set_linked (S (p_cur p)) (chain s)) (hnil s) (sig s) (dclosed s) (cflag s)
                      (mpanicked s) (closer s) [] k (pgoto p K_done))
  | K_done =>
      if dclosed s
      then Some (with_prod s (chain s) (hnil s) (sig s) true (cflag s) true (closer s) [] k p)
      else Some (with_prod s (chain s) (hnil s) (sig s) true (cflag s) (mpanicked s) (closer s) [] k
                           (pfinish p PRClose))
  end.

(* what currentTail.Next.Load() returns *)
Definition next_of_tail (s : mstate) : option mnode :=
  match nth_error (chain s) (S (ctail s)) with
  | Some nd => if m_linked nd then Some nd else None
  | None => None
  end.

(* the consumer; [prefer_done]: which ready case the select takes when both are ready *)
Definition cstep (s : mstate) (prefer_done : bool) : option mstate :=
  let c := cons s in
  match c_pc c with
  | V_idle =>
      match cprog c with
      | [] => None
      | CRecv :: _ => Some (with_cons s (chain s) (ctail s) (sig s) [] (cgoto c V_load))
      | CTryRecv :: _ => Some (with_cons s (chain s) (ctail s) (sig s) [] (cgoto c T_load))
      end
  | V_load =>
      match next_of_tail s with
      | None => Some (with_cons s (chain s) (ctail s) (sig s) [] (cgoto c V_park))
      | Some nd =>
          if m_end nd
          then Some (with_cons s (chain s) (ctail s) (sig s) [EDeqFail 0] (cfinish c (CRRecv None)))
          else Some (with_cons s (chain s) (S (ctail s)) (sig s) [EDeq 0 (m_val nd)]
                               (cfinish c (CRRecv (Some (m_val nd)))))
      end
  | V_park =>
      if prefer_done
      then if dclosed s then Some (with_cons s (chain s) (ctail s) (sig s) [] (cgoto c V_load))
           else if sig s then Some (with_cons s (chain s) (ctail s) false [] (cgoto c V_load))
           else None
      else if sig s then Some (with_cons s (chain s) (ctail s) false [] (cgoto c V_load))
           else if dclosed s then Some (with_cons s (chain s) (ctail s) (sig s) [] (cgoto c V_load))
           else None
  | T_load =>
      match next_of_tail s with
      | Some nd =>
          if m_end nd
          then Some (with_cons s (chain s) (ctail s) (sig s) [ETryFail 0] (cfinish c (CRTry None)))
          else Some (with_cons s (chain s) (S (ctail s)) (sig s) [EDeq 0 (m_val nd)]
                               (cfinish c (CRTry (Some (m_val nd)))))
      | None => Some (with_cons s (chain s) (ctail s) (sig s) [ETryFail 0] (cfinish c (CRTry None)))
      end
  end.

Definition mstep (s : mstate) (t : nat) : option mstate :=
  if mpanicked s then None else
  match t with
  | 0 => cstep s false
  | 1 => cstep s true
  | S (S k) => match nth_error (prods s) k with Some p => pstep s k p | None => None end
  end.

Fixpoint mrun (s : mstate) (sched : list nat) : mstate :=
  match sched with
  | [] => s
  | t :: r => match mstep s t with Some s' => mrun s' r | None => mrun s r end
  end.

Fixpoint mrun_strict (s : mstate) (sched : list nat) : option mstate :=
  match sched with
  | [] => Some s
  | t :: r => match mstep s t with Some s' => mrun_strict s' r | None => None end
  end.

Definition minit (cp : list cop) (pps : list (list pop)) : mstate :=
  mkM [mkNode 0%N false false] false 0 false false false false None []
      (mkC cp V_idle []) (map (fun pp => mkP pp P_idle 0 0%N []) pps).

Fixpoint mrun_thread (fuel : nat) (s : mstate) (t : nat) : mstate :=
  match fuel with
  | O => s
  | S f => match mstep s t with Some s' => mrun_thread f s' t | None => s end
  end.

(* the consumer is parked and cannot move *)
Definition consumer_stuck (s : mstate) : bool :=
  match c_pc (cons s) with
  | V_park => negb (sig s) && negb (dclosed s)
  | _ => false
  end.

Definition prods_idle (s : mstate) : bool :=
  forallb (fun p => match p_pc p with P_idle => true | _ => false end) (prods s).
