(* C22 — proofs about the MPSC accumulator model (Conc/Mpsc.v): an inductive invariant over all
   schedules, all numbers of producers and all programs, and its consequences: linearisable FIFO
   (hence FIFO per producer), no loss, no lost wake-up for the single consumer, no Go panic. *)
From OFGA Require Import Conc.FifoSpec Conc.Mpsc Conc.MpmcLemmas Conc.FifoSpecProofs.
From Coq Require Import Lia.

Definition pres_event (t : nat) (r : presult) : list event :=
  match r with
  | PRSend v true => [EEnq t v]
  | PRSend _ false => [EEnqFail t]
  | PRClose => [EClose t]
  | PRCloseNoop => []
  end.

Definition cres_event (r : cresult) : list event :=
  match r with
  | CRRecv (Some v) | CRTry (Some v) => [EDeq 0 v]
  | CRRecv None => [EDeqFail 0]
  | CRTry None => [ETryFail 0]
  end.

Definition pinflight (t : nat) (p : pthread) : list event :=
  match p_pc p with
  | P_link | P_sig => [EEnq t (p_val p)]
  | K_link | K_done => [EClose t]
  | _ => []
  end.

Definition pop_of (r : presult) : pop :=
  match r with PRSend v _ => PSend v | PRClose | PRCloseNoop => PClose end.
Definition cop_of (r : cresult) : cop :=
  match r with CRRecv _ => CRecv | CRTry _ => CTryRecv end.

Definition ppc_op (p : pthread) : Prop :=
  match p_pc p with
  | P_idle => True
  | P_load | P_cas | P_link | P_sig => exists rest, pprog p = PSend (p_val p) :: rest
  | K_flag | K_swap | K_link | K_done => exists rest, pprog p = PClose :: rest
  end.
Definition cpc_op (c : cthread) : Prop :=
  match c_pc c with
  | V_idle => True
  | V_load | V_park => exists rest, cprog c = CRecv :: rest
  | T_load => exists rest, cprog c = CTryRecv :: rest
  end.

Definition pinv (s : mstate) (k : nat) (p : pthread) : Prop :=
  match p_pc p with
  | P_link => S (p_cur p) < length (chain s)
  | K_swap => closer s = Some (k + 2) /\ hnil s = false /\ dclosed s = false /\ cflag s = true
  | K_link => S (p_cur p) < length (chain s)
              /\ closer s = Some (k + 2) /\ hnil s = true /\ dclosed s = false
  | K_done => closer s = Some (k + 2) /\ hnil s = true /\ dclosed s = false
  | _ => True
  end.

Definition linker (pc : ppc) : bool := match pc with P_link | K_link => true | _ => false end.
Definition waker (pc : ppc) : bool := match pc with P_sig | K_done => true | _ => false end.

Definition f_end1 (s : mstate) : Prop :=
  forall i nd, nth_error (chain s) i = Some nd -> m_end nd = true ->
    hnil s = true /\ S i = length (chain s) /\ 1 <= i.
Definition f_vals (s : mstate) : Prop :=
  forall i nd, nth_error (chain s) (S i) = Some nd -> m_end nd = false ->
    nth_error (enqs (mevents s)) i = Some (m_val nd).
Definition f_link (s : mstate) : Prop :=
  forall i nd, nth_error (chain s) (S i) = Some nd -> m_linked nd = false ->
    exists k p, nth_error (prods s) k = Some p /\ linker (p_pc p) = true /\ p_cur p = i.
Definition f_flag (s : mstate) : Prop :=
  cflag s = false -> hnil s = false /\ dclosed s = false /\ closer s = None.
Definition f_wake (s : mstate) : Prop :=
  c_pc (cons s) = V_park -> next_of_tail s <> None ->
    sig s = true \/ dclosed s = true
    \/ exists k p, nth_error (prods s) k = Some p /\ waker (p_pc p) = true.
Definition f_spec (s : mstate) : Prop :=
  run_spec chan0 (mevents s) = Some (mkChan (skipn (ctail s) (enqs (mevents s))) (hnil s)).

Record MInv (cp : list cop) (pps : list (list pop)) (s : mstate) : Prop := {
  m_ne : 1 <= length (chain s);
  m_tail : ctail s <= length (enqs (mevents s));
  m_end1 : f_end1 s;
  m_len : length (enqs (mevents s)) + (if hnil s then 2 else 1) = length (chain s);
  m_vals : f_vals s;
  m_spec : f_spec s;
  m_link : f_link s;
  m_pinv : forall k p, nth_error (prods s) k = Some p -> pinv s k p;
  m_flag : f_flag s;
  m_wake : f_wake s;
  m_cev : proj 0 (mevents s) = flat_map cres_event (cres (cons s));
  m_c1 : proj 1 (mevents s) = [];
  m_pev : forall k p, nth_error (prods s) k = Some p ->
          proj (k + 2) (mevents s) = flat_map (pres_event (k + 2)) (pres p) ++ pinflight (k + 2) p;
  m_cprog : cpc_op (cons s) /\ cp = map cop_of (cres (cons s)) ++ cprog (cons s);
  m_pprog : forall k p, nth_error (prods s) k = Some p ->
          ppc_op p /\ nth_error pps k = Some (map pop_of (pres p) ++ pprog p);
  m_nopanic : mpanicked s = false
}.

Lemma minit_inv cp pps : MInv cp pps (minit cp pps).
Proof.
  assert (Hth : forall k p, nth_error (map (fun pp => mkP pp P_idle 0 0%N []) pps) k = Some p ->
                exists pp, nth_error pps k = Some pp /\ p = mkP pp P_idle 0 0%N []).
  { intros k p H. rewrite nth_error_map in H. destruct (nth_error pps k) as [pp|]; [|discriminate].
    injection H as <-. eauto. }
  constructor; unfold f_end1, f_vals, f_link, f_flag, f_wake, f_spec; simpl; auto; try discriminate.
  - intros [|[|i]] nd H E; simpl in H; try discriminate. injection H as <-. discriminate.
  - intros [|i] nd H; discriminate.
  - intros [|i] nd H; discriminate.
  - intros k p H. destruct (Hth _ _ H) as (pp & _ & ->). exact I.
  - intros k p H. destruct (Hth _ _ H) as (pp & _ & ->). reflexivity.
  - split; [exact I | reflexivity].
  - intros k p H. destruct (Hth _ _ H) as (pp & Hp & ->). split; [exact I | exact Hp].
Qed.

Lemma proj_other t evs : (forall e, In e evs -> ev_tid e <> t) -> proj t evs = [].
Proof.
  induction evs as [|e evs IH]; intro H; simpl; auto.
  destruct (Nat.eqb_spec (ev_tid e) t) as [E|NE].
  - exfalso. apply (H e); simpl; auto.
  - apply IH. intros e' H'. apply H. right; auto.
Qed.

Lemma proj_self t evs : (forall e, In e evs -> ev_tid e = t) -> proj t evs = evs.
Proof.
  induction evs as [|e evs IH]; intro H; simpl; auto.
  rewrite (H e (or_introl eq_refl)), Nat.eqb_refl. f_equal. apply IH.
  intros e' H'. apply H. right; auto.
Qed.

(* a consumer step: chain, flags and producers unchanged *)
Lemma cons_generic cp pps s tl sg ev c' :
  MInv cp pps s ->
  enqs ev = [] -> tl <= length (enqs (mevents s)) ->
  run_spec chan0 (mevents s ++ ev) = Some (mkChan (skipn tl (enqs (mevents s))) (hnil s)) ->
  (forall e, In e ev -> ev_tid e = 0) ->
  flat_map cres_event (cres c') = flat_map cres_event (cres (cons s)) ++ ev ->
  cpc_op c' -> map cop_of (cres c') ++ cprog c' = map cop_of (cres (cons s)) ++ cprog (cons s) ->
  (c_pc c' = V_park -> next_of_tail (with_cons s (chain s) tl sg ev c') <> None ->
     sg = true \/ dclosed s = true
     \/ exists k p, nth_error (prods s) k = Some p /\ waker (p_pc p) = true) ->
  MInv cp pps (with_cons s (chain s) tl sg ev c').
Proof.
  intros HI Hen Htl Hsp Htid Hres Hop Hprog Hwake.
  assert (Een : enqs (mevents s ++ ev) = enqs (mevents s)) by (rewrite enqs_app, Hen, app_nil_r; auto).
  constructor; unfold f_end1, f_vals, f_link, f_flag, f_wake, f_spec; simpl; rewrite ?Een; try apply HI; auto.
  - rewrite proj_app, (m_cev _ _ _ HI), Hres. f_equal. apply proj_self. auto.
  - rewrite proj_app, (m_c1 _ _ _ HI). simpl. apply proj_other. intros e H. rewrite (Htid e H). lia.
  - intros k p Hp. rewrite proj_app, (m_pev _ _ _ HI k p Hp).
    rewrite (proj_other (k + 2) ev); [apply app_nil_r|]. intros e H. rewrite (Htid e H). lia.
  - split; auto. destruct (m_cprog _ _ _ HI) as [_ E]. rewrite Hprog. exact E.
Qed.

Lemma next_of_tail_spec s nd : next_of_tail s = Some nd ->
  nth_error (chain s) (S (ctail s)) = Some nd /\ m_linked nd = true.
Proof.
  unfold next_of_tail. destruct (nth_error (chain s) (S (ctail s))) as [x|]; [|discriminate].
  destruct (m_linked x) eqn:E; [|discriminate]. intro H. injection H as <-. auto.
Qed.

Ltac cg_side HI :=
  first [ discriminate
        | apply (m_tail _ _ _ HI)
        | (rewrite app_nil_r; apply (m_spec _ _ _ HI))
        | (intros e [<-|[]]; reflexivity)
        | (intros ? [])
        | (rewrite app_nil_r; reflexivity)
        | (rewrite flat_map_app; simpl; reflexivity)
        | exact I
        | (rewrite map_app, <- app_assoc; reflexivity)
        | (unfold cpc_op; simpl; eauto; fail)
        | reflexivity ].
Ltac cg HI Ec := apply cons_generic; simpl; rewrite ?Ec; simpl; auto; try cg_side HI.

Lemma cstep_inv cp pps s b s' : MInv cp pps s -> cstep s b = Some s' -> MInv cp pps s'.
Proof.
  intros HI Hs. unfold cstep in Hs.
  pose proof (m_cprog _ _ _ HI) as [Hop Hprog].
  destruct (cons s) as [pg pc rs] eqn:Ec. unfold cpc_op in Hop. simpl in *.
  destruct pc.
  - (* V_idle *)
    destruct pg as [|[|] rest]; [discriminate| |]; injection Hs as <-; cg HI Ec.
  - (* V_load *)
    destruct Hop as [rest ->].
    destruct (next_of_tail s) as [nd|] eqn:En.
    + destruct (next_of_tail_spec _ _ En) as [Hn Hl].
      destruct (m_end nd) eqn:Ee; injection Hs as <-.
      * destruct (m_end1 _ _ _ HI _ _ Hn Ee) as (Hh & Hlen & _).
        pose proof (m_len _ _ _ HI) as L. rewrite Hh in L.
        cg HI Ec.
        rewrite run_spec_app, (m_spec _ _ _ HI). simpl.
        rewrite skipn_all' by lia. rewrite Hh. reflexivity.
      * pose proof (m_vals _ _ _ HI _ _ Hn Ee) as Hv.
        cg HI Ec.
        -- apply nth_error_lt in Hv. lia.
        -- rewrite run_spec_app, (m_spec _ _ _ HI). simpl.
           rewrite (skipn_nth_cons _ _ _ Hv), N.eqb_refl. reflexivity.
    + injection Hs as <-. cg HI Ec.
  - (* V_park *)
    destruct Hop as [rest ->].
    assert (G : forall sg, MInv cp pps (with_cons s (chain s) (ctail s) sg [] (cgoto (mkC (CRecv :: rest) V_park rs) V_load))).
    { intro sg. cg HI Ec. }
    destruct b; [destruct (dclosed s); [|destruct (sig s); [|discriminate]]
                | destruct (sig s); [|destruct (dclosed s); [|discriminate]]];
      injection Hs as <-; apply G.
  - (* T_load *)
    destruct Hop as [rest ->].
    assert (F : MInv cp pps (with_cons s (chain s) (ctail s) (sig s) [ETryFail 0]
                               (cfinish (mkC (CTryRecv :: rest) T_load rs) (CRTry None)))).
    { cg HI Ec. rewrite run_spec_app, (m_spec _ _ _ HI). reflexivity. }
    destruct (next_of_tail s) as [nd|] eqn:En; [|injection Hs as <-; exact F].
    destruct (next_of_tail_spec _ _ En) as [Hn Hl].
    destruct (m_end nd) eqn:Ee; injection Hs as <-; [exact F|].
    pose proof (m_vals _ _ _ HI _ _ Hn Ee) as Hv.
    cg HI Ec.
    + apply nth_error_lt in Hv. lia.
    + rewrite run_spec_app, (m_spec _ _ _ HI). simpl.
      rewrite (skipn_nth_cons _ _ _ Hv), N.eqb_refl. reflexivity.
Qed.

Lemma upd_cases {A} (l : list A) k x q y a : nth_error l k = Some a ->
  nth_error (upd k x l) q = Some y -> (q = k /\ y = x) \/ (q <> k /\ nth_error l q = Some y).
Proof.
  intros Hk H. destruct (Nat.eq_dec q k) as [->|Hne].
  - left. rewrite nth_error_upd_eq in H by (eapply nth_error_lt; eauto). split; congruence.
  - right. rewrite nth_error_upd_ne in H by auto. auto.
Qed.

(* bookkeeping part of a producer step *)
Lemma prod_generic cp pps s k p ch hn sg dc cf cl ev p' :
  MInv cp pps s -> nth_error (prods s) k = Some p ->
  let s' := with_prod s ch hn sg dc cf (mpanicked s) cl ev k p' in
  1 <= length ch -> ctail s <= length (enqs (mevents s ++ ev)) ->
  f_end1 s' -> length (enqs (mevents s ++ ev)) + (if hn then 2 else 1) = length ch ->
  f_vals s' -> f_spec s' -> f_link s' ->
  (forall q pq, q <> k -> nth_error (prods s) q = Some pq -> pinv s q pq -> pinv s' q pq) ->
  pinv s' k p' -> f_flag s' -> f_wake s' ->
  (forall e, In e ev -> ev_tid e = k + 2) ->
  flat_map (pres_event (k + 2)) (pres p') ++ pinflight (k + 2) p'
    = (flat_map (pres_event (k + 2)) (pres p) ++ pinflight (k + 2) p) ++ ev ->
  ppc_op p' -> map pop_of (pres p') ++ pprog p' = map pop_of (pres p) ++ pprog p ->
  MInv cp pps s'.
Proof.
  intros HI Hk s' H1 H2 H3 H4 H5 H6 H7 H8 H9 H10 H11 Htid Hev Hop Hprog.
  constructor; auto; simpl.
  - intros q pq Hq. apply (upd_cases _ _ _ _ _ _ Hk) in Hq as [[-> ->]|[Hne Hq]]; auto.
    apply H8; auto. apply (m_pinv _ _ _ HI); auto.
  - rewrite proj_app, (m_cev _ _ _ HI). rewrite (proj_other 0 ev); [apply app_nil_r|].
    intros e H. rewrite (Htid e H). lia.
  - rewrite proj_app, (m_c1 _ _ _ HI). simpl. apply proj_other.
    intros e H. rewrite (Htid e H). lia.
  - intros q pq Hq. rewrite proj_app.
    apply (upd_cases _ _ _ _ _ _ Hk) in Hq as [[-> ->]|[Hne Hq]].
    + rewrite (m_pev _ _ _ HI k p Hk), Hev. f_equal. apply proj_self. auto.
    + rewrite (m_pev _ _ _ HI q pq Hq). rewrite (proj_other (q + 2) ev); [apply app_nil_r|].
      intros e H. rewrite (Htid e H). lia.
  - apply (m_cprog _ _ _ HI).
  - intros q pq Hq. apply (upd_cases _ _ _ _ _ _ Hk) in Hq as [[-> ->]|[Hne Hq]].
    + split; auto. rewrite Hprog. apply (m_pprog _ _ _ HI k p Hk).
    + apply (m_pprog _ _ _ HI q pq Hq).
  - apply (m_nopanic _ _ _ HI).
Qed.

(* frames for the unchanged-structure case *)
Lemma f_link_upd s ch hn sg dc cf pn cl ev k p p' :
  f_link s -> nth_error (prods s) k = Some p -> ch = chain s ->
  (linker (p_pc p) = true -> linker (p_pc p') = true /\ p_cur p' = p_cur p) ->
  f_link (with_prod s ch hn sg dc cf pn cl ev k p').
Proof.
  intros HL Hk -> Hkeep i nd Hn Hl. simpl in *.
  destruct (HL i nd Hn Hl) as (q & pq & Hq & Lq & Cq).
  destruct (Nat.eq_dec q k) as [->|Hne].
  - assert (pq = p) by congruence. subst pq. destruct (Hkeep Lq) as [A B].
    exists k, p'. rewrite nth_error_upd_eq by (eapply nth_error_lt; eauto). repeat split; auto. congruence.
  - exists q, pq. rewrite nth_error_upd_ne by auto. auto.
Qed.

Lemma f_wake_upd s hn sg dc cf pn cl ev k p p' :
  f_wake s -> nth_error (prods s) k = Some p ->
  (sig s = true -> sg = true) -> (dclosed s = true -> dc = true) ->
  (waker (p_pc p) = true -> waker (p_pc p') = true \/ sg = true \/ dc = true) ->
  f_wake (with_prod s (chain s) hn sg dc cf pn cl ev k p').
Proof.
  intros HW Hk Hs Hd Hkeep Hp Hn. simpl in *.
  assert (Hn' : next_of_tail s <> None) by exact Hn.
  destruct (HW Hp Hn') as [A|[A|(q & pq & Hq & Wq)]]; auto.
  destruct (Nat.eq_dec q k) as [->|Hne].
  - assert (pq = p) by congruence. subst pq. destruct (Hkeep Wq) as [B|[B|B]]; auto.
    right. right. exists k, p'. rewrite nth_error_upd_eq by (eapply nth_error_lt; eauto). auto.
  - right. right. exists q, pq. rewrite nth_error_upd_ne by auto. auto.
Qed.

(* steps that change neither the chain nor any flag, and append at most a failing-send event *)
Lemma prod_same cp pps s k p ev p' :
  MInv cp pps s -> nth_error (prods s) k = Some p ->
  enqs ev = [] ->
  run_spec chan0 (mevents s ++ ev) = Some (mkChan (skipn (ctail s) (enqs (mevents s))) (hnil s)) ->
  (linker (p_pc p) = true -> linker (p_pc p') = true /\ p_cur p' = p_cur p) ->
  (waker (p_pc p) = true -> waker (p_pc p') = true) ->
  pinv s k p' ->
  (forall e, In e ev -> ev_tid e = k + 2) ->
  flat_map (pres_event (k + 2)) (pres p') ++ pinflight (k + 2) p'
    = (flat_map (pres_event (k + 2)) (pres p) ++ pinflight (k + 2) p) ++ ev ->
  ppc_op p' -> map pop_of (pres p') ++ pprog p' = map pop_of (pres p) ++ pprog p ->
  MInv cp pps (with_prod s (chain s) (hnil s) (sig s) (dclosed s) (cflag s) (mpanicked s) (closer s) ev k p').
Proof.
  intros HI Hk Hen Hsp Hl Hw Hpi Htid Hev Hop Hprog.
  assert (Een : enqs (mevents s ++ ev) = enqs (mevents s)) by (rewrite enqs_app, Hen, app_nil_r; auto).
  apply prod_generic with (p := p); auto; unfold f_end1, f_vals, f_spec, f_flag; simpl; rewrite ?Een;
    try apply HI; auto.
  - eapply f_link_upd; eauto. apply HI.
  - apply f_wake_upd with (p := p); auto. apply HI.
Qed.

Ltac pstart :=
  intros cp pps s k p s' HI Hk Epc Hs;
  pose proof (m_pinv _ _ _ HI _ _ Hk) as Hpi; unfold pinv in Hpi;
  pose proof (m_pprog _ _ _ HI _ _ Hk) as [Hop Hpr]; unfold ppc_op in Hop;
  destruct p as [pg pc0 cur val rs]; simpl in Epc; subst pc0; simpl in Hpi, Hop, Hpr;
  unfold pstep in Hs; simpl in Hs.

Definition ppres (X : ppc) : Prop :=
  forall cp pps s k p s', MInv cp pps s -> nth_error (prods s) k = Some p -> p_pc p = X ->
    pstep s k p = Some s' -> MInv cp pps s'.

Ltac ps_side HI :=
  first [ discriminate
        | (rewrite app_nil_r; apply (m_spec _ _ _ HI))
        | (intros e [<-|[]]; reflexivity)
        | (intros ? [])
        | (rewrite app_nil_r; reflexivity)
        | (unfold pinflight; simpl; rewrite ?flat_map_app; simpl; rewrite ?app_nil_r, <- ?app_assoc; reflexivity)
        | exact I
        | (rewrite map_app, <- app_assoc; reflexivity)
        | (unfold ppc_op; simpl; eauto; fail)
        | reflexivity ].

Lemma prod_same' cp pps s k p ev p' hn cf :
  MInv cp pps s -> nth_error (prods s) k = Some p ->
  hn = hnil s -> cf = cflag s ->
  enqs ev = [] ->
  run_spec chan0 (mevents s ++ ev) = Some (mkChan (skipn (ctail s) (enqs (mevents s))) (hnil s)) ->
  (linker (p_pc p) = true -> linker (p_pc p') = true /\ p_cur p' = p_cur p) ->
  (waker (p_pc p) = true -> waker (p_pc p') = true) ->
  pinv s k p' ->
  (forall e, In e ev -> ev_tid e = k + 2) ->
  flat_map (pres_event (k + 2)) (pres p') ++ pinflight (k + 2) p'
    = (flat_map (pres_event (k + 2)) (pres p) ++ pinflight (k + 2) p) ++ ev ->
  ppc_op p' -> map pop_of (pres p') ++ pprog p' = map pop_of (pres p) ++ pprog p ->
  MInv cp pps (with_prod s (chain s) hn (sig s) (dclosed s) cf (mpanicked s) (closer s) ev k p').
Proof. intros HI Hk -> ->. apply prod_same; auto. Qed.

Lemma ppres_P_idle : ppres P_idle.
Proof.
  pstart. destruct pg as [|[v|] rest]; [discriminate| |]; injection Hs as <-;
    eapply (prod_same' _ _ _ _ _ _ _ _ _ HI Hk); simpl; auto; try ps_side HI.
Qed.

Lemma ppres_P_load : ppres P_load.
Proof.
  pstart. destruct Hop as [rest ->].
  destruct (hnil s) eqn:Hh; injection Hs as <-;
    eapply (prod_same' _ _ _ _ _ _ _ _ _ HI Hk); simpl; auto; try ps_side HI.
  rewrite run_spec_app, (m_spec _ _ _ HI), Hh. reflexivity.
Qed.

(* chain and events unchanged, flags may change *)
Lemma prod_flags cp pps s k p p' hn sg dc cf cl :
  MInv cp pps s -> nth_error (prods s) k = Some p ->
  hn = hnil s ->
  (linker (p_pc p) = true -> linker (p_pc p') = true /\ p_cur p' = p_cur p) ->
  let s' := with_prod s (chain s) hn sg dc cf (mpanicked s) cl [] k p' in
  (forall q pq, q <> k -> nth_error (prods s) q = Some pq -> pinv s q pq -> pinv s' q pq) ->
  pinv s' k p' -> f_flag s' -> f_wake s' ->
  flat_map (pres_event (k + 2)) (pres p') ++ pinflight (k + 2) p'
    = flat_map (pres_event (k + 2)) (pres p) ++ pinflight (k + 2) p ->
  ppc_op p' -> map pop_of (pres p') ++ pprog p' = map pop_of (pres p) ++ pprog p ->
  MInv cp pps s'.
Proof.
  intros HI Hk -> Hl s' Hfr Hpi Hfl Hw Hev Hop Hprog.
  apply prod_generic with (p := p); auto; rewrite ?app_nil_r.
  - apply (m_ne _ _ _ HI).
  - apply (m_tail _ _ _ HI).
  - exact (m_end1 _ _ _ HI).
  - apply (m_len _ _ _ HI).
  - unfold f_vals; simpl. rewrite app_nil_r. exact (m_vals _ _ _ HI).
  - unfold f_spec; simpl. rewrite app_nil_r. exact (m_spec _ _ _ HI).
  - eapply f_link_upd; eauto. apply (m_link _ _ _ HI).
  - intros ? [].
  - rewrite Hev. reflexivity.
Qed.

Ltac bk_ev := unfold pinflight; simpl; rewrite ?flat_map_app; simpl;
  rewrite ?app_nil_r, <- ?app_assoc; reflexivity.
Ltac bk_prog := simpl; rewrite ?map_app, <- ?app_assoc; reflexivity.

Lemma ppres_P_sig : ppres P_sig.
Proof.
  pstart. destruct Hop as [rest ->]. injection Hs as <-.
  eapply (prod_flags _ _ _ _ _ _ _ _ _ _ _ HI Hk);
    [ reflexivity | discriminate | auto | exact I | exact (m_flag _ _ _ HI) | | bk_ev | exact I | bk_prog ].
  intros _ _. left. reflexivity.
Qed.

Lemma ppres_K_flag : ppres K_flag.
Proof.
  pstart. destruct Hop as [rest ->].
  destruct (cflag s) eqn:Hc; injection Hs as <-.
  - eapply (prod_same' _ _ _ _ _ _ _ _ _ HI Hk); simpl; auto; try ps_side HI.
  - destruct (m_flag _ _ _ HI Hc) as (F1 & F2 & F3).
    eapply (prod_flags _ _ _ _ _ _ _ _ _ _ _ HI Hk);
      [ reflexivity | discriminate | | | | | bk_ev | unfold ppc_op; simpl; eauto | bk_prog ].
    + intros q pq Hne Hq. unfold pinv. simpl. destruct (p_pc pq); auto; rewrite F3; intuition discriminate.
    + unfold pinv; simpl. auto.
    + unfold f_flag; simpl. discriminate.
    + eapply f_wake_upd; eauto; try apply HI; try discriminate.
Qed.

Lemma ppres_K_done : ppres K_done.
Proof.
  pstart. destruct Hop as [rest ->]. destruct Hpi as (P1 & P2 & P3). rewrite P3 in Hs.
  injection Hs as <-.
  eapply (prod_flags _ _ _ _ _ _ _ _ _ _ _ HI Hk);
    [ reflexivity | discriminate | | exact I | | | bk_ev | exact I | bk_prog ].
  - intros q pq Hne Hq. unfold pinv. simpl. destruct (p_pc pq); auto; rewrite P1; intros (A & B);
      try (destruct B as (B & _)); try (injection A as A); try (injection B as B); lia.
  - unfold f_flag; simpl. intro Hc. destruct (m_flag _ _ _ HI Hc) as (F1 & _). congruence.
  - intros _ _. right. left. reflexivity.
Qed.

Lemma set_linked_length j ch : length (set_linked j ch) = length ch.
Proof. unfold set_linked. destruct (nth_error ch j); auto. apply upd_length. Qed.

Lemma set_linked_nth j ch i x : nth_error (set_linked j ch) i = Some x ->
  exists y, nth_error ch i = Some y /\ m_val x = m_val y /\ m_end x = m_end y
            /\ (i <> j -> x = y) /\ (i = j -> m_linked x = true).
Proof.
  unfold set_linked. destruct (nth_error ch j) as [nd|] eqn:E.
  - intro H. destruct (Nat.eq_dec i j) as [->|Hne].
    + rewrite nth_error_upd_eq in H by (eapply nth_error_lt; eauto). injection H as <-.
      exists nd. simpl. repeat split; auto; congruence.
    + rewrite nth_error_upd_ne in H by auto. exists x. repeat split; auto; congruence.
  - intro H. exists x. repeat split; auto; intros ->; congruence.
Qed.

(* appending a node at the end of the chain *)
Lemma nth_app_cases {A} (l : list A) x i y : nth_error (l ++ [x]) i = Some y ->
  (i < length l /\ nth_error l i = Some y) \/ (i = length l /\ y = x).
Proof.
  intro H. destruct (Nat.lt_ge_cases i (length l)) as [L|L].
  - left. rewrite nth_error_app1 in H by auto. auto.
  - right. rewrite nth_error_app2 in H by auto.
    destruct (i - length l) as [|d] eqn:E; simpl in H.
    + injection H as <-. split; auto. lia.
    + destruct d; discriminate.
Qed.

Lemma next_of_tail_app s s' nd : chain s' = chain s ++ [nd] -> ctail s' = ctail s ->
  m_linked nd = false -> next_of_tail s' <> None -> next_of_tail s <> None.
Proof.
  intros Hc Ht Hl. unfold next_of_tail. rewrite Hc, Ht.
  destruct (nth_error (chain s ++ [nd]) (S (ctail s))) as [x|] eqn:E; [|congruence].
  apply nth_app_cases in E as [[L E]|[L ->]].
  - rewrite E. auto.
  - rewrite Hl. congruence.
Qed.

(* the wake-up clause survives an append by a thread that was not a waker *)
Lemma f_wake_app s nd hn cf cl ev k p p' :
  f_wake s -> nth_error (prods s) k = Some p -> waker (p_pc p) = false -> m_linked nd = false ->
  f_wake (with_prod s (chain s ++ [nd]) hn (sig s) (dclosed s) cf (mpanicked s) cl ev k p').
Proof.
  intros HW Hk Hnw Hl Hp Hn. simpl in Hp.
  assert (Hn' : next_of_tail s <> None)
    by (eapply (next_of_tail_app s); [| | exact Hl | exact Hn]; reflexivity).
  destruct (HW Hp Hn') as [A|[A|(q & pq & Hq & Wq)]]; simpl; auto.
  right. right. exists q, pq. split; auto.
  rewrite nth_error_upd_ne; auto. intros ->. congruence.
Qed.

Ltac sp := cbn [with_prod chain mevents prods hnil ctail sig dclosed cflag closer mpanicked cons] in *.

Lemma ppres_P_cas : ppres P_cas.
Proof.
  pstart. destruct Hop as [rest ->].
  destruct (negb (hnil s) && (cur =? last_idx s)) eqn:Hc; injection Hs as <-.
  - apply andb_true_iff in Hc as [Hh Hcur]. apply negb_true_iff in Hh. apply Nat.eqb_eq in Hcur.
    unfold last_idx in Hcur.
    pose proof (m_ne _ _ _ HI) as Hne. pose proof (m_len _ _ _ HI) as Hlen. rewrite Hh in Hlen.
    pose proof (m_tail _ _ _ HI) as Htl.
    eapply (prod_generic _ _ _ _ _ _ _ _ _ _ _ _ _ HI Hk).
    + rewrite app_length. simpl. lia.
    + rewrite enqs_app, app_length. simpl. lia.
    + intros i x Hn He. sp. apply nth_app_cases in Hn as [[L Hn]|[L ->]]; [|discriminate].
      destruct (m_end1 _ _ _ HI _ _ Hn He) as (A & _). congruence.
    + rewrite enqs_app, !app_length. simpl. lia.
    + intros i x Hn He. sp. rewrite enqs_app. simpl.
      apply nth_app_cases in Hn as [[L Hn]|[L ->]].
      * apply nth_error_app_l. apply (m_vals _ _ _ HI _ _ Hn He).
      * simpl. replace i with (length (enqs (mevents s))) by lia. apply nth_error_app_last.
    + unfold f_spec; simpl. rewrite run_spec_app, (m_spec _ _ _ HI), Hh. simpl.
      rewrite enqs_app. simpl. rewrite skipn_app_last; auto.
    + intros i x Hn Hl. sp. apply nth_app_cases in Hn as [[L Hn]|[L ->]].
      * destruct (m_link _ _ _ HI _ _ Hn Hl) as (q & pq & Hq & Lq & Cq).
        exists q, pq. split; auto. rewrite nth_error_upd_ne; auto. intros ->.
        rewrite Hk in Hq. injection Hq as <-. discriminate.
      * exists k, (pgoto (mkP (PSend val :: rest) P_cas cur val rs) P_link).
        rewrite nth_error_upd_eq by (eapply nth_error_lt; eauto). simpl. repeat split; auto. lia.
    + intros q pq Hneq Hq. unfold pinv. simpl. rewrite app_length. simpl.
      destruct (p_pc pq); auto; intuition (try lia; try congruence).
    + unfold pinv; simpl. rewrite app_length. simpl. lia.
    + unfold f_flag; simpl. intro Hcf. destruct (m_flag _ _ _ HI Hcf) as (A & B & C). auto.
    + eapply f_wake_app; eauto. apply (m_wake _ _ _ HI).
    + intros e [<-|[]]. reflexivity.
    + bk_ev.
    + unfold ppc_op; simpl; eauto.
    + bk_prog.
  - eapply (prod_same' _ _ _ _ _ _ _ _ _ HI Hk); simpl; auto; try ps_side HI.
Qed.

Lemma ppres_K_swap : ppres K_swap.
Proof.
  pstart. destruct Hop as [rest ->]. destruct Hpi as (P1 & P2 & P3 & P4).
  rewrite P2 in Hs. injection Hs as <-.
  pose proof (m_ne _ _ _ HI) as Hne. pose proof (m_len _ _ _ HI) as Hlen. rewrite P2 in Hlen.
  pose proof (m_tail _ _ _ HI) as Htl.
  assert (Een : enqs (mevents s ++ [EClose (k + 2)]) = enqs (mevents s))
    by (rewrite enqs_app; simpl; apply app_nil_r).
  eapply (prod_generic _ _ _ _ _ _ _ _ _ _ _ _ _ HI Hk).
  - rewrite app_length. simpl. lia.
  - rewrite Een. lia.
  - intros i x Hn He. sp. rewrite app_length. simpl.
    apply nth_app_cases in Hn as [[L Hn]|[L ->]].
    + destruct (m_end1 _ _ _ HI _ _ Hn He) as (A & _). congruence.
    + repeat split; lia.
  - rewrite Een, app_length. simpl. lia.
  - intros i x Hn He. sp. rewrite Een.
    apply nth_app_cases in Hn as [[L Hn]|[L ->]]; [|discriminate].
    apply (m_vals _ _ _ HI _ _ Hn He).
  - unfold f_spec; simpl. rewrite run_spec_app, (m_spec _ _ _ HI), Een. reflexivity.
  - intros i x Hn Hl. sp. apply nth_app_cases in Hn as [[L Hn]|[L ->]].
    + destruct (m_link _ _ _ HI _ _ Hn Hl) as (q & pq & Hq & Lq & Cq).
      exists q, pq. split; auto. rewrite nth_error_upd_ne; auto. intros ->.
      rewrite Hk in Hq. injection Hq as <-. discriminate.
    + exists k, (pgoto_cur (mkP (PClose :: rest) K_swap cur val rs) K_link (last_idx s)).
      rewrite nth_error_upd_eq by (eapply nth_error_lt; eauto). simpl. repeat split; auto.
      unfold last_idx. lia.
  - intros q pq Hneq Hq. unfold pinv. simpl. rewrite app_length. simpl.
    destruct (p_pc pq); auto; try lia; rewrite ?P1; intros H; exfalso; decompose [and] H;
      match goal with A : Some _ = Some _ |- _ => injection A; lia end.
  - unfold pinv; simpl. rewrite app_length. unfold last_idx. simpl. repeat split; auto. lia.
  - unfold f_flag; simpl. rewrite P4. discriminate.
  - eapply f_wake_app; eauto. apply (m_wake _ _ _ HI).
  - intros e [<-|[]]. reflexivity.
  - bk_ev.
  - unfold ppc_op; simpl; eauto.
  - bk_prog.
Qed.

(* linking steps *)
Lemma link_generic cp pps s k p p' :
  MInv cp pps s -> nth_error (prods s) k = Some p ->
  linker (p_pc p) = true -> S (p_cur p) < length (chain s) ->
  waker (p_pc p') = true ->
  (forall s0, chain s0 = set_linked (S (p_cur p)) (chain s) -> closer s0 = closer s ->
     hnil s0 = hnil s -> dclosed s0 = dclosed s -> cflag s0 = cflag s -> pinv s0 k p') ->
  flat_map (pres_event (k + 2)) (pres p') ++ pinflight (k + 2) p'
    = flat_map (pres_event (k + 2)) (pres p) ++ pinflight (k + 2) p ->
  ppc_op p' -> map pop_of (pres p') ++ pprog p' = map pop_of (pres p) ++ pprog p ->
  MInv cp pps (with_prod s (set_linked (S (p_cur p)) (chain s)) (hnil s) (sig s) (dclosed s) (cflag s)
                         (mpanicked s) (closer s) [] k p').
Proof.
  intros HI Hk Hl Hcur Hw Hpi Hev Hop Hprog.
  eapply (prod_generic _ _ _ _ _ _ _ _ _ _ _ _ _ HI Hk); rewrite ?app_nil_r.
  - rewrite set_linked_length. apply (m_ne _ _ _ HI).
  - apply (m_tail _ _ _ HI).
  - intros i x Hn He. sp. rewrite set_linked_length.
    apply set_linked_nth in Hn as (y & Hy & _ & Ee & _). rewrite Ee in He.
    apply (m_end1 _ _ _ HI _ _ Hy He).
  - rewrite set_linked_length. apply (m_len _ _ _ HI).
  - intros i x Hn He. sp. rewrite app_nil_r.
    apply set_linked_nth in Hn as (y & Hy & Ev & Ee & _). rewrite Ee in He. rewrite Ev.
    apply (m_vals _ _ _ HI _ _ Hy He).
  - unfold f_spec; simpl. rewrite app_nil_r. apply (m_spec _ _ _ HI).
  - intros i x Hn Hu. sp.
    apply set_linked_nth in Hn as (y & Hy & _ & _ & Hne & Heq).
    destruct (Nat.eq_dec (S i) (S (p_cur p))) as [E|NE].
    + rewrite (Heq E) in Hu. discriminate.
    + rewrite (Hne NE) in Hu. destruct (m_link _ _ _ HI _ _ Hy Hu) as (q & pq & Hq & Lq & Cq).
      exists q, pq. split; auto. rewrite nth_error_upd_ne; auto. intros ->.
      rewrite Hk in Hq. injection Hq as <-. lia.
  - intros q pq Hneq Hq. unfold pinv. simpl. rewrite set_linked_length. auto.
  - apply Hpi; reflexivity.
  - exact (m_flag _ _ _ HI).
  - intros _ _. simpl. right. right. exists k, p'.
    rewrite nth_error_upd_eq by (eapply nth_error_lt; eauto). auto.
  - intros ? [].
  - rewrite Hev. reflexivity.
  - exact Hop.
  - exact Hprog.
Qed.

Lemma ppres_P_link : ppres P_link.
Proof.
  pstart. destruct Hop as [rest ->]. injection Hs as <-.
  apply (link_generic _ _ _ _ _ _ HI Hk); simpl; auto.
  - intros; exact I.
  - unfold ppc_op; simpl; eauto.
Qed.

Lemma ppres_K_link : ppres K_link.
Proof.
  pstart. destruct Hop as [rest ->]. destruct Hpi as (P0 & P1 & P2 & P3). injection Hs as <-.
  apply (link_generic _ _ _ _ _ _ HI Hk); simpl; auto.
  - intros s0 _ E1 E2 E3 _. unfold pinv; simpl. rewrite E1, E2, E3. auto.
  - unfold ppc_op; simpl; eauto.
Qed.

Lemma pstep_inv cp pps s k p s' : MInv cp pps s -> nth_error (prods s) k = Some p ->
  pstep s k p = Some s' -> MInv cp pps s'.
Proof.
  intros HI Hk Hs. destruct (p_pc p) eqn:E.
  - eapply ppres_P_idle; eauto.
  - eapply ppres_P_load; eauto.
  - eapply ppres_P_cas; eauto.
  - eapply ppres_P_link; eauto.
  - eapply ppres_P_sig; eauto.
  - eapply ppres_K_flag; eauto.
  - eapply ppres_K_swap; eauto.
  - eapply ppres_K_link; eauto.
  - eapply ppres_K_done; eauto.
Qed.

Lemma mstep_inv cp pps s t s' : MInv cp pps s -> mstep s t = Some s' -> MInv cp pps s'.
Proof.
  intros HI Hs. unfold mstep in Hs. destruct (mpanicked s); [discriminate|].
  destruct t as [|[|k]].
  - eapply cstep_inv; eauto.
  - eapply cstep_inv; eauto.
  - destruct (nth_error (prods s) k) as [p|] eqn:Hk; [|discriminate]. eapply pstep_inv; eauto.
Qed.

Lemma mrun_inv cp pps s sched : MInv cp pps s -> MInv cp pps (mrun s sched).
Proof.
  revert s. induction sched as [|t r IH]; intros s HI; simpl; auto.
  destruct (mstep s t) as [s'|] eqn:E; auto. apply IH. eapply mstep_inv; eauto.
Qed.

Theorem mreachable_inv cp pps sched : MInv cp pps (mrun (minit cp pps) sched).
Proof. apply mrun_inv. apply minit_inv. Qed.

(* ------------------------------------------------------------------------------------------ *)
(* the property theorems for the accumulator *)

Lemma tenqs_enqs evs : map snd (tenqs evs) = enqs evs.
Proof. induction evs as [|e evs IH]; simpl; auto. destruct e; simpl; rewrite ?IH; auto. Qed.

Lemma enqs_of_tenqs p evs : enqs_of p evs = map snd (filter (from_producer p) (tenqs evs)).
Proof.
  induction evs as [|e evs IH]; simpl; auto. destruct e; simpl; auto.
  unfold from_producer at 1. simpl. destruct (Nat.eqb t p); simpl; rewrite IH; auto.
Qed.

Lemma enqs_of_proj p evs : enqs_of p evs = enqs (proj p evs).
Proof.
  induction evs as [|e evs IH]; simpl; auto.
  destruct e; simpl; destruct (Nat.eqb t p); simpl; rewrite ?IH; auto.
Qed.

(* what the consumer has received so far is the first [ctail] enqueued items *)
Lemma deqs_firstn cp pps s : MInv cp pps s ->
  deqs (mevents s) = firstn (ctail s) (enqs (mevents s)).
Proof.
  intro HI. pose proof (run_spec_fifo _ _ _ (m_spec _ _ _ HI)) as F. simpl in F.
  pose proof (m_tail _ _ _ HI) as Ht.
  rewrite <- (firstn_skipn (ctail s) (enqs (mevents s))) in F at 1.
  assert (L : length (deqs (mevents s)) = length (firstn (ctail s) (enqs (mevents s)))).
  { apply (f_equal (@length N)) in F. rewrite !app_length in F. lia. }
  apply app_inv_tail in F. auto.
Qed.

(* linearisable FIFO: the history is legal for the channel spec, results = events per thread *)
Theorem mpsc_fifo_lemma cp pps sched :
  let s := mrun (minit cp pps) sched in
  legal (mevents s)
  /\ deqs (mevents s) = firstn (ctail s) (enqs (mevents s))
  /\ proj 0 (mevents s) = flat_map cres_event (cres (cons s))
  /\ cp = map cop_of (cres (cons s)) ++ cprog (cons s)
  /\ (forall k p, nth_error (prods s) k = Some p ->
        proj (k + 2) (mevents s) = flat_map (pres_event (k + 2)) (pres p) ++ pinflight (k + 2) p
        /\ nth_error pps k = Some (map pop_of (pres p) ++ pprog p)).
Proof.
  intro s. pose proof (mreachable_inv cp pps sched) as HI. fold s in HI.
  split; [eexists; apply (m_spec _ _ _ HI)|].
  split; [apply (deqs_firstn _ _ _ HI)|].
  split; [apply (m_cev _ _ _ HI)|].
  split; [apply (m_cprog _ _ _ HI)|].
  intros k p Hk. split; [apply (m_pev _ _ _ HI _ _ Hk) | apply (m_pprog _ _ _ HI _ _ Hk)].
Qed.

(* FIFO per producer: the items of producer t among those received are a prefix of the items t
   enqueued, and those are t's successful sends in program order *)
Theorem mpsc_fifo_per_producer_lemma cp pps sched :
  let s := mrun (minit cp pps) sched in
  let received := firstn (ctail s) (tenqs (mevents s)) in
  deqs (mevents s) = map snd received
  /\ (forall t, exists rest,
        enqs_of t (mevents s) = map snd (filter (from_producer t) received) ++ rest)
  /\ (forall k p, nth_error (prods s) k = Some p ->
        enqs_of (k + 2) (mevents s)
        = enqs (flat_map (pres_event (k + 2)) (pres p) ++ pinflight (k + 2) p)).
Proof.
  intros s received. pose proof (mreachable_inv cp pps sched) as HI. fold s in HI.
  split; [|split].
  - rewrite (deqs_firstn _ _ _ HI). unfold received. rewrite <- tenqs_enqs. apply firstn_map.
  - intro t. exists (map snd (filter (from_producer t) (skipn (ctail s) (tenqs (mevents s))))).
    rewrite enqs_of_tenqs. unfold received.
    rewrite <- (firstn_skipn (ctail s) (tenqs (mevents s))) at 1.
    rewrite filter_app, map_app. reflexivity.
  - intros k p Hk. rewrite enqs_of_proj, (m_pev _ _ _ HI _ _ Hk). reflexivity.
Qed.

(* no loss: enqueued = received ++ still buffered, and Recv reports "closed and drained" only
   when everything enqueued has been received.  No precondition is needed for this: the
   documented one ("Close only after all Sends returned") is not what protects the items; a Send
   racing with Close either wins its CAS before head.Swap(nil) and is linked in front of the
   sentinel, or fails. *)
Theorem mpsc_no_loss_lemma cp pps sched :
  let ev := mevents (mrun (minit cp pps) sched) in
  (exists pending, enqs ev = deqs ev ++ pending)
  /\ (forall a t b, ev = a ++ EDeqFail t :: b -> enqs a = deqs a /\ exists u, In (EClose u) a)
  /\ (forall a t b, ev = a ++ EClose t :: b -> forall x, In x b -> is_enq x = false)
  /\ (forall a t b, ev = a ++ EEnqFail t :: b -> exists u, In (EClose u) a).
Proof.
  intro ev. assert (L : legal ev) by (apply (mpsc_fifo_lemma cp pps sched)).
  split; [apply legal_fifo; auto|]. split; [|split].
  - intros a t b E. rewrite E in L. eapply legal_deqfail_drained; eauto.
  - intros a t b E. rewrite E in L. eapply legal_no_enq_after_close; eauto.
  - intros a t b E. rewrite E in L. eapply legal_enqfail_after_close; eauto.
Qed.

Lemma prods_idle_spec s : prods_idle s = true ->
  forall k p, nth_error (prods s) k = Some p -> p_pc p = P_idle.
Proof.
  unfold prods_idle. intros H k p Hk. rewrite forallb_forall in H.
  specialize (H p (nth_error_In _ _ Hk)). destruct (p_pc p); auto; discriminate.
Qed.

(* no lost wake-up (single consumer): whenever the consumer is parked without a way to proceed
   (no token, done open) although a linked node is waiting, some producer stands right before
   its signal (or before close(done)) and will wake it; consequently, if all producers are
   between calls, a parked consumer means that every enqueued item has been received and the
   accumulator is open. *)
Theorem mpsc_no_lost_wakeup_lemma cp pps sched :
  let s := mrun (minit cp pps) sched in
  consumer_stuck s = true ->
  (next_of_tail s <> None ->
     exists k p, nth_error (prods s) k = Some p /\ (p_pc p = P_sig \/ p_pc p = K_done))
  /\ (prods_idle s = true ->
      skipn (ctail s) (enqs (mevents s)) = [] /\ hnil s = false /\ next_of_tail s = None).
Proof.
  intros s Hst. pose proof (mreachable_inv cp pps sched) as HI. fold s in HI.
  unfold consumer_stuck in Hst. destruct (c_pc (cons s)) eqn:Epc; try discriminate.
  apply andb_true_iff in Hst as [Hs Hd]. apply negb_true_iff in Hs, Hd.
  assert (W : next_of_tail s <> None ->
              exists k p, nth_error (prods s) k = Some p /\ (p_pc p = P_sig \/ p_pc p = K_done)).
  { intro Hn. destruct (m_wake _ _ _ HI Epc Hn) as [A|[A|(k & p & Hk & Wk)]]; try congruence.
    exists k, p. split; auto. destruct (p_pc p); simpl in Wk; auto; discriminate. }
  split; auto.
  intro Hidle. pose proof (prods_idle_spec _ Hidle) as Hid.
  assert (Hn : next_of_tail s = None).
  { destruct (next_of_tail s) eqn:E; auto. exfalso.
    destruct W as (k & p & Hk & [A|A]); [congruence| |]; rewrite (Hid _ _ Hk) in A; discriminate. }
  pose proof (m_len _ _ _ HI) as Hlen. pose proof (m_tail _ _ _ HI) as Htl.
  assert (Habs : nth_error (chain s) (S (ctail s)) = None).
  { destruct (nth_error (chain s) (S (ctail s))) as [nd|] eqn:E; auto. exfalso.
    unfold next_of_tail in Hn. rewrite E in Hn.
    destruct (m_linked nd) eqn:El; [discriminate|].
    destruct (m_link _ _ _ HI _ _ E El) as (k & p & Hk & Lk & _).
    rewrite (Hid _ _ Hk) in Lk. discriminate. }
  apply nth_error_None in Habs.
  destruct (hnil s); [lia|].
  split; [apply skipn_all'; lia | auto].
Qed.

Theorem mpsc_no_panic_lemma cp pps sched : mpanicked (mrun (minit cp pps) sched) = false.
Proof. apply (m_nopanic _ _ _ (mreachable_inv cp pps sched)). Qed.
