(* Consequences of the invariant of Conc/CycleGroupProofs.v: soundness and completeness of the
   quiescence latch, the ordered teardown, conservation of work, absence of deadlock and
   termination of every schedule. *)
From OFGA Require Import Conc.StatusPool Conc.StatusPoolProofs Conc.CycleGroup Conc.CycleGroupProofs.
From Coq Require Import ZifyBool.

Lemma reach_trans s0 s1 s2 : reach s0 s1 -> reach s1 s2 -> reach s0 s2.
Proof. intros R1 R2. induction R2; auto. eapply reach_step; eauto. Qed.

(* a goroutine that neither holds a counted message nor has anything left to send *)
Definition idle (p : proc) : Prop :=
  match p_pc p with PRecv | PEnd | PFin2 | PFin3 => True | _ => False end.

(* every member has released its initial unit, no cyclical message is queued, and no goroutine
   holds one or can still create one *)
Definition quiescent (s : state) : Prop :=
  (forall i pc, nth_error (st_main s) i = Some pc -> mpend pc = 0) /\
  st_flight s = [] /\
  (forall k p, nth_error (st_proc s) k = Some p -> idle p).

Lemma zero_quiescent W s :
  Inv W s -> sp_inflight (st_pool s) = 0%Z -> quiescent s.
Proof.
  intros I Z. pose proof (ia_inflight _ (iA _ _ I)) as Ai. rewrite Z in Ai.
  assert (Hm : sumn mpend (st_main s) = 0) by lia.
  assert (Hp : sumn phold (st_proc s) = 0) by lia.
  assert (Hf : length (st_flight s) = 0) by lia.
  split; [|split].
  - intros i pc Hi. eapply sumn_zero; eauto.
  - destruct (st_flight s); simpl in *; auto; lia.
  - intros k p Hk. pose proof (sumn_zero phold _ _ _ Hp Hk) as H0.
    destruct p as [o [a|] pc]; unfold idle; simpl in *.
    + destruct pc; simpl in *; auto; lia.
    + destruct pc; simpl in *; auto; try lia;
        match goal with
        | |- False =>
          assert (Hw : nth_error (st_main s) o = Some MWaitStd)
            by (apply (ia_std _ (iA _ _ I) k _ Hk eq_refl); simpl; discriminate);
          pose proof (sumn_zero mpend _ _ _ Hm Hw) as X; simpl in X; lia
        end.
Qed.

Lemma latch_monotone_step W s t s' :
  Inv W s -> step s t = Some s' -> sp_quiet (st_pool s) = true -> sp_quiet (st_pool s') = true.
Proof.
  intros I H Q. destruct t as [i|k|]; simpl in H.
  - destruct (nth_error (st_main s) i) as [pc|] eqn:Hi; [|discriminate].
    unfold step_main, after_wait in H.
    destruct pc; simpl in H; unfold a_lock, a_set_body, a_close_ready, a_close_quiet, a_unlock in H;
      simpl in H; step_cases H; simpl; auto; rewrite ?Q; auto;
      unfold w_wake; simpl; repeat match goal with |- context[if ?c then _ else _] => destruct c end; simpl; auto.
  - destruct (nth_error (st_proc s) k) as [pr|] eqn:Hk; [|discriminate].
    eapply step_proc_latch; eauto. apply (iA _ _ I).
  - destruct (st_cancel s); [discriminate|]. inversion H; subst. auto.
Qed.

Section Reachable.
  Variables (n np : nat) (std : list (nat * list msg)).
  Hypothesis Hn : 1 <= n.
  Hypothesis Hnp : 1 <= np.
  Let s0 := init n np std.
  Let W := workload std.

  Lemma rI s : reach s0 s -> Inv W s.
  Proof. intro R. unfold s0, W in *. exact (reach_Inv n np std s Hn Hnp R). Qed.

  (* ---- inflight_invariant ------------------------------------------------------------------- *)
  Theorem inflight_invariant_l s :
    reach s0 s ->
    sp_inflight (st_pool s) =
    Z.of_nat (sumn mpend (st_main s) + sumn phold (st_proc s) + length (st_flight s)).
  Proof. intro R. apply (ia_inflight _ (iA _ _ (rI s R))). Qed.

  (* ---- quiescence_sound ----------------------------------------------------------------------- *)
  Lemma quiet_quiescent s : reach s0 s -> sp_quiet (st_pool s) = true -> quiescent s.
  Proof.
    intros R Q. pose proof (rI s R) as I. eapply zero_quiescent; eauto.
    pose proof (quiet_zero _ _ I Q). pose proof (ia_inflight _ (iA _ _ I)). lia.
  Qed.

  Lemma latch_monotone s s' : reach s0 s -> reach s s' -> sp_quiet (st_pool s) = true ->
                              sp_quiet (st_pool s') = true.
  Proof.
    intros R R' Q. induction R' as [|s1 t s2 R1 IH H]; auto.
    eapply latch_monotone_step; eauto. apply rI. eapply reach_trans; eauto.
  Qed.

  Theorem quiescence_sound_l s :
    reach s0 s -> sp_quiet (st_pool s) = true ->
    forall s', reach s s' -> quiescent s'.
  Proof.
    intros R Q s' R'. apply quiet_quiescent.
    - eapply reach_trans; eauto.
    - eapply latch_monotone; eauto.
  Qed.

  (* the latch is never closed twice, the ready channel neither, wake channels neither *)
  Theorem no_panic_l s : reach s0 s -> sp_panic (st_pool s) = false.
  Proof. intro R. apply (ic_panic _ (iC _ _ (rI s R))). Qed.

  (* ---- no_lost_work ------------------------------------------------------------------------------ *)
  Lemma idle_psize p : idle p -> psize p = 0.
  Proof. destruct p as [o src pc]. unfold idle. destruct pc; simpl; tauto. Qed.

  Theorem no_lost_work_l s i :
    reach s0 s -> st_cancel s = false ->
    st_lost s = 0 /\
    (i < n -> 0 < nth i (st_closed s) 0 -> quiescent s /\ st_processed s = W).
  Proof.
    intros R Hc. pose proof (rI s R) as I. destruct (iD _ _ I) as [Dc Dl _].
    split; [auto|]. intros Hi Hcl.
    assert (En : st_n s = n).
    { clear -R. induction R as [|s t s' R IH H]; [reflexivity|].
      destruct t as [i|k|]; simpl in H.
      - destruct (nth_error (st_main s) i); [|discriminate].
        destruct (step_main_frame _ _ _ _ H) as (F & _). congruence.
      - destruct (nth_error (st_proc s) k); [|discriminate].
        destruct (step_proc_frame _ _ _ _ H) as (F & _). congruence.
      - destruct (st_cancel s); [discriminate|]. inversion H; subst. auto. }
    assert (Q : sp_quiet (st_pool s) = true) by (eapply closed_quiet; eauto; lia).
    pose proof (quiet_quiescent s R Q) as Qs. split; auto.
    destruct Qs as (_ & Hf & Hp). rewrite Hf in Dc. simpl in Dc.
    rewrite (sumn_all_zero psize) in Dc by (intros k p Hk; apply idle_psize; eauto).
    rewrite (Dl Hc) in Dc. lia.
  Qed.

  (* ---- teardown_order / wake_chain_total ------------------------------------------------------- *)
  Lemma st_n_const s : reach s0 s -> st_n s = n.
  Proof.
    intro R. induction R as [|s t s' R IH H]; [reflexivity|].
    destruct t as [i|k|]; simpl in H.
    - destruct (nth_error (st_main s) i); [|discriminate].
      destruct (step_main_frame _ _ _ _ H) as (F & _). congruence.
    - destruct (nth_error (st_proc s) k); [|discriminate].
      destruct (step_proc_frame _ _ _ _ H) as (F & _). congruence.
    - destruct (st_cancel s); [discriminate|]. inversion H; subst. auto.
  Qed.

  Lemma evs_prefix m i pc : (forall k, pc = MCleanup k -> k < m) ->
                            exists r, evs m i pc ++ r = member_events m i.
  Proof.
    intro Hk. unfold member_events. destruct pc; simpl; eauto.
    - specialize (Hk k eq_refl).
      exists (map (EClose i) (seq k (m - k)) ++ [EWake (nxt m i)]).
      rewrite app_assoc, <- map_app. replace m with (k + (m - k)) at 3 by lia.
      rewrite seq_app. reflexivity.
    - exists []. rewrite app_nil_r. reflexivity.
    - exists []. rewrite app_nil_r. reflexivity.
  Qed.

  Lemma log_prefix s m :
    InvL s -> InvC s -> m <= st_n s ->
    exists rest, log_from (st_n s) (st_main s) m ++ rest = canon_from (st_n s) m.
  Proof.
    intros L C. induction m as [|j IH]; intro Hm; simpl.
    - exists []. reflexivity.
    - assert (Hjl : j < length (st_main s)) by (rewrite (il_main _ L); lia).
      destruct (nth_error_ex _ _ Hjl) as [pcj Hpj].
      rewrite (nth_of_nth_error _ _ _ MWaitStd Hpj).
      destruct (Nat.eq_dec (tphase pcj) 2) as [E2|N2].
      + destruct (IH ltac:(lia)) as [rest Hr]. exists rest.
        assert (Ev : evs (st_n s) j pcj = member_events (st_n s) j)
          by (destruct pcj; simpl in E2; try discriminate; reflexivity).
        rewrite Ev, <- app_assoc, Hr. reflexivity.
      + assert (Hnil : log_from (st_n s) (st_main s) j = []).
        { apply log_from_nil. intros j' Hj'.
          assert (Hjl' : j' < length (st_main s)) by lia.
          destruct (nth_error_ex _ _ Hjl') as [pc' Hp'].
          rewrite (nth_of_nth_error _ _ _ MWaitStd Hp').
          destruct (tphase pc') eqn:T; auto.
          destruct (ic_order _ C j' pc' Hp' ltac:(lia)) as [_ O].
          specialize (O j pcj Hj' Hpj). contradiction. }
        destruct (evs_prefix (st_n s) j pcj) as [r Hr].
        { intros k Ek. apply (proj2 (ic_closed _ C j pcj Hpj) k Ek). }
        exists (r ++ canon_from (st_n s) j). rewrite Hnil, app_nil_r, app_assoc, Hr. reflexivity.
  Qed.

  Theorem teardown_order_l s :
    reach s0 s -> exists rest, st_log s ++ rest = canon_log n.
  Proof.
    intro R. pose proof (rI s R) as I. pose proof (st_n_const s R) as En.
    rewrite (ic_log _ (iC _ _ I)). unfold canon_log. rewrite <- En.
    apply log_prefix; auto. apply (iL _ _ I). apply (iC _ _ I).
  Qed.

  Lemma final_mains s i pc : final s = true -> nth_error (st_main s) i = Some pc -> pc = MDone.
  Proof.
    unfold final. intros F Hi. apply andb_true_iff in F as [F _].
    rewrite forallb_forall in F. specialize (F pc (nth_error_In _ _ Hi)).
    destruct pc; simpl in F; try discriminate. reflexivity.
  Qed.

  Theorem wake_chain_total_l s :
    reach s0 s -> final s = true -> st_log s = canon_log n.
  Proof.
    intros R F. pose proof (rI s R) as I. pose proof (st_n_const s R) as En.
    rewrite (ic_log _ (iC _ _ I)). unfold canon_log. rewrite En.
    assert (G : forall m, m <= n -> log_from n (st_main s) m = canon_from n m).
    { induction m as [|j IH]; intro Hm; simpl; auto.
      assert (Hjl : j < length (st_main s)) by (rewrite (il_main _ (iL _ _ I)); lia).
      destruct (nth_error_ex _ _ Hjl) as [pcj Hpj].
      rewrite (nth_of_nth_error _ _ _ MWaitStd Hpj), (final_mains _ _ _ F Hpj), IH by lia.
      reflexivity. }
    apply G. lia.
  Qed.
End Reachable.

(* ======================================================================================= *)
(* Termination: every step decreases a natural-number measure                                *)
(* ======================================================================================= *)

(* cost of a message: 3 steps to send it, then (in its queue) 4 + the cost of its children *)
Fixpoint mw (m : msg) : nat :=
  match m with
  | Msg _ ks => 7 + ((fix go (l : list msg) : nat :=
                        match l with [] => 0 | k :: r => mw k + go r end) ks)
  end.
Definition mws (l : list msg) : nat :=
  (fix go (l : list msg) : nat := match l with [] => 0 | k :: r => mw k + go r end) l.
Lemma mw_Msg d ks : mw (Msg d ks) = 7 + mws ks.
Proof. reflexivity. Qed.
Lemma mws_cons m r : mws (m :: r) = mw m + mws r.
Proof. reflexivity. Qed.
Lemma mws_nil : mws [] = 0.
Proof. reflexivity. Qed.
Opaque mw mws.

Definition tm_main (n : nat) (pc : mpc) : nat :=
  match pc with
  | MDone => 0 | MWaitRec => 1 | MWake2 => 2 | MWake1 => 3
  | MCleanup k => 4 + (n - k)
  | MSleep => 5 + n | MWaitQ => 6 + n | MLoadTotal => 7 + n | MWaitReady => 8 + n
  | MDec3 => 9 + n | MDec2 => 10 + n | MDec1 => 11 + n
  | MSetUnlock => 12 + n | MSetClose => 13 + n | MSetBody => 14 + n | MSetLock => 15 + n
  | MWaitStd => 16 + n
  end.

Definition pbase (src : option nat) : nat := if is_cyc src then 4 else 0.

Definition tm_proc (p : proc) : nat :=
  match p_pc p with
  | PRecv => 1 | PEnd => 0 | PFin1 => 4 | PFin2 => 3 | PFin3 => 2
  | PInc1 m r => mw m + mws r + pbase (p_src p)
  | PInc2 m r => match m with Msg _ ks => 6 + mws ks end + mws r + pbase (p_src p)
  | PSend m r => match m with Msg _ ks => 5 + mws ks end + mws r + pbase (p_src p)
  | PDrop1 r => 3 + mws r + pbase (p_src p)
  | PDrop2 r => 2 + mws r + pbase (p_src p)
  | PDrop3 r => 1 + mws r + pbase (p_src p)
  end.
Arguments tm_proc !p /.

Definition fw (q : qmsg) : nat := 4 + mws (q_kids q).

Definition measure (s : state) : nat :=
  sumn (tm_main (st_n s)) (st_main s) + sumn tm_proc (st_proc s) + sumn fw (st_flight s) +
  (if st_cancel s then 0 else 1).

Lemma tm_after o src r : tm_proc (mkProc o src (after (is_cyc src) r)) = mws r + pbase src.
Proof.
  destruct r as [|m r]; simpl.
  - unfold pbase. destruct (is_cyc src); reflexivity.
  - rewrite mws_cons. reflexivity.
Qed.

Theorem step_decreases s t s' : step s t = Some s' -> measure s' < measure s.
Proof.
  intro H. unfold measure. destruct t as [i|k|]; simpl in H.
  - destruct (nth_error (st_main s) i) as [pc|] eqn:Hi; [|discriminate].
    destruct (step_main_frame _ _ _ _ H) as (F1 & F2 & F3 & F4 & _).
    rewrite F1, F2, F3, F4.
    pose proof (fun x => sumn_upd (tm_main (st_n s)) i x pc _ Hi) as U.
    assert (G : exists pc', st_main s' = upd i pc' (st_main s) /\ tm_main (st_n s) pc' < tm_main (st_n s) pc).
    { unfold step_main, after_wait in H.
      destruct pc; simpl in H; unfold a_lock, a_set_body in H; simpl in H; step_cases H; simpl;
        eexists; (split; [reflexivity|]);
        repeat match goal with |- context[if ?c then _ else _] => destruct c eqn:? end;
        simpl; try lia. }
    destruct G as (pc' & Em & Hlt). rewrite Em. specialize (U pc'). lia.
  - destruct (nth_error (st_proc s) k) as [pr|] eqn:Hk; [|discriminate].
    destruct (step_proc_frame _ _ _ _ H) as (F1 & F2 & _ & _ & _ & _ & Fc & _).
    rewrite F1, F2, Fc.
    destruct pr as [o [a|] pc];
    pose proof (fun x => sumn_upd tm_proc k x _ _ Hk) as U;
    unfold step_proc in H; simpl in H;
    destruct pc as [|m r|m r|[d ks] r|r|r|r| | | |]; simpl in H; step_cases H;
      try match goal with
          | T : take_first _ _ _ = Some _ |- _ =>
            pose proof (proj2 (proj2 (proj2 (proj2 (proj2 (take_first_spec _ _ _ _ _ T))))) fw) as TS
          end;
      repeat (match goal with |- context[if ?c then _ else _] => destruct c eqn:? end);
      simpl;
      match goal with |- context[sumn tm_proc (upd k ?x _)] => pose proof (U x) as Ux end;
      try (change true with (is_cyc (Some a)) in Ux at 1; rewrite tm_after in Ux);
      try (change false with (is_cyc None) in Ux at 1; rewrite tm_after in Ux); simpl in Ux; rewrite ?sumn_app; simpl; unfold fw, pbase in *; simpl in *;
      rewrite ?mw_Msg, ?mws_cons, ?mws_nil in *;
      try (destruct m as [dm km]; rewrite ?mw_Msg in * );
      try lia.
  - destruct (st_cancel s) eqn:Ec; [discriminate|]. inversion H; subst. simpl. lia.
Qed.

(* sequences of successful steps *)
Inductive steps : state -> list tid -> state -> Prop :=
| steps_nil s : steps s [] s
| steps_cons s t s1 r s2 : step s t = Some s1 -> steps s1 r s2 -> steps s (t :: r) s2.

Theorem schedule_length_bounded s sched s' : steps s sched s' -> length sched + measure s' <= measure s.
Proof.
  induction 1 as [|s t s1 r s2 H _ IH]; simpl; [lia|].
  pose proof (step_decreases _ _ _ H). lia.
Qed.

Lemma steps_reach s0 s sched s' : reach s0 s -> steps s sched s' -> reach s0 s'.
Proof. intros R St. induction St; auto. apply IHSt. eapply reach_step; eauto. Qed.

(* ======================================================================================= *)
(* Absence of deadlock                                                                       *)
(* ======================================================================================= *)

(* program points whose operation can always be executed *)
Definition nb_main (pc : mpc) : nat :=
  match pc with
  | MWaitStd | MSetLock | MWaitReady | MWaitQ | MSleep | MWaitRec | MDone => 0
  | _ => 1
  end.
Definition nb_proc (p : proc) : nat :=
  match p_pc p, p_src p with
  | PEnd, _ => 0
  | PRecv, Some _ => 0
  | _, _ => 1
  end.
Arguments nb_proc !p /.

Lemma nb_main_enabled s i pc :
  nth_error (st_main s) i = Some pc -> nb_main pc = 1 -> exists s', step s (TM i) = Some s'.
Proof.
  intros Hi Hnb. simpl. rewrite Hi. unfold step_main.
  destruct pc; simpl in Hnb; try discriminate; simpl; eauto;
    repeat match goal with |- context[let (_, _) := ?c in _] => destruct c end; eauto.
Qed.

Lemma nb_proc_enabled s k p :
  nth_error (st_proc s) k = Some p -> nb_proc p = 1 -> exists s', step s (TP k) = Some s'.
Proof.
  intros Hk Hnb. simpl. rewrite Hk. unfold step_proc. destruct p as [o src pc].
  destruct pc as [|m r|m r|[d ks] r|r|r|r| | | |]; simpl in *; try discriminate; eauto;
    try (destruct src; [discriminate|eauto]);
    repeat match goal with
           | |- context[if ?c then _ else _] => destruct c
           | |- context[let (_, _) := ?c in _] => destruct c
           end; eauto.
Qed.

Definition at_pc (x : mpc) (pc : mpc) : nat :=
  match x, pc with
  | MWaitStd, MWaitStd | MSetLock, MSetLock | MWaitReady, MWaitReady | MWaitQ, MWaitQ
  | MSleep, MSleep | MWaitRec, MWaitRec => 1
  | _, _ => 0
  end.

Lemma at_pc_eq x pc : at_pc x pc = 1 -> pc = x.
Proof. destruct x, pc; simpl; intro H; try discriminate; reflexivity. Qed.

Definition p_recv (p : proc) : nat := match p_pc p with PRecv => 1 | _ => 0 end.

(* either some element has weight, or all have none *)
Lemma sumn_cases {A} (f : A -> nat) l :
  (exists i x, nth_error l i = Some x /\ 0 < f x) \/ (forall i x, nth_error l i = Some x -> f x = 0).
Proof.
  destruct (sumn f l) eqn:E.
  - right. intros i x Hx. eapply sumn_zero; eauto.
  - left. apply sumn_pos_ex. lia.
Qed.

Section Progress.
  Variables (W : nat) (s : state).
  Hypothesis I : Inv W s.

  Let L := iL _ _ I.
  Let A := iA _ _ I.
  Let B := iB _ _ I.
  Let C := iC _ _ I.
  Let D := iD _ _ I.

  (* a sleeping member whose predecessor in the chain is through can be woken; following the
     chain upwards from any sleeping member one finds such a member *)
  Lemma sleeper_enabled d :
    forall i, nth_error (st_main s) i = Some MSleep -> st_n s - i <= d ->
    (forall j pc, nth_error (st_main s) j = Some pc -> pc = MSleep \/ pc = MWaitRec \/ pc = MDone) ->
    exists j s', step s (TM j) = Some s'.
  Proof.
    induction d as [|d IH]; intros i Hi Hd Hall.
    - apply nth_error_lt in Hi. rewrite (il_main _ L) in Hi. lia.
    - pose proof (ic_sleep _ C i Hi) as Nl. unfold is_leader in Nl. apply Nat.eqb_neq in Nl.
      assert (Hin : i < st_n s) by (rewrite <- (il_main _ L); eapply nth_error_lt; eauto).
      assert (Hsi : S i < length (st_main s)) by (rewrite (il_main _ L); lia).
      destruct (nth_error_ex _ _ Hsi) as [pcs Hps].
      destruct (Hall _ _ Hps) as [E|E].
      + subst pcs. apply (IH (S i)); auto. lia.
      + exists i. simpl. rewrite Hi. simpl.
        destruct (ic_wake _ C (S i) _ Hps) as [_ Hw]. simpl in Hw.
        assert (X : nth i (st_wake s) false = true) by (destruct E; subst; simpl in Hw; exact Hw).
        rewrite X. eauto.
  Qed.

  Theorem progress : final s = false -> exists t s', t <> TC /\ step s t = Some s'.
  Proof.
    intro Hf.
    assert (Done : forall t, (exists s', step s t = Some s') -> t <> TC -> exists t s', t <> TC /\ step s t = Some s').
    { intros t [s' H] Ht. eauto. }
    (* 1. somebody at a program point that never blocks *)
    destruct (sumn_cases nb_main (st_main s)) as [(i & pc & Hi & Hp)|NbM].
    { apply (Done (TM i)); [|discriminate]. eapply nb_main_enabled; eauto.
      destruct pc; simpl in *; lia. }
    destruct (sumn_cases nb_proc (st_proc s)) as [(k & p & Hk & Hp)|NbP].
    { apply (Done (TP k)); [|discriminate]. eapply nb_proc_enabled; eauto.
      destruct p as [o src pc]. destruct pc, src; simpl in *; lia. }
    (* from here on every goroutine is at a blocking point or has returned *)
    assert (ProcShape : forall k p, nth_error (st_proc s) k = Some p ->
                        p_pc p = PEnd \/ (p_pc p = PRecv /\ exists a, p_src p = Some a)).
    { intros k p Hk. specialize (NbP k p Hk). destruct p as [o src pc].
      destruct pc, src; simpl in *; try discriminate; eauto. }
    (* 2. wgStandard.Wait() *)
    destruct (sumn_cases (at_pc MWaitStd) (st_main s)) as [(i & pc & Hi & Hp)|NoWS].
    { apply (Done (TM i)); [|discriminate].
      assert (pc = MWaitStd) by (apply at_pc_eq; destruct pc; simpl in *; lia). subst pc.
      simpl. rewrite Hi. simpl.
      assert (Sd : std_done i (st_proc s) = true).
      { unfold std_done. apply forallb_forall. intros p Hp'.
        apply In_nth_error in Hp' as [k Hk]. destruct (ProcShape k p Hk) as [E|[E [a Ea]]].
        - rewrite E. destruct (p_src p); auto. apply orb_true_r.
        - rewrite Ea. reflexivity. }
      rewrite Sd. eauto. }
    (* 3. Lock *)
    destruct (sumn_cases (at_pc MSetLock) (st_main s)) as [(i & pc & Hi & Hp)|NoL].
    { apply (Done (TM i)); [|discriminate].
      assert (pc = MSetLock) by (apply at_pc_eq; destruct pc; simpl in *; lia). subst pc.
      simpl. rewrite Hi. simpl. unfold a_lock.
      destruct (sp_mu (st_pool s)) as [j|] eqn:Mu; eauto.
      exfalso. destruct (ib_mu _ B j Mu) as (pcj & Hj & Hh).
      specialize (NbM j pcj Hj). destruct pcj; simpl in *; discriminate. }
    assert (MainShape1 : forall j pc, nth_error (st_main s) j = Some pc ->
              pc = MWaitReady \/ pc = MWaitQ \/ pc = MSleep \/ pc = MWaitRec \/ pc = MDone).
    { intros j pc Hj. specialize (NbM j pc Hj). specialize (NoWS j pc Hj). specialize (NoL j pc Hj).
      destruct pc; simpl in *; try discriminate; auto. }
    (* 4. <-ready *)
    destruct (sumn_cases (at_pc MWaitReady) (st_main s)) as [(i & pc & Hi & Hp)|NoR].
    { apply (Done (TM i)); [|discriminate].
      assert (pc = MWaitReady) by (apply at_pc_eq; destruct pc; simpl in *; lia). subst pc.
      simpl. rewrite Hi. simpl.
      assert (Rd : sp_ready (st_pool s) = true).
      { pose proof (ib_ready _ B) as Br.
        assert (AF : all_false (sp_pool (st_pool s)) = true).
        { apply all_false_intro. intros j Hj. rewrite (il_bits _ L), <- (il_main _ L) in Hj.
          destruct (nth_error_ex _ _ Hj) as [pcj Hpj]. rewrite (ib_bits _ B j pcj Hpj).
          destruct (MainShape1 _ _ Hpj) as [E|[E|[E|[E|E]]]]; subst; reflexivity. }
        rewrite AF in Br. simpl in Br.
        assert (NC : sumn mclose (st_main s) = 0).
        { apply sumn_all_zero. intros j pcj Hpj.
          destruct (MainShape1 _ _ Hpj) as [E|[E|[E|[E|E]]]]; subst; reflexivity. }
        destruct (sp_ready (st_pool s)); simpl in *; auto; lia. }
      rewrite Rd, orb_true_r. eauto. }
    assert (MainShape2 : forall j pc, nth_error (st_main s) j = Some pc ->
              pc = MWaitQ \/ pc = MSleep \/ pc = MWaitRec \/ pc = MDone).
    { intros j pc Hj. specialize (NoR j pc Hj).
      destruct (MainShape1 _ _ Hj) as [E|[E|[E|[E|E]]]]; subst; simpl in *; auto; discriminate. }
    assert (Pend0 : sumn mpend (st_main s) = 0).
    { apply sumn_all_zero. intros j pcj Hpj.
      destruct (MainShape2 _ _ Hpj) as [E|[E|[E|E]]]; subst; reflexivity. }
    assert (Hold0 : sumn phold (st_proc s) = 0).
    { apply sumn_all_zero. intros k p Hk. destruct p as [o src pc].
      destruct (ProcShape _ _ Hk) as [E|[E _]]; simpl in E; subst; reflexivity. }
    (* 5. a queued message can be received *)
    destruct (st_flight s) as [|q fl] eqn:Fl.
    2:{ assert (Hq : In q (st_flight s)) by (rewrite Fl; left; reflexivity).
        destruct (il_flight _ L q Hq) as [Ha Hb].
        destruct (il_edges _ L _ _ Ha Hb) as (k & p & Hk & Ho & Hs).
        apply (Done (TP k)); [|discriminate].
        simpl. rewrite Hk. unfold step_proc. rewrite Hs, Ho.
        destruct (ProcShape _ _ Hk) as [E|[E _]].
        - exfalso. pose proof (id_pend _ _ D k p _ Hk Hs E) as Ec. rewrite Ho in Ec.
          unfold edge_closed in Ec. apply Nat.ltb_lt in Ec.
          assert (Q : sp_quiet (st_pool s) = true) by (apply (closed_quiet W s (q_src q) I Ha); lia).
          pose proof (quiet_zero _ _ I Q) as Z. rewrite Fl in Z. simpl in Z. lia.
        - rewrite E.
          destruct (take_first (q_src q) (q_dst q) (st_flight s)) as [[x r]|] eqn:T.
          + destruct (st_cancel s); eauto.
          + exfalso. eapply take_first_none; eauto. }
    (* 6. the latch is closed *)
    assert (Q : sp_quiet (st_pool s) = true).
    { pose proof (ia_inflight _ A) as Ai. rewrite Pend0, Hold0, Fl in Ai. simpl in Ai.
      pose proof (proj2 (ia_zero _ A) Ai) as Z.
      assert (N2 : nD2 s = 0).
      { unfold nD2. rewrite (sumn_all_zero md2), (sumn_all_zero pd2); auto.
        - intros k p Hk. destruct p as [o src pc].
          destruct (ProcShape _ _ Hk) as [E|[E _]]; simpl in E; subst; reflexivity.
        - intros j pcj Hpj. destruct (MainShape2 _ _ Hpj) as [E|[E|[E|E]]]; subst; reflexivity. }
      assert (N3 : nD3 s = 0).
      { unfold nD3. rewrite (sumn_all_zero md3), (sumn_all_zero pd3); auto.
        - intros k p Hk. destruct p as [o src pc].
          destruct (ProcShape _ _ Hk) as [E|[E _]]; simpl in E; subst; reflexivity.
        - intros j pcj Hpj. destruct (MainShape2 _ _ Hpj) as [E|[E|[E|E]]]; subst; reflexivity. }
      pose proof (ia_d3 _ A) as Ad. rewrite N3 in Ad.
      destruct Z as [Z|Z]; [|lia]. rewrite Z in Ad.
      destruct (sp_quiet (st_pool s)); simpl in *; auto; lia. }
    destruct (sumn_cases (at_pc MWaitQ) (st_main s)) as [(i & pc & Hi & Hp)|NoQ].
    { apply (Done (TM i)); [|discriminate].
      assert (pc = MWaitQ) by (apply at_pc_eq; destruct pc; simpl in *; lia). subst pc.
      simpl. rewrite Hi. simpl. rewrite Q. eauto. }
    assert (MainShape3 : forall j pc, nth_error (st_main s) j = Some pc ->
              pc = MSleep \/ pc = MWaitRec \/ pc = MDone).
    { intros j pc Hj. specialize (NoQ j pc Hj).
      destruct (MainShape2 _ _ Hj) as [E|[E|[E|E]]]; subst; simpl in *; auto; discriminate. }
    (* 7. the wake chain *)
    destruct (sumn_cases (at_pc MSleep) (st_main s)) as [(i & pc & Hi & Hp)|NoS].
    { assert (pc = MSleep) by (apply at_pc_eq; destruct pc; simpl in *; lia). subst pc.
      destruct (sleeper_enabled (st_n s) i Hi ltac:(lia) MainShape3) as (j & s' & Hs').
      exists (TM j), s'. split; [discriminate|auto]. }
    assert (MainShape4 : forall j pc, nth_error (st_main s) j = Some pc -> pc = MWaitRec \/ pc = MDone).
    { intros j pc Hj. specialize (NoS j pc Hj).
      destruct (MainShape3 _ _ Hj) as [E|[E|E]]; subst; simpl in *; auto; discriminate. }
    (* 8. every queue is closed and empty: the goroutines of the cyclical senders return *)
    destruct (sumn_cases p_recv (st_proc s)) as [(k & p & Hk & Hp)|NoRecv].
    { apply (Done (TP k)); [|discriminate].
      destruct (ProcShape _ _ Hk) as [E|[E [a Ea]]]; [unfold p_recv in Hp; rewrite E in Hp; lia|].
      simpl. rewrite Hk. unfold step_proc. rewrite E, Ea, Fl. simpl.
      destruct (il_proc _ L _ _ Hk) as [Lo Ls]. specialize (Ls a Ea).
      assert (Hal : a < length (st_main s)) by (rewrite (il_main _ L); auto).
      destruct (nth_error_ex _ _ Hal) as [pca Hpa].
      destruct (ic_closed _ C a pca Hpa) as [Ecl _].
      assert (Ecp : cpos (st_n s) pca = st_n s) by (destruct (MainShape4 _ _ Hpa); subst; reflexivity).
      unfold edge_closed. rewrite Ecl, Ecp.
      replace (p_owner p <? st_n s) with true by (symmetry; apply Nat.ltb_lt; auto). eauto. }
    (* 9. wgRecursive.Wait() *)
    destruct (sumn_cases (at_pc MWaitRec) (st_main s)) as [(i & pc & Hi & Hp)|NoW].
    { apply (Done (TM i)); [|discriminate].
      assert (pc = MWaitRec) by (apply at_pc_eq; destruct pc; simpl in *; lia). subst pc.
      simpl. rewrite Hi. simpl.
      assert (Rd : rec_done i (st_proc s) = true).
      { unfold rec_done. apply forallb_forall. intros p Hp'.
        apply In_nth_error in Hp' as [k Hk]. destruct (ProcShape k p Hk) as [E|[E _]].
        - rewrite E. destruct (p_src p); auto. apply orb_true_r.
        - specialize (NoRecv k p Hk). unfold p_recv in NoRecv. rewrite E in NoRecv. discriminate. }
      rewrite Rd. eauto. }
    (* 10. everything has returned *)
    exfalso. unfold final in Hf. apply andb_false_iff in Hf as [Hf|Hf].
    - assert (X : forallb main_terminal (st_main s) = true); [|congruence].
      apply forallb_forall. intros pc Hpc. apply In_nth_error in Hpc as [j Hj].
      specialize (NoW j pc Hj). destruct (MainShape4 _ _ Hj); subst; simpl in *; auto; discriminate.
    - assert (X : forallb (fun p => is_pend (p_pc p)) (st_proc s) = true); [|congruence].
      apply forallb_forall. intros p Hp. apply In_nth_error in Hp as [k Hk].
      destruct (ProcShape _ _ Hk) as [E|[E _]]; [rewrite E; reflexivity|].
      specialize (NoRecv k p Hk). unfold p_recv in NoRecv. rewrite E in NoRecv. discriminate.
  Qed.
End Progress.

(* ======================================================================================= *)
(* quiescence_complete                                                                       *)
(* ======================================================================================= *)

(* when the in-flight count is zero the latch is closed, or the thread that brought the count
   to zero is inside the tail of dec() and closes it with its next one or two operations *)
Theorem latch_closes W s :
  Inv W s -> sp_inflight (st_pool s) = 0%Z ->
  sp_quiet (st_pool s) = true \/
  exists t s1, t <> TC /\ step s t = Some s1 /\
               (sp_quiet (st_pool s1) = true \/
                exists s2, step s1 t = Some s2 /\ sp_quiet (st_pool s2) = true).
Proof.
  intros I Z. destruct (sp_quiet (st_pool s)) eqn:Q; [left; reflexivity|right].
  pose proof (ia_d3 _ (iA _ _ I)) as Ad. rewrite Q in Ad. simpl in Ad.
  destruct (sp_zero (st_pool s)) eqn:Zr; simpl in Ad.
  - (* the Swap has been done: somebody is about to close *)
    unfold nD3 in Ad.
    destruct (sumn_cases md3 (st_main s)) as [(i & pc & Hi & Hp)|N3].
    + assert (pc = MDec3) by (destruct pc; simpl in Hp; try lia; reflexivity). subst pc.
      exists (TM i). eexists. split; [discriminate|]. split.
      * simpl. rewrite Hi. simpl. reflexivity.
      * left. simpl. unfold a_close_quiet. rewrite Q. reflexivity.
    + rewrite (sumn_all_zero md3) in Ad by assumption.
      destruct (sumn_pos_ex pd3 (st_proc s) ltac:(lia)) as (k & p & Hk & Hp).
      destruct p as [o src pc].
      exists (TP k).
      destruct pc; simpl in Hp; try lia.
      * eexists. split; [discriminate|]. split; [simpl; rewrite Hk; unfold step_proc; simpl; reflexivity|].
        left. simpl. unfold a_close_quiet. rewrite Q. reflexivity.
      * eexists. split; [discriminate|]. split; [simpl; rewrite Hk; unfold step_proc; simpl; reflexivity|].
        left. simpl. unfold a_close_quiet. rewrite Q. reflexivity.
  - (* the Swap is still to be done by a thread that saw zero *)
    pose proof (proj2 (ia_zero _ (iA _ _ I)) Z) as [X|N2]; [congruence|].
    unfold nD2 in N2.
    destruct (sumn_cases md2 (st_main s)) as [(i & pc & Hi & Hp)|N2m].
    + assert (pc = MDec2) by (destruct pc; simpl in Hp; try lia; reflexivity). subst pc.
      assert (Hil : i < length (st_main s)) by (eapply nth_error_lt; eauto).
      exists (TM i). eexists. split; [discriminate|]. split.
      * simpl. rewrite Hi. simpl. rewrite Zr. reflexivity.
      * right. eexists. split.
        -- simpl. rewrite nth_error_upd_eq by assumption. simpl. reflexivity.
        -- simpl. unfold a_close_quiet. simpl. rewrite Q. reflexivity.
    + rewrite (sumn_all_zero md2) in N2 by assumption.
      destruct (sumn_pos_ex pd2 (st_proc s) ltac:(lia)) as (k & p & Hk & Hp).
      assert (Hkl : k < length (st_proc s)) by (eapply nth_error_lt; eauto).
      destruct p as [o src pc].
      exists (TP k).
      destruct pc; simpl in Hp; try lia.
      * eexists. split; [discriminate|]. split;
          [simpl; rewrite Hk; unfold step_proc; simpl; rewrite Zr; reflexivity|].
        right. eexists. split.
        -- simpl. rewrite nth_error_upd_eq by assumption. unfold step_proc. simpl. reflexivity.
        -- simpl. unfold a_close_quiet. simpl. rewrite Q. reflexivity.
      * eexists. split; [discriminate|]. split;
          [simpl; rewrite Hk; unfold step_proc; simpl; rewrite Zr; reflexivity|].
        right. eexists. split.
        -- simpl. rewrite nth_error_upd_eq by assumption. unfold step_proc. simpl. reflexivity.
        -- simpl. unfold a_close_quiet. simpl. rewrite Q. reflexivity.
Qed.

(* all members ready and nothing in flight or held means the counter is zero *)
Lemma quiescent_zero W s : Inv W s -> quiescent s -> sp_inflight (st_pool s) = 0%Z.
Proof.
  intros I (Hm & Hf & Hp). rewrite (ia_inflight _ (iA _ _ I)), Hf.
  rewrite (sumn_all_zero mpend) by assumption.
  rewrite (sumn_all_zero phold); [reflexivity|].
  intros k p Hk. specialize (Hp k p Hk). destruct p as [o src pc]. unfold idle in Hp.
  destruct pc; simpl in *; tauto.
Qed.

Section Completes.
  Variables (n np : nat) (std : list (nat * list msg)).
  Hypothesis Hn : 1 <= n.
  Hypothesis Hnp : 1 <= np.
  Let s0 := init n np std.

  Theorem quiescence_complete_latch s :
    reach s0 s -> quiescent s ->
    sp_quiet (st_pool s) = true \/
    exists t s1, t <> TC /\ step s t = Some s1 /\
                 (sp_quiet (st_pool s1) = true \/
                  exists s2, step s1 t = Some s2 /\ sp_quiet (st_pool s2) = true).
  Proof.
    intros R Qs. pose proof (rI n np std Hn Hnp s R) as I.
    eapply latch_closes; eauto. eapply quiescent_zero; eauto.
  Qed.

  (* no deadlock: a state in which no goroutine can take a step is torn down *)
  Theorem no_deadlock_l s :
    reach s0 s -> (forall t, t <> TC -> step s t = None) -> final s = true.
  Proof.
    intros R Hstuck. destruct (final s) eqn:F; auto.
    destruct (progress _ _ (rI n np std Hn Hnp s R) F) as (t & s' & Ht & Hs).
    rewrite (Hstuck t Ht) in Hs. discriminate.
  Qed.

  (* from every reachable state the goroutines alone (no cancellation needed) can finish, and
     every schedule is finite: no run is longer than [measure s] *)
  Theorem teardown_completes_l s :
    reach s0 s -> exists sched s', steps s sched s' /\ final s' = true /\ ~ In TC sched.
  Proof.
    intro R. remember (measure s) as m eqn:Em. revert s R Em.
    induction m as [m IH] using lt_wf_ind. intros s R Em.
    destruct (final s) eqn:F.
    - exists [], s. split; [constructor|]. split; auto.
    - destruct (progress _ _ (rI n np std Hn Hnp s R) F) as (t & s1 & Ht & Hs).
      pose proof (step_decreases _ _ _ Hs) as Hd.
      destruct (IH (measure s1) ltac:(lia) s1 ltac:(eapply reach_step; eauto) eq_refl)
        as (sched & s' & St & Fs & Nc).
      exists (t :: sched), s'. split; [econstructor; eauto|]. split; auto.
      intros [X|X]; [congruence|auto].
  Qed.

  (* a member closes its first listener only after the latch has closed, i.e. after every member's
     standard inputs are exhausted and no cyclical message is in flight (cancelled or not) *)
  Theorem teardown_after_quiescence_l s i :
    reach s0 s -> i < n -> 0 < nth i (st_closed s) 0 ->
    sp_quiet (st_pool s) = true /\ quiescent s.
  Proof.
    intros R Hi Hc. pose proof (rI n np std Hn Hnp s R) as I.
    assert (En : st_n s = n) by (eapply st_n_const; eauto).
    assert (Q : sp_quiet (st_pool s) = true) by (apply (closed_quiet _ s i I); lia).
    split; auto. exact (quiet_quiescent n np std Hn Hnp s R Q).
  Qed.
End Completes.

Lemma reach_run_rr s0 fuel : forall s, reach s0 s -> reach s0 (run_rr fuel s).
Proof.
  induction fuel as [|f IH]; intros s R; simpl; auto.
  destruct (final s); auto. apply IH. apply reach_run. exact R.
Qed.
