(* Consequences of the invariant of Conc/CycleGroupProofs.v: soundness and completeness of the
   quiescence latch, the ordered teardown, conservation of work, absence of deadlock and
   termination of every schedule. *)
From OFGA Require Import Conc.StatusPool Conc.StatusPoolProofs Conc.CycleGroup Conc.CycleGroupProofs.
From Coq Require Import ZifyBool.

Lemma reach_trans s0 s1 s2 : reach s0 s1 -> reach s1 s2 -> reach s0 s2.
Proof. intros R1 R2. induction R2; auto. eapply reach_step; eauto. Qed.

(* a goroutine that neither holds a counted message nor has anything left to send *)
Definition idle (p : proc) : Prop :=
  match p_pc p with PRecv | PEnd | PFin2 | PFin3 => True | _ => False end.

(* every member has released its initial unit, no cyclical message is queued, and no goroutine
   holds one or can still create one *)
Definition quiescent (s : state) : Prop :=
  (forall i pc, nth_error (st_main s) i = Some pc -> mpend pc = 0) /\
  st_flight s = [] /\
  (forall k p, nth_error (st_proc s) k = Some p -> idle p).

Lemma zero_quiescent W s :
  Inv W s -> sp_inflight (st_pool s) = 0%Z -> quiescent s.
Proof.
  intros I Z. pose proof (ia_inflight _ (iA _ _ I)) as Ai. rewrite Z in Ai.
  assert (Hm : sumn mpend (st_main s) = 0) by lia.
  assert (Hp : sumn phold (st_proc s) = 0) by lia.
  assert (Hf : length (st_flight s) = 0) by lia.
  split; [|split].
  - intros i pc Hi. eapply sumn_zero; eauto.
  - destruct (st_flight s); simpl in *; auto; lia.
  - intros k p Hk. pose proof (sumn_zero phold _ _ _ Hp Hk) as H0.
    destruct p as [o [a|] pc]; unfold idle; simpl in *.
    + destruct pc; simpl in *; auto; lia.
    + destruct pc; simpl in *; auto; try lia;
        match goal with
        | |- False =>
          assert (Hw : nth_error (st_main s) o = Some MWaitStd)
            by (apply (ia_std _ (iA _ _ I) k _ Hk eq_refl); simpl; discriminate);
          pose proof (sumn_zero mpend _ _ _ Hm Hw) as X; simpl in X; lia
        end.
Qed.

Lemma latch_monotone_step W s t s' :
  Inv W s -> step s t = Some s' -> sp_quiet (st_pool s) = true -> sp_quiet (st_pool s') = true.
Proof.
  intros I H Q. destruct t as [i|k|]; simpl in H.
  - destruct (nth_error (st_main s) i) as [pc|] eqn:Hi; [|discriminate].
    unfold step_main, after_wait in H.
    destruct pc; simpl in H; unfold a_lock, a_set_body, a_close_ready, a_close_quiet, a_unlock in H;
      simpl in H; step_cases H; simpl; auto; rewrite ?Q; auto;
      unfold w_wake; simpl; repeat match goal with |- context[if ?c then _ else _] => destruct c end; simpl; auto.
  - destruct (nth_error (st_proc s) k) as [pr|] eqn:Hk; [|discriminate].
    eapply step_proc_latch; eauto. apply (iA _ _ I).
  - destruct (st_cancel s); [discriminate|]. inversion H; subst. auto.
Qed.

Section Reachable.
  Variables (n np : nat) (std : list (nat * list msg)).
  Hypothesis Hn : 1 <= n.
  Hypothesis Hnp : 1 <= np.
  Let s0 := init n np std.
  Let W := workload std.

  Lemma rI s : reach s0 s -> Inv W s.
  Proof. intro R. unfold s0, W in *. exact (reach_Inv n np std s Hn Hnp R). Qed.

  (* ---- inflight_invariant ------------------------------------------------------------------- *)
  Theorem inflight_invariant_l s :
    reach s0 s ->
    sp_inflight (st_pool s) =
    Z.of_nat (sumn mpend (st_main s) + sumn phold (st_proc s) + length (st_flight s)).
  Proof. intro R. apply (ia_inflight _ (iA _ _ (rI s R))). Qed.

  (* ---- quiescence_sound ----------------------------------------------------------------------- *)
  Lemma quiet_quiescent s : reach s0 s -> sp_quiet (st_pool s) = true -> quiescent s.
  Proof.
    intros R Q. pose proof (rI s R) as I. eapply zero_quiescent; eauto.
    pose proof (quiet_zero _ _ I Q). pose proof (ia_inflight _ (iA _ _ I)). lia.
  Qed.

  Lemma latch_monotone s s' : reach s0 s -> reach s s' -> sp_quiet (st_pool s) = true ->
                              sp_quiet (st_pool s') = true.
  Proof.
    intros R R' Q. induction R' as [|s1 t s2 R1 IH H]; auto.
    eapply latch_monotone_step; eauto. apply rI. eapply reach_trans; eauto.
  Qed.

  Theorem quiescence_sound_l s :
    reach s0 s -> sp_quiet (st_pool s) = true ->
    forall s', reach s s' -> quiescent s'.
  Proof.
    intros R Q s' R'. apply quiet_quiescent.
    - eapply reach_trans; eauto.
    - eapply latch_monotone; eauto.
  Qed.

  (* the latch is never closed twice, the ready channel neither, wake channels neither *)
  Theorem no_panic_l s : reach s0 s -> sp_panic (st_pool s) = false.
  Proof. intro R. apply (ic_panic _ (iC _ _ (rI s R))). Qed.

  (* ---- no_lost_work ------------------------------------------------------------------------------ *)
  Lemma idle_psize p : idle p -> psize p = 0.
  Proof. destruct p as [o src pc]. unfold idle. destruct pc; simpl; tauto. Qed.

  Theorem no_lost_work_l s i :
    reach s0 s -> st_cancel s = false ->
    st_lost s = 0 /\
    (i < n -> 0 < nth i (st_closed s) 0 -> quiescent s /\ st_processed s = W).
  Proof.
    intros R Hc. pose proof (rI s R) as I. destruct (iD _ _ I) as [Dc Dl _].
    split; [auto|]. intros Hi Hcl.
    assert (En : st_n s = n).
    { clear -R. induction R as [|s t s' R IH H]; [reflexivity|].
      destruct t as [i|k|]; simpl in H.
      - destruct (nth_error (st_main s) i); [|discriminate].
        destruct (step_main_frame _ _ _ _ H) as (F & _). congruence.
      - destruct (nth_error (st_proc s) k); [|discriminate].
        destruct (step_proc_frame _ _ _ _ H) as (F & _). congruence.
      - destruct (st_cancel s); [discriminate|]. inversion H; subst. auto. }
    assert (Q : sp_quiet (st_pool s) = true) by (eapply closed_quiet; eauto; lia).
    pose proof (quiet_quiescent s R Q) as Qs. split; auto.
    destruct Qs as (_ & Hf & Hp). rewrite Hf in Dc. simpl in Dc.
    rewrite (sumn_all_zero psize) in Dc by (intros k p Hk; apply idle_psize; eauto).
    rewrite (Dl Hc) in Dc. lia.
  Qed.

  (* ---- teardown_order / wake_chain_total ------------------------------------------------------- *)
  Lemma st_n_const s : reach s0 s -> st_n s = n.
  Proof.
    intro R. induction R as [|s t s' R IH H]; [reflexivity|].
    destruct t as [i|k|]; simpl in H.
    - destruct (nth_error (st_main s) i); [|discriminate].
      destruct (step_main_frame _ _ _ _ H) as (F & _). congruence.
    - destruct (nth_error (st_proc s) k); [|discriminate].
      destruct (step_proc_frame _ _ _ _ H) as (F & _). congruence.
    - destruct (st_cancel s); [discriminate|]. inversion H; subst. auto.
  Qed.

  Lemma evs_prefix m i pc : (forall k, pc = MCleanup k -> k < m) ->
                            exists r, evs m i pc ++ r = member_events m i.
  Proof.
    intro Hk. unfold member_events. destruct pc; simpl; eauto.
    - specialize (Hk k eq_refl).
      exists (map (EClose i) (seq k (m - k)) ++ [EWake (nxt m i)]).
      rewrite app_assoc, <- map_app. replace m with (k + (m - k)) at 3 by lia.
      rewrite seq_app. reflexivity.
    - exists []. rewrite app_nil_r. reflexivity.
    - exists []. rewrite app_nil_r. reflexivity.
  Qed.

  Lemma log_prefix s m :
    InvL s -> InvC s -> m <= st_n s ->
    exists rest, log_from (st_n s) (st_main s) m ++ rest = canon_from (st_n s) m.
  Proof.
    intros L C. induction m as [|j IH]; intro Hm; simpl.
    - exists []. reflexivity.
    - assert (Hjl : j < length (st_main s)) by (rewrite (il_main _ L); lia).
      destruct (nth_error_ex _ _ Hjl) as [pcj Hpj].
      rewrite (nth_of_nth_error _ _ _ MWaitStd Hpj).
      destruct (Nat.eq_dec (tphase pcj) 2) as [E2|N2].
      + destruct (IH ltac:(lia)) as [rest Hr]. exists rest.
        assert (Ev : evs (st_n s) j pcj = member_events (st_n s) j)
          by (destruct pcj; simpl in E2; try discriminate; reflexivity).
        rewrite Ev, <- app_assoc, Hr. reflexivity.
      + assert (Hnil : log_from (st_n s) (st_main s) j = []).
        { apply log_from_nil. intros j' Hj'.
          assert (Hjl' : j' < length (st_main s)) by lia.
          destruct (nth_error_ex _ _ Hjl') as [pc' Hp'].
          rewrite (nth_of_nth_error _ _ _ MWaitStd Hp').
          destruct (tphase pc') eqn:T; auto.
          destruct (ic_order _ C j' pc' Hp' ltac:(lia)) as [_ O].
          specialize (O j pcj Hj' Hpj). contradiction. }
        destruct (evs_prefix (st_n s) j pcj) as [r Hr].
        { intros k Ek. apply (proj2 (ic_closed _ C j pcj Hpj) k Ek). }
        exists (r ++ canon_from (st_n s) j). rewrite Hnil, app_nil_r, app_assoc, Hr. reflexivity.
  Qed.

  Theorem teardown_order_l s :
    reach s0 s -> exists rest, st_log s ++ rest = canon_log n.
  Proof.
    intro R. pose proof (rI s R) as I. pose proof (st_n_const s R) as En.
    rewrite (ic_log _ (iC _ _ I)). unfold canon_log. rewrite <- En.
    apply log_prefix; auto. apply (iL _ _ I). apply (iC _ _ I).
  Qed.

  Lemma final_mains s i pc : final s = true -> nth_error (st_main s) i = Some pc -> pc = MDone.
  Proof.
    unfold final. intros F Hi. apply andb_true_iff in F as [F _].
    rewrite forallb_forall in F. specialize (F pc (nth_error_In _ _ Hi)).
    destruct pc; simpl in F; try discriminate. reflexivity.
  Qed.

  Theorem wake_chain_total_l s :
    reach s0 s -> final s = true -> st_log s = canon_log n.
  Proof.
    intros R F. pose proof (rI s R) as I. pose proof (st_n_const s R) as En.
    rewrite (ic_log _ (iC _ _ I)). unfold canon_log. rewrite En.
    assert (G : forall m, m <= n -> log_from n (st_main s) m = canon_from n m).
    { induction m as [|j IH]; intro Hm; simpl; auto.
      assert (Hjl : j < length (st_main s)) by (rewrite (il_main _ (iL _ _ I)); lia).
      destruct (nth_error_ex _ _ Hjl) as [pcj Hpj].
      rewrite (nth_of_nth_error _ _ _ MWaitStd Hpj), (final_mains _ _ _ F Hpj), IH by lia.
      reflexivity. }
    apply G. lia.
  Qed.
End Reachable.
