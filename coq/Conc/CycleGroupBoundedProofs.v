(* The hypothesis "a Send on a cyclical edge never blocks" and its necessity. *)
From OFGA Require Import Conc.StatusPool Conc.StatusPoolProofs Conc.CycleGroup Conc.CycleGroupProofs
  Conc.CycleGroupLive Conc.CycleGroupBounded.

(* in the model of Conc/CycleGroup.v a goroutine that is at Send can always execute it (the
   message is enqueued, or the Send fails because the queue is closed / the context cancelled) *)
Lemma cyclic_send_never_blocks_l s k pr m r :
  nth_error (st_proc s) k = Some pr -> p_pc pr = PSend m r -> exists s', step s (TP k) = Some s'.
Proof.
  intros Hk Hpc. eapply nb_proc_enabled; eauto.
  destruct pr as [o src pc]. simpl in *. subst pc. destruct src; reflexivity.
Qed.

(* where the bounded variant does not park it is the unbounded model *)
Lemma step_bounded_agrees cap s t :
  (forall k, t = TP k -> send_parks cap s k = false) -> step_bounded cap s t = step s t.
Proof.
  intro H. destruct t as [i|k|]; simpl; auto. rewrite (H k eq_refl). reflexivity.
Qed.

Lemma stuck_bounded_spec cap s :
  stuck_bounded cap s = true -> forall t, t <> TC -> step_bounded cap s t = None.
Proof.
  unfold stuck_bounded, all_tids. intros H t Ht. rewrite forallb_forall in H.
  destruct t as [i|k|]; [| |congruence].
  - destruct (Nat.lt_ge_cases i (length (st_main s))) as [Hl|Hg].
    + specialize (H (TM i)). destruct (step_bounded cap s (TM i)); auto.
      assert (X : false = true); [|discriminate]. apply H.
      apply in_or_app. left. apply in_map. apply in_seq. lia.
    + simpl. apply nth_error_None in Hg. rewrite Hg. reflexivity.
  - destruct (Nat.lt_ge_cases k (length (st_proc s))) as [Hl|Hg].
    + specialize (H (TP k)). destruct (step_bounded cap s (TP k)); auto.
      assert (X : false = true); [|discriminate]. apply H.
      apply in_or_app. right. apply in_map. apply in_seq. lia.
    + simpl. unfold send_parks. apply nth_error_None in Hg. rewrite Hg. reflexivity.
Qed.

(* one member whose single goroutine receives a message with four children, queue capacity 2:
   after two children are queued the third Send parks, and the parked goroutine is the only
   receiver of that queue *)
Definition bq_std : list (nat * list msg) := [(0, [Msg 0 [Msg 0 []; Msg 0 []; Msg 0 []; Msg 0 []]])].
Definition bq_state : state :=
  run_bounded 2 (init 1 1 bq_std) (flat_map (fun _ => [TP 1; TP 0; TM 0]) (seq 0 40)).

Lemma bounded_queue_deadlock_l :
  (forall t, t <> TC -> step_bounded 2 bq_state t = None) /\
  final bq_state = false /\ sp_quiet (st_pool bq_state) = false /\ st_cancel bq_state = false /\
  edge_len bq_state 0 0 = 2.
Proof.
  split; [apply stuck_bounded_spec; vm_compute; reflexivity|].
  vm_compute. auto.
Qed.
