(* C22 — consequences of a history being accepted by the FIFO channel specification. *)
From OFGA Require Import Conc.FifoSpec Conc.MpmcLemmas.
From Coq Require Import Lia.

Lemma spec_step_closed_mono c e c' : spec_step c e = Some c' -> c_closed c = true -> c_closed c' = true.
Proof.
  destruct c as [q cl]; destruct e; simpl; intros H Hc; subst cl; simpl in *;
    try discriminate; try (injection H as <-; reflexivity).
  - destruct q as [|x q]; [discriminate|]. destruct (N.eqb x v); [|discriminate].
    injection H as <-. reflexivity.
  - destruct q; [|discriminate]. injection H as <-. reflexivity.
Qed.

(* the dequeued sequence is a prefix of the enqueued sequence; the rest is the buffer *)
Lemma run_spec_fifo c0 evs c : run_spec c0 evs = Some c ->
  c_buf c0 ++ enqs evs = deqs evs ++ c_buf c.
Proof.
  revert c0. induction evs as [|e evs IH]; intros c0 H; simpl in *.
  - injection H as <-. rewrite app_nil_r. reflexivity.
  - destruct (spec_step c0 e) as [c1|] eqn:E; [|discriminate].
    specialize (IH _ H). destruct c0 as [q cl]. destruct e; simpl in *.
    + destruct cl; [discriminate|]. injection E as <-. simpl in IH.
      rewrite <- IH, <- app_assoc. reflexivity.
    + destruct cl; [|discriminate]. injection E as <-. exact IH.
    + destruct q as [|x q]; [discriminate|]. destruct (N.eqb_spec x v); [|discriminate].
      injection E as <-. simpl in IH. subst x. simpl. f_equal. exact IH.
    + destruct q; [|discriminate]. destruct cl; [|discriminate]. injection E as <-. exact IH.
    + injection E as <-. exact IH.
    + injection E as <-. exact IH.
Qed.

Lemma legal_fifo evs : legal evs -> exists pending, enqs evs = deqs evs ++ pending.
Proof. intros [c H]. exists (c_buf c). apply (run_spec_fifo chan0 evs c H). Qed.

Lemma run_spec_closed_no_enq c evs c' : run_spec c evs = Some c' -> c_closed c = true ->
  forall e, In e evs -> is_enq e = false.
Proof.
  revert c. induction evs as [|x evs IH]; intros c H Hc e Hin; simpl in *; [contradiction|].
  destruct (spec_step c x) as [c1|] eqn:E; [|discriminate].
  pose proof (spec_step_closed_mono _ _ _ E Hc) as Hc1.
  destruct Hin as [<-|Hin].
  - destruct x; simpl; auto. simpl in E. rewrite Hc in E. discriminate.
  - eapply IH; eauto.
Qed.

Lemma run_spec_split c a b c' : run_spec c (a ++ b) = Some c' ->
  exists c1, run_spec c a = Some c1 /\ run_spec c1 b = Some c'.
Proof.
  rewrite run_spec_app. destruct (run_spec c a) as [c1|]; [|discriminate]. eauto.
Qed.

(* sends after close fail: no enqueue is linearised after a close *)
Lemma legal_no_enq_after_close a t b : legal (a ++ EClose t :: b) ->
  forall e, In e b -> is_enq e = false.
Proof.
  intros [c H]. apply run_spec_split in H as (c1 & H1 & H2). simpl in H2.
  eapply run_spec_closed_no_enq; eauto.
Qed.

Lemma run_spec_closed_mono c evs c' : run_spec c evs = Some c' -> c_closed c = true -> c_closed c' = true.
Proof.
  revert c. induction evs as [|x evs IH]; intros c H Hc; simpl in *.
  - injection H as <-. auto.
  - destruct (spec_step c x) as [c1|] eqn:E; [|discriminate].
    eapply IH; eauto. eapply spec_step_closed_mono; eauto.
Qed.

Lemma run_spec_closed_has_close c evs c' : run_spec c evs = Some c' -> c_closed c = false ->
  c_closed c' = true -> exists t, In (EClose t) evs.
Proof.
  revert c. induction evs as [|x evs IH]; intros c H Hc Hc'; simpl in *.
  - injection H as <-. congruence.
  - destruct (spec_step c x) as [c1|] eqn:E; [|discriminate].
    destruct (c_closed c1) eqn:Hc1.
    + destruct x; simpl in E;
        try (exists t; left; reflexivity).
      * rewrite Hc in E. injection E as <-. discriminate.
      * rewrite Hc in E. discriminate.
      * destruct (c_buf c) as [|y q]; [discriminate|]. destruct (N.eqb y v); [|discriminate].
        injection E as <-. simpl in Hc1. congruence.
      * destruct (c_buf c); [|discriminate]. rewrite Hc in E. discriminate.
      * injection E as <-. congruence.
    + destruct (IH _ H Hc1 Hc') as [t Ht]. exists t. right. exact Ht.
Qed.

(* a failing send is linearised after a close *)
Lemma legal_enqfail_after_close a t b : legal (a ++ EEnqFail t :: b) -> exists u, In (EClose u) a.
Proof.
  intros [c H]. apply run_spec_split in H as (c1 & H1 & H2). simpl in H2.
  destruct (c_closed c1) eqn:Hc; [|discriminate].
  eapply run_spec_closed_has_close; eauto.
Qed.

(* items sent before close remain receivable: a receive fails only when the channel is closed
   and every item enqueued so far has been dequeued *)
Lemma legal_deqfail_drained a t b : legal (a ++ EDeqFail t :: b) ->
  enqs a = deqs a /\ exists u, In (EClose u) a.
Proof.
  intros [c H]. apply run_spec_split in H as (c1 & H1 & H2). simpl in H2.
  destruct (c_buf c1) eqn:Hb; [|discriminate].
  destruct (c_closed c1) eqn:Hc; [|discriminate].
  split.
  - pose proof (run_spec_fifo _ _ _ H1) as F. simpl in F. rewrite Hb, app_nil_r in F. exact F.
  - eapply run_spec_closed_has_close; eauto.
Qed.

(* a dequeue returns the oldest item not yet dequeued *)
Lemma legal_deq_is_next a t v b : legal (a ++ EDeq t v :: b) ->
  nth_error (enqs a) (length (deqs a)) = Some v.
Proof.
  intros [c H]. apply run_spec_split in H as (c1 & H1 & H2). simpl in H2.
  destruct (c_buf c1) as [|x q] eqn:Hb; [discriminate|].
  destruct (N.eqb_spec x v); [|discriminate]. subst x.
  pose proof (run_spec_fifo _ _ _ H1) as F. simpl in F. rewrite Hb in F. rewrite F.
  rewrite nth_error_app2 by lia. rewrite Nat.sub_diag. reflexivity.
Qed.

Lemma legal_prefix a b : legal (a ++ b) -> legal a.
Proof. intros [c H]. apply run_spec_split in H as (c1 & H1 & _). exists c1. exact H1. Qed.
