(* C22 — the MPMC wake-up clause under the single-receiver hypothesis (the way the pipeline uses the
   queue): a parked receiver with an item available always has a token, a closed channel, or a
   sender standing right before its signal; hence the stuck state of Mpmc.lost_wakeup_state is
   unreachable.  With two receivers it is reachable (MpmcProofs.mpmc_lost_wakeup_refuted_lemma). *)
From OFGA Require Import Conc.FifoSpec Conc.Mpmc Conc.MpmcLemmas Conc.MpmcInv Conc.MpmcProofs.
From Coq Require Import Lia.

(* ------------------------------------------------------------------------------------------ *)
(* The wake-up clause for a single receiver (how the pipeline uses the queue): no lost wake-up. *)

Definition recv_pc (p : pc) : bool :=
  match p with
  | R_loadtail | R_loadseq | R_cas | R_read | R_recycle | R_chkdone | R_sig | R_rett | R_empty
  | R_retf | R_unl | R_park | R_relock => true
  | _ => false
  end.
Definition park_set (p : pc) : bool :=
  match p with R_empty | R_unl | R_park => true | _ => false end.
Definition pos_set (p : pc) : bool :=
  match p with R_loadseq | R_cas | R_empty => true | _ => false end.

Definition uniq_recv (T : list thread) : Prop :=
  forall t u th1 th2, nth_error T t = Some th1 -> nth_error T u = Some th2 ->
    recv_pc (tpc th1) = true -> recv_pc (tpc th2) = true -> t = u.

Record WI (G : glob) (T : list thread) : Prop := {
  wi_w : forall r th, nth_error T r = Some th -> park_set (tpc th) = true ->
         item_published G = true ->
         etok G = true \/ eclosed G = true
         \/ exists u thu, nth_error T u = Some thu /\ tpc thu = S_sig;
  wi_p : forall r th, nth_error T r = Some th -> pos_set (tpc th) = true -> r_pos th = tail G
}.

(* at most one program contains a Recv -> at most one thread is ever inside Recv *)
Lemma filter_two {A} (f : A -> bool) (l : list A) i j x y : i <> j ->
  nth_error l i = Some x -> nth_error l j = Some y -> f x = true -> f y = true ->
  2 <= length (filter f l).
Proof.
  revert i j. induction l as [|a l IH]; intros i j Hne Hi Hj Fx Fy.
  - destruct i; discriminate.
  - destruct i as [|i], j as [|j]; simpl in *; try lia.
    + injection Hi as ->. rewrite Fx. simpl.
      assert (In y (filter f l)) by (apply filter_In; split; auto; eapply nth_error_In; eauto).
      destruct (filter f l); simpl in *; [contradiction | lia].
    + injection Hj as ->. rewrite Fy. simpl.
      assert (In x (filter f l)) by (apply filter_In; split; auto; eapply nth_error_In; eauto).
      destruct (filter f l); simpl in *; [contradiction | lia].
    + assert (2 <= length (filter f l)) by (apply (IH i j); auto).
      destruct (f a); simpl; lia.
Qed.

Lemma recv_pc_has_recv progs s t th : Inv progs s -> nth_error (thr s) t = Some th ->
  recv_pc (tpc th) = true -> exists p, nth_error progs t = Some p /\ has_recv p = true.
Proof.
  intros HI Ht Hr. destruct (i_prog _ _ HI _ _ Ht) as [Hop Hpr].
  exists (map op_of (res th) ++ prog th). split; auto.
  unfold has_recv. rewrite existsb_app. apply orb_true_iff. right.
  unfold pc_op in Hop. destruct (tpc th); simpl in Hr; try discriminate;
    destruct Hop as [rest ->]; reflexivity.
Qed.

Lemma single_receiver_uniq progs s : Inv progs s -> multi_receiver progs = false ->
  uniq_recv (thr s).
Proof.
  intros HI Hm t u th1 th2 H1 H2 R1 R2.
  destruct (Nat.eq_dec t u) as [|Hne]; auto. exfalso.
  destruct (recv_pc_has_recv _ _ _ _ HI H1 R1) as (p1 & P1 & F1).
  destruct (recv_pc_has_recv _ _ _ _ HI H2 R2) as (p2 & P2 & F2).
  pose proof (filter_two has_recv progs t u p1 p2 Hne P1 P2 F1 F2) as L.
  unfold multi_receiver in Hm. apply Nat.ltb_ge in Hm. lia.
Qed.

Lemma nth_upd_cases2 (T : list thread) t th th' u thu : nth_error T t = Some th ->
  nth_error (upd t th' T) u = Some thu ->
  (u = t /\ thu = th') \/ (u <> t /\ nth_error T u = Some thu).
Proof.
  intros Ht H. destruct (Nat.eq_dec u t) as [->|Hne].
  - left. rewrite nth_error_upd_eq in H by (eapply nth_error_lt; eauto). split; congruence.
  - right. rewrite nth_error_upd_ne in H by auto. auto.
Qed.

(* class A: the token and the closed bit only grow, "item published" does not become true,
   the tail stays, and the stepping thread does not enter the park set *)
Lemma wi_classA (G : glob) (T : list thread) t (th : thread) (G' : glob) (th' : thread) : WI G T -> nth_error T t = Some th ->
  (etok G = true -> etok G' = true) -> (eclosed G = true -> eclosed G' = true) ->
  (item_published G' = true -> item_published G = true) -> tail G' = tail G ->
  (tpc th = S_sig -> etok G' = true) ->
  (park_set (tpc th') = true -> park_set (tpc th) = true) ->
  (pos_set (tpc th') = true ->
     (pos_set (tpc th) = true /\ r_pos th' = r_pos th) \/ r_pos th' = tail G') ->
  WI G' (upd t th' T).
Proof.
  intros [W P] Ht He Hc Hp Htl Hsig Hpark Hpos. constructor.
  - intros r thr Hr Pr Ip.
    assert (Ex : exists th0, nth_error T r = Some th0 /\ park_set (tpc th0) = true).
    { apply (nth_upd_cases2 _ _ _ _ _ _ Ht) in Hr as [[-> ->]|[Hne Hr]]; eauto. }
    destruct Ex as (th0 & H0 & P0).
    destruct (W r th0 H0 P0 (Hp Ip)) as [A|[A|(u & thu & Hu & Su)]]; auto.
    destruct (Nat.eq_dec u t) as [->|Hne].
    + left. apply Hsig. congruence.
    + right. right. exists u, thu. rewrite nth_error_upd_ne by auto. auto.
  - intros r thr Hr Pr. rewrite Htl.
    apply (nth_upd_cases2 _ _ _ _ _ _ Ht) in Hr as [[-> ->]|[Hne Hr]].
    + destruct (Hpos Pr) as [[A B]|B]; [rewrite B; apply (P t th); auto | congruence].
    + apply (P r thr); auto.
Qed.

(* steps of the (unique) receiver that do not end in the park set *)
Lemma wi_recv (G : glob) (T : list thread) t (th : thread) (G' : glob) (th' : thread) : uniq_recv T -> nth_error T t = Some th ->
  recv_pc (tpc th) = true -> park_set (tpc th') = false ->
  (pos_set (tpc th') = true -> r_pos th' = tail G') ->
  WI G' (upd t th' T).
Proof.
  intros U Ht Hr Hpark Hpos.
  assert (Hsub : forall p, park_set p = true \/ pos_set p = true -> recv_pc p = true)
    by (intros p [H|H]; destruct p; simpl in *; auto; discriminate).
  constructor.
  - intros r thr Hr' Pr _.
    apply (nth_upd_cases2 _ _ _ _ _ _ Ht) in Hr' as [[-> ->]|[Hne Hr']]; [congruence|].
    exfalso. apply Hne. apply (U r t thr th); auto.
  - intros r thr Hr' Pr.
    apply (nth_upd_cases2 _ _ _ _ _ _ Ht) in Hr' as [[-> ->]|[Hne Hr']]; auto.
    exfalso. apply Hne. apply (U r t thr th); auto.
Qed.

(* publishing: the publisher itself becomes the witness *)
Lemma wi_pub (G : glob) (T : list thread) t (th : thread) (G' : glob) (th' : thread) : WI G T -> nth_error T t = Some th ->
  tail G' = tail G -> tpc th' = S_sig -> recv_pc (tpc th) = false ->
  WI G' (upd t th' T).
Proof.
  intros [W P] Ht Htl Hs Hr. constructor.
  - intros r thr Hr' Pr _. right. right. exists t, th'.
    rewrite nth_error_upd_eq by (eapply nth_error_lt; eauto). auto.
  - intros r thr Hr' Pr. rewrite Htl.
    apply (nth_upd_cases2 _ _ _ _ _ _ Ht) in Hr' as [[-> ->]|[Hne Hr']].
    + rewrite Hs in Pr. discriminate.
    + apply (P r thr); auto.
Qed.

(* every step of the (unique) receiver *)
Lemma wi_recv' (G : glob) (T : list thread) t (th : thread) (G' : glob) (th' : thread) :
  uniq_recv T -> nth_error T t = Some th -> recv_pc (tpc th) = true ->
  (park_set (tpc th') = true -> item_published G' = true ->
     etok G' = true \/ eclosed G' = true
     \/ exists u thu, u <> t /\ nth_error T u = Some thu /\ tpc thu = S_sig) ->
  (pos_set (tpc th') = true -> r_pos th' = tail G') ->
  WI G' (upd t th' T).
Proof.
  intros U Ht Hr Hpark Hpos.
  assert (Hsub : forall p, park_set p = true \/ pos_set p = true -> recv_pc p = true)
    by (intros p [H|H]; destruct p; simpl in *; auto; discriminate).
  constructor.
  - intros r thr Hr' Pr Ip.
    apply (nth_upd_cases2 _ _ _ _ _ _ Ht) in Hr' as [[-> ->]|[Hne Hr']].
    + destruct (Hpark Pr Ip) as [A|[A|(u & thu & Hne & Hu & Su)]]; auto.
      right. right. exists u, thu. rewrite nth_error_upd_ne by auto. auto.
    + exfalso. apply Hne. apply (U r t thr th); auto.
  - intros r thr Hr' Pr.
    apply (nth_upd_cases2 _ _ _ _ _ _ Ht) in Hr' as [[-> ->]|[Hne Hr']]; auto.
    exfalso. apply Hne. apply (U r t thr th); auto.
Qed.

Lemma ip_same (G G' : glob) : slots G' = slots G -> cap G' = cap G -> head G' = head G ->
  tail G' = tail G -> item_published G' = item_published G.
Proof.
  intros E1 E2 E3 E4. unfold item_published, seq_at, slot_at. rewrite E1, E2, E3, E4. reflexivity.
Qed.

Lemma ip_head_cas (G : glob) e : seq_at G (head G) = head G ->
  item_published (with_head_ev G (head G + 1) e) = true -> item_published G = true.
Proof.
  intros Hs H. unfold item_published in *. simpl in H.
  change (seq_at (with_head_ev G (head G + 1) e) (tail G)) with (seq_at G (tail G)) in H.
  apply andb_true_iff in H as [H1 H2]. apply Nat.ltb_lt in H1. apply Nat.eqb_eq in H2.
  apply andb_true_iff. split; [|apply Nat.eqb_eq; auto].
  apply Nat.ltb_lt. destruct (Nat.eq_dec (tail G) (head G)) as [E|NE]; [|lia].
  rewrite E in H2. lia.
Qed.

Lemma ip_set_data (G : glob) p d : ginv G ->
  item_published (with_slots G (set_data G p d)) = item_published G.
Proof.
  intro Hg. unfold item_published, seq_at. simpl. rewrite fst_set_data; auto.
Qed.

Lemma ip_extend (G : glob) (T : list thread) n : ginv G -> owners_ok G T -> no_owner T ->
  item_published (extend G n) = true -> item_published G = true.
Proof.
  intros Hg Ho Hn H. destruct (Nat.le_gt_cases n (cap G)) as [L|L].
  - rewrite extend_noop in H; auto.
  - rewrite extend_grows in H by auto. unfold item_published in *. simpl in H.
    apply andb_true_iff in H as [H1 _]. apply Nat.ltb_lt in H1.
    destruct (quiescent_slot G T 0 Hg Ho Hn H1) as [Q _]. rewrite Nat.add_0_r in Q.
    apply andb_true_iff. split; [apply Nat.ltb_lt; lia | apply Nat.eqb_eq; lia].
Qed.

Lemma etok_extend (G : glob) n : etok (extend G n) = etok G /\ eclosed (extend G n) = eclosed G.
Proof. unfold extend. destruct (n <=? cap G); auto. Qed.

Lemma wi_extend progs (G : glob) (T : list thread) t (th th' : thread) n :
  Inv progs (mkState G T) -> WI G T -> nth_error T t = Some th ->
  write_pc (tpc th) = true -> write_pc (tpc th') = true ->
  WI (extend G n) (upd t th' T).
Proof.
  intros HI [W P] Ht Hw Hw'.
  pose proof (i_g _ _ HI) as Hg. simpl in Hg.
  assert (Hno : no_owner T) by (eapply writer_no_owner; eauto).
  assert (Hnr : forall u thu, u <> t -> nth_error T u = Some thu -> read_pc (tpc thu) = false).
  { intros u thu Hne Hu. destruct (i_mutex _ _ HI t u th thu ltac:(auto) Ht Hu Hw). auto. }
  destruct (etok_extend G n) as [E1 E2].
  constructor.
  - intros r thr Hr Pr Ip. rewrite E1, E2.
    apply (nth_upd_cases2 _ _ _ _ _ _ Ht) in Hr as [[-> ->]|[Hne Hr]].
    + destruct (tpc th'); simpl in *; discriminate.
    + apply (ip_extend G T n Hg (i_own _ _ HI) Hno) in Ip.
      destruct (W r thr Hr Pr Ip) as [A|[A|(u & thu & Hu & Su)]]; auto.
      exfalso. destruct (Nat.eq_dec u t) as [->|Hneu].
      * assert (thu = th) by congruence. subst thu. rewrite Su in Hw. discriminate.
      * pose proof (Hnr u thu Hneu Hu) as R. rewrite Su in R. discriminate.
  - intros r thr Hr Pr.
    apply (nth_upd_cases2 _ _ _ _ _ _ Ht) in Hr as [[-> ->]|[Hne Hr]].
    + destruct (tpc th'); simpl in *; discriminate.
    + pose proof (Hnr r thr Hne Hr) as R. destruct (tpc thr); simpl in *; discriminate.
Qed.

Ltac clsA HW Ht :=
  eapply (wi_classA _ _ _ _ _ _ HW Ht); simpl;
  [ try (intro; assumption); try reflexivity
  | try (intro; assumption); try reflexivity
  | try (intro; assumption)
  | try reflexivity
  | try discriminate; try (intros _; reflexivity)
  | try discriminate; try (intro; assumption)
  | try discriminate ].

Ltac old_w HW Ht Ip :=
  let A := fresh "A" in let u := fresh "u" in let thu := fresh "thu" in
  let Hu := fresh "Hu" in let Su := fresh "Su" in
  destruct (wi_w _ _ HW _ _ Ht eq_refl Ip) as [A|[A|(u & thu & Hu & Su)]]; auto;
  right; right; exists u, thu; split; [|auto];
  intros ->; rewrite Ht in Hu; injection Hu as <-; discriminate.

Lemma wi_step progs (G : glob) (T : list thread) t (th : thread) (G' : glob) (th' : thread) :
  Inv progs (mkState G T) -> uniq_recv T -> WI G T -> nth_error T t = Some th ->
  tstep G (no_writer T) (no_holder T) t th = Some (G', th') -> WI G' (upd t th' T).
Proof.
  intros HI U HW Ht Hs.
  pose proof (i_g _ _ HI) as Hg; simpl in Hg.
  pose proof (i_t _ _ HI _ _ Ht) as Hti; unfold tinv in Hti.
  destruct th as [pg pc0 pos val cp rs]; simpl in *. unfold tstep in Hs; simpl in Hs.
  destruct pc0.
  - (* Idle *)
    destruct pg as [|o rest]; [discriminate|].
    destruct o; [destruct (no_writer T) | destruct (no_writer T) | destruct (no_holder T) | destruct (no_holder T)];
      try discriminate; injection Hs as <- <-; clsA HW Ht.
  - (* S_chk0 *) destruct (done G); injection Hs as <- <-; clsA HW Ht.
  - (* S_loadhead *) injection Hs as <- <-; clsA HW Ht.
  - (* S_loop *) destruct (done G); injection Hs as <- <-; clsA HW Ht.
  - (* S_loadseq *)
    destruct (seq_at G pos =? pos); [|destruct (seq_at G pos <? pos)]; injection Hs as <- <-; clsA HW Ht.
  - (* S_cas *)
    destruct Hti as (H1 & H2 & H3).
    destruct (Nat.eqb_spec (head G) pos) as [E|NE]; injection Hs as <- <-.
    + clsA HW Ht. subst pos. apply ip_head_cas. auto.
    + clsA HW Ht.
  - (* S_write *)
    injection Hs as <- <-. clsA HW Ht. rewrite ip_set_data; auto.
  - (* S_pub *)
    injection Hs as <- <-. eapply (wi_pub _ _ _ _ _ _ HW Ht); try reflexivity.
  - (* S_sig *)
    destruct (eclosed G) eqn:He; [rewrite (gi_ecl _ Hg He) in Hti; discriminate|].
    injection Hs as <- <-; clsA HW Ht.
  - (* S_rett *) injection Hs as <- <-; clsA HW Ht.
  - (* S_retf *) injection Hs as <- <-; clsA HW Ht.
  - (* S_snap *) destruct (can_extend G); injection Hs as <- <-; clsA HW Ht.
  - (* S_lock *) destruct (no_holder T); [|discriminate]. injection Hs as <- <-; clsA HW Ht.
  - (* S_ext *)
    destruct ((cp =? cap G) && negb (done G)); injection Hs as <- <-.
    + eapply wi_extend; eauto.
    + clsA HW Ht.
  - (* S_unlock *) injection Hs as <- <-; clsA HW Ht.
  - (* S_park *)
    destruct (ftok G); [|destruct (fclosed G); [|discriminate]]; injection Hs as <- <-; clsA HW Ht.
  - (* S_relock *) destruct (no_writer T); [|discriminate]. injection Hs as <- <-; clsA HW Ht.
  - (* R_loadtail *)
    injection Hs as <- <-. apply (wi_recv' G T t _ _ _ U Ht); simpl; auto; discriminate.
  - (* R_loadseq *)
    pose proof (wi_p _ _ HW _ _ Ht eq_refl) as Hp. simpl in Hp.
    destruct (Nat.eqb_spec (seq_at G pos) (pos + 1)) as [E|NE];
      [|destruct (Nat.ltb_spec (seq_at G pos) (pos + 1)) as [L|L]];
      injection Hs as <- <-; apply (wi_recv' G T t _ _ _ U Ht); simpl; auto; try discriminate.
    intros _ Ip. exfalso. unfold item_published in Ip. apply andb_true_iff in Ip as [_ I2].
    apply Nat.eqb_eq in I2. subst pos. lia.
  - (* R_cas *)
    pose proof (wi_p _ _ HW _ _ Ht eq_refl) as Hp. simpl in Hp.
    destruct (tail G =? pos); injection Hs as <- <-;
      apply (wi_recv' G T t _ _ _ U Ht); simpl; auto; discriminate.
  - (* R_read *) injection Hs as <- <-. apply (wi_recv' G T t _ _ _ U Ht); simpl; auto; discriminate.
  - (* R_recycle *) injection Hs as <- <-. apply (wi_recv' G T t _ _ _ U Ht); simpl; auto; discriminate.
  - (* R_chkdone *)
    destruct (done G); injection Hs as <- <-; apply (wi_recv' G T t _ _ _ U Ht); simpl; auto; discriminate.
  - (* R_sig *)
    destruct (fclosed G) eqn:He; [rewrite (gi_ecl _ Hg (gi_fcl _ Hg He)) in Hti; discriminate|].
    injection Hs as <- <-; apply (wi_recv' G T t _ _ _ U Ht); simpl; auto; discriminate.
  - (* R_rett *) injection Hs as <- <-. apply (wi_recv' G T t _ _ _ U Ht); simpl; auto; discriminate.
  - (* R_empty *)
    destruct (done G); injection Hs as <- <-; apply (wi_recv' G T t _ _ _ U Ht); simpl; auto; try discriminate.
    intros _ Ip. old_w HW Ht Ip.
  - (* R_retf *) injection Hs as <- <-. apply (wi_recv' G T t _ _ _ U Ht); simpl; auto; discriminate.
  - (* R_unl *)
    injection Hs as <- <-. apply (wi_recv' G T t _ _ _ U Ht); simpl; auto; try discriminate.
    intros _ Ip. old_w HW Ht Ip.
  - (* R_park *)
    destruct (etok G); [|destruct (eclosed G); [|discriminate]]; injection Hs as <- <-;
      apply (wi_recv' G T t _ _ _ U Ht); simpl; auto; discriminate.
  - (* R_relock *)
    destruct (no_writer T); [|discriminate]. injection Hs as <- <-.
    apply (wi_recv' G T t _ _ _ U Ht); simpl; auto; discriminate.
  - (* C_swap *) destruct (done G); injection Hs as <- <-; clsA HW Ht.
  - (* C_close_empty *) destruct (eclosed G); injection Hs as <- <-; clsA HW Ht.
  - (* C_close_full *) destruct (fclosed G); injection Hs as <- <-; clsA HW Ht.
  - (* C_unlock *) injection Hs as <- <-; clsA HW Ht.
  - (* G_ext *)
    destruct pg as [|[v| | |n] rest]; injection Hs as <- <-;
      [clsA HW Ht | clsA HW Ht | clsA HW Ht | clsA HW Ht | eapply wi_extend; eauto].
  - (* G_unlock *)
    destruct pg as [|[v| | |n] rest]; injection Hs as <- <-; clsA HW Ht.
Qed.

Lemma wi_init c e progs : WI (g (init c e progs)) (thr (init c e progs)).
Proof.
  assert (Hth : forall t th, nth_error (map init_thread progs) t = Some th -> tpc th = Idle).
  { intros t th H. rewrite nth_error_map in H. destruct (nth_error progs t); [|discriminate].
    injection H as <-. reflexivity. }
  constructor; simpl; intros r th Hr Pr; rewrite (Hth _ _ Hr) in Pr; discriminate.
Qed.

Lemma wi_run progs s sched : Inv progs s -> multi_receiver progs = false ->
  WI (g s) (thr s) -> WI (g (run s sched)) (thr (run s sched)).
Proof.
  intros HI Hm. revert s HI. induction sched as [|t r IH]; intros s HI HW; simpl; auto.
  destruct (step s t) as [s'|] eqn:E; auto.
  apply IH; [eapply step_inv; eauto|].
  pose proof (single_receiver_uniq _ _ HI Hm) as U.
  destruct s as [G T]. unfold step in E. simpl in *.
  destruct (panicked G); [discriminate|].
  destruct (nth_error T t) as [th|] eqn:Ht; [|discriminate].
  destruct (tstep G (no_writer T) (no_holder T) t th) as [[G' th']|] eqn:Hst; [|discriminate].
  injection E as <-. simpl. eapply wi_step; eauto.
Qed.

Lemma in_combine_seq {A} (l : list A) b u x : nth_error l u = Some x ->
  In (b + u, x) (combine (seq b (length l)) l).
Proof.
  revert b u. induction l as [|y l IH]; intros b u Hu; [destruct u; discriminate|].
  destruct u as [|u]; simpl in *.
  - injection Hu as ->. left. f_equal. lia.
  - right. replace (b + S u) with (S b + u) by lia. apply IH. auto.
Qed.

(* With at most one receiving thread -- the way the pipeline uses the queue: one goroutine per
   QueueMedium calls Recv -- the wake-up clause holds: the stuck state is unreachable. *)
Theorem mpmc_no_lost_wakeup_partial_lemma c e progs sched r : 2 <= c ->
  multi_receiver progs = false ->
  lost_wakeup_state (run (init c e progs) sched) r = false.
Proof.
  intros Hc Hm.
  pose proof (reachable_inv c e progs sched Hc) as HI.
  pose proof (wi_run progs (init c e progs) sched (init_inv c e progs Hc) Hm (wi_init c e progs)) as HW.
  set (s := run (init c e progs) sched) in *.
  destruct (lost_wakeup_state s r) eqn:L; auto. exfalso.
  unfold lost_wakeup_state in L.
  destruct (nth_error (thr s) r) as [th|] eqn:Hr; [|discriminate].
  destruct (tpc th) eqn:Epc; try discriminate.
  repeat (apply andb_true_iff in L as [L ?]).
  apply negb_true_iff in L.
  match goal with H : negb (eclosed _) = true |- _ => apply negb_true_iff in H; rename H into Hec end.
  match goal with H : item_published _ = true |- _ => rename H into Hip end.
  match goal with H : forallb _ _ = true |- _ => rename H into Hall end.
  assert (Pk : park_set (tpc th) = true) by (rewrite Epc; reflexivity).
  destruct (wi_w _ _ HW r th Hr Pk Hip) as [A|[A|(u & thu & Hu & Su)]]; try congruence.
  (* the witness would be a thread at S_sig, but every other thread is idle *)
  rewrite forallb_forall in Hall.
  assert (Hin : In (Nat.eqb u r || thread_idle_done thu)
                   (map (fun iu => Nat.eqb (fst iu) r || thread_idle_done (snd iu))
                        (combine (seq 0 (length (thr s))) (thr s)))).
  { apply in_map_iff. exists (u, thu). split; auto.
    apply (in_combine_seq (thr s) 0 u thu Hu). }
  specialize (Hall _ Hin). apply orb_true_iff in Hall as [E|E].
  - apply Nat.eqb_eq in E. subst u. rewrite Hr in Hu. injection Hu as <-. congruence.
  - unfold thread_idle_done in E. rewrite Su in E. discriminate.
Qed.
