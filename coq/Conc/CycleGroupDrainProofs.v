(* A worker whose context is cancelled still consumes its inputs until they close: with that the
   in-flight count reaches zero from every reachable state (no wedge); without it it does not. *)
From OFGA Require Import Conc.StatusPool Conc.StatusPoolProofs Conc.CycleGroup Conc.CycleGroupProofs
  Conc.CycleGroupLive Conc.CycleGroupDrain.

Section Drain.
  Variables (n np : nat) (std : list (nat * list msg)).
  Hypothesis Hn : 1 <= n.
  Hypothesis Hnp : 1 <= np.

  (* from every reachable state -- cancelled or not, whatever is queued or held -- the goroutines
     alone reach a state in which everything has returned, the in-flight count is zero and no
     cyclical message is left in a queue *)
  Theorem drain_reaches_zero_l s :
    reach (init n np std) s ->
    exists sched s', steps s sched s' /\ ~ In TC sched /\ final s' = true /\
                     sp_inflight (st_pool s') = 0%Z /\ st_flight s' = [] /\ sp_quiet (st_pool s') = true.
  Proof.
    intro R. destruct (teardown_completes_l n np std Hn Hnp s R) as (sched & s' & St & F & Nc).
    exists sched, s'. split; auto. split; auto. split; auto.
    assert (R' : reach (init n np std) s') by (eapply steps_reach; eauto).
    pose proof (rI n np std Hn Hnp s' R') as I.
    assert (H0 : 0 < length (st_main s')) by (rewrite (il_main _ (iL _ _ I)); pose proof (il_n _ (iL _ _ I)); lia).
    destruct (nth_error_ex _ _ H0) as [pc Hpc].
    assert (pc = MDone) by (eapply final_mains; eauto). subst pc.
    destruct (ic_order _ (iC _ _ I) 0 MDone Hpc ltac:(simpl; lia)) as [Q _].
    pose proof (quiet_zero _ _ I Q) as Z. pose proof (ia_inflight _ (iA _ _ I)) as Ai.
    split; [lia|]. split; auto.
    destruct (st_flight s'); simpl in *; auto; lia.
  Qed.
End Drain.

Lemma stuck_nodrain_spec s :
  stuck_nodrain s = true -> forall t, t <> TC -> step_nodrain s t = None.
Proof.
  unfold stuck_nodrain, all_tids. intros H t Ht. rewrite forallb_forall in H.
  destruct t as [i|k|]; [| |congruence].
  - destruct (Nat.lt_ge_cases i (length (st_main s))) as [Hl|Hg].
    + specialize (H (TM i)). destruct (step_nodrain s (TM i)); auto.
      assert (X : false = true); [|discriminate]. apply H.
      apply in_or_app. left. apply in_map. apply in_seq. lia.
    + simpl. apply nth_error_None in Hg. rewrite Hg. reflexivity.
  - destruct (Nat.lt_ge_cases k (length (st_proc s))) as [Hl|Hg].
    + specialize (H (TP k)). destruct (step_nodrain s (TP k)); auto.
      assert (X : false = true); [|discriminate]. apply H.
      apply in_or_app. right. apply in_map. apply in_seq. lia.
    + simpl. unfold gives_up. apply nth_error_None in Hg. rewrite Hg. reflexivity.
Qed.

(* two members; member 0's standard input sends two messages to member 1; the context is
   cancelled after they are queued; the goroutine of edge 0 -> 1 gives up instead of draining *)
Definition nd_std : list (nat * list msg) := [(0, [Msg 1 []; Msg 1 []])].
Definition nd_state : state :=
  run_nodrain (init 2 1 nd_std)
    ([TP 4; TP 4; TP 4; TP 4; TP 4; TP 4; TC] ++ flat_map (fun _ => [TP 0; TP 1; TP 2; TP 3; TM 0; TM 1]) (seq 0 30)).

Lemma nodrain_wedge_l :
  (forall t, t <> TC -> step_nodrain nd_state t = None) /\
  final nd_state = false /\ sp_quiet (st_pool nd_state) = false /\ st_cancel nd_state = true /\
  length (st_flight nd_state) = 2 /\ sp_inflight (st_pool nd_state) = 2%Z.
Proof.
  split; [apply stuck_nodrain_spec; vm_compute; reflexivity|].
  vm_compute. auto.
Qed.
