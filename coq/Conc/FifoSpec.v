(* C22 — specification side: a closable FIFO channel as a sequential object, and what it
   means for a history of linearisation events to be legal for it.

   Events are tagged with the thread that performed them (tid) so that per-thread projections
   can be related to the results each thread's calls returned.

     EEnq t v    a Send(v) by t took effect (it will return true)
     EEnqFail t  a Send by t failed             -- legal only when the channel is closed
     EDeq t v    a Recv by t took v             -- legal only when v is the oldest buffered item
     EDeqFail t  a Recv by t returned (_, false) -- legal only when closed AND drained
     ETryFail t  a non-blocking TryRecv found nothing "immediately available" (no constraint)
     EClose t    Close took effect (idempotent)

   "No loss, no duplication, FIFO, sends after close fail, items sent before close remain
   receivable" is exactly: the history is accepted by [run_spec]. *)
From Coq Require Export List NArith Bool Arith Lia.
Export ListNotations.

Inductive event :=
| EEnq (t : nat) (v : N)
| EEnqFail (t : nat)
| EDeq (t : nat) (v : N)
| EDeqFail (t : nat)
| ETryFail (t : nat)
| EClose (t : nat).

Record chan := mkChan { c_buf : list N; c_closed : bool }.

Definition chan0 : chan := mkChan [] false.

Definition spec_step (c : chan) (e : event) : option chan :=
  match e with
  | EEnq _ v => if c_closed c then None else Some (mkChan (c_buf c ++ [v]) false)
  | EEnqFail _ => if c_closed c then Some c else None
  | EDeq _ v =>
      match c_buf c with
      | x :: q => if N.eqb x v then Some (mkChan q (c_closed c)) else None
      | [] => None
      end
  | EDeqFail _ =>
      match c_buf c with
      | [] => if c_closed c then Some c else None
      | _ :: _ => None
      end
  | ETryFail _ => Some c
  | EClose _ => Some (mkChan (c_buf c) true)
  end.

Fixpoint run_spec (c : chan) (evs : list event) : option chan :=
  match evs with
  | [] => Some c
  | e :: r => match spec_step c e with Some c' => run_spec c' r | None => None end
  end.

Definition legal (evs : list event) : Prop := exists c, run_spec chan0 evs = Some c.

(* projections *)
Definition ev_tid (e : event) : nat :=
  match e with
  | EEnq t _ | EEnqFail t | EDeq t _ | EDeqFail t | ETryFail t | EClose t => t
  end.

Definition proj (t : nat) (evs : list event) : list event :=
  filter (fun e => Nat.eqb (ev_tid e) t) evs.

Fixpoint enqs (evs : list event) : list N :=
  match evs with
  | [] => []
  | EEnq _ v :: r => v :: enqs r
  | _ :: r => enqs r
  end.

Fixpoint deqs (evs : list event) : list N :=
  match evs with
  | [] => []
  | EDeq _ v :: r => v :: deqs r
  | _ :: r => deqs r
  end.

(* items enqueued by one producer / all items dequeued, tagged by producer, for the
   per-producer statement *)
Fixpoint enqs_of (p : nat) (evs : list event) : list N :=
  match evs with
  | [] => []
  | EEnq t v :: r => if Nat.eqb t p then v :: enqs_of p r else enqs_of p r
  | _ :: r => enqs_of p r
  end.

Definition is_close (e : event) : bool := match e with EClose _ => true | _ => false end.
Definition is_enq (e : event) : bool := match e with EEnq _ _ => true | _ => false end.
Definition is_enqfail (e : event) : bool := match e with EEnqFail _ => true | _ => false end.

(* list update at an index (shared by the queue models) *)
Fixpoint upd {A} (i : nat) (x : A) (l : list A) : list A :=
  match l, i with
  | [], _ => []
  | _ :: r, O => x :: r
  | y :: r, S j => y :: upd j x r
  end.


(* enqueued items tagged with their producer, in linearisation order *)
Fixpoint tenqs (evs : list event) : list (nat * N) :=
  match evs with
  | [] => []
  | EEnq t v :: r => (t, v) :: tenqs r
  | _ :: r => tenqs r
  end.

Definition from_producer (p : nat) (x : nat * N) : bool := Nat.eqb (fst x) p.
