(* Model of the cycle-group teardown protocol of the ListObjects pipeline:
     internal/listobjects/pipeline/internal/worker/cycle.go   (CycleGroup, Membership)
     internal/listobjects/pipeline/internal/worker/basic.go   (Basic.Execute ordering)
     internal/listobjects/pipeline/internal/worker/core.go    (send: MsgFunc before Send, Done on
                                                               failure; ProcessSender: Done after
                                                               ProcessMessage; DrainSender)
     internal/listobjects/pipeline/pipeline.go:175-211        (MsgFunc: Inc, Dec in the callback)

   Part 1 is the sequential, pointer-level model of Join (ring construction) and of the
   Membership methods run without interleaving (method granularity).

   Part 2 is the concurrent model.  Its steps are the ATOMIC OPERATIONS of the Go code: each
   sync/atomic call, mutex operation, channel close, channel receive, queue send / receive /
   close is one step of one thread.  The operations of the message queues themselves
   (mpmc.Queue Send/Recv/Close) are taken as atomic (their linearizability is property C22).

   Threads:
     TM i   the goroutine running Basic.Execute of member i, from wgStandard.Wait() on
     TP k   a message-processing goroutine: either one that handles the messages of the
            standard (non-cyclical) senders of its owner (p_src = None) and therefore only
            produces cyclical messages, or one of the NumProcs goroutines of
            ProcessSender for the cyclical sender src -> owner (p_src = Some src)
     TC     the environment cancelling the request context

   A cyclical message is a finite tree [Msg dst kids]: when the destination processes it, it
   sends the messages [kids] (the finiteness of these trees is what the de-duplication of the
   real workers guarantees).  All results are for every number of members, every workload
   forest and every schedule.

   Definitions only (proofs are in CycleGroupProofs.v). *)
From OFGA Require Export Conc.StatusPool.

(* ======================================================================================= *)
(* Part 1: Join and the Membership methods at method granularity                            *)
(* ======================================================================================= *)

Record mnode := mkNode {
  mn_next   : option nat;     (* *Membership, nil = None *)
  mn_prev   : option nat;
  mn_leader : bool;
  mn_wake   : bool;           (* chan wake: true = closed *)
  mn_awake  : bool;           (* atomic.Bool *)
  mn_rep    : nat             (* reporter.index *)
}.

Record group := mkGroup {
  g_pool  : pool;
  g_nodes : list mnode;
  g_head  : option nat;
  g_tail  : option nat;
  g_size  : nat
}.

Definition new_group : group := mkGroup new_pool [] None None 0.

Definition dummy_node : mnode := mkNode None None false false false 0.

Definition on_node (o : option nat) (f : mnode -> mnode) (l : list mnode) : list mnode :=
  match o with
  | None => l  (* nil dereference; cannot happen in Join *)
  | Some k => upd k (f (nth k l dummy_node)) l
  end.

Definition n_set_prev (v : option nat) (m : mnode) :=
  mkNode (mn_next m) v (mn_leader m) (mn_wake m) (mn_awake m) (mn_rep m).
Definition n_set_next (v : option nat) (m : mnode) :=
  mkNode v (mn_prev m) (mn_leader m) (mn_wake m) (mn_awake m) (mn_rep m).
Definition n_set_leader (v : bool) (m : mnode) :=
  mkNode (mn_next m) (mn_prev m) v (mn_wake m) (mn_awake m) (mn_rep m).
Definition n_set_wake (m : mnode) :=
  mkNode (mn_next m) (mn_prev m) (mn_leader m) true (mn_awake m) (mn_rep m).
Definition n_set_awake (m : mnode) :=
  mkNode (mn_next m) (mn_prev m) (mn_leader m) (mn_wake m) true (mn_rep m).

(* func (g *CycleGroup) Join(label string) *Membership, statement by statement *)
Definition g_join (g : group) : group * nat :=
  let (p1, idx) := m_register (g_pool g) in                       (* g.statusPool.Register() *)
  let k := length (g_nodes g) in
  let nodes := g_nodes g ++ [mkNode None None false false false idx] in   (* m := Membership{...} *)
  let head := match g_head g with None => Some k | h => h end in  (* if g.head == nil *)
  let tail := match g_tail g with None => Some k | t => t end in  (* if g.tail == nil *)
  let nodes := on_node tail (n_set_prev (Some k)) nodes in        (* g.tail.prev = &m *)
  let nodes := on_node (Some k) (n_set_prev head) nodes in        (* m.prev = g.head *)
  let nodes := on_node head (n_set_leader false) nodes in         (* g.head.leader = false *)
  let nodes := on_node head (n_set_next (Some k)) nodes in        (* g.head.next = &m *)
  let head := Some k in                                           (* g.head = &m *)
  let nodes := on_node head (n_set_leader true) nodes in          (* g.head.leader = true *)
  (mkGroup (m_inc p1) nodes head tail (S (g_size g)), k).         (* g.size++; m.reporter.Inc() *)

Fixpoint join_seq (n : nat) : group :=
  match n with O => new_group | S m => fst (g_join (join_seq m)) end.

Definition g_with_pool (g : group) (p : pool) : group :=
  mkGroup p (g_nodes g) (g_head g) (g_tail g) (g_size g).
Definition g_with_nodes (g : group) (l : list mnode) : group :=
  mkGroup (g_pool g) l (g_head g) (g_tail g) (g_size g).

Definition g_node (g : group) (i : nat) : mnode := nth i (g_nodes g) dummy_node.

(* SignalReady: reporter.Report(); reporter.Dec() *)
Definition g_signal_ready (i : nat) (g : group) : group :=
  g_with_pool g (m_dec (m_set (mn_rep (g_node g i)) (g_pool g))).
Definition g_inc (g : group) : group := g_with_pool g (m_inc (g_pool g)).
Definition g_dec (g : group) : group := g_with_pool g (m_dec (g_pool g)).
(* Wake: if !awake.Swap(true) { close(wake) } *)
Definition g_wake (i : nat) (g : group) : group :=
  let m := g_node g i in
  if mn_awake m then g
  else g_with_nodes g (upd i (n_set_wake (n_set_awake m)) (g_nodes g)).
(* Sleep(ctx) with a context that is never cancelled returns iff wake is closed *)
Definition g_sleep_returns (i : nat) (g : group) : bool := mn_wake (g_node g i).
Definition g_wait (g : group) : wait_res := m_wait (g_pool g).
(* Next() returns m.prev *)
Definition g_next (i : nat) (g : group) : option nat := mn_prev (g_node g i).
(* String(): the labels met from m following prev until m is reached again *)
Fixpoint g_path_from (fuel : nat) (g : group) (start cur : nat) : list nat :=
  match fuel with
  | O => []
  | S f => if cur =? start then [start]
           else cur :: match mn_prev (g_node g cur) with
                       | Some nx => g_path_from f g start nx
                       | None => []
                       end
  end.
Definition g_string (i : nat) (g : group) : list nat :=
  i :: match mn_prev (g_node g i) with
       | Some nx => g_path_from (S (length (g_nodes g))) g i nx
       | None => []
       end.

(* the ring that Join builds, in closed form *)
Definition nxt (n i : nat) : nat := match i with O => n - 1 | S j => j end.
Definition is_leader (n i : nat) : bool := S i =? n.

(* ======================================================================================= *)
(* Part 2: the concurrent protocol                                                          *)
(* ======================================================================================= *)

Inductive msg := Msg : nat -> list msg -> msg.

Fixpoint msize (m : msg) : nat :=
  match m with
  | Msg _ ks => S ((fix go (l : list msg) : nat :=
                      match l with [] => 0 | k :: r => msize k + go r end) ks)
  end.
Definition msizes (l : list msg) : nat :=
  (fix go (l : list msg) : nat := match l with [] => 0 | k :: r => msize k + go r end) l.

(* a message sitting in the queue of the cyclical edge q_src -> q_dst *)
Record qmsg := mkQ { q_src : nat; q_dst : nat; q_kids : list msg }.

Inductive event :=
| EClose (i k : nat)   (* member i closed its listener towards member k (Cleanup) *)
| EWake (j : nat).     (* close(wake) of member j *)

(* program counter of Basic.Execute of a member, from wgStandard.Wait() on *)
Inductive mpc :=
| MWaitStd              (* wgStandard.Wait() *)
| MSetLock              (* SignalReady: Report -> set: sp.mu.Lock() *)
| MSetBody              (*   pool[index] = false; scan *)
| MSetClose             (*   close(sp.ready) *)
| MSetUnlock            (*   sp.mu.Unlock() *)
| MDec1                 (* SignalReady: Dec -> dec: inflight.Add(-1) *)
| MDec2                 (*   zero.Swap(true) *)
| MDec3                 (*   close(sp.quiescence) *)
| MWaitReady            (* WaitForAllReady: <-sp.ready *)
| MLoadTotal            (*   sp.total.Load() > 0 *)
| MWaitQ                (*   <-sp.quiescence *)
| MSleep                (* Sleep: <-m.wake (non-leaders) *)
| MCleanup (k : nat)    (* Cleanup: listener k .Close() *)
| MWake1                (* Next().Wake(): awake.Swap(true) *)
| MWake2                (*   close(wake) *)
| MWaitRec              (* deferred wgRecursive.Wait() *)
| MDone.

(* program counter of a message-processing goroutine *)
Inductive ppc :=
| PRecv                               (* sender.Recv *)
| PInc1 (m : msg) (r : list msg)      (* send m: MsgFunc: Inc: total.Add(1) *)
| PInc2 (m : msg) (r : list msg)      (*   inflight.Add(1) *)
| PSend (m : msg) (r : list msg)      (*   listener.Send(ctx, msg) *)
| PDrop1 (r : list msg)               (* Send failed: msg.Done(): Dec: inflight.Add(-1) *)
| PDrop2 (r : list msg)               (*   zero.Swap(true) *)
| PDrop3 (r : list msg)               (*   close(quiescence) *)
| PFin1                               (* msg.Done() of the received message: inflight.Add(-1) *)
| PFin2
| PFin3
| PEnd.

Record proc := mkProc { p_owner : nat; p_src : option nat; p_pc : ppc }.

Inductive tid := TM (i : nat) | TP (k : nat) | TC.

Record state := mkState {
  st_n      : nat;            (* number of members; member i joined i-th *)
  st_pool   : pool;
  st_wake   : list bool;      (* per member: chan wake closed *)
  st_awake  : list bool;      (* per member: awake *)
  st_closed : list nat;       (* per member i: its listeners 0..closed_i-1 are closed *)
  st_flight : list qmsg;      (* the cyclical messages sitting in queues, oldest first *)
  st_cancel : bool;           (* request context cancelled *)
  st_main   : list mpc;
  st_proc   : list proc;
  (* ghost state, never read by a step *)
  st_log    : list event;     (* teardown events, oldest first *)
  st_processed : nat;         (* messages received and handed to ProcessMessage *)
  st_lost   : nat             (* total size of the messages dropped (failed Send) or drained *)
}.

Definition w_pool (s : state) (p : pool) : state :=
  mkState (st_n s) p (st_wake s) (st_awake s) (st_closed s) (st_flight s) (st_cancel s)
          (st_main s) (st_proc s) (st_log s) (st_processed s) (st_lost s).
Definition w_main (s : state) (i : nat) (pc : mpc) : state :=
  mkState (st_n s) (st_pool s) (st_wake s) (st_awake s) (st_closed s) (st_flight s) (st_cancel s)
          (upd i pc (st_main s)) (st_proc s) (st_log s) (st_processed s) (st_lost s).
Definition w_proc (s : state) (k : nat) (p : proc) : state :=
  mkState (st_n s) (st_pool s) (st_wake s) (st_awake s) (st_closed s) (st_flight s) (st_cancel s)
          (st_main s) (upd k p (st_proc s)) (st_log s) (st_processed s) (st_lost s).
Definition w_flight (s : state) (f : list qmsg) : state :=
  mkState (st_n s) (st_pool s) (st_wake s) (st_awake s) (st_closed s) f (st_cancel s)
          (st_main s) (st_proc s) (st_log s) (st_processed s) (st_lost s).
Definition w_lost (s : state) (d : nat) : state :=
  mkState (st_n s) (st_pool s) (st_wake s) (st_awake s) (st_closed s) (st_flight s) (st_cancel s)
          (st_main s) (st_proc s) (st_log s) (st_processed s) (st_lost s + d).
Definition w_processed (s : state) : state :=
  mkState (st_n s) (st_pool s) (st_wake s) (st_awake s) (st_closed s) (st_flight s) (st_cancel s)
          (st_main s) (st_proc s) (st_log s) (S (st_processed s)) (st_lost s).
Definition w_cancel (s : state) : state :=
  mkState (st_n s) (st_pool s) (st_wake s) (st_awake s) (st_closed s) (st_flight s) true
          (st_main s) (st_proc s) (st_log s) (st_processed s) (st_lost s).
Definition w_close (s : state) (i k : nat) : state :=
  mkState (st_n s) (st_pool s) (st_wake s) (st_awake s) (upd i (S k) (st_closed s)) (st_flight s)
          (st_cancel s) (st_main s) (st_proc s) (st_log s ++ [EClose i k]) (st_processed s) (st_lost s).
Definition w_awake (s : state) (j : nat) : state :=
  mkState (st_n s) (st_pool s) (st_wake s) (upd j true (st_awake s)) (st_closed s) (st_flight s)
          (st_cancel s) (st_main s) (st_proc s) (st_log s) (st_processed s) (st_lost s).
Definition w_wake (s : state) (j : nat) : state :=
  mkState (st_n s) (if nth j (st_wake s) false then set_panic (st_pool s) else st_pool s)
          (upd j true (st_wake s)) (st_awake s) (st_closed s) (st_flight s)
          (st_cancel s) (st_main s) (st_proc s) (st_log s ++ [EWake j]) (st_processed s) (st_lost s).

Definition is_pend (pc : ppc) : bool := match pc with PEnd => true | _ => false end.

(* wgStandard.Wait(): every goroutine handling a standard sender of member i has returned *)
Definition std_done (i : nat) (l : list proc) : bool :=
  forallb (fun p => match p_src p with
                    | None => negb (p_owner p =? i) || is_pend (p_pc p)
                    | Some _ => true
                    end) l.

(* wgRecursive.Wait(): every goroutine handling a cyclical sender of member i has returned *)
Definition rec_done (i : nat) (l : list proc) : bool :=
  forallb (fun p => match p_src p with
                    | Some _ => negb (p_owner p =? i) || is_pend (p_pc p)
                    | None => true
                    end) l.

Definition edge_closed (s : state) (a b : nat) : bool := b <? nth a (st_closed s) 0.

(* first queued message of the edge a -> b *)
Fixpoint take_first (a b : nat) (l : list qmsg) : option (qmsg * list qmsg) :=
  match l with
  | [] => None
  | q :: r =>
    if (q_src q =? a) && (q_dst q =? b) then Some (q, r)
    else match take_first a b r with
         | Some (x, r') => Some (x, q :: r')
         | None => None
         end
  end.

(* what follows WaitForAllReady: the leader starts the cascade, the others sleep *)
Definition after_wait (n i : nat) : mpc := if is_leader n i then MCleanup 0 else MSleep.

Definition step_main (s : state) (i : nat) (pc : mpc) : option state :=
  let p := st_pool s in
  let n := st_n s in
  match pc with
  | MWaitStd => if std_done i (st_proc s) then Some (w_main s i MSetLock) else None
  | MSetLock => match a_lock i p with
                | Some p' => Some (w_main (w_pool s p') i MSetBody)
                | None => None
                end
  | MSetBody => let (p', c) := a_set_body i p in
                Some (w_main (w_pool s p') i (if c then MSetClose else MSetUnlock))
  | MSetClose => Some (w_main (w_pool s (a_close_ready p)) i MSetUnlock)
  | MSetUnlock => Some (w_main (w_pool s (a_unlock p)) i MDec1)
  | MDec1 => let (p', v) := a_inflight_add (-1) p in
             Some (w_main (w_pool s p') i (if (v =? 0)%Z then MDec2 else MWaitReady))
  | MDec2 => let (p', old) := a_zero_swap p in
             Some (w_main (w_pool s p') i (if old then MWaitReady else MDec3))
  | MDec3 => Some (w_main (w_pool s (a_close_quiet p)) i MWaitReady)
  | MWaitReady => if (length (sp_pool p) =? 0) || sp_ready p
                  then Some (w_main s i MLoadTotal) else None
  | MLoadTotal => Some (w_main s i (if (0 <? sp_total p)%Z then MWaitQ else after_wait n i))
  | MWaitQ => if sp_quiet p then Some (w_main s i (after_wait n i)) else None
  | MSleep => if nth i (st_wake s) false then Some (w_main s i (MCleanup 0)) else None
  | MCleanup k => Some (w_main (w_close s i k) i (if S k <? n then MCleanup (S k) else MWake1))
  | MWake1 => let j := nxt n i in
              Some (w_main (w_awake s j) i (if nth j (st_awake s) false then MWaitRec else MWake2))
  | MWake2 => Some (w_main (w_wake s (nxt n i)) i MWaitRec)
  | MWaitRec => if rec_done i (st_proc s) then Some (w_main s i MDone) else None
  | MDone => None
  end.

(* continuation after one child has been dealt with: next child, or (for a goroutine of a
   cyclical sender) msg.Done() of the received message, or return *)
Definition after (c : bool) (r : list msg) : ppc :=
  match r with
  | m :: r' => PInc1 m r'
  | [] => if c then PFin1 else PEnd
  end.

Definition is_cyc (src : option nat) : bool := match src with Some _ => true | None => false end.

Definition step_proc (s : state) (k : nat) (pr : proc) : option state :=
  let p := st_pool s in
  let o := p_owner pr in
  let c := is_cyc (p_src pr) in
  let go (s' : state) (pc' : ppc) := Some (w_proc s' k (mkProc o (p_src pr) pc')) in
  match p_pc pr with
  | PRecv =>
    match p_src pr with
    | None => go s PEnd
    | Some a =>
      match take_first a o (st_flight s) with
      | Some (q, fl) =>
        if st_cancel s
        then go (w_lost (w_flight s fl) (S (msizes (q_kids q)))) PFin1      (* DrainSender *)
        else go (w_processed (w_flight s fl)) (after true (q_kids q))       (* ProcessMessage *)
      | None => if edge_closed s a o then go s PEnd else None
      end
    end
  | PInc1 m r => go (w_pool s (a_total_add p)) (PInc2 m r)
  | PInc2 m r => go (w_pool s (fst (a_inflight_add 1 p))) (PSend m r)
  | PSend (Msg d ks) r =>
    let d' := d mod st_n s in
    if st_cancel s || edge_closed s o d'
    then go (w_lost s (msize (Msg d ks))) (PDrop1 r)
    else go (w_flight s (st_flight s ++ [mkQ o d' ks])) (after c r)
  | PDrop1 r => let (p', v) := a_inflight_add (-1) p in
                go (w_pool s p') (if (v =? 0)%Z then PDrop2 r else after c r)
  | PDrop2 r => let (p', old) := a_zero_swap p in
                go (w_pool s p') (if old then after c r else PDrop3 r)
  | PDrop3 r => go (w_pool s (a_close_quiet p)) (after c r)
  | PFin1 => let (p', v) := a_inflight_add (-1) p in
             go (w_pool s p') (if (v =? 0)%Z then PFin2 else PRecv)
  | PFin2 => let (p', old) := a_zero_swap p in
             go (w_pool s p') (if old then PRecv else PFin3)
  | PFin3 => go (w_pool s (a_close_quiet p)) PRecv
  | PEnd => None
  end.

(* one atomic operation of thread t; None = t is blocked or has returned *)
Definition step (s : state) (t : tid) : option state :=
  match t with
  | TM i => match nth_error (st_main s) i with
            | Some pc => step_main s i pc
            | None => None
            end
  | TP k => match nth_error (st_proc s) k with
            | Some pr => step_proc s k pr
            | None => None
            end
  | TC => if st_cancel s then None else Some (w_cancel s)
  end.

(* run a schedule; entries naming a blocked or finished thread are skipped *)
Fixpoint run (s : state) (sched : list tid) : state :=
  match sched with
  | [] => s
  | t :: r => match step s t with Some s' => run s' r | None => run s r end
  end.

(* ---- initial states --------------------------------------------------------------------- *)

(* the goroutines of the cyclical senders: np per edge a -> b, for all members a, b *)
Definition edge_procs (n np : nat) : list proc :=
  flat_map (fun a => flat_map (fun b => repeat (mkProc b (Some a) PRecv) np) (seq 0 n)) (seq 0 n).

(* the goroutines of the standard senders, each with the list of cyclical messages that the
   handling of its standard input will send *)
Definition std_procs (n : nat) (std : list (nat * list msg)) : list proc :=
  map (fun x => mkProc (fst x mod n) None (after false (snd x))) std.

Definition init (n np : nat) (std : list (nat * list msg)) : state :=
  mkState n (joined_pool n) (repeat false n) (repeat false n) (repeat 0 n) [] false
          (repeat MWaitStd n) (edge_procs n np ++ std_procs n std) [] 0 0.

(* total size of the workload *)
Definition workload (std : list (nat * list msg)) : nat :=
  fold_right (fun x acc => msizes (snd x) + acc) 0 std.

(* ---- observations ------------------------------------------------------------------------ *)

Definition main_terminal (pc : mpc) : bool := match pc with MDone => true | _ => false end.

(* torn down: every goroutine has returned *)
Definition final (s : state) : bool :=
  forallb main_terminal (st_main s) && forallb (fun p => is_pend (p_pc p)) (st_proc s).

(* the teardown events of member i, in order *)
Definition member_events (n i : nat) : list event :=
  map (EClose i) (seq 0 n) ++ [EWake (nxt n i)].

(* the one admissible teardown trace: leader (member n-1) first, then n-2, ..., 0 *)
Fixpoint canon_from (n i : nat) : list event :=
  match i with
  | O => []
  | S j => member_events n j ++ canon_from n j
  end.
Definition canon_log (n : nat) : list event := canon_from n n.

(* a round-robin scheduler for the oracle: fuel rounds over all threads *)
Definition all_tids (s : state) : list tid :=
  map TM (seq 0 (length (st_main s))) ++ map TP (seq 0 (length (st_proc s))).
Fixpoint run_rr (fuel : nat) (s : state) : state :=
  match fuel with
  | O => s
  | S f => if final s then s else run_rr f (run s (all_tids s))
  end.
