(* A variant of the cycle-group model (Conc/CycleGroup.v) in which a processing goroutine whose
   context is cancelled STOPS consuming its sender: what Core.ProcessSender would do with
   `defer DrainSender(ctx, sender)` instead of `defer DrainSender(context.Background(), ...)`.
   In the model of CycleGroup.v a cancelled goroutine keeps receiving and Done-ing the queued
   messages until the queue is closed (step_proc, PRecv with st_cancel: "DrainSender"); this file
   exists to show that this draining is necessary.  Definitions only. *)
From OFGA Require Export Conc.CycleGroup.

(* the goroutine of a cyclical sender, at Recv with the context cancelled, returns at once *)
Definition gives_up (s : state) (k : nat) : option proc :=
  match nth_error (st_proc s) k with
  | Some pr =>
    match p_pc pr, p_src pr with
    | PRecv, Some _ => if st_cancel s then Some pr else None
    | _, _ => None
    end
  | None => None
  end.

Definition step_nodrain (s : state) (t : tid) : option state :=
  match t with
  | TP k => match gives_up s k with
            | Some pr => Some (w_proc s k (mkProc (p_owner pr) (p_src pr) PEnd))
            | None => step s t
            end
  | _ => step s t
  end.

Fixpoint run_nodrain (s : state) (sched : list tid) : state :=
  match sched with
  | [] => s
  | t :: r => match step_nodrain s t with
              | Some s' => run_nodrain s' r
              | None => run_nodrain s r
              end
  end.

Definition stuck_nodrain (s : state) : bool :=
  forallb (fun t => match step_nodrain s t with None => true | Some _ => false end) (all_tids s).
