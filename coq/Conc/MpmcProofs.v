(* C22 — proofs about the MPMC model: the invariant of MpmcInv.v holds in every state reachable
   by any schedule of any number of threads running any programs, and the consequences
   (sequence invariant, no loss / no duplication, FIFO linearisation, close, no panic). *)
From OFGA Require Import Conc.FifoSpec Conc.Mpmc Conc.MpmcLemmas Conc.MpmcInv Conc.FifoSpecProofs.
From Coq Require Import Lia.

(* ------------------------------------------------------------------------------------------ *)
(* slots under updates *)

Lemma slot_at_with_slots G s i : slot_at (with_slots G s) i = nth i s (0, 0%N).
Proof. reflexivity. Qed.

Lemma slot_set_seq_eq G p v : ginv G ->
  slot_at (with_slots G (set_seq G p v)) (p mod cap G) = (v, snd (slot_at G (p mod cap G))).
Proof.
  intros [Hc Hl _ _ _ _ _ _ _]. unfold slot_at, set_seq; simpl.
  apply nth_upd_eq. rewrite Hl. apply mod_lt'. lia.
Qed.

Lemma slot_set_seq_ne G p v i : i <> p mod cap G ->
  slot_at (with_slots G (set_seq G p v)) i = slot_at G i.
Proof. intro H. unfold slot_at, set_seq; simpl. apply nth_upd_ne. auto. Qed.

Lemma slot_set_data_eq G p d : ginv G ->
  slot_at (with_slots G (set_data G p d)) (p mod cap G) = (fst (slot_at G (p mod cap G)), d).
Proof.
  intros [Hc Hl _ _ _ _ _ _ _]. unfold slot_at, set_data; simpl.
  apply nth_upd_eq. rewrite Hl. apply mod_lt'. lia.
Qed.

Lemma slot_set_data_ne G p d i : i <> p mod cap G ->
  slot_at (with_slots G (set_data G p d)) i = slot_at G i.
Proof. intro H. unfold slot_at, set_data; simpl. apply nth_upd_ne. auto. Qed.

Lemma fst_set_data G p d i : ginv G ->
  fst (slot_at (with_slots G (set_data G p d)) i) = fst (slot_at G i).
Proof.
  intro Hg. destruct (Nat.eq_dec i (p mod cap G)) as [->|Hne].
  - rewrite slot_set_data_eq; auto.
  - rewrite slot_set_data_ne; auto.
Qed.

Lemma snd_set_seq G p v i : ginv G ->
  snd (slot_at (with_slots G (set_seq G p v)) i) = snd (slot_at G i).
Proof.
  intro Hg. destruct (Nat.eq_dec i (p mod cap G)) as [->|Hne].
  - rewrite slot_set_seq_eq; auto.
  - rewrite slot_set_seq_ne; auto.
Qed.

(* two claims about the sequence number of the same slot agree *)
Lemma seq_same_slot G p q : p mod cap G = q mod cap G -> seq_at G p = seq_at G q.
Proof. unfold seq_at. intros ->. reflexivity. Qed.

(* ------------------------------------------------------------------------------------------ *)
(* "core equality": the part of the global state the thread invariants read *)

Record core_eq (G G' : glob) : Prop := {
  ce_slots : slots G' = slots G;
  ce_cap : cap G' = cap G;
  ce_head : head G' = head G;
  ce_tail : tail G' = tail G;
  ce_done : done G' = done G;
  ce_ecl : eclosed G' = eclosed G;
  ce_fcl : fclosed G' = fclosed G;
  ce_base : base G' = base G;
  ce_enqs : enqs (events G') = enqs (events G)
}.

Lemma core_eq_refl G : core_eq G G.
Proof. constructor; reflexivity. Qed.

Lemma tinv_core_eq G G' th : core_eq G G' -> tinv G th -> tinv G' th.
Proof.
  intros [E1 E2 E3 E4 E5 E6 E7 E8 E9].
  unfold tinv, seq_at, data_at, slot_at. rewrite E1, E2, E3, E4, E5, E6, E7, E8, E9. auto.
Qed.

Lemma slot_ok_core_eq G G' i : core_eq G G' -> slot_ok G i -> slot_ok G' i.
Proof.
  intros [E1 E2 E3 E4 E5 E6 E7 E8 E9].
  unfold slot_ok, slot_at. rewrite E1, E2, E3, E4, E8, E9. auto.
Qed.

Lemma owners_core_eq G G' T : core_eq G G' -> owners_ok G T -> owners_ok G' T.
Proof.
  intros [E1 E2 E3 E4 E5 E6 E7 E8 E9].
  unfold owners_ok, slot_at. rewrite E1, E2, E3, E4. auto.
Qed.

(* threads outside every locked section claim nothing *)
Lemma tinv_unlocked G th :
  read_pc (tpc th) = false -> write_pc (tpc th) = false -> tinv G th.
Proof.
  unfold tinv. destruct (tpc th); simpl; intros; try discriminate; auto.
Qed.

(* replacing a thread that keeps its ownership (and position) keeps all owners *)
Lemma owners_upd_keep G T t th th' :
  owners_ok G T -> nth_error T t = Some th ->
  (s_own (tpc th) = true -> s_own (tpc th') = true /\ r_pos th' = r_pos th) ->
  (r_own (tpc th) = true -> r_own (tpc th') = true /\ r_pos th' = r_pos th) ->
  owners_ok G (upd t th' T).
Proof.
  intros Ho Ht Hs Hr i Hi. destruct (Ho i Hi) as [A B]. split.
  - intros M L. destruct (A M L) as (u & thu & Hu & Ou & Pu).
    destruct (Nat.eq_dec u t) as [->|Hne].
    + exists t, th'. rewrite nth_error_upd_eq by (eapply nth_error_lt; eauto).
      assert (thu = th) by congruence. subst thu. destruct (Hs Ou) as [X Y].
      repeat split; auto. congruence.
    + exists u, thu. rewrite nth_error_upd_ne by auto. auto.
  - intros c E M L. destruct (B c E M L) as (u & thu & Hu & Ou & Pu).
    destruct (Nat.eq_dec u t) as [->|Hne].
    + exists t, th'. rewrite nth_error_upd_eq by (eapply nth_error_lt; eauto).
      assert (thu = th) by congruence. subst thu. destruct (Hr Ou) as [X Y].
      repeat split; auto. congruence.
    + exists u, thu. rewrite nth_error_upd_ne by auto. auto.
Qed.

(* ginv when only tokens / events-without-enq / flags change: the caller supplies the spec run *)
Lemma ginv_core_eq G G' : core_eq G G' -> ginv G ->
  run_spec chan0 (events G')
    = Some (mkChan (skipn (tail G' + base G') (enqs (events G'))) (done G')) ->
  panicked G' = false -> ginv G'.
Proof.
  intros CE [H1 H2 H3 H4 H5 H6 H7 H8 H9] Hs Hp.
  pose proof CE as [E1 E2 E3 E4 E5 E6 E7 E8 E9].
  constructor; auto.
  - congruence.
  - congruence.
  - congruence.
  - intros i Hi. apply (slot_ok_core_eq G G' i CE). apply H4. congruence.
  - congruence.
  - rewrite E5, E6. auto.
  - rewrite E6, E7. auto.
Qed.

(* phase facts *)
Lemma slot_phase0 G p : ginv G -> seq_at G p = p ->
  head G <= p + cap G /\ p < tail G + cap G.
Proof.
  intros Hg Hs. pose proof (gi_cap _ Hg) as Hc.
  destruct (gi_slots _ Hg (p mod cap G) ltac:(apply mod_lt'; lia)) as [(A & B & C)|(c & A & B & _)];
    unfold seq_at in Hs; rewrite Hs in *.
  - auto.
  - subst p. exfalso. apply (mod_succ_ne c (cap G)); auto.
Qed.

Lemma slot_phase1 G p : ginv G -> seq_at G p = p + 1 ->
  p < head G /\ head G <= p + cap G /\ p < tail G + cap G
  /\ (tail G <= p -> nth_error (enqs (events G)) (p + base G) = Some (data_at G p)).
Proof.
  intros Hg Hs. pose proof (gi_cap _ Hg) as Hc.
  destruct (gi_slots _ Hg (p mod cap G) ltac:(apply mod_lt'; lia)) as [(A & B & C)|(c & A & B & C & D & E & F)];
    unfold seq_at in Hs; rewrite Hs in *.
  - exfalso. replace (p + 1) with (S p) in A by lia. apply (mod_succ_ne p (cap G)); auto.
  - assert (c = p) by lia. subst c. unfold data_at. auto.
Qed.

(* ---- (a) successful head CAS ---- *)
Lemma ginv_head_cas G t v : ginv G -> done G = false -> seq_at G (head G) = head G ->
  ginv (with_head_ev G (head G + 1) (EEnq t v)).
Proof.
  intros Hg Hd Hs. pose proof (gi_cap _ Hg) as Hc.
  constructor; simpl; try apply Hg.
  - pose proof (gi_th _ Hg). lia.
  - intros i Hi. destruct (gi_slots _ Hg i Hi) as [(A & B & C)|(c & A & B & C & D & E & F)];
      unfold slot_ok; simpl.
    + left. change (slot_at (with_head_ev G (head G + 1) (EEnq t v)) i) with (slot_at G i).
      split; auto. split; auto.
      destruct (Nat.eq_dec (fst (slot_at G i) + cap G) (head G)) as [Eq|Ne]; [|lia].
      exfalso. assert (Hm : head G mod cap G = i) by (rewrite <- Eq, mod_add_cap; auto; lia).
      unfold seq_at in Hs. rewrite Hm in Hs. lia.
    + right. exists c. change (slot_at (with_head_ev G (head G + 1) (EEnq t v)) i) with (slot_at G i).
      repeat split; auto; try lia.
      * destruct (Nat.eq_dec (c + cap G) (head G)) as [Eq|Ne]; [|lia].
        exfalso. assert (Hm : head G mod cap G = i) by (rewrite <- Eq, mod_add_cap; auto; lia).
        unfold seq_at in Hs. rewrite Hm in Hs. lia.
      * intro L. rewrite enqs_app. apply nth_error_app_l. auto.
  - rewrite enqs_app, app_length. simpl. rewrite (gi_nenq _ Hg). lia.
  - rewrite run_spec_app, (gi_spec _ Hg). simpl. rewrite Hd. simpl. f_equal. f_equal.
    rewrite enqs_app. simpl. rewrite skipn_app_last; auto.
    rewrite (gi_nenq _ Hg). pose proof (gi_th _ Hg). lia.
Qed.

Ltac tinv_crush :=
  unfold tinv, seq_at, data_at, slot_at; simpl.

Lemma frame_head_cas G t v thu : done G = false -> tinv G thu ->
  tinv (with_head_ev G (head G + 1) (EEnq t v)) thu.
Proof.
  intros Hd. unfold tinv, seq_at, data_at, slot_at. destruct (tpc thu); simpl; auto;
    rewrite ?enqs_app; intuition (try lia; try congruence; try (apply nth_error_app_l; assumption)).
Qed.

(* ---- (b) successful tail CAS ---- *)
Lemma ginv_tail_cas G t : ginv G -> seq_at G (tail G) = tail G + 1 ->
  ginv (with_tail_ev G (tail G + 1) (EDeq t (data_at G (tail G)))).
Proof.
  intros Hg Hs. pose proof (gi_cap _ Hg) as Hc.
  destruct (slot_phase1 G (tail G) Hg Hs) as (P1 & P2 & P3 & P4).
  assert (Hnth := P4 (le_n _)).
  assert (Een : enqs (events G ++ [EDeq t (data_at G (tail G))]) = enqs (events G))
    by (rewrite enqs_app; simpl; apply app_nil_r).
  constructor; simpl; try apply Hg.
  - lia.
  - intros i Hi. destruct (gi_slots _ Hg i Hi) as [(A & B & C)|(c & A & B & C & D & E & F)];
      unfold slot_ok; simpl;
      change (slot_at (with_tail_ev G (tail G + 1) (EDeq t (data_at G (tail G)))) i) with (slot_at G i).
    + left. repeat split; auto; lia.
    + right. exists c. repeat split; auto; try lia.
      intro L. rewrite Een. apply F. lia.
  - rewrite Een. apply Hg.
  - rewrite run_spec_app, (gi_spec _ Hg). rewrite Een. simpl.
    rewrite (skipn_nth_cons _ _ _ Hnth). rewrite N.eqb_refl.
    replace (tail G + 1 + base G) with (S (tail G + base G)) by lia. reflexivity.
Qed.

Lemma frame_tail_cas G t thu : ginv G -> seq_at G (tail G) = tail G + 1 -> tinv G thu ->
  tinv (with_tail_ev G (tail G + 1) (EDeq t (data_at G (tail G)))) thu.
Proof.
  intros Hg Hs.
  assert (Een : enqs (events G ++ [EDeq t (data_at G (tail G))]) = enqs (events G))
    by (rewrite enqs_app; simpl; apply app_nil_r).
  unfold tinv. destruct (tpc thu); simpl; auto;
  change (seq_at (with_tail_ev G (tail G + 1) (EDeq t (data_at G (tail G)))) (r_pos thu)) with (seq_at G (r_pos thu));
  change (data_at (with_tail_ev G (tail G + 1) (EDeq t (data_at G (tail G)))) (r_pos thu)) with (data_at G (r_pos thu));
  rewrite ?Een; intuition (try lia; try congruence).
  - assert (r_pos thu <> tail G) by (intro E; rewrite E in *; lia). lia.
  - assert (r_pos thu <> tail G) by (intro E; rewrite E in *; lia). lia.
Qed.

(* ---- (c,e) data writes into an owned slot ---- *)
Lemma slot_ok_with_slots_ne G s i :
  slot_at (with_slots G s) i = slot_at G i -> slot_ok G i -> slot_ok (with_slots G s) i.
Proof. intros E H. unfold slot_ok in *. rewrite E. exact H. Qed.

Lemma ginv_set_data G p d : ginv G ->
  (seq_at G p = p \/ (seq_at G p = p + 1 /\ p < tail G)) ->
  ginv (with_slots G (set_data G p d)).
Proof.
  intros Hg Hs. pose proof (gi_cap _ Hg) as Hc.
  constructor; simpl; try apply Hg.
  - unfold set_data. rewrite upd_length. apply Hg.
  - intros i Hi. destruct (Nat.eq_dec i (p mod cap G)) as [->|Hne].
    + unfold slot_ok. rewrite slot_set_data_eq by auto. simpl.
      destruct (gi_slots _ Hg _ Hi) as [(A & B & C)|(c & A & B & C & D & E & F)].
      * left. auto.
      * right. exists c. repeat split; auto. intro L. exfalso.
        unfold seq_at in Hs. destruct Hs as [Hs|[Hs Hlt]]; rewrite Hs in A.
        -- subst p. apply (mod_succ_ne c (cap G)); auto.
        -- assert (c = p) by lia. subst c. lia.
    + apply slot_ok_with_slots_ne; [apply slot_set_data_ne; auto | apply Hg; auto].
Qed.

Lemma frame_set_data G p d thu : ginv G -> tinv G thu ->
  (tpc thu = S_pub \/ tpc thu = R_read -> r_pos thu mod cap G <> p mod cap G) ->
  tinv (with_slots G (set_data G p d)) thu.
Proof.
  intros Hg Ht Hc. unfold tinv in *.
  assert (Hseq : forall q, seq_at (with_slots G (set_data G p d)) q = seq_at G q)
    by (intro q; unfold seq_at; simpl; apply fst_set_data; auto).
  assert (Hdat : forall q, q mod cap G <> p mod cap G ->
                 data_at (with_slots G (set_data G p d)) q = data_at G q)
    by (intros q Hq; unfold data_at; simpl; rewrite slot_set_data_ne; auto).
  destruct (tpc thu); simpl; rewrite ?Hseq; auto.
  - rewrite Hdat; auto.
  - rewrite Hdat; auto.
Qed.

(* ---- (d) publish ---- *)
Lemma ginv_set_seq_pub G p : ginv G -> seq_at G p = p -> p < head G ->
  nth_error (enqs (events G)) (p + base G) = Some (data_at G p) ->
  ginv (with_slots G (set_seq G p (p + 1))).
Proof.
  intros Hg Hs Hh Hn. pose proof (gi_cap _ Hg) as Hc.
  destruct (slot_phase0 G p Hg Hs) as [P1 P2].
  constructor; simpl; try apply Hg.
  - unfold set_seq. rewrite upd_length. apply Hg.
  - intros i Hi. destruct (Nat.eq_dec i (p mod cap G)) as [->|Hne].
    + unfold slot_ok. rewrite slot_set_seq_eq by auto. simpl.
      right. exists p. repeat split; auto; lia.
    + apply slot_ok_with_slots_ne; [apply slot_set_seq_ne; auto | apply Hg; auto].
Qed.

(* ---- (f) recycle ---- *)
Lemma ginv_set_seq_recycle G p : ginv G -> seq_at G p = p + 1 -> p < tail G ->
  ginv (with_slots G (set_seq G p (p + cap G))).
Proof.
  intros Hg Hs Hh. pose proof (gi_cap _ Hg) as Hc.
  destruct (slot_phase1 G p Hg Hs) as (P1 & P2 & P3 & _).
  constructor; simpl; try apply Hg.
  - unfold set_seq. rewrite upd_length. apply Hg.
  - intros i Hi. destruct (Nat.eq_dec i (p mod cap G)) as [->|Hne].
    + unfold slot_ok. rewrite slot_set_seq_eq by auto. simpl.
      left. repeat split; try lia. apply mod_add_cap. lia.
    + apply slot_ok_with_slots_ne; [apply slot_set_seq_ne; auto | apply Hg; auto].
Qed.

Definition seq_frame_cond (G : glob) (p : nat) (thu : thread) : Prop :=
  match tpc thu with
  | S_write | S_pub | R_read | R_recycle => r_pos thu mod cap G <> p mod cap G
  | S_cas => head G = r_pos thu -> r_pos thu mod cap G <> p mod cap G
  | R_cas => tail G = r_pos thu -> r_pos thu mod cap G <> p mod cap G
  | _ => True
  end.

Lemma frame_set_seq G p v thu : ginv G -> tinv G thu -> seq_frame_cond G p thu ->
  tinv (with_slots G (set_seq G p v)) thu.
Proof.
  intros Hg Ht Hc. unfold tinv, seq_frame_cond in *.
  assert (Hdat : forall q, data_at (with_slots G (set_seq G p v)) q = data_at G q)
    by (intro q; unfold data_at; simpl; apply snd_set_seq; auto).
  assert (Hseq : forall q, q mod cap G <> p mod cap G ->
                 seq_at (with_slots G (set_seq G p v)) q = seq_at G q)
    by (intros q Hq; unfold seq_at; simpl; rewrite slot_set_seq_ne; auto).
  destruct (tpc thu); simpl; rewrite ?Hdat; auto;
    try (rewrite Hseq by auto; auto).
  - destruct Ht as (A & B & C). repeat split; auto. intro E. rewrite Hseq; auto.
  - destruct Ht as (A & B). repeat split; auto. intro E. rewrite Hseq; auto.
Qed.

(* ---- (g) extend ---- *)
Lemma nth_map_seq {A} (f : nat -> A) n i d : i < n -> nth i (map f (seq 0 n)) d = f i.
Proof.
  intro H. rewrite (nth_indep _ d (f 0)) by (rewrite map_length, seq_length; auto).
  rewrite map_nth. rewrite seq_nth; auto.
Qed.

Definition no_owner (T : list thread) : Prop :=
  forall u thu, nth_error T u = Some thu -> s_own (tpc thu) = false /\ r_own (tpc thu) = false.

(* without in-flight operations every buffered position is published in its slot *)
Lemma quiescent_slot G T k : ginv G -> owners_ok G T -> no_owner T -> k < head G - tail G ->
  seq_at G (tail G + k) = tail G + k + 1
  /\ nth_error (enqs (events G)) (tail G + k + base G) = Some (data_at G (tail G + k)).
Proof.
  intros Hg Ho Hn Hk. pose proof (gi_cap _ Hg) as Hc.
  set (p := tail G + k). set (i := p mod cap G).
  assert (Hi : i < cap G) by (apply mod_lt'; lia).
  destruct (Ho i Hi) as [O1 O2].
  unfold seq_at, data_at. fold i.
  destruct (gi_slots _ Hg i Hi) as [(A & B & C)|(c & A & B & C & D & E & F)].
  - exfalso.
    destruct (Nat.lt_ge_cases (fst (slot_at G i)) (head G)) as [L|L].
    + destruct (O1 A L) as (u & thu & Hu & Ou & _). destruct (Hn _ _ Hu). congruence.
    + assert (fst (slot_at G i) = p) by (apply (mod_close _ _ (cap G)); unfold p in *; auto; lia).
      unfold p in *. lia.
  - destruct (Nat.lt_ge_cases c (tail G)) as [L|L].
    + exfalso. destruct (O2 c A B L) as (u & thu & Hu & Ou & _). destruct (Hn _ _ Hu). congruence.
    + assert (c = p) by (apply (mod_close _ _ (cap G)); unfold p in *; auto; lia).
      subst c. split; [lia|]. apply F. auto.
Qed.

Lemma head_le_tail_cap G : ginv G -> head G <= tail G + cap G.
Proof.
  intros Hg. pose proof (gi_cap _ Hg) as Hc.
  assert (Hi : tail G mod cap G < cap G) by (apply mod_lt'; lia).
  destruct (gi_slots _ Hg _ Hi) as [(A & B & C)|(c & A & B & C & D & E & F)].
  - destruct (Nat.le_gt_cases (fst (slot_at G (tail G mod cap G))) (tail G)); [lia|].
    assert (fst (slot_at G (tail G mod cap G)) = tail G) by (apply (mod_close _ _ (cap G)); auto; lia).
    lia.
  - destruct (Nat.le_gt_cases c (tail G)); [lia|].
    assert (c = tail G) by (apply (mod_close _ _ (cap G)); auto; lia). lia.
Qed.

Lemma extend_grows G n : cap G < n ->
  extend G n = mkGlob
    (map (fun i => if i <? head G - tail G then (i + 1, data_at G (tail G + i)) else (i, 0%N)) (seq 0 n))
    n (head G - tail G) 0 (done G) (etok G) (eclosed G) (ftok G) (fclosed G)
    (exts G) (extended G + 1) (panicked G) (base G + tail G) (events G).
Proof.
  intro H. unfold extend. destruct (Nat.leb_spec n (cap G)); [lia|reflexivity].
Qed.

Lemma extend_noop G n : n <= cap G -> extend G n = G.
Proof. intro H. unfold extend. destruct (Nat.leb_spec n (cap G)); [reflexivity|lia]. Qed.

Lemma ginv_extend G T n : ginv G -> owners_ok G T -> no_owner T -> cap G < n ->
  ginv (extend G n).
Proof.
  intros Hg Ho Hn Hlt. pose proof (gi_cap _ Hg) as Hc. pose proof (gi_th _ Hg) as Hth.
  pose proof (head_le_tail_cap G Hg) as Hht.
  rewrite extend_grows by auto.
  constructor; simpl; try apply Hg.
  - lia.
  - rewrite map_length, seq_length. auto.
  - lia.
  - intros i Hi. unfold slot_ok, slot_at; simpl. rewrite nth_map_seq by auto.
    destruct (Nat.ltb_spec i (head G - tail G)) as [L|L]; simpl.
    + right. exists i. repeat split; try lia.
      * apply Nat.mod_small. auto.
      * intros. destruct (quiescent_slot G T i Hg Ho Hn L) as [_ Q].
        replace (i + (base G + tail G)) with (tail G + i + base G) by lia. exact Q.
    + left. repeat split; try lia. apply Nat.mod_small. auto.
  - rewrite (gi_nenq _ Hg). lia.
  - rewrite (gi_spec _ Hg). f_equal. f_equal. f_equal. lia.
Qed.

Lemma owners_extend G T' n : ginv G -> cap G < n -> owners_ok (extend G n) T'.
Proof.
  intros Hg Hlt. pose proof (gi_cap _ Hg) as Hc. pose proof (gi_th _ Hg) as Hth.
  rewrite extend_grows by auto.
  intros i Hi. simpl in Hi. unfold slot_at; simpl. rewrite nth_map_seq by auto.
  destruct (Nat.ltb_spec i (head G - tail G)) as [L|L]; simpl; split.
  - intros M _. exfalso. replace (i + 1) with (S i) in M by lia.
    assert (i mod n = i) by (apply Nat.mod_small; auto).
    apply (mod_succ_ne i n); [lia | congruence].
  - intros c E M Lc. lia.
  - intros _ Lh. lia.
  - intros c E M Lc. lia.
Qed.

(* ---- owners under the global effects ---- *)
Lemma owners_head_cas G T t th th' e : owners_ok G T -> nth_error T t = Some th ->
  s_own (tpc th) = false -> r_own (tpc th) = false ->
  s_own (tpc th') = true -> r_pos th' = head G ->
  owners_ok (with_head_ev G (head G + 1) e) (upd t th' T).
Proof.
  intros Ho Ht Hs Hr Hs' Hp i Hi. simpl in Hi.
  change (slot_at (with_head_ev G (head G + 1) e) i) with (slot_at G i). simpl.
  destruct (Ho i Hi) as [A B]. split.
  - intros M L. destruct (Nat.eq_dec (fst (slot_at G i)) (head G)) as [E|NE].
    + exists t, th'. rewrite nth_error_upd_eq by (eapply nth_error_lt; eauto). repeat split; auto. congruence.
    + destruct (A M ltac:(lia)) as (u & thu & Hu & Ou & Pu).
      assert (u <> t) by (intros ->; congruence).
      exists u, thu. rewrite nth_error_upd_ne by auto. auto.
  - intros c E M L. destruct (B c E M L) as (u & thu & Hu & Ou & Pu).
    assert (u <> t) by (intros ->; congruence).
    exists u, thu. rewrite nth_error_upd_ne by auto. auto.
Qed.

Lemma owners_tail_cas G T t th th' e : owners_ok G T -> nth_error T t = Some th ->
  s_own (tpc th) = false -> r_own (tpc th) = false ->
  r_own (tpc th') = true -> r_pos th' = tail G ->
  owners_ok (with_tail_ev G (tail G + 1) e) (upd t th' T).
Proof.
  intros Ho Ht Hs Hr Hr' Hp i Hi. simpl in Hi.
  change (slot_at (with_tail_ev G (tail G + 1) e) i) with (slot_at G i). simpl.
  destruct (Ho i Hi) as [A B]. split.
  - intros M L. destruct (A M L) as (u & thu & Hu & Ou & Pu).
    assert (u <> t) by (intros ->; congruence).
    exists u, thu. rewrite nth_error_upd_ne by auto. auto.
  - intros c E M L. destruct (Nat.eq_dec c (tail G)) as [Ec|NE].
    + exists t, th'. rewrite nth_error_upd_eq by (eapply nth_error_lt; eauto). repeat split; auto. congruence.
    + destruct (B c E M ltac:(lia)) as (u & thu & Hu & Ou & Pu).
      assert (u <> t) by (intros ->; congruence).
      exists u, thu. rewrite nth_error_upd_ne by auto. auto.
Qed.

Lemma owners_set_data G T p d : ginv G -> owners_ok G T ->
  owners_ok (with_slots G (set_data G p d)) T.
Proof.
  intros Hg Ho i Hi. simpl in *. rewrite fst_set_data by auto. apply Ho. auto.
Qed.

Lemma owners_set_seq G T t th th' p v : ginv G -> owners_ok G T -> nth_error T t = Some th ->
  r_pos th = p ->
  (v mod cap G = p mod cap G -> v < head G -> False) ->
  (forall c, v = S c -> c mod cap G = p mod cap G -> c < tail G -> False) ->
  owners_ok (with_slots G (set_seq G p v)) (upd t th' T).
Proof.
  intros Hg Ho Ht Hp N1 N2 i Hi. simpl in *.
  destruct (Nat.eq_dec i (p mod cap G)) as [->|Hne].
  - rewrite slot_set_seq_eq by auto. simpl. split.
    + intros M L. exfalso. auto.
    + intros c E M L. exfalso. eauto.
  - rewrite slot_set_seq_ne by auto. destruct (Ho i Hi) as [A B]. split.
    + intros M L. destruct (A M L) as (u & thu & Hu & Ou & Pu).
      assert (u <> t) by (intros ->; assert (thu = th) by congruence; subst thu; congruence).
      exists u, thu. rewrite nth_error_upd_ne by auto. auto.
    + intros c E M L. destruct (B c E M L) as (u & thu & Hu & Ou & Pu).
      assert (u <> t) by (intros ->; assert (thu = th) by congruence; subst thu; congruence).
      exists u, thu. rewrite nth_error_upd_ne by auto. auto.
Qed.

(* ------------------------------------------------------------------------------------------ *)
(* preservation, one lemma per program counter *)

Definition pres (X : pc) : Prop :=
  forall progs G T t th G' th', Inv progs (mkState G T) -> nth_error T t = Some th ->
    tpc th = X -> tstep G (no_writer T) (no_holder T) t th = Some (G', th') ->
    Inv progs (mkState G' (upd t th' T)).

(* the bookkeeping goals of step_generic when the thread is given as a record with a known pc *)
Ltac ev_fin := unfold inflight; simpl; rewrite ?flat_map_app; simpl;
  rewrite ?app_nil_r, <- ?app_assoc; simpl; try reflexivity.
Ltac ev_nil := exists (@nil event); rewrite ?app_nil_r; simpl;
  split; [reflexivity | split; [intros ? [] | ev_fin]].
Ltac ev_one e := exists [e]; simpl;
  split; [reflexivity | split; [intros ? [<-|[]]; reflexivity | ev_fin]].
Ltac lock_tac := simpl; intro; try discriminate; auto.
Ltac own_tac := simpl; intro; try discriminate; left; auto.

Ltac start :=
  intros progs G T t th G' th' HI Ht Epc Hs;
  destruct th as [pg pc0 pos val cp rs]; simpl in Epc; subst pc0;
  unfold tstep in Hs; simpl in Hs;
  pose proof (i_g _ _ HI) as Hg; simpl in Hg;
  pose proof (i_t _ _ HI _ _ Ht) as Hti; unfold tinv in Hti; simpl in Hti;
  pose proof (i_prog _ _ HI _ _ Ht) as [Hpo Hpr]; unfold pc_op in Hpo; simpl in Hpo, Hpr.

(* G' = G, ownership unchanged *)
Ltac same_glob HI Ht :=
  eapply (step_generic _ _ _ _ _ _ _ HI Ht);
  [ assumption
  | intros; assumption
  | unfold tinv; simpl; try exact I
  | ev_nil
  | unfold pc_op; simpl; split; [eauto | try reflexivity]
  | lock_tac | lock_tac | own_tac | own_tac
  | eapply owners_upd_keep; [apply (i_own _ _ HI) | exact Ht | simpl; intro; try discriminate; auto
                            | simpl; intro; try discriminate; auto] ].

Lemma core_eq_with_ev G e : enqs [e] = [] -> core_eq G (with_ev G e).
Proof.
  intro H. constructor; simpl; auto. rewrite enqs_app, H. apply app_nil_r.
Qed.

Lemma ginv_with_ev G e : ginv G -> enqs [e] = [] ->
  spec_step (mkChan (skipn (tail G + base G) (enqs (events G))) (done G)) e
    = Some (mkChan (skipn (tail G + base G) (enqs (events G))) (done G)) ->
  ginv (with_ev G e).
Proof.
  intros Hg He Hs. apply (ginv_core_eq G); auto.
  - apply core_eq_with_ev; auto.
  - simpl. rewrite run_spec_app, (gi_spec _ Hg). simpl. rewrite Hs.
    rewrite enqs_app, He, app_nil_r. reflexivity.
  - apply Hg.
Qed.

(* an event-only step *)
Ltac ev_glob HI Ht e :=
  eapply (step_generic _ _ _ _ _ _ _ HI Ht);
  [ apply ginv_with_ev; [assumption | reflexivity | ]
  | intros; eapply tinv_core_eq; [apply core_eq_with_ev; reflexivity | eassumption]
  | unfold tinv; simpl; try exact I
  | ev_one e
  | unfold pc_op; simpl; split; [eauto | try reflexivity]
  | lock_tac | lock_tac | own_tac | own_tac
  | eapply owners_core_eq; [apply core_eq_with_ev; reflexivity |
      eapply owners_upd_keep; [apply (i_own _ _ HI) | exact Ht | simpl; intro; try discriminate; auto
                              | simpl; intro; try discriminate; auto]] ].

Lemma pres_S_loadhead : pres S_loadhead.
Proof.
  start. inversion Hs; subst; clear Hs. same_glob HI Ht. lia.
Qed.

Lemma pres_S_loop : pres S_loop.
Proof.
  start. destruct (done G) eqn:Hd; inversion Hs; subst; clear Hs.
  - ev_glob HI Ht (EEnqFail t). simpl. rewrite Hd. reflexivity.
  - same_glob HI Ht. auto.
Qed.

(* tokens only *)
Ltac ce := constructor; reflexivity.
Ltac core_glob HI Ht Hg :=
  eapply (step_generic _ _ _ _ _ _ _ HI Ht);
  [ eapply ginv_core_eq; [ | exact Hg | simpl; apply (gi_spec _ Hg) | simpl; apply Hg]; ce
  | intros; eapply tinv_core_eq; [ | eassumption]; ce
  | unfold tinv; simpl; try exact I
  | ev_nil
  | unfold pc_op; simpl; split; [eauto | try reflexivity]
  | lock_tac | lock_tac | own_tac | own_tac
  | eapply owners_core_eq; [ |
      eapply owners_upd_keep; [apply (i_own _ _ HI) | exact Ht | simpl; intro; try discriminate; auto
                              | simpl; intro; try discriminate; auto]]; ce ].

Lemma pres_Idle : pres Idle.
Proof.
  start. destruct pg as [|o rest]; [discriminate|].
  destruct o; [destruct (no_writer T) eqn:NW | destruct (no_writer T) eqn:NW
              | destruct (no_holder T) eqn:NH | destruct (no_holder T) eqn:NH];
    inversion Hs; subst; clear Hs; same_glob HI Ht.
Qed.

Lemma pres_S_chk0 : pres S_chk0.
Proof.
  start. destruct (done G) eqn:Hd; inversion Hs; subst; clear Hs.
  - ev_glob HI Ht (EEnqFail t). simpl. rewrite Hd. reflexivity.
  - same_glob HI Ht.
Qed.

Lemma pres_S_loadseq : pres S_loadseq.
Proof.
  start. destruct Hti as [H1 H2].
  destruct (Nat.eqb_spec (seq_at G pos) pos) as [E|NE];
    [|destruct (Nat.ltb_spec (seq_at G pos) pos) as [L|L]];
    inversion Hs; subst; clear Hs; same_glob HI Ht; auto.
Qed.

Lemma pres_S_rett : pres S_rett.
Proof.
  start. inversion Hs; subst; clear Hs. destruct Hpo as [rest ->]. same_glob HI Ht.
  rewrite map_app, <- app_assoc. reflexivity.
Qed.

Lemma pres_S_retf : pres S_retf.
Proof.
  start. inversion Hs; subst; clear Hs. destruct Hpo as [rest ->]. same_glob HI Ht.
  rewrite map_app, <- app_assoc. reflexivity.
Qed.

Lemma pres_S_snap : pres S_snap.
Proof.
  start. destruct (can_extend G); inversion Hs; subst; clear Hs; same_glob HI Ht.
Qed.

Lemma pres_S_lock : pres S_lock.
Proof.
  start. destruct (no_holder T) eqn:NH; inversion Hs; subst; clear Hs. same_glob HI Ht.
Qed.

Lemma pres_S_unlock : pres S_unlock.
Proof. start. inversion Hs; subst; clear Hs. same_glob HI Ht. Qed.

Lemma pres_S_relock : pres S_relock.
Proof.
  start. destruct (no_writer T) eqn:NW; inversion Hs; subst; clear Hs. same_glob HI Ht.
Qed.

Lemma pres_S_park : pres S_park.
Proof.
  start. destruct (ftok G) eqn:Hf; [|destruct (fclosed G) eqn:Hc]; inversion Hs; subst; clear Hs.
  - core_glob HI Ht Hg.
  - same_glob HI Ht.
Qed.

Lemma pres_R_loadtail : pres R_loadtail.
Proof. start. inversion Hs; subst; clear Hs. same_glob HI Ht. lia. Qed.

Lemma pres_R_chkdone : pres R_chkdone.
Proof.
  start. destruct (done G) eqn:Hd; inversion Hs; subst; clear Hs; same_glob HI Ht. auto.
Qed.

Lemma pres_R_rett : pres R_rett.
Proof.
  start. inversion Hs; subst; clear Hs. destruct Hpo as [rest ->]. same_glob HI Ht.
  rewrite map_app, <- app_assoc. reflexivity.
Qed.

Lemma pres_R_retf : pres R_retf.
Proof.
  start. inversion Hs; subst; clear Hs. destruct Hpo as [rest ->]. same_glob HI Ht.
  rewrite map_app, <- app_assoc. reflexivity.
Qed.

Lemma pres_R_unl : pres R_unl.
Proof. start. inversion Hs; subst; clear Hs. same_glob HI Ht. Qed.

Lemma pres_R_relock : pres R_relock.
Proof.
  start. destruct (no_writer T) eqn:NW; inversion Hs; subst; clear Hs. same_glob HI Ht.
Qed.

Lemma pres_R_park : pres R_park.
Proof.
  start. destruct (etok G) eqn:Hf; [|destruct (eclosed G) eqn:Hc]; inversion Hs; subst; clear Hs.
  - core_glob HI Ht Hg.
  - same_glob HI Ht.
Qed.

Lemma pres_C_unlock : pres C_unlock.
Proof.
  start. inversion Hs; subst; clear Hs. destruct Hpo as [rest ->]. same_glob HI Ht.
  rewrite map_app, <- app_assoc. reflexivity.
Qed.

Lemma pres_G_unlock : pres G_unlock.
Proof.
  start. destruct Hpo as (n & rest & ->). inversion Hs; subst; clear Hs. same_glob HI Ht.
  rewrite map_app, <- app_assoc. reflexivity.
Qed.

Lemma pres_S_cas : pres S_cas.
Proof.
  start. destruct Hti as (H1 & H2 & H3).
  destruct (Nat.eqb_spec (head G) pos) as [E|NE]; inversion Hs; subst; clear Hs.
  - specialize (H3 eq_refl).
    eapply (step_generic _ _ _ _ _ _ _ HI Ht).
    + apply ginv_head_cas; auto.
    + intros. apply frame_head_cas; auto.
    + unfold tinv; simpl. pose proof (gi_th _ Hg). repeat split; auto; try lia.
      rewrite enqs_app. simpl. rewrite <- (gi_nenq _ Hg). apply nth_error_app_last.
    + ev_one (EEnq t val).
    + unfold pc_op; simpl; split; [eauto | reflexivity].
    + lock_tac.
    + lock_tac.
    + simpl. intros _. right. intros u thu Hne Hu Ou.
      pose proof (i_t _ _ HI _ _ Hu) as Hi. unfold tinv in Hi. simpl in Hi.
      destruct (tpc thu); simpl in Ou; try discriminate; lia.
    + own_tac.
    + eapply owners_head_cas; [apply (i_own _ _ HI) | exact Ht | reflexivity | reflexivity | reflexivity | reflexivity].
  - same_glob HI Ht. lia.
Qed.

Lemma pres_R_cas : pres R_cas.
Proof.
  start. destruct Hti as (H1 & H3).
  destruct (Nat.eqb_spec (tail G) pos) as [E|NE]; inversion Hs; subst; clear Hs.
  - specialize (H3 eq_refl).
    eapply (step_generic _ _ _ _ _ _ _ HI Ht).
    + apply ginv_tail_cas; auto.
    + intros. apply frame_tail_cas; auto.
    + unfold tinv; simpl. repeat split; auto; try lia.
    + ev_one (EDeq t (data_at G (tail G))).
    + unfold pc_op; simpl; split; [eauto | reflexivity].
    + lock_tac.
    + lock_tac.
    + own_tac.
    + simpl. intros _. right. intros u thu Hne Hu Ou.
      pose proof (i_t _ _ HI _ _ Hu) as Hi. unfold tinv in Hi. simpl in Hi.
      destruct (tpc thu); simpl in Ou; try discriminate; lia.
    + eapply owners_tail_cas; [apply (i_own _ _ HI) | exact Ht | reflexivity | reflexivity | reflexivity | reflexivity].
  - same_glob HI Ht. lia.
Qed.

Lemma mod_contra a b c : 2 <= c -> a mod c = b mod c -> a = b + 1 -> False.
Proof.
  intros Hc Hm E. subst a. replace (b + 1) with (S b) in Hm by lia.
  apply (mod_succ_ne b c); auto.
Qed.

(* the sequence claim of the stepping thread and of another thread on the same slot *)
Ltac same_slot G Emod :=
  match goal with
  | A : seq_at G ?p = _, B : seq_at G ?q = _ |- _ =>
      let X := fresh "X" in
      assert (X : seq_at G p = seq_at G q) by (apply seq_same_slot; auto);
      rewrite A, B in X
  end.

Lemma pres_S_write : pres S_write.
Proof.
  start. destruct Hti as (H1 & H2 & H3 & H4 & H5). inversion Hs; subst; clear Hs.
  pose proof (gi_cap _ Hg) as Hc.
  eapply (step_generic _ _ _ _ _ _ _ HI Ht).
  - apply ginv_set_data; auto.
  - intros u thu Hne Hu Hi _ _ Hsd _. apply frame_set_data; auto.
    simpl in Hsd. unfold tinv in Hi.
    intros [E|E] Emod; rewrite E in *; simpl in *.
    + destruct Hi as (_ & _ & _ & I4 & _).
      assert (X : seq_at G (r_pos thu) = seq_at G pos) by (apply seq_same_slot; auto).
      rewrite I4, H4 in X. apply Hsd; auto.
    + destruct Hi as (_ & I4 & _).
      assert (X : seq_at G (r_pos thu) = seq_at G pos) by (apply seq_same_slot; auto).
      rewrite I4, H4 in X. apply (mod_contra pos (r_pos thu) (cap G)); auto.
  - unfold tinv; simpl. repeat split; auto.
    + unfold seq_at; simpl. rewrite fst_set_data; auto.
    + unfold data_at; simpl. rewrite slot_set_data_eq; auto.
  - ev_nil.
  - unfold pc_op; simpl; split; [eauto | reflexivity].
  - lock_tac.
  - lock_tac.
  - own_tac.
  - own_tac.
  - apply owners_set_data; auto.
    eapply owners_upd_keep; [apply (i_own _ _ HI) | exact Ht | simpl; auto | simpl; intro; discriminate].
Qed.

Lemma pres_S_pub : pres S_pub.
Proof.
  start. destruct Hti as (H1 & H2 & H3 & H4 & H5 & H6). inversion Hs; subst; clear Hs.
  pose proof (gi_cap _ Hg) as Hc.
  eapply (step_generic _ _ _ _ _ _ _ HI Ht).
  - apply ginv_set_seq_pub; auto; congruence.
  - intros u thu Hne Hu Hi _ _ Hsd _. apply frame_set_seq; auto.
    simpl in Hsd. unfold tinv in Hi. unfold seq_frame_cond.
    destruct (tpc thu); simpl in *; auto.
    + destruct Hi as (_ & _ & I3). intros Eh Emod. specialize (I3 Eh).
      assert (X : seq_at G (r_pos thu) = seq_at G pos) by (apply seq_same_slot; auto).
      rewrite I3, H4 in X. lia.
    + destruct Hi as (_ & _ & _ & I4 & _). intros Emod.
      assert (X : seq_at G (r_pos thu) = seq_at G pos) by (apply seq_same_slot; auto).
      rewrite I4, H4 in X. apply Hsd; auto.
    + destruct Hi as (_ & _ & _ & I4 & _). intros Emod.
      assert (X : seq_at G (r_pos thu) = seq_at G pos) by (apply seq_same_slot; auto).
      rewrite I4, H4 in X. apply Hsd; auto.
    + destruct Hi as (_ & I3). intros Eh Emod. specialize (I3 Eh).
      assert (X : seq_at G (r_pos thu) = seq_at G pos) by (apply seq_same_slot; auto).
      rewrite I3, H4 in X. apply (mod_contra pos (r_pos thu) (cap G)); auto.
    + destruct Hi as (_ & I4 & _). intros Emod.
      assert (X : seq_at G (r_pos thu) = seq_at G pos) by (apply seq_same_slot; auto).
      rewrite I4, H4 in X. apply (mod_contra pos (r_pos thu) (cap G)); auto.
    + destruct Hi as (_ & I4). intros Emod.
      assert (X : seq_at G (r_pos thu) = seq_at G pos) by (apply seq_same_slot; auto).
      rewrite I4, H4 in X. apply (mod_contra pos (r_pos thu) (cap G)); auto.
  - unfold tinv; simpl. auto.
  - ev_nil.
  - unfold pc_op; simpl; split; [eauto | reflexivity].
  - lock_tac.
  - lock_tac.
  - own_tac.
  - own_tac.
  - eapply owners_set_seq; [auto | apply (i_own _ _ HI) | exact Ht | reflexivity | | ].
    + intros M _. apply (mod_contra (pos + 1) pos (cap G)); auto.
    + intros c E M L. lia.
Qed.

Lemma pres_R_read : pres R_read.
Proof.
  start. destruct Hti as (H1 & H4 & H5). inversion Hs; subst; clear Hs.
  pose proof (gi_cap _ Hg) as Hc.
  eapply (step_generic _ _ _ _ _ _ _ HI Ht).
  - apply ginv_set_data; auto.
  - intros u thu Hne Hu Hi _ _ _ Hrd. apply frame_set_data; auto.
    simpl in Hrd. unfold tinv in Hi.
    intros [E|E] Emod; rewrite E in *; simpl in *.
    + destruct Hi as (_ & _ & _ & I4 & _).
      assert (X : seq_at G (r_pos thu) = seq_at G pos) by (apply seq_same_slot; auto).
      rewrite I4, H4 in X. apply (mod_contra (r_pos thu) pos (cap G)); auto.
    + destruct Hi as (_ & I4 & _).
      assert (X : seq_at G (r_pos thu) = seq_at G pos) by (apply seq_same_slot; auto).
      rewrite I4, H4 in X. apply Hrd; auto. lia.
  - unfold tinv; simpl. repeat split; auto.
    unfold seq_at; simpl. rewrite fst_set_data; auto.
  - ev_nil.
  - unfold pc_op; simpl; split; [eauto | reflexivity].
  - lock_tac.
  - lock_tac.
  - own_tac.
  - own_tac.
  - apply owners_set_data; auto.
    eapply owners_upd_keep; [apply (i_own _ _ HI) | exact Ht | simpl; intro; discriminate | simpl; auto].
Qed.

Lemma pres_R_recycle : pres R_recycle.
Proof.
  start. destruct Hti as (H1 & H4). inversion Hs; subst; clear Hs.
  pose proof (gi_cap _ Hg) as Hc.
  destruct (slot_phase1 G pos Hg H4) as (P1 & P2 & P3 & _).
  eapply (step_generic _ _ _ _ _ _ _ HI Ht).
  - apply ginv_set_seq_recycle; auto.
  - intros u thu Hne Hu Hi _ _ _ Hrd. apply frame_set_seq; auto.
    simpl in Hrd. unfold tinv in Hi. unfold seq_frame_cond.
    destruct (tpc thu); simpl in *; auto.
    + destruct Hi as (_ & _ & I3). intros Eh Emod. specialize (I3 Eh).
      assert (X : seq_at G (r_pos thu) = seq_at G pos) by (apply seq_same_slot; auto).
      rewrite I3, H4 in X. apply (mod_contra (r_pos thu) pos (cap G)); auto.
    + destruct Hi as (_ & _ & _ & I4 & _). intros Emod.
      assert (X : seq_at G (r_pos thu) = seq_at G pos) by (apply seq_same_slot; auto).
      rewrite I4, H4 in X. apply (mod_contra (r_pos thu) pos (cap G)); auto.
    + destruct Hi as (_ & _ & _ & I4 & _). intros Emod.
      assert (X : seq_at G (r_pos thu) = seq_at G pos) by (apply seq_same_slot; auto).
      rewrite I4, H4 in X. apply (mod_contra (r_pos thu) pos (cap G)); auto.
    + destruct Hi as (I1 & I3). intros Eh Emod. specialize (I3 Eh).
      assert (X : seq_at G (r_pos thu) = seq_at G pos) by (apply seq_same_slot; auto).
      rewrite I3, H4 in X. lia.
    + destruct Hi as (_ & I4 & _). intros Emod.
      assert (X : seq_at G (r_pos thu) = seq_at G pos) by (apply seq_same_slot; auto).
      rewrite I4, H4 in X. apply Hrd; auto. lia.
    + destruct Hi as (_ & I4). intros Emod.
      assert (X : seq_at G (r_pos thu) = seq_at G pos) by (apply seq_same_slot; auto).
      rewrite I4, H4 in X. apply Hrd; auto. lia.
  - unfold tinv; simpl. auto.
  - ev_nil.
  - unfold pc_op; simpl; split; [eauto | reflexivity].
  - lock_tac.
  - lock_tac.
  - own_tac.
  - own_tac.
  - eapply owners_set_seq; [auto | apply (i_own _ _ HI) | exact Ht | reflexivity | | ].
    + intros _ L. lia.
    + intros c E M L.
      assert ((S c) mod cap G = pos mod cap G) by (rewrite <- E; apply mod_add_cap; lia).
      apply (mod_succ_ne c (cap G)); auto. congruence.
Qed.

Lemma pres_S_sig : pres S_sig.
Proof.
  start. destruct (eclosed G) eqn:He.
  - rewrite (gi_ecl _ Hg He) in Hti. discriminate.
  - inversion Hs; subst; clear Hs. core_glob HI Ht Hg.
Qed.

Lemma pres_R_sig : pres R_sig.
Proof.
  start. destruct (fclosed G) eqn:He.
  - rewrite (gi_ecl _ Hg (gi_fcl _ Hg He)) in Hti. discriminate.
  - inversion Hs; subst; clear Hs. core_glob HI Ht Hg.
Qed.

Lemma pres_R_loadseq : pres R_loadseq.
Proof.
  start. pose proof (gi_cap _ Hg) as Hc.
  destruct (Nat.eqb_spec (seq_at G pos) (pos + 1)) as [E|NE];
    [|destruct (Nat.ltb_spec (seq_at G pos) (pos + 1)) as [L|L]];
    injection Hs as EG Eth; subst G' th'; same_glob HI Ht; auto.
  split; auto. intro Hd.
  assert (Hi : pos mod cap G < cap G) by (apply mod_lt'; lia).
  destruct (i_own _ _ HI _ Hi) as [O1 _]. simpl in O1.
  unfold seq_at in L.
  destruct (gi_slots _ Hg _ Hi) as [(A & B & C)|(c & A & B & C & D & E & F)].
  - destruct (Nat.eq_dec (fst (slot_at G (pos mod cap G))) pos) as [Eq|Ne].
    + destruct (Nat.lt_ge_cases pos (head G)) as [Lh|Lh]; auto.
      exfalso. rewrite Eq in O1. destruct (O1 eq_refl Lh) as (u & thu & Hu & Ou & _).
      pose proof (i_t _ _ HI _ _ Hu) as Hi'. unfold tinv in Hi'. simpl in Hi'.
      destruct (tpc thu); simpl in Ou; try discriminate; destruct Hi' as (_ & _ & Hd' & _); congruence.
    + destruct (Nat.le_gt_cases (fst (slot_at G (pos mod cap G)) + cap G) pos); [lia|].
      exfalso. apply Ne. apply (mod_close _ _ (cap G)); auto; lia.
  - destruct (Nat.le_gt_cases (c + cap G) pos); [lia|].
    exfalso. assert (c = pos) by (apply (mod_close _ _ (cap G)); auto; lia). lia.
Qed.

Lemma pres_R_empty : pres R_empty.
Proof.
  start. destruct Hti as [H1 H2].
  destruct (done G) eqn:Hd; inversion Hs; subst; clear Hs.
  - specialize (H2 eq_refl). ev_glob HI Ht (EDeqFail t).
    rewrite skipn_all' by (rewrite (gi_nenq _ Hg); lia). simpl. rewrite Hd. reflexivity.
  - same_glob HI Ht.
Qed.

Lemma owners_fields G G' T : slots G' = slots G -> cap G' = cap G -> head G' = head G ->
  tail G' = tail G -> owners_ok G T -> owners_ok G' T.
Proof.
  intros E1 E2 E3 E4. unfold owners_ok, slot_at. rewrite E1, E2, E3, E4. auto.
Qed.

Lemma ginv_done G t : ginv G -> done G = false -> ginv (with_done_ev G (EClose t)).
Proof.
  intros Hg Hd.
  assert (Een : enqs (events G ++ [EClose t]) = enqs (events G))
    by (rewrite enqs_app; simpl; apply app_nil_r).
  constructor; simpl; try apply Hg; auto.
  - intros i Hi. pose proof (gi_slots _ Hg i Hi) as S. unfold slot_ok in *. simpl.
    change (slot_at (with_done_ev G (EClose t)) i) with (slot_at G i). rewrite Een. exact S.
  - rewrite Een. apply Hg.
  - rewrite run_spec_app, (gi_spec _ Hg). simpl. rewrite Een. reflexivity.
Qed.

Lemma pres_C_swap : pres C_swap.
Proof.
  start. destruct (done G) eqn:Hd; inversion Hs; subst; clear Hs.
  - ev_glob HI Ht (EClose t). simpl. rewrite Hd. reflexivity.
  - eapply (step_generic _ _ _ _ _ _ _ HI Ht).
    + apply ginv_done; auto.
    + intros u thu Hne Hu Hi Hx _ _ _. destruct (Hx eq_refl). apply tinv_unlocked; auto.
    + unfold tinv; simpl. repeat split.
      * destruct (eclosed G) eqn:He; auto. rewrite (gi_ecl _ Hg He) in Hd. discriminate.
      * destruct (fclosed G) eqn:He; auto. rewrite (gi_ecl _ Hg (gi_fcl _ Hg He)) in Hd. discriminate.
    + ev_one (EClose t).
    + unfold pc_op; simpl; split; [eauto | reflexivity].
    + lock_tac.
    + lock_tac.
    + own_tac.
    + own_tac.
    + eapply (owners_fields G); try reflexivity.
      eapply owners_upd_keep; [apply (i_own _ _ HI) | exact Ht | simpl; intro; discriminate | simpl; intro; discriminate].
Qed.

Lemma pres_C_close_empty : pres C_close_empty.
Proof.
  start. destruct Hti as (H1 & H2 & H3). rewrite H2 in Hs. inversion Hs; subst; clear Hs.
  eapply (step_generic _ _ _ _ _ _ _ HI Ht).
  - constructor; simpl; try apply Hg; auto.
  - intros u thu Hne Hu Hi Hx _ _ _. destruct (Hx eq_refl). apply tinv_unlocked; auto.
  - unfold tinv; simpl. auto.
  - ev_nil.
  - unfold pc_op; simpl; split; [eauto | reflexivity].
  - lock_tac.
  - lock_tac.
  - own_tac.
  - own_tac.
  - eapply (owners_fields G); try reflexivity.
    eapply owners_upd_keep; [apply (i_own _ _ HI) | exact Ht | simpl; intro; discriminate | simpl; intro; discriminate].
Qed.

Lemma pres_C_close_full : pres C_close_full.
Proof.
  start. destruct Hti as (H1 & H2 & H3). rewrite H3 in Hs. inversion Hs; subst; clear Hs.
  eapply (step_generic _ _ _ _ _ _ _ HI Ht).
  - constructor; simpl; try apply Hg; auto.
  - intros u thu Hne Hu Hi Hx _ _ _. destruct (Hx eq_refl). apply tinv_unlocked; auto.
  - unfold tinv; simpl. auto.
  - ev_nil.
  - unfold pc_op; simpl; split; [eauto | reflexivity].
  - lock_tac.
  - lock_tac.
  - own_tac.
  - own_tac.
  - eapply (owners_fields G); try reflexivity.
    eapply owners_upd_keep; [apply (i_own _ _ HI) | exact Ht | simpl; intro; discriminate | simpl; intro; discriminate].
Qed.

Lemma own_is_read p : s_own p = true \/ r_own p = true -> read_pc p = true.
Proof. destruct p; simpl; intros [H|H]; auto; discriminate. Qed.

(* while a thread holds the write lock nobody owns a slot *)
Lemma writer_no_owner progs G T t th : Inv progs (mkState G T) -> nth_error T t = Some th ->
  write_pc (tpc th) = true -> no_owner T.
Proof.
  intros HI Ht W u thu Hu.
  destruct (Nat.eq_dec u t) as [->|Hne].
  - assert (thu = th) by congruence. subst thu.
    destruct (tpc th); simpl in *; auto; discriminate.
  - destruct (i_mutex _ _ HI t u th thu ltac:(auto) Ht Hu W) as [R _]. simpl in R.
    split.
    + destruct (s_own (tpc thu)) eqn:E; auto. rewrite own_is_read in R; auto.
    + destruct (r_own (tpc thu)) eqn:E; auto. rewrite own_is_read in R; auto.
Qed.

Lemma events_extend G n : events (extend G n) = events G.
Proof. unfold extend. destruct (n <=? cap G); reflexivity. Qed.

(* an extend step (from S_ext or G_ext) *)
Lemma pres_extend progs G T t th th' n :
  Inv progs (mkState G T) -> nth_error T t = Some th ->
  write_pc (tpc th) = true -> write_pc (tpc th') = true ->
  (forall G0, tinv G0 th') ->
  inflight t th' = inflight t th -> res th' = res th -> prog th' = prog th -> pc_op th' ->
  Inv progs (mkState (extend G n) (upd t th' T)).
Proof.
  intros HI Ht W W' Hti Hif Hres Hprog Hpo.
  pose proof (i_g _ _ HI) as Hg; simpl in Hg.
  assert (Rf : read_pc (tpc th') = false) by (destruct (tpc th'); simpl in *; auto; discriminate).
  assert (Sf : s_own (tpc th') = false) by (destruct (tpc th'); simpl in *; auto; discriminate).
  assert (Qf : r_own (tpc th') = false) by (destruct (tpc th'); simpl in *; auto; discriminate).
  assert (Sf0 : s_own (tpc th) = false) by (destruct (tpc th); simpl in *; auto; discriminate).
  assert (Qf0 : r_own (tpc th) = false) by (destruct (tpc th); simpl in *; auto; discriminate).
  eapply (step_generic _ _ _ _ _ _ _ HI Ht).
  - destruct (Nat.le_gt_cases n (cap G)) as [L|L].
    + rewrite extend_noop; auto.
    + eapply ginv_extend; eauto. apply (i_own _ _ HI). eapply writer_no_owner; eauto.
  - intros u thu Hne Hu Hi Hx _ _ _. destruct (Hx W). apply tinv_unlocked; auto.
  - apply Hti.
  - exists (@nil event). rewrite events_extend, !app_nil_r.
    split; [reflexivity | split; [intros ? [] | congruence]].
  - split; auto. congruence.
  - auto.
  - rewrite Rf. discriminate.
  - rewrite Sf. discriminate.
  - rewrite Qf. discriminate.
  - destruct (Nat.le_gt_cases n (cap G)) as [L|L].
    + rewrite extend_noop; auto.
      eapply owners_upd_keep; [apply (i_own _ _ HI) | exact Ht | rewrite Sf0; discriminate | rewrite Qf0; discriminate].
    + apply owners_extend; auto.
Qed.

Lemma pres_S_ext : pres S_ext.
Proof.
  start. destruct ((cp =? cap G) && negb (done G)); injection Hs as EG Eth; subst G' th'.
  - apply (pres_extend progs G T t _ _ (2 * cap G) HI Ht); auto; try (intro G0; exact I).
  - same_glob HI Ht.
Qed.

Lemma pres_G_ext : pres G_ext.
Proof.
  start. destruct Hpo as (n & rest & ->). injection Hs as EG Eth; subst G' th'.
  apply (pres_extend progs G T t _ _ n HI Ht); auto; try (intro G0; exact I).
  unfold pc_op; simpl. eauto.
Qed.

Lemma step_inv progs s t s' : Inv progs s -> step s t = Some s' -> Inv progs s'.
Proof.
  destruct s as [G T]. unfold step. simpl. intros HI Hs.
  destruct (panicked G); [discriminate|].
  destruct (nth_error T t) as [th|] eqn:Ht; [|discriminate].
  destruct (tstep G (no_writer T) (no_holder T) t th) as [[G' th']|] eqn:Hst; [|discriminate].
  injection Hs as <-.
  destruct (tpc th) eqn:Epc.
  all: first
    [ eapply pres_Idle; eassumption | eapply pres_S_chk0; eassumption
    | eapply pres_S_loadhead; eassumption | eapply pres_S_loop; eassumption
    | eapply pres_S_loadseq; eassumption | eapply pres_S_cas; eassumption
    | eapply pres_S_write; eassumption | eapply pres_S_pub; eassumption
    | eapply pres_S_sig; eassumption | eapply pres_S_rett; eassumption
    | eapply pres_S_retf; eassumption | eapply pres_S_snap; eassumption
    | eapply pres_S_lock; eassumption | eapply pres_S_ext; eassumption
    | eapply pres_S_unlock; eassumption | eapply pres_S_park; eassumption
    | eapply pres_S_relock; eassumption | eapply pres_R_loadtail; eassumption
    | eapply pres_R_loadseq; eassumption | eapply pres_R_cas; eassumption
    | eapply pres_R_read; eassumption | eapply pres_R_recycle; eassumption
    | eapply pres_R_chkdone; eassumption | eapply pres_R_sig; eassumption
    | eapply pres_R_rett; eassumption | eapply pres_R_empty; eassumption
    | eapply pres_R_retf; eassumption | eapply pres_R_unl; eassumption
    | eapply pres_R_park; eassumption | eapply pres_R_relock; eassumption
    | eapply pres_C_swap; eassumption | eapply pres_C_close_empty; eassumption
    | eapply pres_C_close_full; eassumption | eapply pres_C_unlock; eassumption
    | eapply pres_G_ext; eassumption | eapply pres_G_unlock; eassumption ].
Qed.

(* ------------------------------------------------------------------------------------------ *)
(* initial state, arbitrary schedules *)

Lemma init_inv c e progs : 2 <= c -> Inv progs (init c e progs).
Proof.
  intro Hc. unfold init.
  assert (Hth : forall t th, nth_error (map init_thread progs) t = Some th ->
                exists p, nth_error progs t = Some p /\ th = init_thread p).
  { intros t th H. rewrite nth_error_map in H. destruct (nth_error progs t) as [p|]; [|discriminate].
    injection H as <-. eauto. }
  constructor; simpl.
  - constructor; simpl; auto; try discriminate.
    + unfold init_slots. rewrite map_length, seq_length. reflexivity.
    + intros i Hi. unfold slot_ok, slot_at; simpl; unfold init_slots. rewrite nth_map_seq by auto. simpl.
      left. repeat split; try lia. apply Nat.mod_small. auto.
  - intros t th H. destruct (Hth _ _ H) as (p & _ & ->). exact I.
  - intros t th H. destruct (Hth _ _ H) as (p & _ & ->). reflexivity.
  - intros t th H. destruct (Hth _ _ H) as (p & Hp & ->). split; [exact I|]. exact Hp.
  - intros t u th1 th2 _ H _ W. destruct (Hth _ _ H) as (p & _ & ->). discriminate.
  - intros t u th1 th2 _ H _ W. destruct (Hth _ _ H) as (p & _ & ->). discriminate.
  - intros t u th1 th2 _ H _ W. destruct (Hth _ _ H) as (p & _ & ->). discriminate.
  - intros i Hi. unfold slot_at; simpl; unfold init_slots. rewrite nth_map_seq by auto. simpl. split.
    + intros _ L. lia.
    + intros c0 E _ L. lia.
Qed.

Lemma run_inv progs s sched : Inv progs s -> Inv progs (run s sched).
Proof.
  revert s. induction sched as [|t r IH]; intros s HI; simpl; auto.
  destruct (step s t) as [s'|] eqn:E; auto. apply IH. eapply step_inv; eauto.
Qed.

Theorem reachable_inv c e progs sched : 2 <= c -> Inv progs (run (init c e progs) sched).
Proof. intro Hc. apply run_inv. apply init_inv. exact Hc. Qed.

(* ------------------------------------------------------------------------------------------ *)
(* the property theorems *)

(* slot i carries the sequence number of exactly one position pos = i (mod capacity) inside the
   window [head - capacity, tail + capacity): seq = pos (writable, or claimed by the sender of
   pos) or seq = pos + 1 (readable, or claimed by the receiver of pos; after recycling the slot
   serves pos + capacity with seq = pos + capacity).  Every position in [tail, head) is served by
   its slot. *)
Definition seq_invariant (G : glob) : Prop :=
  2 <= cap G /\ length (slots G) = cap G /\ tail G <= head G /\ head G <= tail G + cap G
  /\ (forall i, i < cap G -> exists pos,
        pos mod cap G = i /\ head G <= pos + cap G /\ pos < tail G + cap G
        /\ (fst (slot_at G i) = pos \/ (fst (slot_at G i) = pos + 1 /\ pos < head G)))
  /\ (forall p, tail G <= p -> p < head G -> seq_at G p = p \/ seq_at G p = p + 1).

Lemma ginv_seq_invariant G : ginv G -> seq_invariant G.
Proof.
  intros Hg. pose proof (gi_cap _ Hg) as Hc.
  repeat split; try apply Hg; auto.
  - apply head_le_tail_cap; auto.
  - intros i Hi. destruct (gi_slots _ Hg i Hi) as [(A & B & C)|(c & A & B & C & D & E & F)].
    + exists (fst (slot_at G i)). auto.
    + exists c. repeat split; auto. right. split; auto. lia.
  - intros p Hp1 Hp2.
    assert (Hi : p mod cap G < cap G) by (apply mod_lt'; lia).
    unfold seq_at.
    destruct (gi_slots _ Hg _ Hi) as [(A & B & C)|(c & A & B & C & D & E & F)].
    + left. apply (mod_close _ _ (cap G)); auto; lia.
    + right. assert (c = p) by (apply (mod_close _ _ (cap G)); auto; lia). lia.
Qed.

Theorem mpmc_seq_invariant_lemma c e progs sched : 2 <= c ->
  seq_invariant (g (run (init c e progs) sched)).
Proof. intro Hc. apply ginv_seq_invariant. apply (i_g _ _ (reachable_inv c e progs sched Hc)). Qed.

(* extend keeps it (a corollary, stated separately because the design asks for it) *)
Theorem mpmc_seq_invariant_extend_lemma c e progs sched t : 2 <= c ->
  let s := run (init c e progs) sched in
  forall s', step s t = Some s' -> seq_invariant (g s').
Proof.
  intros Hc s s' Hs. apply ginv_seq_invariant.
  apply (i_g _ _ (step_inv progs s t s' (reachable_inv c e progs sched Hc) Hs)).
Qed.

Lemma nth_error_skipn' {A} (l : list A) n k : nth_error (skipn n l) k = nth_error l (n + k).
Proof.
  revert l. induction n as [|n IH]; intros [|x l]; simpl; auto. destruct k; reflexivity.
Qed.

(* the buffered items, oldest first *)
Definition pending (G : glob) : list N := skipn (tail G + base G) (enqs (events G)).

(* no loss, no duplication: everything ever enqueued = everything dequeued ++ what is buffered,
   as sequences (hence as multisets); the buffer has head-tail entries and a published slot
   physically holds its entry *)
Theorem mpmc_no_loss_no_dup_lemma c e progs sched : 2 <= c ->
  let G := g (run (init c e progs) sched) in
  enqs (events G) = deqs (events G) ++ pending G
  /\ length (pending G) = head G - tail G
  /\ (forall k, k < head G - tail G -> seq_at G (tail G + k) = tail G + k + 1 ->
        nth_error (pending G) k = Some (data_at G (tail G + k))).
Proof.
  intros Hc G. pose proof (i_g _ _ (reachable_inv c e progs sched Hc)) as Hg. fold G in Hg.
  split; [|split].
  - apply (run_spec_fifo chan0 _ _ (gi_spec _ Hg)).
  - unfold pending. rewrite skipn_length, (gi_nenq _ Hg). pose proof (gi_th _ Hg). lia.
  - intros k Hk Hs. destruct (slot_phase1 G _ Hg Hs) as (_ & _ & _ & F).
    unfold pending. rewrite nth_error_skipn'.
    replace (tail G + base G + k) with (tail G + k + base G) by lia. apply F. lia.
Qed.

(* linearisation by CAS order is a legal FIFO-channel history; and every thread's completed
   calls returned exactly what its linearisation events say, in program order *)
Theorem mpmc_fifo_lemma c e progs sched : 2 <= c ->
  let s := run (init c e progs) sched in
  legal (events (g s))
  /\ (forall t th, nth_error (thr s) t = Some th ->
        proj t (events (g s)) = flat_map (res_event t) (res th) ++ inflight t th
        /\ nth_error progs t = Some (map op_of (res th) ++ prog th)).
Proof.
  intros Hc s. pose proof (reachable_inv c e progs sched Hc) as HI. fold s in HI. split.
  - eexists. apply (gi_spec _ (i_g _ _ HI)).
  - intros t th Ht. split; [apply (i_ev _ _ HI _ _ Ht) | apply (i_prog _ _ HI _ _ Ht)].
Qed.

(* close: once a close is linearised no send is linearised after it; a send fails only after a
   close; a receive fails only when the queue is closed and everything enqueued has been
   dequeued; the model's done flag is the spec's closed flag *)
Theorem mpmc_close_lemma c e progs sched : 2 <= c ->
  let ev := events (g (run (init c e progs) sched)) in
  (forall a t b, ev = a ++ EClose t :: b -> forall x, In x b -> is_enq x = false)
  /\ (forall a t b, ev = a ++ EEnqFail t :: b -> exists u, In (EClose u) a)
  /\ (forall a t b, ev = a ++ EDeqFail t :: b -> enqs a = deqs a /\ exists u, In (EClose u) a).
Proof.
  intros Hc ev.
  assert (L : legal ev) by (apply (mpmc_fifo_lemma c e progs sched Hc)).
  split; [|split].
  - intros a t b E. rewrite E in L. eapply legal_no_enq_after_close; eauto.
  - intros a t b E. rewrite E in L. eapply legal_enqfail_after_close; eauto.
  - intros a t b E. rewrite E in L. eapply legal_deqfail_drained; eauto.
Qed.

(* no send on a closed channel, no double close: the Go panics are unreachable *)
Theorem mpmc_no_panic_lemma c e progs sched : 2 <= c ->
  panicked (g (run (init c e progs) sched)) = false.
Proof. intro Hc. apply (gi_nopanic _ (i_g _ _ (reachable_inv c e progs sched Hc))). Qed.

(* ------------------------------------------------------------------------------------------ *)
(* the wake-up clause: "a blocked receiver is woken whenever an item is available".
   Full-strength statement (what the property asks of the component): *)
Definition mpmc_no_lost_wakeup_statement : Prop :=
  forall c e progs sched r, 2 <= c ->
    lost_wakeup_state (run (init c e progs) sched) r = false.

(* It is false for the code as written (finding F10, flag mpmc_lost_wakeup).  Witness: capacity 2,
   no extensions, threads 0,1 = one Recv each, threads 2,3 = one Send each.  Both receivers see
   "empty", release the read lock and stand before the select on p.empty (5 steps each); both
   sends run to completion (10 steps each): the first puts the token into p.empty, the second
   finds the token already there and drops its own (select default); receiver 0 takes the token
   and the first item and returns (10 steps).  Receiver 1 is parked, p.empty holds no token, the
   channel is open, item 8 is published at the tail, every other thread has finished. *)
(* [lw_progs], [lw_sched] are defined in Conc/Mpmc.v *)

Theorem mpmc_lost_wakeup_refuted_lemma :
  exists c e progs sched r s,
    2 <= c /\ multi_receiver progs = true
    /\ run_strict (init c e progs) sched = Some s
    /\ run (init c e progs) sched = s
    /\ lost_wakeup_state s r = true
    /\ pending (g s) = [8%N].
Proof.
  exists 2, (Some 0), lw_progs, lw_sched, 1.
  eexists. split; [lia|]. split; [reflexivity|].
  split; [vm_compute; reflexivity|]. split; [vm_compute; reflexivity|].
  split; vm_compute; reflexivity.
Qed.

Theorem mpmc_no_lost_wakeup_statement_false : ~ mpmc_no_lost_wakeup_statement.
Proof.
  intro H. specialize (H 2 (Some 0) lw_progs lw_sched 1 ltac:(lia)).
  vm_compute in H. discriminate.
Qed.
