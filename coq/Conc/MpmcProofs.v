(* C22 — proofs about the MPMC model: the invariant of MpmcInv.v holds in every state reachable
   by any schedule of any number of threads running any programs, and the consequences
   (sequence invariant, no loss / no duplication, FIFO linearisation, close, no panic). *)
From OFGA Require Import Conc.FifoSpec Conc.Mpmc Conc.MpmcLemmas Conc.MpmcInv.
From Coq Require Import Lia.

(* ------------------------------------------------------------------------------------------ *)
(* slots under updates *)

Lemma slot_at_with_slots G s i : slot_at (with_slots G s) i = nth i s (0, 0%N).
Proof. reflexivity. Qed.

Lemma slot_set_seq_eq G p v : ginv G ->
  slot_at (with_slots G (set_seq G p v)) (p mod cap G) = (v, snd (slot_at G (p mod cap G))).
Proof.
  intros [Hc Hl _ _ _ _ _ _ _]. unfold slot_at, set_seq; simpl.
  apply nth_upd_eq. rewrite Hl. apply mod_lt'. lia.
Qed.

Lemma slot_set_seq_ne G p v i : i <> p mod cap G ->
  slot_at (with_slots G (set_seq G p v)) i = slot_at G i.
Proof. intro H. unfold slot_at, set_seq; simpl. apply nth_upd_ne. auto. Qed.

Lemma slot_set_data_eq G p d : ginv G ->
  slot_at (with_slots G (set_data G p d)) (p mod cap G) = (fst (slot_at G (p mod cap G)), d).
Proof.
  intros [Hc Hl _ _ _ _ _ _ _]. unfold slot_at, set_data; simpl.
  apply nth_upd_eq. rewrite Hl. apply mod_lt'. lia.
Qed.

Lemma slot_set_data_ne G p d i : i <> p mod cap G ->
  slot_at (with_slots G (set_data G p d)) i = slot_at G i.
Proof. intro H. unfold slot_at, set_data; simpl. apply nth_upd_ne. auto. Qed.

Lemma fst_set_data G p d i : ginv G ->
  fst (slot_at (with_slots G (set_data G p d)) i) = fst (slot_at G i).
Proof.
  intro Hg. destruct (Nat.eq_dec i (p mod cap G)) as [->|Hne].
  - rewrite slot_set_data_eq; auto.
  - rewrite slot_set_data_ne; auto.
Qed.

Lemma snd_set_seq G p v i : ginv G ->
  snd (slot_at (with_slots G (set_seq G p v)) i) = snd (slot_at G i).
Proof.
  intro Hg. destruct (Nat.eq_dec i (p mod cap G)) as [->|Hne].
  - rewrite slot_set_seq_eq; auto.
  - rewrite slot_set_seq_ne; auto.
Qed.

(* two claims about the sequence number of the same slot agree *)
Lemma seq_same_slot G p q : p mod cap G = q mod cap G -> seq_at G p = seq_at G q.
Proof. unfold seq_at. intros ->. reflexivity. Qed.

(* ------------------------------------------------------------------------------------------ *)
(* "core equality": the part of the global state the thread invariants read *)

Record core_eq (G G' : glob) : Prop := {
  ce_slots : slots G' = slots G;
  ce_cap : cap G' = cap G;
  ce_head : head G' = head G;
  ce_tail : tail G' = tail G;
  ce_done : done G' = done G;
  ce_ecl : eclosed G' = eclosed G;
  ce_fcl : fclosed G' = fclosed G;
  ce_base : base G' = base G;
  ce_enqs : enqs (events G') = enqs (events G)
}.

Lemma core_eq_refl G : core_eq G G.
Proof. constructor; reflexivity. Qed.

Lemma tinv_core_eq G G' th : core_eq G G' -> tinv G th -> tinv G' th.
Proof.
  intros [E1 E2 E3 E4 E5 E6 E7 E8 E9].
  unfold tinv, seq_at, data_at, slot_at. rewrite E1, E2, E3, E4, E5, E6, E7, E8, E9. auto.
Qed.

Lemma slot_ok_core_eq G G' i : core_eq G G' -> slot_ok G i -> slot_ok G' i.
Proof.
  intros [E1 E2 E3 E4 E5 E6 E7 E8 E9].
  unfold slot_ok, slot_at. rewrite E1, E2, E3, E4, E8, E9. auto.
Qed.

Lemma owners_core_eq G G' T : core_eq G G' -> owners_ok G T -> owners_ok G' T.
Proof.
  intros [E1 E2 E3 E4 E5 E6 E7 E8 E9].
  unfold owners_ok, slot_at. rewrite E1, E2, E3, E4. auto.
Qed.

(* threads outside every locked section claim nothing *)
Lemma tinv_unlocked G th :
  read_pc (tpc th) = false -> write_pc (tpc th) = false -> tinv G th.
Proof.
  unfold tinv. destruct (tpc th); simpl; intros; try discriminate; auto.
Qed.

(* replacing a thread that keeps its ownership (and position) keeps all owners *)
Lemma owners_upd_keep G T t th th' :
  owners_ok G T -> nth_error T t = Some th ->
  (s_own (tpc th) = true -> s_own (tpc th') = true /\ r_pos th' = r_pos th) ->
  (r_own (tpc th) = true -> r_own (tpc th') = true /\ r_pos th' = r_pos th) ->
  owners_ok G (upd t th' T).
Proof.
  intros Ho Ht Hs Hr i Hi. destruct (Ho i Hi) as [A B]. split.
  - intros M L. destruct (A M L) as (u & thu & Hu & Ou & Pu).
    destruct (Nat.eq_dec u t) as [->|Hne].
    + exists t, th'. rewrite nth_error_upd_eq by (eapply nth_error_lt; eauto).
      assert (thu = th) by congruence. subst thu. destruct (Hs Ou) as [X Y].
      repeat split; auto. congruence.
    + exists u, thu. rewrite nth_error_upd_ne by auto. auto.
  - intros c E M L. destruct (B c E M L) as (u & thu & Hu & Ou & Pu).
    destruct (Nat.eq_dec u t) as [->|Hne].
    + exists t, th'. rewrite nth_error_upd_eq by (eapply nth_error_lt; eauto).
      assert (thu = th) by congruence. subst thu. destruct (Hr Ou) as [X Y].
      repeat split; auto. congruence.
    + exists u, thu. rewrite nth_error_upd_ne by auto. auto.
Qed.

(* ginv when only tokens / events-without-enq / flags change: the caller supplies the spec run *)
Lemma ginv_core_eq G G' : core_eq G G' -> ginv G ->
  run_spec chan0 (events G')
    = Some (mkChan (skipn (tail G' + base G') (enqs (events G'))) (done G')) ->
  panicked G' = false -> ginv G'.
Proof.
  intros CE [H1 H2 H3 H4 H5 H6 H7 H8 H9] Hs Hp.
  pose proof CE as [E1 E2 E3 E4 E5 E6 E7 E8 E9].
  constructor; auto.
  - congruence.
  - congruence.
  - congruence.
  - intros i Hi. apply (slot_ok_core_eq G G' i CE). apply H4. congruence.
  - congruence.
  - rewrite E5, E6. auto.
  - rewrite E6, E7. auto.
Qed.

(* phase facts *)
Lemma slot_phase0 G p : ginv G -> seq_at G p = p ->
  head G <= p + cap G /\ p < tail G + cap G.
Proof.
  intros Hg Hs. pose proof (gi_cap _ Hg) as Hc.
  destruct (gi_slots _ Hg (p mod cap G) ltac:(apply mod_lt'; lia)) as [(A & B & C)|(c & A & B & _)];
    unfold seq_at in Hs; rewrite Hs in *.
  - auto.
  - subst p. exfalso. apply (mod_succ_ne c (cap G)); auto.
Qed.

Lemma slot_phase1 G p : ginv G -> seq_at G p = p + 1 ->
  p < head G /\ head G <= p + cap G /\ p < tail G + cap G
  /\ (tail G <= p -> nth_error (enqs (events G)) (p + base G) = Some (data_at G p)).
Proof.
  intros Hg Hs. pose proof (gi_cap _ Hg) as Hc.
  destruct (gi_slots _ Hg (p mod cap G) ltac:(apply mod_lt'; lia)) as [(A & B & C)|(c & A & B & C & D & E & F)];
    unfold seq_at in Hs; rewrite Hs in *.
  - exfalso. replace (p + 1) with (S p) in A by lia. apply (mod_succ_ne p (cap G)); auto.
  - assert (c = p) by lia. subst c. unfold data_at. auto.
Qed.

(* ---- (a) successful head CAS ---- *)
Lemma ginv_head_cas G t v : ginv G -> done G = false -> seq_at G (head G) = head G ->
  ginv (with_head_ev G (head G + 1) (EEnq t v)).
Proof.
  intros Hg Hd Hs. pose proof (gi_cap _ Hg) as Hc.
  constructor; simpl; try apply Hg.
  - pose proof (gi_th _ Hg). lia.
  - intros i Hi. destruct (gi_slots _ Hg i Hi) as [(A & B & C)|(c & A & B & C & D & E & F)];
      unfold slot_ok; simpl.
    + left. change (slot_at (with_head_ev G (head G + 1) (EEnq t v)) i) with (slot_at G i).
      split; auto. split; auto.
      destruct (Nat.eq_dec (fst (slot_at G i) + cap G) (head G)) as [Eq|Ne]; [|lia].
      exfalso. assert (head G mod cap G = i) by (rewrite <- Eq, mod_add_cap; auto; lia).
      unfold seq_at in Hs. rewrite H in Hs. lia.
    + right. exists c. change (slot_at (with_head_ev G (head G + 1) (EEnq t v)) i) with (slot_at G i).
      repeat split; auto; try lia.
      * destruct (Nat.eq_dec (c + cap G) (head G)) as [Eq|Ne]; [|lia].
        exfalso. assert (head G mod cap G = i) by (rewrite <- Eq, mod_add_cap; auto; lia).
        unfold seq_at in Hs. rewrite H in Hs. lia.
      * intro L. rewrite enqs_app. apply nth_error_app_l. auto.
  - rewrite enqs_app, app_length. simpl. rewrite (gi_nenq _ Hg). lia.
  - rewrite run_spec_app, (gi_spec _ Hg). simpl. rewrite Hd. simpl. f_equal. f_equal.
    rewrite enqs_app. simpl. rewrite skipn_app_last; auto.
    rewrite (gi_nenq _ Hg). pose proof (gi_th _ Hg). lia.
Qed.

Ltac tinv_crush :=
  unfold tinv, seq_at, data_at, slot_at; simpl.

Lemma frame_head_cas G t v thu : done G = false -> tinv G thu ->
  tinv (with_head_ev G (head G + 1) (EEnq t v)) thu.
Proof.
  intros Hd. unfold tinv, seq_at, data_at, slot_at. destruct (tpc thu); simpl; auto;
    rewrite ?enqs_app; intuition (try lia; try congruence; try (apply nth_error_app_l; assumption)).
Qed.

(* ---- (b) successful tail CAS ---- *)
Lemma ginv_tail_cas G t : ginv G -> seq_at G (tail G) = tail G + 1 ->
  ginv (with_tail_ev G (tail G + 1) (EDeq t (data_at G (tail G)))).
Proof.
  intros Hg Hs. pose proof (gi_cap _ Hg) as Hc.
  destruct (slot_phase1 G (tail G) Hg Hs) as (P1 & P2 & P3 & P4).
  assert (Hnth := P4 (le_n _)).
  assert (Een : enqs (events G ++ [EDeq t (data_at G (tail G))]) = enqs (events G))
    by (rewrite enqs_app; simpl; apply app_nil_r).
  constructor; simpl; try apply Hg.
  - lia.
  - intros i Hi. destruct (gi_slots _ Hg i Hi) as [(A & B & C)|(c & A & B & C & D & E & F)];
      unfold slot_ok; simpl;
      change (slot_at (with_tail_ev G (tail G + 1) (EDeq t (data_at G (tail G)))) i) with (slot_at G i).
    + left. repeat split; auto; lia.
    + right. exists c. repeat split; auto; try lia.
      intro L. rewrite Een. apply F. lia.
  - rewrite Een. apply Hg.
  - rewrite run_spec_app, (gi_spec _ Hg). rewrite Een. simpl.
    rewrite (skipn_nth_cons _ _ _ Hnth). rewrite N.eqb_refl.
    replace (tail G + 1 + base G) with (S (tail G + base G)) by lia. reflexivity.
Qed.

Lemma frame_tail_cas G t thu : ginv G -> seq_at G (tail G) = tail G + 1 -> tinv G thu ->
  tinv (with_tail_ev G (tail G + 1) (EDeq t (data_at G (tail G)))) thu.
Proof.
  intros Hg Hs.
  assert (Een : enqs (events G ++ [EDeq t (data_at G (tail G))]) = enqs (events G))
    by (rewrite enqs_app; simpl; apply app_nil_r).
  unfold tinv. destruct (tpc thu); simpl; auto;
  change (seq_at (with_tail_ev G (tail G + 1) (EDeq t (data_at G (tail G)))) (r_pos thu)) with (seq_at G (r_pos thu));
  change (data_at (with_tail_ev G (tail G + 1) (EDeq t (data_at G (tail G)))) (r_pos thu)) with (data_at G (r_pos thu));
  rewrite ?Een; intuition (try lia; try congruence).
  - assert (r_pos thu <> tail G) by (intro E; rewrite E in *; lia). lia.
  - assert (r_pos thu <> tail G) by (intro E; rewrite E in *; lia). lia.
Qed.

(* ---- (c,e) data writes into an owned slot ---- *)
Lemma slot_ok_with_slots_ne G s i :
  slot_at (with_slots G s) i = slot_at G i -> slot_ok G i -> slot_ok (with_slots G s) i.
Proof. intros E H. unfold slot_ok in *. rewrite E. exact H. Qed.

Lemma ginv_set_data G p d : ginv G ->
  (seq_at G p = p \/ (seq_at G p = p + 1 /\ p < tail G)) ->
  ginv (with_slots G (set_data G p d)).
Proof.
  intros Hg Hs. pose proof (gi_cap _ Hg) as Hc.
  constructor; simpl; try apply Hg.
  - unfold set_data. rewrite upd_length. apply Hg.
  - intros i Hi. destruct (Nat.eq_dec i (p mod cap G)) as [->|Hne].
    + unfold slot_ok. rewrite slot_set_data_eq by auto. simpl.
      destruct (gi_slots _ Hg _ Hi) as [(A & B & C)|(c & A & B & C & D & E & F)].
      * left. auto.
      * right. exists c. repeat split; auto. intro L. exfalso.
        unfold seq_at in Hs. destruct Hs as [Hs|[Hs Hlt]]; rewrite Hs in A.
        -- subst p. apply (mod_succ_ne c (cap G)); auto.
        -- assert (c = p) by lia. subst c. lia.
    + apply slot_ok_with_slots_ne; [apply slot_set_data_ne; auto | apply Hg; auto].
Qed.

Lemma frame_set_data G p d thu : ginv G -> tinv G thu ->
  (tpc thu = S_pub \/ tpc thu = R_read -> r_pos thu mod cap G <> p mod cap G) ->
  tinv (with_slots G (set_data G p d)) thu.
Proof.
  intros Hg Ht Hc. unfold tinv in *.
  assert (Hseq : forall q, seq_at (with_slots G (set_data G p d)) q = seq_at G q)
    by (intro q; unfold seq_at; simpl; apply fst_set_data; auto).
  assert (Hdat : forall q, q mod cap G <> p mod cap G ->
                 data_at (with_slots G (set_data G p d)) q = data_at G q)
    by (intros q Hq; unfold data_at; simpl; rewrite slot_set_data_ne; auto).
  destruct (tpc thu); simpl; rewrite ?Hseq; auto.
  - rewrite Hdat; auto.
  - rewrite Hdat; auto.
Qed.

(* ---- (d) publish ---- *)
Lemma ginv_set_seq_pub G p : ginv G -> seq_at G p = p -> p < head G ->
  nth_error (enqs (events G)) (p + base G) = Some (data_at G p) ->
  ginv (with_slots G (set_seq G p (p + 1))).
Proof.
  intros Hg Hs Hh Hn. pose proof (gi_cap _ Hg) as Hc.
  destruct (slot_phase0 G p Hg Hs) as [P1 P2].
  constructor; simpl; try apply Hg.
  - unfold set_seq. rewrite upd_length. apply Hg.
  - intros i Hi. destruct (Nat.eq_dec i (p mod cap G)) as [->|Hne].
    + unfold slot_ok. rewrite slot_set_seq_eq by auto. simpl.
      right. exists p. repeat split; auto; lia.
    + apply slot_ok_with_slots_ne; [apply slot_set_seq_ne; auto | apply Hg; auto].
Qed.

(* ---- (f) recycle ---- *)
Lemma ginv_set_seq_recycle G p : ginv G -> seq_at G p = p + 1 -> p < tail G ->
  ginv (with_slots G (set_seq G p (p + cap G))).
Proof.
  intros Hg Hs Hh. pose proof (gi_cap _ Hg) as Hc.
  destruct (slot_phase1 G p Hg Hs) as (P1 & P2 & P3 & _).
  constructor; simpl; try apply Hg.
  - unfold set_seq. rewrite upd_length. apply Hg.
  - intros i Hi. destruct (Nat.eq_dec i (p mod cap G)) as [->|Hne].
    + unfold slot_ok. rewrite slot_set_seq_eq by auto. simpl.
      left. repeat split; try lia. apply mod_add_cap. lia.
    + apply slot_ok_with_slots_ne; [apply slot_set_seq_ne; auto | apply Hg; auto].
Qed.

Definition seq_frame_cond (G : glob) (p : nat) (thu : thread) : Prop :=
  match tpc thu with
  | S_write | S_pub | R_read | R_recycle => r_pos thu mod cap G <> p mod cap G
  | S_cas => head G = r_pos thu -> r_pos thu mod cap G <> p mod cap G
  | R_cas => tail G = r_pos thu -> r_pos thu mod cap G <> p mod cap G
  | _ => True
  end.

Lemma frame_set_seq G p v thu : ginv G -> tinv G thu -> seq_frame_cond G p thu ->
  tinv (with_slots G (set_seq G p v)) thu.
Proof.
  intros Hg Ht Hc. unfold tinv, seq_frame_cond in *.
  assert (Hdat : forall q, data_at (with_slots G (set_seq G p v)) q = data_at G q)
    by (intro q; unfold data_at; simpl; apply snd_set_seq; auto).
  assert (Hseq : forall q, q mod cap G <> p mod cap G ->
                 seq_at (with_slots G (set_seq G p v)) q = seq_at G q)
    by (intros q Hq; unfold seq_at; simpl; rewrite slot_set_seq_ne; auto).
  destruct (tpc thu); simpl; rewrite ?Hdat; auto;
    try (rewrite Hseq by auto; auto).
  - destruct Ht as (A & B & C). repeat split; auto. intro E. rewrite Hseq; auto.
  - destruct Ht as (A & B). repeat split; auto. intro E. rewrite Hseq; auto.
Qed.

(* ---- (g) extend ---- *)
Lemma nth_map_seq {A} (f : nat -> A) n i d : i < n -> nth i (map f (seq 0 n)) d = f i.
Proof.
  intro H. rewrite (nth_indep _ d (f 0)) by (rewrite map_length, seq_length; auto).
  rewrite map_nth. rewrite seq_nth; auto.
Qed.

Definition no_owner (T : list thread) : Prop :=
  forall u thu, nth_error T u = Some thu -> s_own (tpc thu) = false /\ r_own (tpc thu) = false.

(* without in-flight operations every buffered position is published in its slot *)
Lemma quiescent_slot G T k : ginv G -> owners_ok G T -> no_owner T -> k < head G - tail G ->
  seq_at G (tail G + k) = tail G + k + 1
  /\ nth_error (enqs (events G)) (tail G + k + base G) = Some (data_at G (tail G + k)).
Proof.
  intros Hg Ho Hn Hk. pose proof (gi_cap _ Hg) as Hc.
  set (p := tail G + k). set (i := p mod cap G).
  assert (Hi : i < cap G) by (apply mod_lt'; lia).
  destruct (Ho i Hi) as [O1 O2].
  unfold seq_at, data_at. fold i.
  destruct (gi_slots _ Hg i Hi) as [(A & B & C)|(c & A & B & C & D & E & F)].
  - exfalso.
    destruct (Nat.lt_ge_cases (fst (slot_at G i)) (head G)) as [L|L].
    + destruct (O1 A L) as (u & thu & Hu & Ou & _). destruct (Hn _ _ Hu). congruence.
    + assert (fst (slot_at G i) = p) by (apply (mod_close _ _ (cap G)); unfold p in *; auto; lia).
      unfold p in *. lia.
  - destruct (Nat.lt_ge_cases c (tail G)) as [L|L].
    + exfalso. destruct (O2 c A B L) as (u & thu & Hu & Ou & _). destruct (Hn _ _ Hu). congruence.
    + assert (c = p) by (apply (mod_close _ _ (cap G)); unfold p in *; auto; lia).
      subst c. split; [lia|]. apply F. auto.
Qed.

Lemma head_le_tail_cap G : ginv G -> head G <= tail G + cap G.
Proof.
  intros Hg. pose proof (gi_cap _ Hg) as Hc.
  assert (Hi : tail G mod cap G < cap G) by (apply mod_lt'; lia).
  destruct (gi_slots _ Hg _ Hi) as [(A & B & C)|(c & A & B & C & D & E & F)].
  - destruct (Nat.le_gt_cases (fst (slot_at G (tail G mod cap G))) (tail G)); [lia|].
    assert (fst (slot_at G (tail G mod cap G)) = tail G) by (apply (mod_close _ _ (cap G)); auto; lia).
    lia.
  - destruct (Nat.le_gt_cases c (tail G)); [lia|].
    assert (c = tail G) by (apply (mod_close _ _ (cap G)); auto; lia). lia.
Qed.

Lemma extend_grows G n : cap G < n ->
  extend G n = mkGlob
    (map (fun i => if i <? head G - tail G then (i + 1, data_at G (tail G + i)) else (i, 0%N)) (seq 0 n))
    n (head G - tail G) 0 (done G) (etok G) (eclosed G) (ftok G) (fclosed G)
    (exts G) (extended G + 1) (panicked G) (base G + tail G) (events G).
Proof.
  intro H. unfold extend. destruct (Nat.leb_spec n (cap G)); [lia|reflexivity].
Qed.

Lemma extend_noop G n : n <= cap G -> extend G n = G.
Proof. intro H. unfold extend. destruct (Nat.leb_spec n (cap G)); [reflexivity|lia]. Qed.

Lemma ginv_extend G T n : ginv G -> owners_ok G T -> no_owner T -> cap G < n ->
  ginv (extend G n).
Proof.
  intros Hg Ho Hn Hlt. pose proof (gi_cap _ Hg) as Hc. pose proof (gi_th _ Hg) as Hth.
  pose proof (head_le_tail_cap G Hg) as Hht.
  rewrite extend_grows by auto.
  constructor; simpl; try apply Hg.
  - lia.
  - rewrite map_length, seq_length. auto.
  - lia.
  - intros i Hi. unfold slot_ok, slot_at; simpl. rewrite nth_map_seq by auto.
    destruct (Nat.ltb_spec i (head G - tail G)) as [L|L]; simpl.
    + right. exists i. repeat split; try lia.
      * apply Nat.mod_small. auto.
      * intros. destruct (quiescent_slot G T i Hg Ho Hn L) as [_ Q].
        replace (i + (base G + tail G)) with (tail G + i + base G) by lia. exact Q.
    + left. repeat split; try lia. apply Nat.mod_small. auto.
  - rewrite (gi_nenq _ Hg). lia.
  - rewrite (gi_spec _ Hg). f_equal. f_equal. f_equal. lia.
Qed.

Lemma owners_extend G T' n : ginv G -> cap G < n -> owners_ok (extend G n) T'.
Proof.
  intros Hg Hlt. pose proof (gi_cap _ Hg) as Hc. pose proof (gi_th _ Hg) as Hth.
  rewrite extend_grows by auto.
  intros i Hi. simpl in Hi. unfold slot_at; simpl. rewrite nth_map_seq by auto.
  destruct (Nat.ltb_spec i (head G - tail G)) as [L|L]; simpl; split.
  - intros M _. exfalso. replace (i + 1) with (S i) in M by lia.
    assert (i mod n = i) by (apply Nat.mod_small; auto).
    apply (mod_succ_ne i n); [lia | congruence].
  - intros c E M Lc. lia.
  - intros _ Lh. lia.
  - intros c E M Lc. lia.
Qed.

(* ---- owners under the global effects ---- *)
Lemma owners_head_cas G T t th th' e : owners_ok G T -> nth_error T t = Some th ->
  s_own (tpc th) = false -> r_own (tpc th) = false ->
  s_own (tpc th') = true -> r_pos th' = head G ->
  owners_ok (with_head_ev G (head G + 1) e) (upd t th' T).
Proof.
  intros Ho Ht Hs Hr Hs' Hp i Hi. simpl in Hi.
  change (slot_at (with_head_ev G (head G + 1) e) i) with (slot_at G i). simpl.
  destruct (Ho i Hi) as [A B]. split.
  - intros M L. destruct (Nat.eq_dec (fst (slot_at G i)) (head G)) as [E|NE].
    + exists t, th'. rewrite nth_error_upd_eq by (eapply nth_error_lt; eauto). repeat split; auto. congruence.
    + destruct (A M ltac:(lia)) as (u & thu & Hu & Ou & Pu).
      assert (u <> t) by (intros ->; congruence).
      exists u, thu. rewrite nth_error_upd_ne by auto. auto.
  - intros c E M L. destruct (B c E M L) as (u & thu & Hu & Ou & Pu).
    assert (u <> t) by (intros ->; congruence).
    exists u, thu. rewrite nth_error_upd_ne by auto. auto.
Qed.

Lemma owners_tail_cas G T t th th' e : owners_ok G T -> nth_error T t = Some th ->
  s_own (tpc th) = false -> r_own (tpc th) = false ->
  r_own (tpc th') = true -> r_pos th' = tail G ->
  owners_ok (with_tail_ev G (tail G + 1) e) (upd t th' T).
Proof.
  intros Ho Ht Hs Hr Hr' Hp i Hi. simpl in Hi.
  change (slot_at (with_tail_ev G (tail G + 1) e) i) with (slot_at G i). simpl.
  destruct (Ho i Hi) as [A B]. split.
  - intros M L. destruct (A M L) as (u & thu & Hu & Ou & Pu).
    assert (u <> t) by (intros ->; congruence).
    exists u, thu. rewrite nth_error_upd_ne by auto. auto.
  - intros c E M L. destruct (Nat.eq_dec c (tail G)) as [Ec|NE].
    + exists t, th'. rewrite nth_error_upd_eq by (eapply nth_error_lt; eauto). repeat split; auto. congruence.
    + destruct (B c E M ltac:(lia)) as (u & thu & Hu & Ou & Pu).
      assert (u <> t) by (intros ->; congruence).
      exists u, thu. rewrite nth_error_upd_ne by auto. auto.
Qed.

Lemma owners_set_data G T p d : ginv G -> owners_ok G T ->
  owners_ok (with_slots G (set_data G p d)) T.
Proof.
  intros Hg Ho i Hi. simpl in *. rewrite fst_set_data by auto. apply Ho. auto.
Qed.

Lemma owners_set_seq G T t th th' p v : ginv G -> owners_ok G T -> nth_error T t = Some th ->
  r_pos th = p ->
  (v mod cap G = p mod cap G -> v < head G -> False) ->
  (forall c, v = S c -> c mod cap G = p mod cap G -> c < tail G -> False) ->
  owners_ok (with_slots G (set_seq G p v)) (upd t th' T).
Proof.
  intros Hg Ho Ht Hp N1 N2 i Hi. simpl in *.
  destruct (Nat.eq_dec i (p mod cap G)) as [->|Hne].
  - rewrite slot_set_seq_eq by auto. simpl. split.
    + intros M L. exfalso. auto.
    + intros c E M L. exfalso. eauto.
  - rewrite slot_set_seq_ne by auto. destruct (Ho i Hi) as [A B]. split.
    + intros M L. destruct (A M L) as (u & thu & Hu & Ou & Pu).
      assert (u <> t) by (intros ->; assert (thu = th) by congruence; subst thu; congruence).
      exists u, thu. rewrite nth_error_upd_ne by auto. auto.
    + intros c E M L. destruct (B c E M L) as (u & thu & Hu & Ou & Pu).
      assert (u <> t) by (intros ->; assert (thu = th) by congruence; subst thu; congruence).
      exists u, thu. rewrite nth_error_upd_ne by auto. auto.
Qed.

(* ------------------------------------------------------------------------------------------ *)
(* preservation, one lemma per program counter *)

Definition pres (X : pc) : Prop :=
  forall progs G T t th G' th', Inv progs (mkState G T) -> nth_error T t = Some th ->
    tpc th = X -> tstep G (no_writer T) (no_holder T) t th = Some (G', th') ->
    Inv progs (mkState G' (upd t th' T)).

(* the bookkeeping goals of step_generic when the thread is given as a record with a known pc *)
Ltac ev_fin := unfold inflight; simpl; rewrite ?flat_map_app; simpl;
  rewrite ?app_nil_r, <- ?app_assoc; simpl; try reflexivity.
Ltac ev_nil := exists (@nil event); rewrite ?app_nil_r; simpl;
  split; [reflexivity | split; [intros ? [] | ev_fin]].
Ltac ev_one e := exists [e]; simpl;
  split; [reflexivity | split; [intros ? [<-|[]]; reflexivity | ev_fin]].
Ltac lock_tac := simpl; intro; try discriminate; auto.
Ltac own_tac := simpl; intro; try discriminate; left; auto.

Ltac start :=
  intros progs G T t th G' th' HI Ht Epc Hs;
  destruct th as [pg pc0 pos val cp rs]; simpl in Epc; subst pc0;
  unfold tstep in Hs; simpl in Hs;
  pose proof (i_g _ _ HI) as Hg; simpl in Hg;
  pose proof (i_t _ _ HI _ _ Ht) as Hti; unfold tinv in Hti; simpl in Hti;
  pose proof (i_prog _ _ HI _ _ Ht) as [Hpo Hpr]; unfold pc_op in Hpo; simpl in Hpo, Hpr.

(* G' = G, ownership unchanged *)
Ltac same_glob HI Ht :=
  eapply (step_generic _ _ _ _ _ _ _ HI Ht);
  [ assumption
  | intros; assumption
  | unfold tinv; simpl; try exact I
  | ev_nil
  | unfold pc_op; simpl; split; [eauto | try reflexivity]
  | lock_tac | lock_tac | own_tac | own_tac
  | eapply owners_upd_keep; [apply (i_own _ _ HI) | exact Ht | simpl; intro; try discriminate; auto
                            | simpl; intro; try discriminate; auto] ].

Lemma core_eq_with_ev G e : enqs [e] = [] -> core_eq G (with_ev G e).
Proof.
  intro H. constructor; simpl; auto. rewrite enqs_app, H. apply app_nil_r.
Qed.

Lemma ginv_with_ev G e : ginv G -> enqs [e] = [] ->
  spec_step (mkChan (skipn (tail G + base G) (enqs (events G))) (done G)) e
    = Some (mkChan (skipn (tail G + base G) (enqs (events G))) (done G)) ->
  ginv (with_ev G e).
Proof.
  intros Hg He Hs. apply (ginv_core_eq G); auto.
  - apply core_eq_with_ev; auto.
  - simpl. rewrite run_spec_app, (gi_spec _ Hg). simpl. rewrite Hs.
    rewrite enqs_app, He, app_nil_r. reflexivity.
  - apply Hg.
Qed.

(* an event-only step *)
Ltac ev_glob HI Ht e :=
  eapply (step_generic _ _ _ _ _ _ _ HI Ht);
  [ apply ginv_with_ev; [assumption | reflexivity | ]
  | intros; eapply tinv_core_eq; [apply core_eq_with_ev; reflexivity | eassumption]
  | unfold tinv; simpl; try exact I
  | ev_one e
  | unfold pc_op; simpl; split; [eauto | try reflexivity]
  | lock_tac | lock_tac | own_tac | own_tac
  | eapply owners_core_eq; [apply core_eq_with_ev; reflexivity |
      eapply owners_upd_keep; [apply (i_own _ _ HI) | exact Ht | simpl; intro; try discriminate; auto
                              | simpl; intro; try discriminate; auto]] ].

Lemma pres_S_loadhead : pres S_loadhead.
Proof.
  start. inversion Hs; subst; clear Hs. same_glob HI Ht. lia.
Qed.

Lemma pres_S_loop : pres S_loop.
Proof.
  start. destruct (done G) eqn:Hd; inversion Hs; subst; clear Hs.
  - ev_glob HI Ht (EEnqFail t). simpl. rewrite Hd. reflexivity.
  - same_glob HI Ht. auto.
Qed.

(* tokens only *)
Ltac ce := constructor; reflexivity.
Ltac core_glob HI Ht Hg :=
  eapply (step_generic _ _ _ _ _ _ _ HI Ht);
  [ eapply ginv_core_eq; [ | exact Hg | simpl; apply (gi_spec _ Hg) | simpl; apply Hg]; ce
  | intros; eapply tinv_core_eq; [ | eassumption]; ce
  | unfold tinv; simpl; try exact I
  | ev_nil
  | unfold pc_op; simpl; split; [eauto | try reflexivity]
  | lock_tac | lock_tac | own_tac | own_tac
  | eapply owners_core_eq; [ |
      eapply owners_upd_keep; [apply (i_own _ _ HI) | exact Ht | simpl; intro; try discriminate; auto
                              | simpl; intro; try discriminate; auto]]; ce ].

Lemma pres_Idle : pres Idle.
Proof.
  start. destruct pg as [|o rest]; [discriminate|].
  destruct o; [destruct (no_writer T) eqn:NW | destruct (no_writer T) eqn:NW
              | destruct (no_holder T) eqn:NH | destruct (no_holder T) eqn:NH];
    inversion Hs; subst; clear Hs; same_glob HI Ht.
Qed.

Lemma pres_S_chk0 : pres S_chk0.
Proof.
  start. destruct (done G) eqn:Hd; inversion Hs; subst; clear Hs.
  - ev_glob HI Ht (EEnqFail t). simpl. rewrite Hd. reflexivity.
  - same_glob HI Ht.
Qed.

Lemma pres_S_loadseq : pres S_loadseq.
Proof.
  start. destruct Hti as [H1 H2].
  destruct (Nat.eqb_spec (seq_at G pos) pos) as [E|NE];
    [|destruct (Nat.ltb_spec (seq_at G pos) pos) as [L|L]];
    inversion Hs; subst; clear Hs; same_glob HI Ht; auto.
Qed.

Lemma pres_S_rett : pres S_rett.
Proof.
  start. inversion Hs; subst; clear Hs. destruct Hpo as [rest ->]. same_glob HI Ht.
  rewrite map_app, <- app_assoc. reflexivity.
Qed.

Lemma pres_S_retf : pres S_retf.
Proof.
  start. inversion Hs; subst; clear Hs. destruct Hpo as [rest ->]. same_glob HI Ht.
  rewrite map_app, <- app_assoc. reflexivity.
Qed.

Lemma pres_S_snap : pres S_snap.
Proof.
  start. destruct (can_extend G); inversion Hs; subst; clear Hs; same_glob HI Ht.
Qed.

Lemma pres_S_lock : pres S_lock.
Proof.
  start. destruct (no_holder T) eqn:NH; inversion Hs; subst; clear Hs. same_glob HI Ht.
Qed.

Lemma pres_S_unlock : pres S_unlock.
Proof. start. inversion Hs; subst; clear Hs. same_glob HI Ht. Qed.

Lemma pres_S_relock : pres S_relock.
Proof.
  start. destruct (no_writer T) eqn:NW; inversion Hs; subst; clear Hs. same_glob HI Ht.
Qed.

Lemma pres_S_park : pres S_park.
Proof.
  start. destruct (ftok G) eqn:Hf; [|destruct (fclosed G) eqn:Hc]; inversion Hs; subst; clear Hs.
  - core_glob HI Ht Hg.
  - same_glob HI Ht.
Qed.

Lemma pres_R_loadtail : pres R_loadtail.
Proof. start. inversion Hs; subst; clear Hs. same_glob HI Ht. lia. Qed.

Lemma pres_R_chkdone : pres R_chkdone.
Proof.
  start. destruct (done G) eqn:Hd; inversion Hs; subst; clear Hs; same_glob HI Ht. auto.
Qed.

Lemma pres_R_rett : pres R_rett.
Proof.
  start. inversion Hs; subst; clear Hs. destruct Hpo as [rest ->]. same_glob HI Ht.
  rewrite map_app, <- app_assoc. reflexivity.
Qed.

Lemma pres_R_retf : pres R_retf.
Proof.
  start. inversion Hs; subst; clear Hs. destruct Hpo as [rest ->]. same_glob HI Ht.
  rewrite map_app, <- app_assoc. reflexivity.
Qed.

Lemma pres_R_unl : pres R_unl.
Proof. start. inversion Hs; subst; clear Hs. same_glob HI Ht. Qed.

Lemma pres_R_relock : pres R_relock.
Proof.
  start. destruct (no_writer T) eqn:NW; inversion Hs; subst; clear Hs. same_glob HI Ht.
Qed.

Lemma pres_R_park : pres R_park.
Proof.
  start. destruct (etok G) eqn:Hf; [|destruct (eclosed G) eqn:Hc]; inversion Hs; subst; clear Hs.
  - core_glob HI Ht Hg.
  - same_glob HI Ht.
Qed.

Lemma pres_C_unlock : pres C_unlock.
Proof.
  start. inversion Hs; subst; clear Hs. destruct Hpo as [rest ->]. same_glob HI Ht.
  rewrite map_app, <- app_assoc. reflexivity.
Qed.

Lemma pres_G_unlock : pres G_unlock.
Proof.
  start. destruct Hpo as (n & rest & ->). inversion Hs; subst; clear Hs. same_glob HI Ht.
  rewrite map_app, <- app_assoc. reflexivity.
Qed.

Lemma pres_S_cas : pres S_cas.
Proof.
  start. destruct Hti as (H1 & H2 & H3).
  destruct (Nat.eqb_spec (head G) pos) as [E|NE]; inversion Hs; subst; clear Hs.
  - specialize (H3 eq_refl).
    eapply (step_generic _ _ _ _ _ _ _ HI Ht).
    + apply ginv_head_cas; auto.
    + intros. apply frame_head_cas; auto.
    + unfold tinv; simpl. pose proof (gi_th _ Hg). repeat split; auto; try lia.
      rewrite enqs_app. simpl. rewrite <- (gi_nenq _ Hg). apply nth_error_app_last.
    + ev_one (EEnq t val).
    + unfold pc_op; simpl; split; [eauto | reflexivity].
    + lock_tac.
    + lock_tac.
    + simpl. intros _. right. intros u thu Hne Hu Ou.
      pose proof (i_t _ _ HI _ _ Hu) as Hi. unfold tinv in Hi. simpl in Hi.
      destruct (tpc thu); simpl in Ou; try discriminate; lia.
    + own_tac.
    + eapply owners_head_cas; [apply (i_own _ _ HI) | exact Ht | reflexivity | reflexivity | reflexivity | reflexivity].
  - same_glob HI Ht. lia.
Qed.

Lemma pres_R_cas : pres R_cas.
Proof.
  start. destruct Hti as (H1 & H3).
  destruct (Nat.eqb_spec (tail G) pos) as [E|NE]; inversion Hs; subst; clear Hs.
  - specialize (H3 eq_refl).
    eapply (step_generic _ _ _ _ _ _ _ HI Ht).
    + apply ginv_tail_cas; auto.
    + intros. apply frame_tail_cas; auto.
    + unfold tinv; simpl. repeat split; auto; try lia.
    + ev_one (EDeq t (data_at G (tail G))).
    + unfold pc_op; simpl; split; [eauto | reflexivity].
    + lock_tac.
    + lock_tac.
    + own_tac.
    + simpl. intros _. right. intros u thu Hne Hu Ou.
      pose proof (i_t _ _ HI _ _ Hu) as Hi. unfold tinv in Hi. simpl in Hi.
      destruct (tpc thu); simpl in Ou; try discriminate; lia.
    + eapply owners_tail_cas; [apply (i_own _ _ HI) | exact Ht | reflexivity | reflexivity | reflexivity | reflexivity].
  - same_glob HI Ht. lia.
Qed.
