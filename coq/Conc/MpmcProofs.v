(* C22 — proofs about the MPMC model: the invariant of MpmcInv.v holds in every state reachable
   by any schedule of any number of threads running any programs, and the consequences
   (sequence invariant, no loss / no duplication, FIFO linearisation, close, no panic). *)
From OFGA Require Import Conc.FifoSpec Conc.Mpmc Conc.MpmcLemmas Conc.MpmcInv.
From Coq Require Import Lia.

(* ------------------------------------------------------------------------------------------ *)
(* slots under updates *)

Lemma slot_at_with_slots G s i : slot_at (with_slots G s) i = nth i s (0, 0%N).
Proof. reflexivity. Qed.

Lemma slot_set_seq_eq G p v : ginv G ->
  slot_at (with_slots G (set_seq G p v)) (p mod cap G) = (v, snd (slot_at G (p mod cap G))).
Proof.
  intros [Hc Hl _ _ _ _ _ _ _]. unfold slot_at, set_seq; simpl.
  apply nth_upd_eq. rewrite Hl. apply mod_lt'. lia.
Qed.

Lemma slot_set_seq_ne G p v i : i <> p mod cap G ->
  slot_at (with_slots G (set_seq G p v)) i = slot_at G i.
Proof. intro H. unfold slot_at, set_seq; simpl. apply nth_upd_ne. auto. Qed.

Lemma slot_set_data_eq G p d : ginv G ->
  slot_at (with_slots G (set_data G p d)) (p mod cap G) = (fst (slot_at G (p mod cap G)), d).
Proof.
  intros [Hc Hl _ _ _ _ _ _ _]. unfold slot_at, set_data; simpl.
  apply nth_upd_eq. rewrite Hl. apply mod_lt'. lia.
Qed.

Lemma slot_set_data_ne G p d i : i <> p mod cap G ->
  slot_at (with_slots G (set_data G p d)) i = slot_at G i.
Proof. intro H. unfold slot_at, set_data; simpl. apply nth_upd_ne. auto. Qed.

Lemma fst_set_data G p d i : ginv G ->
  fst (slot_at (with_slots G (set_data G p d)) i) = fst (slot_at G i).
Proof.
  intro Hg. destruct (Nat.eq_dec i (p mod cap G)) as [->|Hne].
  - rewrite slot_set_data_eq; auto.
  - rewrite slot_set_data_ne; auto.
Qed.

Lemma snd_set_seq G p v i : ginv G ->
  snd (slot_at (with_slots G (set_seq G p v)) i) = snd (slot_at G i).
Proof.
  intro Hg. destruct (Nat.eq_dec i (p mod cap G)) as [->|Hne].
  - rewrite slot_set_seq_eq; auto.
  - rewrite slot_set_seq_ne; auto.
Qed.

(* two claims about the sequence number of the same slot agree *)
Lemma seq_same_slot G p q : p mod cap G = q mod cap G -> seq_at G p = seq_at G q.
Proof. unfold seq_at. intros ->. reflexivity. Qed.

(* ------------------------------------------------------------------------------------------ *)
(* "core equality": the part of the global state the thread invariants read *)

Record core_eq (G G' : glob) : Prop := {
  ce_slots : slots G' = slots G;
  ce_cap : cap G' = cap G;
  ce_head : head G' = head G;
  ce_tail : tail G' = tail G;
  ce_done : done G' = done G;
  ce_ecl : eclosed G' = eclosed G;
  ce_fcl : fclosed G' = fclosed G;
  ce_base : base G' = base G;
  ce_enqs : enqs (events G') = enqs (events G)
}.

Lemma core_eq_refl G : core_eq G G.
Proof. constructor; reflexivity. Qed.

Lemma tinv_core_eq G G' th : core_eq G G' -> tinv G th -> tinv G' th.
Proof.
  intros [E1 E2 E3 E4 E5 E6 E7 E8 E9].
  unfold tinv, seq_at, data_at, slot_at. rewrite E1, E2, E3, E4, E5, E6, E7, E8, E9. auto.
Qed.

Lemma slot_ok_core_eq G G' i : core_eq G G' -> slot_ok G i -> slot_ok G' i.
Proof.
  intros [E1 E2 E3 E4 E5 E6 E7 E8 E9].
  unfold slot_ok, slot_at. rewrite E1, E2, E3, E4, E8, E9. auto.
Qed.

Lemma owners_core_eq G G' T : core_eq G G' -> owners_ok G T -> owners_ok G' T.
Proof.
  intros [E1 E2 E3 E4 E5 E6 E7 E8 E9].
  unfold owners_ok, slot_at. rewrite E1, E2, E3, E4. auto.
Qed.

(* threads outside every locked section claim nothing *)
Lemma tinv_unlocked G th :
  read_pc (tpc th) = false -> write_pc (tpc th) = false -> tinv G th.
Proof.
  unfold tinv. destruct (tpc th); simpl; intros; try discriminate; auto.
Qed.

(* replacing a thread that keeps its ownership (and position) keeps all owners *)
Lemma owners_upd_keep G T t th th' :
  owners_ok G T -> nth_error T t = Some th ->
  (s_own (tpc th) = true -> s_own (tpc th') = true /\ r_pos th' = r_pos th) ->
  (r_own (tpc th) = true -> r_own (tpc th') = true /\ r_pos th' = r_pos th) ->
  owners_ok G (upd t th' T).
Proof.
  intros Ho Ht Hs Hr i Hi. destruct (Ho i Hi) as [A B]. split.
  - intros M L. destruct (A M L) as (u & thu & Hu & Ou & Pu).
    destruct (Nat.eq_dec u t) as [->|Hne].
    + exists t, th'. rewrite nth_error_upd_eq by (eapply nth_error_lt; eauto).
      assert (thu = th) by congruence. subst thu. destruct (Hs Ou) as [X Y].
      repeat split; auto. congruence.
    + exists u, thu. rewrite nth_error_upd_ne by auto. auto.
  - intros c E M L. destruct (B c E M L) as (u & thu & Hu & Ou & Pu).
    destruct (Nat.eq_dec u t) as [->|Hne].
    + exists t, th'. rewrite nth_error_upd_eq by (eapply nth_error_lt; eauto).
      assert (thu = th) by congruence. subst thu. destruct (Hr Ou) as [X Y].
      repeat split; auto. congruence.
    + exists u, thu. rewrite nth_error_upd_ne by auto. auto.
Qed.

(* ginv when only tokens / events-without-enq / flags change: the caller supplies the spec run *)
Lemma ginv_core_eq G G' : core_eq G G' -> ginv G ->
  run_spec chan0 (events G')
    = Some (mkChan (skipn (tail G' + base G') (enqs (events G'))) (done G')) ->
  panicked G' = false -> ginv G'.
Proof.
  intros CE [H1 H2 H3 H4 H5 H6 H7 H8 H9] Hs Hp.
  pose proof CE as [E1 E2 E3 E4 E5 E6 E7 E8 E9].
  constructor; auto.
  - congruence.
  - congruence.
  - congruence.
  - intros i Hi. apply (slot_ok_core_eq G G' i CE). apply H4. congruence.
  - congruence.
  - rewrite E5, E6. auto.
  - rewrite E6, E7. auto.
Qed.

(* phase facts *)
Lemma slot_phase0 G p : ginv G -> seq_at G p = p ->
  head G <= p + cap G /\ p < tail G + cap G.
Proof.
  intros Hg Hs. pose proof (gi_cap _ Hg) as Hc.
  destruct (gi_slots _ Hg (p mod cap G) ltac:(apply mod_lt'; lia)) as [(A & B & C)|(c & A & B & _)];
    unfold seq_at in Hs; rewrite Hs in *.
  - auto.
  - subst p. exfalso. apply (mod_succ_ne c (cap G)); auto.
Qed.

Lemma slot_phase1 G p : ginv G -> seq_at G p = p + 1 ->
  p < head G /\ head G <= p + cap G /\ p < tail G + cap G
  /\ (tail G <= p -> nth_error (enqs (events G)) (p + base G) = Some (data_at G p)).
Proof.
  intros Hg Hs. pose proof (gi_cap _ Hg) as Hc.
  destruct (gi_slots _ Hg (p mod cap G) ltac:(apply mod_lt'; lia)) as [(A & B & C)|(c & A & B & C & D & E & F)];
    unfold seq_at in Hs; rewrite Hs in *.
  - exfalso. replace (p + 1) with (S p) in A by lia. apply (mod_succ_ne p (cap G)); auto.
  - assert (c = p) by lia. subst c. unfold data_at. auto.
Qed.
